#!/bin/bash
# dev aid: ./seedtest.sh <seed dir (contains patch.diff, demo.py, meta.json)> <Cxx> [more Cxx...]
# applies the seeded change to /repo, runs the demonstration and the quick checks, reverts; prints a summary line
d=$1; shift
if ! git -C /repo diff --quiet; then echo "repo dirty"; exit 2; fi
PYTHONPATH=/repo /venv/bin/python $d/demo.py >/dev/null 2>&1; pristine=$?
git -C /repo apply "$(realpath $d/patch.diff)" || { echo "patch does not apply"; exit 2; }
PYTHONPATH=/repo /venv/bin/python $d/demo.py >/dev/null 2>&1; patched=$?
res=""
for p in "$@"; do
  out=$(./check $p 2>/dev/null | grep -E "VIOLATION|KNOWN" | head -2 | tr '\n' ' ')
  res="$res [$p: ${out:-quiet}]"
done
git -C /repo checkout -- .
echo "seed $d: demo pristine=$pristine patched=$patched checks:$res"
