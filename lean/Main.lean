import BV.Drv.C18

def dispatch (line : String) : String :=
  match (line.trimAscii.toString.splitOn " ").filter (· ≠ "") with
  | "c18" :: rest => BV.Drv.C18.handle rest
  | _ => "bad-op"

partial def loop (h : IO.FS.Stream) (out : IO.FS.Stream) : IO Unit := do
  let line ← h.getLine
  if line.isEmpty then return ()
  out.putStrLn (dispatch line)
  loop h out

def main : IO Unit := do
  let out ← IO.getStdout
  loop (← IO.getStdin) out
  out.flush
