import BV.Drv.C18
import BV.Drv.C19
import BV.Drv.C16
import BV.Drv.C15
import BV.Drv.Ash
import BV.Drv.C05
import BV.Drv.C07
import BV.Drv.C06
import BV.Drv.C06Src
import BV.Drv.C08
import BV.Drv.C11
import BV.Drv.C11Src
import BV.Drv.C09
import BV.Drv.C10
import BV.Drv.C12
import BV.Drv.C13
import BV.Drv.C17
import BV.Drv.C20
import BV.Drv.C14

def dispatch (line : String) : String :=
  match (line.trimAscii.toString.splitOn " ").filter (· ≠ "") with
  | "c18" :: rest => BV.Drv.C18.handle rest
  | "c19" :: rest => BV.Drv.C19.handle rest
  | "c16" :: rest => BV.Drv.C16.handle rest
  | "c15" :: rest => BV.Drv.C15.handle rest
  | "c03" :: rest => BV.Drv.Ash.c03 rest
  | "c04" :: rest => BV.Drv.Ash.c04 rest
  | "c02" :: rest => BV.Drv.Ash.c02 rest
  | "c05" :: rest => BV.Drv.C05.handle rest
  | "c07" :: rest => BV.Drv.C07.handle rest
  | "c06" :: rest => BV.Drv.C06.handle rest
  | "c06src" :: rest => BV.Drv.C06Src.handle rest
  | "c08" :: rest => BV.Drv.C08.handle rest
  | "c11" :: rest => BV.Drv.C11.handle rest
  | "c11src" :: rest => BV.Drv.C11Src.handle rest
  | "c09" :: rest => BV.Drv.C09.handle rest
  | "c10" :: rest => BV.Drv.C10.handle rest
  | "c12" :: rest => BV.Drv.C12.handle rest
  | "c13" :: rest => BV.Drv.C13.handle rest
  | "c17" :: rest => BV.Drv.C17.handle rest
  | "c20" :: rest => BV.Drv.C20.handle rest
  | "c14" :: rest => BV.Drv.C14.handle rest
  | _ => "bad-op"

partial def loop (h : IO.FS.Stream) (out : IO.FS.Stream) : IO Unit := do
  let line ← h.getLine
  if line.isEmpty then return ()
  out.putStrLn (dispatch line)
  loop h out

def main : IO Unit := do
  let out ← IO.getStdout
  loop (← IO.getStdin) out
  out.flush
