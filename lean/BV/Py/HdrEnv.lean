/-
Environment interface of the EZSP frame-header code (bellows/ezsp/v4, v5, v8: `_ezsp_frame_tx` / `_ezsp_frame_rx`) for the
source-level translation: the handler's fields and the two zigpy integer conversions it uses.  Hand written, trusted.
-/
import BV.Py.Prelude
namespace BV.Py

/-- the fields of a protocol handler the header code touches: the sequence counter and the command table (name -> frame ID) -/
structure Handler where
  seq : Nat := 0
  cmds : List (String × Nat) := []
deriving Repr, DecidableEq

/-- `self.COMMANDS[name]`: (frame ID, tx schema, rx schema); KeyError for an unknown name -/
def cmdLookup (name : String) : PyM Handler (Nat × Unit × Unit) := fun s =>
  match s.cmds.lookup name with
  | some i => (.ok (i, (), ()), s)
  | none => (.error (.raised "KeyError"), s)

/-- `t.uint16_t(x).serialize()`: two bytes, little endian; ValueError beyond 16 bits -/
def u16ser (x : Nat) : Except PyErr (List UInt8) :=
  if x < 65536 then .ok [UInt8.ofNat (x % 256), UInt8.ofNat (x / 256)] else .error (.raised "ValueError")

/-- `t.uint16_t.deserialize(data)`: (value, rest); ValueError on fewer than two bytes -/
def u16de : List UInt8 → Except PyErr (Nat × List UInt8)
  | lo :: hi :: rest => .ok (lo.toNat + 256 * hi.toNat, rest)
  | _ => .error (.raised "ValueError")

end BV.Py
