/-
Environment interface of `ProtocolHandler.__call__` (bellows/ezsp/protocol.py) for the source-level translation: the handler's
fields, the pending-reply futures (a heap: the waiting coroutine holds the same object), the header parser of the handler's class
(the *generated* `_ezsp_frame_rx` of EZSPv4 / EZSPv5 / EZSPv8, selected as reflection says the class for that protocol version does),
and the payload decoder (zigpy's types: modelled by `BV.Codec.deFields`, as everywhere else).  Hand written, trusted.
-/
import BV.Gen.SrcHdrV4
import BV.Gen.SrcHdrV5
import BV.Gen.SrcHdrV8
import BV.Model.Ezsp.Codec
namespace BV.Py
open BV.Codec

abbrev Vals := List Val
abbrev Schema := List (String × TDesc)

/-- state of the future stored in an `_awaiting` entry -/
inductive PFut
  | pending
  | result (v : Vals)            -- set_result(result)
  | invalidCommand               -- set_exception(InvalidCommandError(..))
  | finished                     -- cancelled / timed out: anything that makes set_result raise InvalidStateError
deriving Repr, BEq

/-- upward and outward calls -/
inductive PEv
  | callback (name : String) (v : Vals)     -- self._handle_callback(frame_name, result)
  | sent (d : List UInt8)                   -- await self._gw.send_data(data): the bytes handed over
  | acquire (prio : Int)                    -- the send semaphore was entered with this priority
  | release                                 -- ... and left
  | wait (timeout : Nat)                    -- the bounded wait for the reply was entered
deriving Repr, BEq

/-- how a wait that the reply does not end is ended -/
inductive WaitEnd
  | deadline        -- the timeout context fires
  | cancelled       -- the caller's task is cancelled
deriving Repr, BEq, DecidableEq

/-- what the environment does at the three await points of `ProtocolHandler.command` (BV/Py/CmdEnv.lean) -/
inductive CResp
  | acquire (granted : Bool)                                    -- the semaphore is entered / the caller is cancelled while queued
  | send (frames : List (List UInt8)) (raises : Option String)  -- frames received while send_data runs; it returns / raises the class
  | wait (frames : List (List UInt8)) (fin : WaitEnd)           -- frames received while the reply is awaited; then, if still pending, `fin`
deriving Repr, BEq

structure Proto where
  version : Nat := 8
  cmds : List Cmd := []
  /-- `_awaiting`: sequence number ↦ (expected frame ID, future id); the schema stored with it is never read -/
  awaiting : List (Nat × (Nat × Nat)) := []
  futs : List PFut := []
  trace : List PEv := []
  /-- `_seq`: the next request sequence number -/
  seq : Nat := 0
  /-- the environment's answers at the await points of `command`, in order -/
  script : List CResp := []
  /-- `EZSP._protocol`: None before the version handler is configured (this state *is* the handler's; the field only says whether
  `EZSP` holds it) -/
  protocol : Option Unit := some ()
deriving Repr

/-- `self._ezsp_frame_rx(data)` of the class serving this protocol version -/
def frameRx (d : List UInt8) : PyM Proto (Nat × Nat × List UInt8) := fun s =>
  let h : Handler := {}
  let r := match hdrOf s.version with
    | .v4 => (BV.Src.HdrV4.frame_rx d h).1
    | .v5 => (BV.Src.HdrV5.frame_rx d h).1
    | .v8 => (BV.Src.HdrV8.frame_rx d h).1
  (r, s)

/-- `self.COMMANDS_BY_ID[frame_id]` -> (name, tx schema, rx schema); KeyError for an unknown ID -/
def cmdById (id : Nat) : PyM Proto (String × Unit × Schema) := fun s =>
  match findById s.cmds id with
  | some c => (.ok (c.name, (), c.rx), s)
  | none => (.error (.raised "KeyError"), s)

/-- `isinstance(rx_schema, dict)`: the tables hold a dict of named fields, or one struct type -/
def schemaIsDict (sch : Schema) : Bool := sch.map (·.1) != ["<single>"]

/-- `t.deserialize_dict(data, schema)` / `schema.deserialize(data)`: the decoded values and the rest, or an exception -/
def deSchema (d : List UInt8) (sch : Schema) : Except PyErr (Vals × List UInt8) :=
  match deFields (d.length + 1) (sch.map (·.2)) d with
  | some r => .ok r
  | none => .error (.raised "ValueError")

/-- `result[0]` inside the error message of an invalid-command answer -/
def valsHead (v : Vals) : Except PyErr Val :=
  match v with
  | x :: _ => .ok x
  | [] => .error (.raised "IndexError")

/-- `self._awaiting.pop(sequence)` -/
def awaitingPop (seq : Nat) : PyM Proto (Nat × Unit × Nat) := fun s =>
  match s.awaiting.lookup seq with
  | some (eid, fut) => (.ok (eid, (), fut), { s with awaiting := s.awaiting.filter (·.1 != seq) })
  | none => (.error (.raised "KeyError"), s)

/-- `future.set_result(..)` / `future.set_exception(..)`: InvalidStateError unless pending -/
def pfutSet (id : Nat) (v : PFut) : PyM Proto Unit := fun s =>
  match s.futs[id]? with
  | some .pending => (.ok (), { s with futs := s.futs.set id v })
  | some _ => (.error (.raised "InvalidStateError"), s)
  | none => (.error (.unsupported "dangling future"), s)

def pemit (e : PEv) : PyM Proto Unit := PyM.modify fun s => { s with trace := s.trace ++ [e] }

end BV.Py
