/-
Environment interface of bellows/ash.py for the source-level translation: what the names the
translated functions use but do not define mean.  Hand written, trusted.

  * `binascii.crc_hqx`  -> the bitwise CRC-CCITT of BV.Model.Ash.Crc (CPython's C implementation is
                           modelled, not verified; the correspondence checks compare it on every frame)
-/
import BV.Py.Prelude
import BV.Model.Ash.Crc
namespace BV.Py

/-- `binascii.crc_hqx(data, seed)` -/
def crcHqx (bs : List UInt8) (seed : Nat) : Nat := (BV.Ash.crcFrom (BitVec.ofNat 16 seed) bs).toNat

/-- exception *values* stored in futures / passed around (`raise` only needs the class name) -/
inductive ExcVal
  | runtimeError
  | notAcked
  | ncpFailure (code : Option Nat)
  | connectionReset             -- ConnectionResetError(...) built by bellows/uart.py
  | other (tag : Nat)           -- an exception object handed in from outside (identified by a tag)
deriving Repr, DecidableEq

end BV.Py
