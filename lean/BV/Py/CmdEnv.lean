/-
Environment interface of `ProtocolHandler.command` / `_ezsp_frame` / `_get_command_priority` (bellows/ezsp/protocol.py) for the
source-level translation.  The coroutine is translated sequentially; what the rest of the program does while it is suspended is
what the *script* says (BV/Py/ProtoEnv.lean, `CResp`): at each of its three await points the environment hands over the frames
received meanwhile - each goes through the **generated** `EZSP.frame_received` (BV/Gen/SrcEzspRx.lean) into the **generated**
`ProtocolHandler.__call__` (BV/Gen/SrcProto.lean) on the same state - and then ends the await.  No other `command` runs its registered section meanwhile:
that is the mutual exclusion of zigpy's `PriorityDynamicBoundedSemaphore` with MAX_COMMAND_CONCURRENCY = 1 (assumed; the
interleaving of several callers is the business of the hand-written model `BV.Cmd` and its correspondence check).
Hand written, trusted.
-/
import BV.Gen.SrcEzspRx
namespace BV.Py
open BV.Codec

abbrev KwVals := List (String × Val)

/-- `EZSP.frame_received`, **generated** (BV/Gen/SrcEzspRx.lean): ignored while no handler is configured, an empty frame is ignored,
`except Exception` contains what the handler's `__call__` raises -/
abbrev frameReceived (d : List UInt8) : PyM Proto Unit := BV.Src.EzspRx.frame_received d

def deliverAll : List (List UInt8) → PyM Proto Unit
  | [] => pure ()
  | d :: ds => do frameReceived d; deliverAll ds

def nextResp : PyM Proto CResp := fun s =>
  match s.script with
  | r :: rest => (.ok r, { s with script := rest })
  | [] => (.error (.unsupported "script exhausted"), s)

/-- `async with self._send_semaphore(priority=p)`: entering -/
def semAcquire (prio : Int) : PyM Proto Unit := do
  match (← nextResp) with
  | .acquire true => pemit (.acquire prio)
  | .acquire false => PyM.throw (.raised "CancelledError")
  | _ => PyM.throw (.unsupported "script shape")

/-- ... and leaving it (on every way out of the body) -/
def semRelease : PyM Proto Unit := pemit .release

/-- `await self._gw.send_data(data)` -/
def gwSend (d : List UInt8) : PyM Proto Unit := do
  match (← nextResp) with
  | .send frames out =>
    pemit (.sent d)
    deliverAll frames
    match out with
    | none => pure ()
    | some c => PyM.throw (.raised c)
  | _ => PyM.throw (.unsupported "script shape")

/-- `async with asyncio_timeout(t): return await future`: the reply ends the wait with the future's outcome; otherwise the deadline
(TimeoutError) or the caller's cancellation (CancelledError) does, and the future is cancelled with the task -/
def awaitFuture (fid : Nat) (timeout : Nat) : PyM Proto Vals := do
  match (← nextResp) with
  | .wait frames fin =>
    pemit (.wait timeout)
    deliverAll frames
    let s ← PyM.get
    match s.futs[fid]? with
    | some (.result v) => pure v
    | some .invalidCommand => PyM.throw (.raised "InvalidCommandError")
    | some .finished => PyM.throw (.raised "CancelledError")
    | some .pending =>
      PyM.set { s with futs := s.futs.set fid .finished }
      PyM.throw (.raised (match fin with | .deadline => "TimeoutError" | .cancelled => "CancelledError"))
    | none => PyM.throw (.unsupported "dangling future")
  | _ => PyM.throw (.unsupported "script shape")

/-- `asyncio.get_running_loop().create_future()` -/
def newFut : PyM Proto Nat := fun s => (.ok s.futs.length, { s with futs := s.futs ++ [.pending] })

/-- `self._awaiting[seq] = (cmd_id, rx_schema, future)`: replaces in place when the key exists, appends otherwise -/
def awaitingSet (seq cid fut : Nat) : PyM Proto Unit := PyM.modify fun s =>
  { s with awaiting := if s.awaiting.any (·.1 == seq)
                       then s.awaiting.map fun e => if e.1 == seq then (seq, (cid, fut)) else e
                       else s.awaiting ++ [(seq, (cid, fut))] }

/-- `self._awaiting.get(seq, (None, None, None))[2]`: the future stored under the number, `None` without an entry -/
def awaitingFutAt (seq : Nat) : PyM Proto (Option Nat) := fun s => (.ok ((s.awaiting.lookup seq).map (·.2)), s)

/-- `del self._awaiting[seq]` -/
def awaitingDel (seq : Nat) : PyM Proto Unit := fun s =>
  match s.awaiting.lookup seq with
  | some _ => (.ok (), { s with awaiting := s.awaiting.filter (·.1 != seq) })
  | none => (.error (.raised "KeyError"), s)

/-- `self.COMMANDS[name]` -> (frame ID, tx schema, rx schema); KeyError for an unknown name -/
def cmdByName (name : String) : PyM Proto (Nat × Schema × Schema) := fun s =>
  match findByName s.cmds name with
  | some c => (.ok (c.id, c.tx, c.rx), s)
  | none => (.error (.raised "KeyError"), s)

/-- `self._ezsp_frame_tx(name)` of the class serving this protocol version (the *generated* header code) -/
def frameTx (name : String) : PyM Proto (List UInt8) := fun s =>
  let h : Handler := { seq := s.seq, cmds := s.cmds.map fun c => (c.name, c.id) }
  let r := match hdrOf s.version with
    | .v4 => (BV.Src.HdrV4.frame_tx name h).1
    | .v5 => (BV.Src.HdrV5.frame_tx name h).1
    | .v8 => (BV.Src.HdrV8.frame_tx name h).1
  (r, s)

/-- `t.serialize_dict(args, kwargs, schema)`: positional values fill the keys in order, keywords override; a key without a value is
a KeyError, a value its type does not take a ValueError -/
def serDict (args : Vals) (kwargs : KwVals) (sch : Schema) : Except PyErr (List UInt8) :=
  match resolveArgs (sch.map (·.1)) args kwargs with
  | none => .error (.raised "KeyError")
  | some vals =>
    match serFields (sch.map (·.2)) vals with
    | some b => .ok b
    | none => .error (.raised "ValueError")

/-- `tx_schema(*args, **kwargs).serialize()` for a schema that is one struct type -/
def serStruct (args : Vals) (kwargs : KwVals) (sch : Schema) : Except PyErr (List UInt8) :=
  match args, kwargs, sch with
  | [v], [], [(_, d)] => match ser d v with
    | some b => .ok b
    | none => .error (.raised "ValueError")
  | _, _, _ => .error (.raised "TypeError")

end BV.Py
