/-
Environment interface of the two coroutines of `Gateway` (bellows/uart.py: `reset`, `wait_for_startup_reset`) for the source-level
translation.  They are translated sequentially; while one is suspended, what reaches the gateway from below is what the script
says (`GWait`: inputs grouped by loop iteration, then how the wait ends if nothing completed the awaited future) - each input goes
through the **generated** synchronous handler (`reset_received`, `error_received`, `connection_lost`, ... of BV/Gen/SrcUart.lean).
asyncio's part, modelled here and trusted (checked against the real loop by the C11 harness): the done-callbacks of a future
(`_reset_cleanup`) run after the iteration in which it completed and before the awaiting task resumes; a timeout or a
cancellation of the awaiting task cancels the awaited future.  Hand written.
-/
import BV.Gen.SrcUart
namespace BV.Src.Uart
open BV.Py

def excCls : ExcVal → String
  | .runtimeError => "RuntimeError"
  | .notAcked => "NotAcked"
  | .ncpFailure _ => "NcpFailure"
  | .connectionReset => "ConnectionResetError"
  | .other _ => "Exception"

/-- `loop.create_future()` -/
def gNewFut : PyM Gateway Nat := fun s => (.ok s.futs.length, { s with futs := s.futs ++ [.pending] })

/-- `fut.add_done_callback(self._reset_cleanup)` -/
def gArmCleanup : Option Nat → PyM Gateway Unit
  | some id => PyM.modify fun s => { s with cleanups := s.cleanups ++ [id] }
  | none => PyM.throw (.raised "AttributeError")

def gDeliver : GIn → PyM Gateway Unit
  | .rstack c => Gateway.reset_received c
  | .error c => Gateway.error_received c
  | .lost e => Gateway.connection_lost e
  | .eof => Gateway.eof_received
  | .data d => Gateway.data_received d

def gRound : List GIn → PyM Gateway Unit
  | [] => pure ()
  | x :: xs => do gDeliver x; gRound xs

def gFutDone (s : Gateway) (id : Nat) : Bool :=
  match s.futs[id]? with
  | some f => f.done
  | none => false

def gEach : List Nat → PyM Gateway Unit
  | [] => pure ()
  | id :: ids => do Gateway.u_reset_cleanup id; gEach ids

/-- the done-callbacks of the futures that have completed: the generated `_reset_cleanup`, once each -/
def gRunCleanups : PyM Gateway Unit := fun s =>
  let due := s.cleanups.filter (gFutDone s)
  gEach due { s with cleanups := s.cleanups.filter (fun id => !gFutDone s id) }

/-- iterations of the loop while the task is suspended on future `fid`; stops when it has completed -/
def gRounds (fid : Nat) : List (List GIn) → PyM Gateway Unit
  | [] => pure ()
  | r :: rs => do
    gRound r
    gRunCleanups
    let s ← PyM.get
    if gFutDone s fid then pure () else gRounds fid rs

/-- `await fut` (timeout = none) / `async with asyncio_timeout(t): return await fut` -/
def gAwait (fut : Option Nat) (timeout : Option Nat) : PyM Gateway Bool := do
  match fut with
  | none => PyM.throw (.raised "TypeError")
  | some fid =>
    let s0 ← PyM.get
    match s0.script with
    | [] => PyM.throw (.unsupported "script exhausted")
    | w :: rest =>
      PyM.set { s0 with script := rest }
      if gFutDone s0 fid then pure () else gRounds fid w.rounds
      let s ← PyM.get
      match s.futs[fid]? with
      | some .result => pure true
      | some (.exc e) => PyM.throw (.raised (excCls e))
      | some .cancelled => PyM.throw (.raised "CancelledError")
      | some (.resultExc _) => PyM.throw (.unsupported "a reset future resolved with an exception object")
      | none => PyM.throw (.unsupported "dangling future")
      | some .pending =>
        match w.fin, timeout with
        | .deadline, none => PyM.throw (.unsupported "an untimed wait cannot time out")
        | .deadline, some _ =>
          PyM.set { s with futs := s.futs.set fid .cancelled }
          gRunCleanups
          PyM.throw (.raised "TimeoutError")
        | .cancelled, _ =>
          PyM.set { s with futs := s.futs.set fid .cancelled }
          gRunCleanups
          PyM.throw (.raised "CancelledError")

end BV.Src.Uart
