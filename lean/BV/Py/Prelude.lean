/-
Python run-time notions used by the source-level translator (harness/pytrans.py).

The translator turns the syntax tree of a restricted set of bellows functions into Lean
definitions (BV/Gen/Src*.lean); this file fixes what the Python operations it meets mean.
It is hand written and part of the trusted base: it is *my model of CPython* for

  * integers          -> `Nat` (values known non-negative) / `Int` (anything built with `-`)
  * bytes / bytearray -> `List UInt8`; building one from an int outside range(256) raises
  * exceptions        -> `Except PyErr` (pure functions) or `PyM σ` (methods: the object's
                         fields survive a raise, exactly as attribute writes do in Python)
  * `for` / `while`   -> `forM` / `whileM` with an explicit control value (next/break/return);
                         `while` takes fuel, running out of fuel is its own error, never a result

No Mathlib.  Everything is executable (the driver runs the generated definitions too).
-/
namespace BV.Py

inductive PyErr
  | raised (cls : String)        -- a Python exception of that class
  | unsupported (what : String)  -- an operation outside the modelled fragment was reached
  | fuel                         -- a `while` loop exceeded the fuel given by the translator
deriving Repr, DecidableEq, Inhabited

deriving instance DecidableEq for Except

/-- exception classes that derive from `BaseException` but not from `Exception`: `except Exception` lets them through
(a task cancelled while it awaits is the one that matters for the translated coroutines) -/
def baseOnly : List String := ["CancelledError", "KeyboardInterrupt", "SystemExit", "GeneratorExit"]

/-- does `except <classes>:` catch this?  (`[]` = `except Exception`; running out of fuel or leaving the modelled fragment is
not a Python exception and is never caught) -/
def PyErr.caughtBy (e : PyErr) (classes : List String) : Bool :=
  match e with
  | .raised c => (classes.isEmpty && !baseOnly.contains c) || classes.contains c
  | _ => false

/-- loop control value produced by one iteration of a translated loop body -/
inductive Ctl (σ ρ : Type)
  | next (s : σ)   -- fell off the end of the body, or `continue`
  | brk (s : σ)    -- `break`
  | ret (r : ρ)    -- `return r` from inside the loop
deriving Repr

/-- what a finished loop hands back: the carried locals (and whether it ended by `break`), or a `return` -/
inductive LoopRes (σ ρ : Type)
  | done (s : σ) (broke : Bool)
  | ret (r : ρ)
deriving Repr

/-! ### methods: state that survives exceptions -/

/-- a computation on an object of type `σ`: result or exception, and the object afterwards -/
def PyM (σ α : Type) := σ → Except PyErr α × σ

namespace PyM
variable {σ α β : Type}

@[inline] def pure (a : α) : PyM σ α := fun s => (.ok a, s)
@[inline] def bind (m : PyM σ α) (f : α → PyM σ β) : PyM σ β := fun s =>
  match m s with
  | (.ok a, s') => f a s'
  | (.error e, s') => (.error e, s')
@[inline] def throw (e : PyErr) : PyM σ α := fun s => (.error e, s)
@[inline] def get : PyM σ σ := fun s => (.ok s, s)
@[inline] def set (s : σ) : PyM σ Unit := fun _ => (.ok (), s)
@[inline] def modify (f : σ → σ) : PyM σ Unit := fun s => (.ok (), f s)
/-- lift a pure partial computation -/
@[inline] def lift (e : Except PyErr α) : PyM σ α := fun s => (e, s)
/-- `try: m  except <classes>: h`; `classes = []` means a bare `except Exception` -/
@[inline] def tryCatch (m : PyM σ α) (classes : List String) (h : PyM σ α) : PyM σ α := fun s =>
  match m s with
  | (.ok a, s') => (.ok a, s')
  | (.error (.raised c), s') =>
    if (classes.isEmpty && !baseOnly.contains c) || classes.contains c then h s' else (.error (.raised c), s')
  | (.error e, s') => (.error e, s')

/-- run `m`, turning a raised exception into a value (the object's state after the raise is kept) -/
@[inline] def attempt (m : PyM σ α) : PyM σ (Except PyErr α) := fun s =>
  match m s with
  | (r, s') => (.ok r, s')

instance : Monad (PyM σ) where
  pure := PyM.pure
  bind := PyM.bind

@[simp] theorem pure_apply (a : α) (s : σ) : (Pure.pure a : PyM σ α) s = (.ok a, s) := rfl
@[simp] theorem bind_apply (m : PyM σ α) (f : α → PyM σ β) (s : σ) :
    (m >>= f) s = match m s with
      | (.ok a, s') => f a s'
      | (.error e, s') => (.error e, s') := rfl
@[simp] theorem throw_apply (e : PyErr) (s : σ) : (throw e : PyM σ α) s = (.error e, s) := rfl
@[simp] theorem get_apply (s : σ) : (get : PyM σ σ) s = (.ok s, s) := rfl
@[simp] theorem set_apply (s t : σ) : (set t : PyM σ Unit) s = (.ok (), t) := rfl
@[simp] theorem modify_apply (f : σ → σ) (s : σ) : (modify f : PyM σ Unit) s = (.ok (), f s) := rfl
@[simp] theorem lift_apply (e : Except PyErr α) (s : σ) : (lift e : PyM σ α) s = (e, s) := rfl

end PyM

/-! ### loops -/

/-- `for x in xs:` in `Except` -/
def forE {α σ ρ : Type} (body : σ → α → Except PyErr (Ctl σ ρ)) : List α → σ → Except PyErr (LoopRes σ ρ)
  | [], s => .ok (.done s false)
  | x :: xs, s =>
    match body s x with
    | .error e => .error e
    | .ok (.next s') => forE body xs s'
    | .ok (.brk s') => .ok (.done s' true)
    | .ok (.ret r) => .ok (.ret r)

/-- `for x in xs:` in `PyM` -/
def forM {α σ τ ρ : Type} (body : τ → α → PyM σ (Ctl τ ρ)) : List α → τ → PyM σ (LoopRes τ ρ)
  | [], t => PyM.pure (.done t false)
  | x :: xs, t => fun s =>
    match body t x s with
    | (.error e, s') => (.error e, s')
    | (.ok (.next t'), s') => forM body xs t' s'
    | (.ok (.brk t'), s') => (.ok (.done t' true), s')
    | (.ok (.ret r), s') => (.ok (.ret r), s')

/-- `while cond:` in `PyM`, with fuel; `body` evaluates the condition itself and answers `brk` when it is false -/
def whileM {σ τ ρ : Type} (body : τ → PyM σ (Ctl τ ρ)) : Nat → τ → PyM σ (LoopRes τ ρ)
  | 0, _ => PyM.throw .fuel
  | fuel + 1, t => fun s =>
    match body t s with
    | (.error e, s') => (.error e, s')
    | (.ok (.next t'), s') => whileM body fuel t' s'
    | (.ok (.brk t'), s') => (.ok (.done t' true), s')
    | (.ok (.ret r), s') => (.ok (.ret r), s')

/-- a loop whose body never returns: the carried locals and whether it ended by `break` -/
def LoopRes.noRet {σ : Type} : LoopRes σ Empty → σ × Bool
  | .done s b => (s, b)
  | .ret r => nomatch r

/-! ### integers -/

def b2n (b : Bool) : Nat := if b then 1 else 0

/-- `range(a, b)` over Python ints -/
def rangeI (a b : Int) : List Int := (List.range (b - a).toNat).map fun (i : Nat) => a + Int.ofNat i
/-- `range(n)` -/
def rangeN (n : Nat) : List Nat := List.range n

/-! ### bytes -/

/-- `bytes([..])` / `bytearray.append` / `.extend`: every element must be in range(256) -/
def bytesOf (xs : List Nat) : Except PyErr (List UInt8) :=
  if xs.all (· < 256) then .ok (xs.map UInt8.ofNat) else .error (.raised "ValueError")

/-- iterating a bytes object yields ints -/
def ints (bs : List UInt8) : List Nat := bs.map UInt8.toNat

/-- `data[i]` for a non-negative index -/
def byteAt (bs : List UInt8) (i : Nat) : Except PyErr Nat :=
  match bs[i]? with
  | some b => .ok b.toNat
  | none => .error (.raised "IndexError")

/-- `data[a:]`, `data[:b]`, `data[a:b]` with non-negative literal/len-relative bounds -/
def sliceFrom (bs : List α) (a : Nat) : List α := bs.drop a
def sliceTo (bs : List α) (b : Nat) : List α := bs.take b
/-- `data[:-k]` -/
def sliceToNeg (bs : List α) (k : Nat) : List α := bs.take (bs.length - k)
/-- `data[-k:]` (k > 0) -/
def sliceFromNeg (bs : List α) (k : Nat) : List α := bs.drop (bs.length - k)
/-- `data[a:-k]` -/
def sliceMid (bs : List α) (a k : Nat) : List α := (bs.take (bs.length - k)).drop a

/-- `n.to_bytes(2, "big")` (OverflowError beyond 16 bits) -/
def toBytes2Big (n : Nat) : Except PyErr (List UInt8) :=
  if n < 65536 then .ok [UInt8.ofNat (n / 256), UInt8.ofNat (n % 256)] else .error (.raised "OverflowError")

/-- `[f a b for a, b in zip(xs, ys)]` -/
def zipWithL (f : α → β → γ) : List α → List β → List γ
  | a :: as, b :: bs => f a b :: zipWithL f as bs
  | _, _ => []

/-- `next((i, b) for i, b in enumerate(xs) if p b)`; `none` is StopIteration -/
def firstIdx (p : Nat → Bool) : List UInt8 → Nat → Option (Nat × Nat)
  | [], _ => none
  | b :: bs, i => if p b.toNat then some (i, b.toNat) else firstIdx p bs (i + 1)

/-- `bytearray.partition(sep)` for a one-byte separator: (before, found, after) -/
def partition1 (sep : UInt8) : List UInt8 → List UInt8 × Bool × List UInt8
  | [] => ([], false, [])
  | b :: bs =>
    if b == sep then ([], true, bs)
    else let (h, f, t) := partition1 sep bs; (b :: h, f, t)

/-- `bytes([x]) in buf` -/
def bytesContains1 (needle buf : List UInt8) : Bool :=
  match needle with
  | [x] => buf.contains x
  | _ => false

/-- `bytearray.pop(i)`: the array without element `i` -/
def popAt (bs : List UInt8) (i : Nat) : Except PyErr (List UInt8) :=
  if i < bs.length then .ok (bs.eraseIdx i) else .error (.raised "IndexError")

/-- `xs[i]` on a list / tuple with a constant non-negative index -/
def listAt (xs : List α) (i : Nat) : Except PyErr α :=
  match xs[i]? with
  | some x => .ok x
  | none => .error (.raised "IndexError")

/-! ### insertion-ordered dict with small keys -/

def dictGet (d : List (Nat × β)) (k : Nat) : Option β := d.lookup k
/-- `d[k] = v`: an existing key keeps its position -/
def dictSet (d : List (Nat × β)) (k : Nat) (v : β) : List (Nat × β) :=
  if d.any (·.1 == k) then d.map (fun kv => if kv.1 == k then (k, v) else kv) else d ++ [(k, v)]
def dictIndex (d : List (Nat × β)) (k : Nat) : Except PyErr β :=
  match d.lookup k with
  | some v => .ok v
  | none => .error (.raised "KeyError")
def dictPop (d : List (Nat × β)) (k : Nat) : Except PyErr (β × List (Nat × β)) :=
  match d.lookup k with
  | some v => .ok (v, d.filter (·.1 != k))
  | none => .error (.raised "KeyError")

end BV.Py
