/-
Reference decoder of the ASH byte stream, one byte at a time (UG101 §4): the automaton
keeps the bytes since the last frame boundary and a "discard to next flag" mark.
  FLAG        closes the segment (an empty one is ignored; while discarding it only ends it)
  CANCEL      drops the segment so far
  SUBSTITUTE  drops it and discards up to the next FLAG
  XON/XOFF    are removed from the stream
  other       (ESCAPE included) is appended
A closed segment is unstuffed (an escaped byte must decode to a reserved value), checked and
decoded by `specParse`; a valid frame goes to the receiver rules, anything else is answered
with one CANCEL-prefixed NAK carrying the number expected next.
-/
import BV.Spec.AshFrame
import BV.Model.Ash.Receiver
namespace BV.Spec.Ash
open BV.Ash

structure Acc where
  acc : List UInt8 := []
  disc : Bool := false
deriving Repr, DecidableEq

def stepByte (s : Acc) (b : UInt8) : Acc × List (List UInt8) :=
  if s.disc then
    if b = 0x7E then (⟨[], false⟩, []) else (⟨[], true⟩, [])
  else if b = 0x7E then (⟨[], false⟩, if s.acc.isEmpty then [] else [s.acc])
  else if b = 0x1A then (⟨[], false⟩, [])
  else if b = 0x18 then (⟨[], true⟩, [])
  else if b = 0x11 ∨ b = 0x13 then (s, [])
  else (⟨s.acc ++ [b], false⟩, [])

def runBytes (s : Acc) : List UInt8 → Acc × List (List UInt8)
  | [] => (s, [])
  | b :: bs =>
    let r := stepByte s b
    let r2 := runBytes r.1 bs
    (r2.1, r.2 ++ r2.2)

/-- unstuffing per the specification's reading adopted in DESIGN.md (choices 1 and 2) -/
def specUnstuff : List UInt8 → Option (List UInt8)
  | [] => some []
  | [0x7D] => some []
  | 0x7D :: c :: rest =>
      let b := UInt8.ofNat ((c.toNat + 32) % 64 + c.toNat / 64 * 64)
      if specReserved b then (specUnstuff rest).map (b :: ·) else none
  | c :: rest => (specUnstuff rest).map (c :: ·)

/-- receiver rules of the specification for a decoded frame: replies carry the number
expected next; DATA is accepted iff in sequence -/
def specNak (rxSeq : Nat) : Ev := .write (specWire [0x1A] (.nak false false rxSeq))

def refSegment (s : Rx) (seg : List UInt8) : Rx × List Ev :=
  match (specUnstuff seg).bind specParse with
  | none => (s, [specNak s.rxSeq])
  | some f => onFrame s f

def refSegments (s : Rx) : List (List UInt8) → Rx × List Ev
  | [] => (s, [])
  | g :: gs =>
    let r := refSegment s g
    let r2 := refSegments r.1 gs
    (r2.1, r.2 ++ r2.2)

/-- events of the reference decoder on a whole stream, from a given receiver state -/
def refDecode (rx : Rx) (a : Acc) (stream : List UInt8) : List Ev :=
  (refSegments rx (runBytes a stream).2).2

end BV.Spec.Ash
