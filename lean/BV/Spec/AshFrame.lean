/-
Independent description of the ASH frame layout (UG101 §2–§4), written with plain
arithmetic instead of the masks and shifts of the implementation:

  DATA    0 fff r aaa     frmNum, reTx, ackNum          data field randomised
  ACK     100 s n aaa     reserved, nRdy, ackNum
  NAK     101 s n aaa
  RST     1100 0000
  RSTACK  1100 0001       version (0x02), reset code
  ERROR   1100 0010       version (0x02), error code

Every frame ends with CRC-CCITT (x^16+x^12+x^5+1, seed 0xFFFF, high byte first) over the
control byte and the (randomised) data field.  The randomisation sequence is the output of
the LFSR  rand₀ = 0x42, randᵢ₊₁ = randᵢ >> 1 if bit 0 of randᵢ is 0 else (randᵢ >> 1) ^ 0xB8.
-/
import BV.Model.Ash.Frame
namespace BV.Spec.Ash
open BV.Ash

def lfsrStep (r : Nat) : Nat := if r % 2 = 0 then r / 2 else (r / 2) ^^^ 0xB8

def lfsr : Nat → Nat → List UInt8
  | 0, _ => []
  | n + 1, r => UInt8.ofNat r :: lfsr n (lfsrStep r)

/-- the 256-byte pseudo-random sequence of the specification -/
def randSeq : List UInt8 := lfsr 256 0x42

def specRandomize (d : List UInt8) : List UInt8 := xorSeq d randSeq

/-- CRC-CCITT on natural numbers, one byte at a time (xor into the high byte, eight shifts) -/
def crcShift (c : Nat) : Nat := if c ≥ 0x8000 then ((2 * c) % 65536) ^^^ 0x1021 else 2 * c
def crcByteN (c : Nat) (b : UInt8) : Nat :=
  crcShift (crcShift (crcShift (crcShift (crcShift (crcShift (crcShift (crcShift (c ^^^ (b.toNat * 256)))))))))
def crc16 (bs : List UInt8) : Nat := bs.foldl crcByteN 0xFFFF

def specAppendCrc (bs : List UInt8) : List UInt8 :=
  bs ++ [UInt8.ofNat (crc16 bs / 256), UInt8.ofNat (crc16 bs % 256)]

def ctl : Frame → Nat
  | .data f r a _ => 16 * f + 8 * b2n r + a
  | .ack s n a => 0x80 + 16 * b2n s + 8 * b2n n + a
  | .nak s n a => 0xA0 + 16 * b2n s + 8 * b2n n + a
  | .rst => 0xC0
  | .rstack _ _ => 0xC1
  | .error _ _ => 0xC2

def dataField : Frame → List UInt8
  | .data _ _ _ p => specRandomize p
  | .rstack v c => [v, c]
  | .error v c => [v, c]
  | _ => []

/-- the unstuffed bytes of a frame according to the specification -/
def specEncode (f : Frame) : List UInt8 := specAppendCrc (UInt8.ofNat (ctl f) :: dataField f)

/-- which frame a control byte announces, by value ranges -/
def specClass (c : Nat) : Option Cls :=
  if c < 0x80 then some .data
  else if c < 0xA0 then some .ack
  else if c < 0xC0 then some .nak
  else if c = 0xC0 then some .rst
  else if c = 0xC1 then some .rstack
  else if c = 0xC2 then some .error
  else none

/-- decoder of the specification: `none` = not a valid frame -/
def specParse (d : List UInt8) : Option Frame :=
  if d.length < 3 then none else
  let body := d.take (d.length - 2)
  let c16 := crc16 body
  if d.drop (d.length - 2) ≠ [UInt8.ofNat (c16 / 256), UInt8.ofNat (c16 % 256)] then none else
  match body with
  | [] => none
  | cb :: rest =>
    let c := cb.toNat
    match specClass c with
    | none => none
    | some .data => if rest.length > 256 then none else
        some (.data (c / 16 % 8) (c / 8 % 2 = 1) (c % 8) (specRandomize rest))
    | some .ack => some (.ack (c / 16 % 2 = 1) (c / 8 % 2 = 1) (c % 8))
    | some .nak => some (.nak (c / 16 % 2 = 1) (c / 8 % 2 = 1) (c % 8))
    | some .rst => if rest = [] then some .rst else none
    | some .rstack => match rest with
        | [v, code] => if v = 2 then some (.rstack v code) else none
        | _ => none
    | some .error => match rest with
        | [v, code] => if v = 2 then some (.error v code) else none
        | _ => none

/-- byte stuffing of the specification: a reserved byte becomes ESCAPE, byte with bit 5 inverted -/
def specReserved (b : UInt8) : Bool := b = 0x7E || b = 0x7D || b = 0x11 || b = 0x13 || b = 0x18 || b = 0x1A
def specStuff (bs : List UInt8) : List UInt8 :=
  bs.flatMap fun b => if specReserved b then [0x7D, UInt8.ofNat ((b.toNat + 32) % 64 + b.toNat / 64 * 64)] else [b]

/-- what goes on the wire for a frame: stuffed bytes and the closing flag -/
def specWire (pre : List UInt8) (f : Frame) : List UInt8 := pre ++ specStuff (specEncode f) ++ [0x7E]

end BV.Spec.Ash
