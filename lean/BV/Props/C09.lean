/-
C09 — bring-up negotiates the NCP's protocol version and frames everything accordingly.
Model: BV.Neg (startup_reset / reset / version / _switch_protocol_version / the write_config lookup)
over the generated `_BY_VERSION` table and the generated default configurations.
-/
import BV.Model.Ezsp.Negotiate
namespace BV.Props.C09
open BV.Neg BV.Codec

theorem byVersion_keys : BV.Gen.Commands.byVersion = [(4,4),(5,5),(6,6),(7,7),(8,8),(9,9),(10,10),(11,11),(12,12),(13,13),(14,14)] := by
  decide +kernel

theorem latest_eq : latest = 14 := by decide +kernel

theorem lookup_supported (v : Nat) (h1 : 4 ≤ v) (h2 : v ≤ 14) : BV.Gen.Commands.byVersion.lookup v = some v := by
  rw [byVersion_keys]
  have : v = 4 ∨ v = 5 ∨ v = 6 ∨ v = 7 ∨ v = 8 ∨ v = 9 ∨ v = 10 ∨ v = 11 ∨ v = 12 ∨ v = 13 ∨ v = 14 := by omega
  rcases this with h | h | h | h | h | h | h | h | h | h | h <;> subst h <;> decide

theorem lookup_newer (v : Nat) (h : 14 < v) : BV.Gen.Commands.byVersion.lookup v = none := by
  rw [byVersion_keys]
  simp only [List.lookup]
  repeat (first | rfl | (split; (rename_i hc; simp at hc; omega)))

theorem switch_handler (s : St) (v : Nat) (h : 4 ≤ v) : (switch s v).handlerVersion = min v 14 ∧
    (switch s v).ezspVersion = v ∧ (switch s v).seq = 0 := by
  refine ⟨?_, rfl, rfl⟩
  by_cases hv : v ≤ 14
  · simp [switch, lookup_supported v h hv]; omega
  · have h14 : 14 < v := by omega
    simp only [switch, lookup_newer v h14, latest_eq]
    rw [lookup_supported 14 (by omega) (by omega)]
    simp; omega

theorem afterReset_init : afterReset {} = ⟨4, 4, true, 0⟩ := by decide +kernel

theorem q1_legacy : versionRequest ⟨4, 4, true, 0⟩ 4 = [0x00, 0x00, 0x00, 0x04] := by decide +kernel

/-- the first version query of every bring-up is in the legacy format: `[seq, 00, 00, 04]` -/
theorem c09_first_query (n : Nat) : (startup n).2.head? = some [0x00, 0x00, 0x00, 0x04] := by
  unfold startup
  rw [afterReset_init]
  unfold version
  simp only [q1_legacy]
  split <;> rfl

/-- **negotiation**, for every NCP version `n ≥ 4`: the reported version is adopted; the handler is the
version's own for supported versions and the newest known one for newer ones; a second query, in the
layout of the adopted handler and carrying `n`, is sent iff `n ≠ 4` -/
theorem c09_negotiated (n : Nat) (hn : 4 ≤ n) :
    (startup n).1.ezspVersion = n ∧ (startup n).1.handlerVersion = min n 14 ∧
    (n = 4 → (startup n).2 = [[0x00, 0x00, 0x00, 0x04]]) ∧
    (n ≠ 4 → (startup n).2 = [[0x00, 0x00, 0x00, 0x04],
                               txHeader (hdrOf (min n 14)) 0 0 ++ [UInt8.ofNat n]]) := by
  unfold startup
  rw [afterReset_init]
  unfold version
  simp only [q1_legacy]
  by_cases h : n = 4
  · subst h
    simp
  · obtain ⟨a, b, c⟩ := switch_handler ⟨4, 4, true, (0 + 1) % 256⟩ n hn
    simp only [ne_eq, h, not_false_eq_true, ↓reduceIte]
    refine ⟨b, a, fun hh => by simp at hh, fun _ => ?_⟩
    simp only [versionRequest, a, c]

/-- from then on every frame uses the adopted handler's layout: v4 3-byte header for version 4, the
legacy 5-byte header for 5..7, the 16-bit-ID header from 8 on (including newer, unknown versions) -/
theorem c09_layout (n : Nat) (hn : 4 ≤ n) :
    hdrOf (startup n).1.handlerVersion = (if n < 5 then .v4 else if n < 8 then .v5 else .v8) := by
  rw [(c09_negotiated n hn).2.1]
  unfold hdrOf
  by_cases h1 : n < 5
  · have : min n 14 < 5 := by omega
    simp [h1, this]
  · by_cases h2 : n < 8
    · have a : ¬ min n 14 < 5 := by omega
      have b : min n 14 < 8 := by omega
      simp [h1, h2, a, b]
    · have a : ¬ min n 14 < 5 := by omega
      have b : ¬ min n 14 < 8 := by omega
      simp [h1, h2, a, b]

/-- **the default configuration is defined** after negotiation with any NCP version ≥ 4 -/
theorem c09_config_defined (n : Nat) (hn : 4 ≤ n) : (configDefaults (startup n).1).isSome = true := by
  have hev := (c09_negotiated n hn).1
  unfold configDefaults
  rw [hev, latest_eq]
  by_cases h : n ≤ 14
  · have : n = 4 ∨ n = 5 ∨ n = 6 ∨ n = 7 ∨ n = 8 ∨ n = 9 ∨ n = 10 ∨ n = 11 ∨ n = 12 ∨ n = 13 ∨ n = 14 := by omega
    rcases this with h | h | h | h | h | h | h | h | h | h | h <;> subst h <;> decide +kernel
  · have hnone : BV.Gen.Config.defaults n = none := by
      unfold BV.Gen.Config.defaults
      repeat (first | rfl | (split; omega))
    rw [hnone]
    decide +kernel

/-- **fallback**: after every later reset framing is the legacy one until negotiation is repeated, and
repeating it yields the same result -/
theorem c09_fallback (s : St) (n : Nat) (hn : 4 ≤ n) :
    (afterReset s).handlerVersion = 4 ∧ (afterReset s).ezspVersion = 4 ∧ hdrOf (afterReset s).handlerVersion = .v4 ∧
    (version (afterReset s) n).2.head? = some [0x00, 0x00, 0x00, 0x04] := by
  obtain ⟨a, b, c⟩ := switch_handler s 4 (by omega)
  have a' : (afterReset s).handlerVersion = 4 := by
    have : (afterReset s).handlerVersion = (switch s 4).handlerVersion := rfl
    rw [this, a]; rfl
  have c' : (afterReset s).seq = 0 := c
  refine ⟨a', b, by rw [a']; rfl, ?_⟩
  unfold version
  simp only [versionRequest, a', c', show (afterReset s).ezspVersion = 4 from b]
  split <;> simp [hdrOf, txHeader]

example : (startup 15).1.handlerVersion = 14 ∧ (startup 15).1.ezspVersion = 15 := by decide +kernel

end BV.Props.C09
