/-
C01 — the ASH link delivers payloads exactly once, in order, over a faulty serial line.

Abstract protocol models (BV.Link.H2N: host sends with window 1; BV.Link.N2H: NCP sends with window
W ≤ 3), with ghost absolute frame indices; the wire carries only 3-bit numbers.  Faults: drop and
duplication anywhere in either FIFO channel, corruption of a delivered frame (discarded, answered with
a NAK), stalls (retransmission is enabled at any time), and senders that stop for good.
The host halves of these models are tied to the code through the C04/C05 models: the bridging lemmas
below show that the host's tests on 3-bit numbers are exactly the tests the abstract steps use.
-/
import BV.Proofs.Ash.Link
import BV.Model.Ash.Sender
import BV.Props.C04
namespace BV.Props.C01
open BV.Link

/-- **host → NCP, every reachable state** (any interleaving of transmissions, retransmissions,
deliveries, drops, duplications, corruptions and acknowledgements): the payloads handed to the NCP's
upper layer are exactly frames 0, 1, …, r−1 — each once, in order, nothing invented — and every
frame the host believes acknowledged (index < base) is among them -/
theorem c01_h2n_exactly_once {s : H2N.St} (h : H2N.Reach s) :
    s.up = List.range s.r ∧ s.base ≤ s.r :=
  H2N.exactly_once h

theorem count_range (n k : Nat) : (List.range n).count k = if k < n then 1 else 0 := by
  induction n with
  | zero => simp
  | succ n ih =>
    rw [List.range_succ, List.count_append, ih]
    by_cases h1 : k < n
    · have : ¬ n = k := by omega
      simp [h1, this]; omega
    · by_cases h2 : k = n
      · subst h2; simp
      · have : ¬ k < n + 1 := by omega
        have h3 : ¬ n = k := fun h => h2 h.symm
        simp [h1, this, h3]

/-- a send that completed successfully has been delivered exactly once; any frame, successful or not,
was delivered at most once -/
theorem c01_success_delivered {s : H2N.St} (h : H2N.Reach s) (k : Nat) :
    (k < s.base → s.up.count k = 1) ∧ s.up.count k ≤ 1 := by
  obtain ⟨hup, hb⟩ := H2N.exactly_once h
  rw [hup, count_range]
  constructor
  · intro hk
    have : k < s.r := by omega
    simp [this]
  · split <;> omega

/-- **NCP → host, every reachable state, every window W ≤ 3**: what the host hands to EZSP is exactly
frames 0 … r−1 of what the NCP submitted, once each and in order; the NCP's window never runs ahead of
what the host accepted -/
theorem c01_n2h_exactly_once {W : Nat} (hW : W ≤ 3) {s : N2H.St} (h : N2H.Reach W s) :
    s.up = List.range s.r ∧ s.a ≤ s.r ∧ s.r ≤ s.n :=
  N2H.exactly_once_W hW h

/-! ### bridging lemmas: the host model performs exactly the residue tests of the abstract steps -/

open BV.Ash BV.Gen.Ash in
/-- `rxAccept` / `rxReject` of N2H: the host accepts frame index `j` in state `r` iff `j % 8 = r % 8`,
then expects `(r + 1) % 8` -/
theorem c01_bridge_accept (s : Rx) (hopen : s.open_ = true) (r j : Nat) (hr : s.rxSeq = r % 8)
    (reTx : Bool) (a : Nat) (p : List UInt8) :
    (C04.ups (onFrame s (.data (j % 8) reTx a p)).2 = if j % 8 = r % 8 then [p] else []) ∧
    (onFrame s (.data (j % 8) reTx a p)).1.rxSeq = (if j % 8 = r % 8 then (r + 1) % 8 else r % 8) := by
  have h1 := C04.c04_accept_iff s hopen (j % 8) reTx a p
  have h2 : (onFrame s (.data (j % 8) reTx a p)).1.rxSeq =
      (if j % 8 = s.rxSeq then (j % 8 + 1) % 8 else s.rxSeq) := (C04.c04_one_reply s hopen (j % 8) reTx a p).1
  rw [hr] at h1 h2
  refine ⟨h1, ?_⟩
  rw [h2]
  split
  · rename_i hj; rw [hj]; omega
  · rfl

open BV.Ash BV.Gen.Ash in
/-- `ackHit` / `ackMiss` of H2N: with TX_K = 1 an ackNum `A` resolves the ack future of the outstanding
frame `base % 8` iff `(A + 7) % 8 = base % 8` -/
theorem c01_bridge_ack (s : Rx) (base A : Nat) (hp : s.pending = [(base % 8, Fut.waiting)]) :
    (handleAck s (A % 8)).pending =
      if (A + 7) % 8 = base % 8 then [(base % 8, Fut.acked)] else [(base % 8, Fut.waiting)] := by
  have htx : txK = 1 := rfl
  simp only [handleAck, htx, List.range_one, List.foldl_cons, List.foldl_nil, Nat.sub_zero, hp]
  have e : (A % 8 + 8 - 1) % 8 = (A + 7) % 8 := by omega
  rw [e]
  by_cases h : (A + 7) % 8 = base % 8
  · simp [h, List.lookup, setFut]
  · have : ((A + 7) % 8 == base % 8) = false := by simpa using h
    simp [h, List.lookup, this, hp]

open BV.Ash in
/-- cancelling the caller of a send changes no protocol field and no other send -/
theorem c01_cancel_noop (s : Tx) (id : Nat) :
    (step s (.cancel id)).1 = { s with cancelled := id :: s.cancelled } ∧
    (step s (.cancel id)).2 = [.done id .cancelled] := by
  simp [step, step0]

example : ∃ s, H2N.Reach s ∧ s.r = 1 ∧ s.base = 1 := by
  refine ⟨_, .step (.step (.step (.step .init (.sendNew _ rfl)) (.dupD _ [] 0 [] rfl))
    (.rxAccept _ 0 [0] rfl rfl)) (.ackHit _ 1 [] rfl rfl rfl), rfl, rfl⟩

end BV.Props.C01
