/-
C13 — incoming NCP callbacks are translated faithfully for every protocol version.
Model: BV.Callbacks over the codec model; schemas from the generated command tables.
-/
import BV.Model.App.Callbacks
namespace BV.Props.C13
open BV.Callbacks BV.Codec BV.Gen.App BV.Gen.Commands

def rxNames (v : Nat) (name : String) : Option (List String) :=
  (findByName (cmds v) name).map fun c => c.rx.map (·.1)

/-- **field positions, every version 4..14**: in the version's `incomingMessageHandler` schema the field at
each position the handler unpacks has the role the handler gives it (pre-v14 order and v14 order alike) -/
theorem c13_field_positions : ∀ v ∈ versions,
    (rxNames v "incomingMessageHandler").map (·.map roleOfName) = some ((incomingOrder v).map some) := by
  decide +kernel

/-- the trust-centre join callback has the five fields, in the order `_handle_tc_join_handler` takes them,
in every version -/
theorem c13_tcjoin_positions : ∀ v ∈ versions,
    rxNames v "trustCenterJoinHandler" =
      some ["newNodeId", "newNodeEui64", "status", "policyDecision", "parentOfNewNodeId"] := by
  decide +kernel

/-- the delivery-confirmation callback: (type, destination, APS frame, tag, status, message) before v14,
(status, type, destination, APS frame, tag, message) from v14 on — the two orders `ezsp_callback_handler`
unpacks (used by C12) -/
theorem c13_message_sent_positions : ∀ v ∈ versions,
    rxNames v "messageSentHandler" =
      some (if v ≥ 14 then ["status", "message_type", "nwk", "aps_frame", "message_tag", "message"]
            else ["type", "indexOrDestination", "apsFrame", "messageTag", "status", "messageContents"]) := by
  decide +kernel

def apsVal (prof clus sep dep opts grp seq : Nat) : Val :=
  .seq [.num prof, .num clus, .num sep, .num dep, .num opts, .num grp, .num seq]

def orderPre : List Role := [.mtype, .aps, .lqi, .rssi, .sender, .binding, .addrIdx, .payload]
def order14 : List Role := [.mtype, .aps, .sender, .eui64, .binding, .addrIdx, .lqi, .rssi, .timestamp, .payload]

theorem getRole_pre (a0 a1 a2 a3 a4 a5 a6 a7 : Val) :
    getRole orderPre [a0, a1, a2, a3, a4, a5, a6, a7] .mtype = some a0 ∧
    getRole orderPre [a0, a1, a2, a3, a4, a5, a6, a7] .aps = some a1 ∧
    getRole orderPre [a0, a1, a2, a3, a4, a5, a6, a7] .lqi = some a2 ∧
    getRole orderPre [a0, a1, a2, a3, a4, a5, a6, a7] .rssi = some a3 ∧
    getRole orderPre [a0, a1, a2, a3, a4, a5, a6, a7] .sender = some a4 ∧
    getRole orderPre [a0, a1, a2, a3, a4, a5, a6, a7] .payload = some a7 := ⟨rfl, rfl, rfl, rfl, rfl, rfl⟩

theorem getRole_14 (a0 a1 a2 a3 a4 a5 a6 a7 a8 a9 : Val) :
    getRole order14 [a0, a1, a2, a3, a4, a5, a6, a7, a8, a9] .mtype = some a0 ∧
    getRole order14 [a0, a1, a2, a3, a4, a5, a6, a7, a8, a9] .aps = some a1 ∧
    getRole order14 [a0, a1, a2, a3, a4, a5, a6, a7, a8, a9] .sender = some a2 ∧
    getRole order14 [a0, a1, a2, a3, a4, a5, a6, a7, a8, a9] .lqi = some a6 ∧
    getRole order14 [a0, a1, a2, a3, a4, a5, a6, a7, a8, a9] .rssi = some a7 ∧
    getRole order14 [a0, a1, a2, a3, a4, a5, a6, a7, a8, a9] .payload = some a9 := ⟨rfl, rfl, rfl, rfl, rfl, rfl⟩

theorem apsField_vals (prof clus sep dep opts grp seq : Nat) :
    apsField (apsVal prof clus sep dep opts grp seq) "groupId" = some grp ∧
    apsField (apsVal prof clus sep dep opts grp seq) "sourceEndpoint" = some sep ∧
    apsField (apsVal prof clus sep dep opts grp seq) "destinationEndpoint" = some dep ∧
    apsField (apsVal prof clus sep dep opts grp seq) "sequence" = some seq ∧
    apsField (apsVal prof clus sep dep opts grp seq) "profileId" = some prof ∧
    apsField (apsVal prof clus sep dep opts grp seq) "clusterId" = some clus := ⟨rfl, rfl, rfl, rfl, rfl, rfl⟩

/-- what `_handle_frame` produces from the unpacked roles -/
def expected (own mt prof clus sep dep grp seq lqi rssi sender : Nat) (p : List UInt8) : Option Packet :=
  if mt = incoming_INCOMING_BROADCAST ∨ mt = incoming_INCOMING_MULTICAST ∨ mt = incoming_INCOMING_UNICAST then
    some { src := sender, srcEp := sep,
           dst := if mt = incoming_INCOMING_BROADCAST then .broadcast broadcastAllRoutersAndCoordinator
                  else if mt = incoming_INCOMING_MULTICAST then .group grp else .nwk own,
           dstEp := dep, tsn := seq, profile := prof, cluster := clus, data := p, lqi := lqi, rssi := int8 rssi }
  else none

/-- the destination by message type and the packet fields, for the pre-v14 argument order: exactly one
packet for unicast / multicast / broadcast with every listed field equal to the callback's, none for
other message types -/
theorem c13_packet_pre14 (v : Nat) (hv : v < 14) (own mt prof clus sep dep opts grp seq lqi rssi sender b a : Nat)
    (p : List UInt8) :
    incomingMessage v own [.num mt, apsVal prof clus sep dep opts grp seq, .num lqi, .num rssi, .num sender, .num b, .num a, .bytes p] =
      some (expected own mt prof clus sep dep grp seq lqi rssi sender p) := by
  have ho : incomingOrder v = orderPre := by
    unfold incomingOrder orderPre; simp; omega
  obtain ⟨g0, g1, g2, g3, g4, g7⟩ := getRole_pre (.num mt) (apsVal prof clus sep dep opts grp seq) (.num lqi) (.num rssi) (.num sender) (.num b) (.num a) (.bytes p)
  obtain ⟨f1, f2, f3, f4, f5, f6⟩ := apsField_vals prof clus sep dep opts grp seq
  have hl : orderPre.length = 8 := rfl
  simp only [incomingMessage, ho, g0, g1, g2, g3, g4, g7, f1, f2, f3, f4, f5, f6, numOf, hl, expected]
  have n1 : incoming_INCOMING_MULTICAST ≠ incoming_INCOMING_BROADCAST := by decide
  have n2 : incoming_INCOMING_UNICAST ≠ incoming_INCOMING_BROADCAST := by decide
  have n3 : incoming_INCOMING_UNICAST ≠ incoming_INCOMING_MULTICAST := by decide
  by_cases h1 : mt = incoming_INCOMING_BROADCAST
  · subst h1; simp [numOf, f1, f2, f3, f4, f5, f6]
  · by_cases h2 : mt = incoming_INCOMING_MULTICAST
    · subst h2; simp [numOf, f1, f2, f3, f4, f5, f6, n1]
    · by_cases h3 : mt = incoming_INCOMING_UNICAST
      · subst h3; simp [numOf, f1, f2, f3, f4, f5, f6, n2, n3]
      · simp [numOf, f1, f2, f3, f4, f5, f6, h1, h2, h3]

/-- … and for the v14 argument order (the extra EUI64 and timestamp fields are ignored) -/
theorem c13_packet_v14 (v : Nat) (hv : v ≥ 14) (own mt prof clus sep dep opts grp seq lqi rssi sender b a ts : Nat)
    (eui : Val) (p : List UInt8) :
    incomingMessage v own [.num mt, apsVal prof clus sep dep opts grp seq, .num sender, eui, .num b, .num a, .num lqi, .num rssi, .num ts, .bytes p] =
      some (expected own mt prof clus sep dep grp seq lqi rssi sender p) := by
  have ho : incomingOrder v = order14 := by
    unfold incomingOrder order14; simp [hv]
  obtain ⟨g0, g1, g2, g6, g7, g9⟩ := getRole_14 (.num mt) (apsVal prof clus sep dep opts grp seq) (.num sender) eui (.num b) (.num a) (.num lqi) (.num rssi) (.num ts) (.bytes p)
  obtain ⟨f1, f2, f3, f4, f5, f6⟩ := apsField_vals prof clus sep dep opts grp seq
  have hl : order14.length = 10 := rfl
  simp only [incomingMessage, ho, g0, g1, g2, g6, g7, g9, f1, f2, f3, f4, f5, f6, numOf, hl, expected]
  have n1 : incoming_INCOMING_MULTICAST ≠ incoming_INCOMING_BROADCAST := by decide
  have n2 : incoming_INCOMING_UNICAST ≠ incoming_INCOMING_BROADCAST := by decide
  have n3 : incoming_INCOMING_UNICAST ≠ incoming_INCOMING_MULTICAST := by decide
  by_cases h1 : mt = incoming_INCOMING_BROADCAST
  · subst h1; simp [numOf, f1, f2, f3, f4, f5, f6]
  · by_cases h2 : mt = incoming_INCOMING_MULTICAST
    · subst h2; simp [numOf, f1, f2, f3, f4, f5, f6, n1]
    · by_cases h3 : mt = incoming_INCOMING_UNICAST
      · subst h3; simp [numOf, f1, f2, f3, f4, f5, f6, n2, n3]
      · simp [numOf, f1, f2, f3, f4, f5, f6, h1, h2, h3]

/-- **join / leave triage**: a departure yields a leave with the reported addresses whatever the policy
decision; otherwise a denied join yields nothing and any other decision a join with the reported
addresses and parent -/
theorem c13_join (nwk st dec parent : Nat) (ieee : List Nat) :
    tcJoin [.num nwk, .seq (ieee.map Val.num), .num st, .num dec, .num parent] =
      some (if st = deviceLeft then .leave nwk ieee else if dec = denyJoin then .nothing else .join nwk ieee parent) := by
  have hi : ieeeOf (.seq (ieee.map Val.num)) = some ieee := by
    simp only [ieeeOf]
    induction ieee with
    | nil => rfl
    | cons x xs ih => simp [List.mapM_cons, numOf, ih]
  simp only [tcJoin, numOf, hi]
  by_cases h1 : st = deviceLeft
  · simp [h1]
  · by_cases h2 : dec = denyJoin <;> simp [h1, h2]

theorem c13_rssi_signed : int8 0 = 0 ∧ int8 127 = 127 ∧ int8 128 = -128 ∧ int8 255 = -1 := by decide

end BV.Props.C13
