/-
C04 — the host receiver never hands a frame up twice or out of order, whatever arrives.
Model: BV.Ash.onFrame / runFrames (frame_received and its handlers).
-/
import BV.Model.Ash.Receiver
import BV.Proofs.Src.AshRx
namespace BV.Props.C04
open BV.Ash BV.Gen.Ash

/-! helper facts: `_handle_ack` and `_cancel_pending_data_frames` touch only the ack futures -/

theorem handleAck_fields (s : Rx) (a : Nat) :
    (handleAck s a).rxSeq = s.rxSeq ∧ (handleAck s a).txSeq = s.txSeq ∧
    (handleAck s a).open_ = s.open_ ∧ (handleAck s a).failed = s.failed ∧
    (handleAck s a).ackTimeoutReset = s.ackTimeoutReset := by
  unfold handleAck
  generalize List.range txK = l
  induction l generalizing s with
  | nil => simp
  | cons i is ih =>
    simp only [List.foldl_cons]
    split
    · have := ih { s with pending := setFut s.pending ((a + 8 - (txK - i)) % 8) .acked }
      simpa using this
    · exact ih s

def ups (es : List Ev) : List (List UInt8) := es.filterMap fun | .up p => some p | _ => none
def resets (es : List Ev) : List Nat := es.filterMap fun | .reset c => some c | _ => none
def writes (es : List Ev) : List (List UInt8) := es.filterMap fun | .write b => some b | _ => none

theorem onData_open (t : Rx) (h : t.open_ = true) (n : Nat) (r : Bool) (p : List UInt8) :
    onData t n r p =
      if n = t.rxSeq then ({ t with rxSeq := (n + 1) % 8 }, [.write (wire [] (.ack false false ((n + 1) % 8))), .up p])
      else if r = true then (t, [.write (wire [] (.ack false false t.rxSeq))])
      else (t, [.write (wire [] (.nak false false t.rxSeq))]) := by
  simp only [onData, writeFrame, h]
  by_cases hn : n = t.rxSeq
  · simp [hn]
  · cases r <;> simp [hn]

theorem onFrame_data (s : Rx) (n : Nat) (r : Bool) (a : Nat) (p : List UInt8) :
    ∃ t : Rx, onFrame s (.data n r a p) = onData t n r p ∧ t.rxSeq = s.rxSeq ∧ t.open_ = s.open_ ∧
      t.txSeq = s.txSeq ∧ t.failed = s.failed := by
  refine ⟨handleAck { s with ackTimeoutReset := false } a, rfl, ?_⟩
  obtain ⟨h1, h2, h3, h4, -⟩ := handleAck_fields { s with ackTimeoutReset := false } a
  exact ⟨h1, h3, h2, h4⟩

/-- a DATA frame's payload goes up iff its frame number is the expected one, and then exactly once -/
theorem c04_accept_iff (s : Rx) (h : s.open_ = true) (n : Nat) (r : Bool) (a : Nat) (p : List UInt8) :
    ups (onFrame s (.data n r a p)).2 = if n = s.rxSeq then [p] else [] := by
  obtain ⟨t, ht, h1, h3, -, -⟩ := onFrame_data s n r a p
  rw [ht, onData_open t (by rw [h3]; exact h), h1]
  by_cases hn : n = s.rxSeq
  · simp [hn, ups]
  · cases r <;> simp [hn, ups]

/-- every DATA frame is answered with exactly one frame carrying the *new* expected number:
an ACK iff the frame was accepted or flagged as a retransmission, otherwise a NAK; for an accepted
frame the ACK is written before the payload is handed up; the expected number advances by one
(mod 8) exactly on acceptance -/
theorem c04_one_reply (s : Rx) (h : s.open_ = true) (n : Nat) (r : Bool) (a : Nat) (p : List UInt8) :
    let o := onFrame s (.data n r a p)
    o.1.rxSeq = (if n = s.rxSeq then (n + 1) % 8 else s.rxSeq) ∧
    writes o.2 = [wire [] (if n = s.rxSeq ∨ r = true then .ack false false o.1.rxSeq
                           else .nak false false o.1.rxSeq)] ∧
    (n = s.rxSeq → o.2 = [.write (wire [] (.ack false false o.1.rxSeq)), .up p]) ∧
    resets o.2 = [] := by
  obtain ⟨t, ht, h1, h3, -, -⟩ := onFrame_data s n r a p
  simp only
  rw [ht, onData_open t (by rw [h3]; exact h), h1]
  by_cases hn : n = s.rxSeq
  · simp [hn, writes, resets]
  · cases r <;> simp [hn, writes, resets, h1]

/-- ACK, NAK and RST frames cause no upward delivery and no write; RSTACK restarts both counters at
zero, restores the ACK timeout and reports its code upward exactly once; ERROR reports its code
upward exactly once (and marks the link failed) -/
theorem c04_control_frames (s : Rx) :
    (∀ x y a, (onFrame s (.ack x y a)).2 = [] ∧ (onFrame s (.ack x y a)).1.rxSeq = s.rxSeq) ∧
    (∀ x y a, (onFrame s (.nak x y a)).2 = [] ∧ (onFrame s (.nak x y a)).1.rxSeq = s.rxSeq) ∧
    ((onFrame s .rst).2 = [] ∧ (onFrame s .rst).1.rxSeq = s.rxSeq) ∧
    (∀ v c, (onFrame s (.rstack v c)).2 = [.reset c.toNat] ∧ (onFrame s (.rstack v c)).1.rxSeq = 0 ∧
        (onFrame s (.rstack v c)).1.txSeq = 0 ∧ (onFrame s (.rstack v c)).1.failed = false ∧
        (onFrame s (.rstack v c)).1.ackTimeoutReset = true) ∧
    (∀ v c, (onFrame s (.error v c)).2 = [.reset c.toNat] ∧ (onFrame s (.error v c)).1.rxSeq = s.rxSeq ∧
        (onFrame s (.error v c)).1.failed = true) := by
  refine ⟨?_, ?_, ?_, ?_, ?_⟩
  · intro x y a; simp [onFrame, (handleAck_fields _ a).1]
  · intro x y a; simp [onFrame, cancelPending, (handleAck_fields _ a).1]
  · simp [onFrame]
  · intro v c; simp [onFrame]
  · intro v c; simp [onFrame, cancelPending]

/-! ### sequences: the receiver against an abstract in-order acceptor -/

/-- the specification of the receiver: expected number and the payloads accepted so far -/
def specStep (st : Nat × List (List UInt8)) : Frame → Nat × List (List UInt8)
  | .data n _ _ p => if n = st.1 then ((st.1 + 1) % 8, st.2 ++ [p]) else st
  | .rstack _ _ => (0, st.2)
  | _ => st

theorem onFrame_open (s : Rx) (f : Frame) : (onFrame s f).1.open_ = s.open_ := by
  cases f with
  | data n r a p =>
    obtain ⟨t, ht, h1, h3, -, -⟩ := onFrame_data s n r a p
    rw [ht, ← h3]
    simp only [onData]
    split
    · split <;> rfl
    · split
      · split <;> rfl
      · split <;> rfl
  | ack x y a => simp [onFrame, (handleAck_fields _ a).2.2.1]
  | nak x y a => simp [onFrame, cancelPending, (handleAck_fields _ a).2.2.1]
  | rst => simp [onFrame]
  | rstack v c => simp [onFrame]
  | error v c => simp [onFrame, cancelPending]

theorem onFrame_spec (s : Rx) (h : s.open_ = true) (f : Frame) (acc : List (List UInt8)) :
    ((onFrame s f).1.rxSeq, acc ++ ups (onFrame s f).2) = specStep (s.rxSeq, acc) f := by
  cases f with
  | data n r a p =>
    have h1 := (c04_one_reply s h n r a p).1
    have h2 := c04_accept_iff s h n r a p
    simp only [specStep]
    rw [h1, h2]
    by_cases hn : n = s.rxSeq <;> simp [hn]
  | ack x y a => simp [specStep, ((c04_control_frames s).1 x y a), ups]
  | nak x y a => simp [specStep, ((c04_control_frames s).2.1 x y a), ups]
  | rst => simp [specStep, ((c04_control_frames s).2.2.1), ups]
  | rstack v c => simp [specStep, ((c04_control_frames s).2.2.2.1 v c), ups]
  | error v c => simp [specStep, ((c04_control_frames s).2.2.2.2 v c), ups]

/-- **any frame sequence**: what is handed up is exactly the payloads of the frames that were in
sequence when they arrived, in arrival order, each once; the expected number is the abstract
acceptor's (accepted frames since the last RSTACK, mod 8) -/
theorem c04_sequence (s : Rx) (h : s.open_ = true) (fs : List Frame) (acc : List (List UInt8)) :
    ((runFrames s fs).1.rxSeq, acc ++ ups (runFrames s fs).2) = fs.foldl specStep (s.rxSeq, acc) := by
  induction fs generalizing s acc with
  | nil => simp [runFrames, ups]
  | cons f fs ih =>
    simp only [runFrames, List.foldl_cons]
    rw [← onFrame_spec s h f acc, ← ih _ (by rw [onFrame_open]; exact h)]
    simp [ups, List.filterMap_append]

/-- number of DATA frames accepted by the abstract acceptor since the last RSTACK -/
def acceptedSince : Nat → List Frame → Nat
  | rx, [] => rx
  | rx, .data n _ _ _ :: fs => if n = rx % 8 then acceptedSince (rx + 1) fs else acceptedSince rx fs
  | _, .rstack _ _ :: fs => acceptedSince 0 fs
  | rx, _ :: fs => acceptedSince rx fs

/-- the expected number is the count of accepted frames modulo 8 -/
theorem c04_rx_is_count_mod_8 (fs : List Frame) (k : Nat) (acc : List (List UInt8)) :
    (fs.foldl specStep (k % 8, acc)).1 = acceptedSince k fs % 8 := by
  induction fs generalizing k acc with
  | nil => simp [acceptedSince]
  | cons f fs ih =>
    cases f with
    | data n r a p =>
      simp only [List.foldl_cons, specStep, acceptedSince]
      by_cases hn : n = k % 8
      · simp only [hn, ↓reduceIte]
        have : (k % 8 + 1) % 8 = (k + 1) % 8 := by omega
        rw [this]; exact ih (k + 1) _
      · simp only [hn, ↓reduceIte]; exact ih k _
    | rstack v c => simp only [List.foldl_cons, specStep, acceptedSince]; exact ih 0 _
    | ack x y a => simp only [List.foldl_cons, specStep, acceptedSince]; exact ih k _
    | nak x y a => simp only [List.foldl_cons, specStep, acceptedSince]; exact ih k _
    | rst => simp only [List.foldl_cons, specStep, acceptedSince]; exact ih k _
    | error v c => simp only [List.foldl_cons, specStep, acceptedSince]; exact ih k _

example : ups (runFrames {} [.data 0 false 0 [1], .data 0 true 0 [1], .data 2 false 0 [3], .data 1 false 0 [2]]).2
    = [[1], [2]] := by decide +kernel


/-! ## the same statements over `frame_received` as generated from the source text (BV/Gen/SrcAsh.lean) -/

section Source
open BV.Proofs.Src.AshRx BV.Proofs.Src.Ash
open BV.Py (PyErr)

/-- the source-level `frame_received` run over a sequence of frames (an exception does not stop the sequence: the
next frame is the next call) -/
def srcRun (s : S) : List Frame → S
  | [] => s
  | f :: fs => srcRun (BV.Src.Ash.AshProtocol.frame_received (ofM f) s).2 fs

theorem ups_evsOf (s t : S) (r : Except PyErr Unit) : ups (evsOf s t r) = ups (srcEvs s t) := by
  cases r <;> simp [evsOf, srcEvs, outcome, ups, List.filterMap_append]

/-- **`frame_received` of the source is the model's step** (restated from BV.Proofs.Src.AshRx) -/
theorem c04_src_frame_received (s : S) (hw : WFs s) (hrx : s.rx_seq < 8) (f : Frame) (flag : Bool) :
    let res := BV.Src.Ash.AshProtocol.frame_received (ofM f) s
    let m := onFrame (absS s flag) f
    absS res.2 m.1.ackTimeoutReset = m.1 ∧ evsOf s res.2 res.1 = m.2 ∧ WFs res.2 ∧ res.2.rx_seq < 8 ∧
      s.trace <+: res.2.trace ∧ res.2.buffer = s.buffer ∧ res.2.discarding = s.discarding := frame_received_eq s hw hrx f flag

/-- source level: a DATA frame's payload is handed up iff its number is the expected one, then exactly once -/
theorem c04_src_accept_iff (s : S) (hw : WFs s) (hrx : s.rx_seq < 8) (ho : isOpen s = true)
    (n : Nat) (r : Bool) (a : Nat) (p : List UInt8) :
    ups (srcEvs s (BV.Src.Ash.AshProtocol.frame_received (ofM (.data n r a p)) s).2) =
      if n = s.rx_seq then [p] else [] := by
  obtain ⟨-, h2, -, -, -⟩ := frame_received_eq s hw hrx (.data n r a p) false
  rw [← ups_evsOf _ _ (BV.Src.Ash.AshProtocol.frame_received (ofM (.data n r a p)) s).1, h2]
  exact c04_accept_iff (absS s false) ho n r a p

theorem srcRun_spec (s : S) (hw : WFs s) (hrx : s.rx_seq < 8) (ho : isOpen s = true) (fs : List Frame)
    (acc : List (List UInt8)) :
    ((srcRun s fs).rx_seq, acc ++ ups (srcEvs s (srcRun s fs))) = fs.foldl specStep (s.rx_seq, acc) ∧
      s.trace <+: (srcRun s fs).trace := by
  induction fs generalizing s acc with
  | nil => simp [srcRun, srcEvs, ups]
  | cons f fs ih =>
    obtain ⟨h1, h2, h3, h4, h5, -, -⟩ := frame_received_eq s hw hrx f false
    have hspec := onFrame_spec (absS s false) ho f acc
    have ho' : isOpen (BV.Src.Ash.AshProtocol.frame_received (ofM f) s).2 = true := by
      have := congrArg Rx.open_ h1
      simp only [absS] at this
      rw [this, onFrame_open]; exact ho
    obtain ⟨ih1, ih2⟩ := ih _ h3 h4 ho' (acc ++ ups (srcEvs s (BV.Src.Ash.AshProtocol.frame_received (ofM f) s).2))
    have hrxeq : (BV.Src.Ash.AshProtocol.frame_received (ofM f) s).2.rx_seq = (onFrame (absS s false) f).1.rxSeq := by
      have := congrArg Rx.rxSeq h1
      simpa [absS] using this
    refine ⟨?_, h5.trans ih2⟩
    simp only [srcRun, List.foldl_cons]
    rw [srcEvs_trans s _ _ h5 ih2, ups, List.filterMap_append, ← List.append_assoc]
    have : (s.rx_seq, acc) = ((absS s false).rxSeq, acc) := rfl
    rw [this, ← hspec, ← h2, ups_evsOf, ← hrxeq]
    exact ih1

/-- **any frame sequence, source level**: what `frame_received` of the source hands up over a whole sequence of frames is
exactly the payloads that were in sequence when they arrived, in order, each once; the expected number follows
the abstract acceptor -/
theorem c04_src_sequence (s : S) (hw : WFs s) (hrx : s.rx_seq < 8) (ho : isOpen s = true) (fs : List Frame)
    (acc : List (List UInt8)) :
    ((srcRun s fs).rx_seq, acc ++ ups (srcEvs s (srcRun s fs))) = fs.foldl specStep (s.rx_seq, acc) :=
  (srcRun_spec s hw hrx ho fs acc).1

example : WFs {} ∧ ({} : S).rx_seq < 8 ∧ isOpen {} = true := ⟨⟨by simp, by simp, by simp⟩, by decide, by decide⟩

end Source

end BV.Props.C04
