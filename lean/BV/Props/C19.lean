/-
C19 — Watchdog requests a restart only after the tolerated run of consecutive failures.
-/
import BV.Model.Watchdog
import BV.Proofs.Src.Wd
namespace BV.Props.C19
open BV.Watchdog BV.Gen.App

/-- number of consecutive failures at the end of a word (specification side) -/
def trailingFailures : List Outcome → Nat
  | [] => 0
  | os => (os.reverse.takeWhile Outcome.failed).length

theorem trailing_snoc (os : List Outcome) (o : Outcome) :
    trailingFailures (os ++ [o]) = if o.failed then trailingFailures os + 1 else 0 := by
  unfold trailingFailures
  cases os with
  | nil => cases o <;> simp [Outcome.failed, List.takeWhile]
  | cons a as =>
    simp only [List.reverse_append, List.reverse_cons, List.reverse_nil, List.nil_append,
      List.singleton_append]
    cases h : o.failed <;> simp [List.takeWhile, h]
    all_goals (split <;> simp_all)

/-- invariant: the counter is the number of trailing failures of the word fed so far -/
theorem failures_eq (v : Nat) (os : List Outcome) :
    (final v {} os).failures = trailingFailures os := by
  suffices h : ∀ (pre : List Outcome) (w : Wd), w.failures = trailingFailures pre →
      (final v w os).failures = trailingFailures (pre ++ os) by
    simpa using h [] {} rfl
  induction os with
  | nil => intro pre w h; simpa [final] using h
  | cons o os ih =>
    intro pre w h
    have := ih (pre ++ [o]) (feed v w o).1 (by
      rw [trailing_snoc]
      unfold feed
      cases hf : o.failed <;> simp [hf, h])
    simpa [final, List.append_assoc] using this

/-- The feed after the word `pre` raises exactly when its outcome is a failure and it is
preceded by at least MAX_WATCHDOG_FAILURES consecutive failures (i.e. the run of failures,
this one included, exceeds the tolerated maximum). Any word, any protocol version. -/
theorem c19_raise_iff (v : Nat) (pre : List Outcome) (o : Outcome) :
    (feed v (final v {} pre) o).2.1 = true ↔
      (o.failed = true ∧ trailingFailures pre ≥ maxWatchdogFailures) := by
  have h := failures_eq v pre
  unfold feed
  cases hf : o.failed <;> simp [hf, h] <;> omega

/-- same statement on the whole run: the k-th answer of `run` is the raise decision above -/
theorem c19_run_spec (v : Nat) (os : List Outcome) (k : Nat) (hk : k < os.length) :
    ((run v {} os)[k]?).map (·.1) =
      some (decide (os[k].failed = true ∧ trailingFailures (os.take k) ≥ maxWatchdogFailures)) := by
  suffices h : ∀ (pre : List Outcome) (os : List Outcome) (k : Nat) (hk : k < os.length),
      ((run v (final v {} pre) os)[k]?).map (·.1) =
      some (decide (os[k].failed = true ∧ trailingFailures (pre ++ os.take k) ≥ maxWatchdogFailures)) by
    simpa [final] using h [] os k hk
  intro pre os
  induction os generalizing pre with
  | nil => intro k hk; simp at hk
  | cons o os ih =>
    intro k hk
    cases k with
    | zero =>
      simp only [run, List.getElem?_cons_zero, Option.map_some, List.take_zero, List.append_nil,
        List.getElem_cons_zero, Option.some.injEq]
      have := c19_raise_iff v pre o
      cases hb : (feed v (final v {} pre) o).2.1 <;> simp_all
    | succ k =>
      have hfin : (feed v (final v {} pre) o).1 = final v {} (pre ++ [o]) := by
        have : ∀ (w : Wd) (xs : List Outcome), final v w (xs ++ [o]) = (feed v (final v w xs) o).1 := by
          intro w xs; induction xs generalizing w with
          | nil => simp [final]
          | cons x xs ih => simp [final, ih]
        exact (this {} pre).symm
      simp only [run, List.getElem?_cons_succ, List.getElem_cons_succ, List.take_succ_cons]
      rw [hfin]
      have := ih (pre ++ [o]) k (by simpa using hk)
      simpa [List.append_assoc] using this

/-- any successful feed clears the count -/
theorem c19_success_clears (v : Nat) (w : Wd) : (feed v w .ok).1.failures = 0 := by
  simp [feed, Outcome.failed]

/-- keep-alive choice: a no-op command on protocol version 4 -/
theorem c19_keepalive_v4 (w : Wd) (o : Outcome) : (feed 4 w o).2.2 = .nop := by
  unfold feed keepAlive; cases o <;> simp [Outcome.failed]

/-- … and a counter read otherwise; the read-and-clear variant exactly when the feed count
(this feed included) is a multiple of the configured period -/
theorem c19_keepalive_later (v : Nat) (hv : v ≠ 4) (w : Wd) (o : Outcome) :
    (feed v w o).2.2 =
      if (w.feedCounter + 1) % countersClearPeriods = 0 then .readAndClearCounters else .readCounters := by
  unfold feed keepAlive
  cases o <;> simp [Outcome.failed, hv] <;> split <;> simp_all <;> omega

/-- the feed count advances by one per feed on versions other than 4 (so the period is in feeds) -/
theorem c19_counter_advances (v : Nat) (hv : v ≠ 4) (w : Wd) (o : Outcome) :
    (feed v w o).1.feedCounter = w.feedCounter + 1 := by
  unfold feed keepAlive
  cases o <;> simp [Outcome.failed, hv] <;> split <;> simp_all

/-- non-vacuity (for the generated constant): some word raises, and a success in between prevents it -/
example : ((run 8 {} (List.replicate (maxWatchdogFailures + 1) .timeout)).map (·.1)).getLast? = some true := by decide
example : ((run 8 {} (List.replicate maxWatchdogFailures .timeout ++ [.ok, .timeout])).map (·.1)).getLast? = some false := by decide

/-! ### the same statements over the coroutine generated from `ControllerApplication._watchdog_feed` (BV/Gen/SrcWd.lean)

The feed is translated from the syntax tree on every run (awaited keep-alive calls are calls on a scripted command layer; the
statements that only touch zigpy's counter objects are pinned by their text); `BV.Proofs.Src.Wd` proves one feed to be one step
`feed` of the model above.  A feed has *two* awaited calls on versions other than 4 (the counter read and the free-buffer read): a
counted exception out of either makes it a failed feed. -/
section Src
open BV.Py BV.Src.Wd BV.Proofs.Src.Wd

/-- a feed whose calls are all answered: the model's successful step (the count is cleared, nothing is raised) -/
theorem c19_src_feed_ok (a : WdApp) (rest : List WResp) :
    (a.version = 4 → a.script = .ok :: rest → FeedRel a (watchdog_feed a) .ok "") ∧
    (∀ b, a.version ≠ 4 → a.script = .ok :: .buffers b :: rest → FeedRel a (watchdog_feed a) .ok "") :=
  ⟨fun hv hs => (feed_v4_ok a rest hv hs).1, fun b hv hs => (feed_ok a rest b hv hs).1⟩

/-- a feed in which a call raises a counted class (timeout, EZSP error or a subclass): the model's failed step, whichever of the
feed's calls it was -/
theorem c19_src_feed_fail (a : WdApp) (rest : List WResp) (c : String) (hc : c ∈ counted) :
    (a.version = 4 → a.script = .raises c :: rest → FeedRel a (watchdog_feed a) .timeout c) ∧
    (a.version ≠ 4 → a.script = .raises c :: rest → FeedRel a (watchdog_feed a) .timeout c) ∧
    (a.version ≠ 4 → a.script = .ok :: .raises c :: rest → FeedRel a (watchdog_feed a) .timeout c) :=
  ⟨fun hv hs => (feed_v4_fail a rest c hc hv hs).1, fun hv hs => (feed_fail_first a rest c hc hv hs).1,
   fun hv hs => (feed_fail_second a rest c hc hv hs).1⟩

/-- **exactly when** (source level): a failed feed raises iff the count it arrives with is already at the tolerated maximum; a
successful one never raises and clears the count -/
theorem c19_src_raise_iff (a : WdApp) (rest : List WResp) (c : String) (hc : c ∈ counted) (hv : a.version ≠ 4)
    (hs : a.script = .raises c :: rest) :
    ((watchdog_feed a).1 = .error (.raised c) ↔ a.failures ≥ maxWatchdogFailures) ∧
    ((watchdog_feed a).1 = .ok () ↔ a.failures < maxWatchdogFailures) ∧
    (watchdog_feed a).2.failures = a.failures + 1 := by
  obtain ⟨h1, h2, -, -⟩ := (feed_fail_first a rest c hc hv hs).1
  have hf : (feed a.version (absW a) .timeout).2.1 = decide (a.failures + 1 > maxWatchdogFailures) := by
    simp [feed, Outcome.failed, absW]
  have hn : (feed a.version (absW a) .timeout).1.failures = a.failures + 1 := by
    simp [feed, Outcome.failed, absW]
  rw [hf] at h2
  refine ⟨?_, ?_, ?_⟩
  · rw [h2]
    by_cases h : a.failures + 1 > maxWatchdogFailures
    · simp [h]; omega
    · simp [h]; omega
  · rw [h2]
    by_cases h : a.failures + 1 > maxWatchdogFailures
    · simp [h]; omega
    · simp [h]; omega
  · have := congrArg Wd.failures h1
    rw [hn] at this
    exact this

/-- non-vacuity: four failures tolerated, the fifth raises; the periodic read-and-clear at the period boundary -/
example : (watchdog_feed { version := 8, failures := 4, script := [.raises "TimeoutError"] }).1 = .error (.raised "TimeoutError") := by
  decide +kernel
example : (watchdog_feed { version := 8, failures := 3, script := [.raises "EzspError"] }).1 = .ok () := by decide +kernel
example : (watchdog_feed { version := 8, feed_counter := 179, script := [.ok, .buffers (some 7)] }).2.trace =
    [.readAndClearCounters, .countersUpdate, .countersReset, .getFreeBuffers, .buffersSet (some 7)] := by decide +kernel

end Src

end BV.Props.C19
