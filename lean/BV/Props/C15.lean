/-
C15 — Host view of the multicast table matches the NCP and never leaks slots.
Model: BV/Model/Multicast.lean (Multicast._initialize / subscribe / unsubscribe and the
abstract NCP table: a write answered OK is applied, a rejected or timed-out one is not).
All theorems are for every operation sequence, every table size, every initial table in
which each group is programmed at most once, every answer and every `set.pop()` choice.
-/
import BV.Proofs.McastLemmas
import BV.Proofs.Src.Mcast
namespace BV.Props.C15
open BV.Mcast

theorem getElem?_lt {tab : Tab} {i : Nat} {x : Nat × Nat} (h : tab[i]? = some x) : i < tab.length := by
  rcases Nat.lt_or_ge i tab.length with h' | h'
  · exact h'
  · rw [List.getElem?_eq_none h'] at h; cases h

/-- one step preserves the invariant -/
theorem step_inv {h : Host} {tab : Tab} (inv : Inv h tab) (op : Op) :
    Inv (step h tab op).1 (step h tab op).2.1 := by
  cases op with
  | init => exact scan_inv tab inv.nodupGroups
  | subscribe g c a =>
    unfold step
    by_cases h1 : (lookupIdx h.mc g).isSome
    · simpa [h1] using inv
    · by_cases h2 : h.avail = []
      · simpa [h1, h2] using inv
      · by_cases h3 : c ∉ h.avail
        · simpa [h1, h2, h3] using inv
        · have hc : c ∈ h.avail := by simpa using h3
          simp only [h1, h2, h3, if_false, Bool.false_eq_true]
          have hgn : g ∉ h.mc.map (·.1) := by
            rw [← lookupIdx_isSome]; exact h1
          obtain ⟨g0, hg0⟩ := inv.free c hc
          have hclt := getElem?_lt hg0
          have hmemE : ∀ j, j ∈ h.avail.erase c ↔ j ∈ h.avail ∧ j ≠ c := by
            intro j; rw [inv.aNodup.mem_erase_iff]; exact And.comm
          have hback : ∀ j, j ∈ addAvail (h.avail.erase c) c ↔ j ∈ h.avail := by
            intro j; rw [mem_addAvail, hmemE]
            constructor
            · rintro (⟨h, _⟩ | h); exact h; exact h ▸ hc
            · intro hj; by_cases e : j = c; exact Or.inr e; exact Or.inl ⟨hj, e⟩
          have hbackInv : Inv { h with avail := addAvail (h.avail.erase c) c } tab :=
            ⟨inv.gNodup, inv.used, addAvail_nodup (inv.aNodup.erase c) c,
              fun i hi => inv.free i ((hback i).mp hi),
              fun i hi => (inv.cover i hi).imp (fun x => (hback i).mpr x) id⟩
          cases a with
          | reject st => exact hbackInv
          | timeout => exact hbackInv
          | ok =>
            simp only
            rw [mcSet_absent hgn]
            refine ⟨?_, ?_, inv.aNodup.erase c, ?_, ?_⟩
            · simp only [groups, List.map_append, List.map_cons, List.map_nil]
              rw [List.nodup_append]
              refine ⟨inv.gNodup, by simp, ?_⟩
              intro x hx y hy; simp at hy; subst hy; intro e; subst e; exact hgn hx
            · intro g' i hm
              rcases List.mem_append.mp hm with hm | hm
              · obtain ⟨ep, hep, hne⟩ := inv.used g' i hm
                have : i ≠ c := by
                  intro e; subst e; rw [hg0] at hep; simp at hep; exact hne hep.2.symm
                exact ⟨ep, by rw [List.getElem?_set_ne (Ne.symm this)]; exact hep, hne⟩
              · simp at hm; obtain ⟨rfl, rfl⟩ := hm
                exact ⟨1, by rw [List.getElem?_set_self hclt], by simp⟩
            · intro i hi
              obtain ⟨hi1, hi2⟩ := (hmemE i).mp hi
              obtain ⟨g', hg'⟩ := inv.free i hi1
              exact ⟨g', by rw [List.getElem?_set_ne (Ne.symm hi2)]; exact hg'⟩
            · intro i hi
              rw [List.length_set] at hi
              by_cases e : i = c
              · subst e; exact Or.inr ⟨g, by simp⟩
              · rcases inv.cover i hi with h | ⟨g', h⟩
                · exact Or.inl ((hmemE i).mpr ⟨h, e⟩)
                · exact Or.inr ⟨g', List.mem_append_left _ h⟩
  | unsubscribe g a =>
    unfold step
    cases hl : lookupIdx h.mc g with
    | none => simpa [hl] using inv
    | some idx =>
      simp only [hl]
      have hm : (g, idx) ∈ h.mc := lookupIdx_some hl
      obtain ⟨ep, hep, hne⟩ := inv.used g idx hm
      have hlt := getElem?_lt hep
      cases a with
      | reject st => simpa using inv
      | timeout => simpa using inv
      | ok =>
        simp only
        refine ⟨?_, ?_, addAvail_nodup inv.aNodup idx, ?_, ?_⟩
        · simp only [groups]
          exact (List.filter_sublist.map _).nodup inv.gNodup
        · intro g' i hmem
          simp only [List.mem_filter, bne_iff_ne, ne_eq] at hmem
          obtain ⟨ep', hep', hne'⟩ := inv.used g' i hmem.1
          have : i ≠ idx := by
            intro e; subst e; rw [hep] at hep'; simp at hep'; exact hmem.2 hep'.1.symm
          exact ⟨ep', by rw [List.getElem?_set_ne (Ne.symm this)]; exact hep', hne'⟩
        · intro i hi
          rcases mem_addAvail.mp hi with hi | hi
          · obtain ⟨g', hg'⟩ := inv.free i hi
            have : i ≠ idx := by
              intro e; subst e; rw [hep] at hg'; simp at hg'; exact hne hg'.2
            exact ⟨g', by rw [List.getElem?_set_ne (Ne.symm this)]; exact hg'⟩
          · subst hi; exact ⟨g, by rw [List.getElem?_set_self hlt]⟩
        · intro i hi
          rw [List.length_set] at hi
          rcases inv.cover i hi with h1 | ⟨g', h1⟩
          · exact Or.inl (mem_addAvail.mpr (Or.inl h1))
          · by_cases e : g' = g
            · subst e
              exact Or.inl (mem_addAvail.mpr (Or.inr (same_group_idx inv.gNodup h1 hm)))
            · exact Or.inr ⟨g', by simp [List.mem_filter, h1, e]⟩

theorem run_inv {h : Host} {tab : Tab} (inv : Inv h tab) (ops : List Op) :
    Inv (run h tab ops).1 (run h tab ops).2.1 := by
  induction ops generalizing h tab with
  | nil => exact inv
  | cons op ops ih => simpa [run] using ih (step_inv inv op)

/-- After start-up and any further sequence of start-up / subscribe / unsubscribe calls the
bookkeeping invariant holds (every reachable state). -/
theorem c15_inv (tab0 : Tab) (h0 : Host) (hng : NodupGroups tab0) (ops : List Op) :
    Inv (run h0 tab0 (.init :: ops)).1 (run h0 tab0 (.init :: ops)).2.1 := by
  simpa [run, step] using run_inv (scan_inv tab0 hng) ops

/-- The groups the host reports as subscribed are exactly those programmed with a non-zero
endpoint in the NCP's table. -/
theorem c15_mirror {h : Host} {tab : Tab} (inv : Inv h tab) (g : Nat) :
    g ∈ groups h ↔ ∃ (i ep : Nat), tab[i]? = some (g, ep) ∧ ep ≠ 0 := by
  constructor
  · intro hg
    obtain ⟨⟨g', i⟩, hm, e⟩ := List.mem_map.mp hg
    simp at e; subst e
    obtain ⟨ep, hep, hne⟩ := inv.used g' i hm
    exact ⟨i, ep, hep, hne⟩
  · rintro ⟨i, ep, hep, hne⟩
    rcases inv.cover i (getElem?_lt hep) with ha | ⟨g', hg'⟩
    · obtain ⟨g0, h0⟩ := inv.free i ha
      rw [hep] at h0; simp at h0; exact absurd h0.2 hne
    · obtain ⟨ep', hep', _⟩ := inv.used g' i hg'
      rw [hep] at hep'; simp at hep'
      exact List.mem_map.mpr ⟨(g', i), hg', hep'.1.symm⟩

/-- Every table index is either free or used by exactly one group (never both, never neither). -/
theorem c15_partition {h : Host} {tab : Tab} (inv : Inv h tab) (i : Nat) (hi : i < tab.length) :
    (i ∈ h.avail ∧ ∀ g, (g, i) ∉ h.mc) ∨
    (i ∉ h.avail ∧ ∃ g, (g, i) ∈ h.mc ∧ ∀ g', (g', i) ∈ h.mc → g' = g) := by
  have excl : ∀ g, i ∈ h.avail → (g, i) ∈ h.mc → False := by
    intro g ha hm
    obtain ⟨g0, h0⟩ := inv.free i ha
    obtain ⟨ep, hep, hne⟩ := inv.used g i hm
    rw [h0] at hep; simp at hep; exact hne hep.2.symm
  rcases inv.cover i hi with ha | ⟨g, hm⟩
  · exact Or.inl ⟨ha, fun g hm => excl g ha hm⟩
  · refine Or.inr ⟨fun ha => excl g ha hm, g, hm, ?_⟩
    intro g' hm'
    obtain ⟨ep, hep, _⟩ := inv.used g i hm
    obtain ⟨ep', hep', _⟩ := inv.used g' i hm'
    rw [hep] at hep'; simp at hep'; exact hep'.1.symm

/-- Subscribing to an already subscribed group succeeds without a table write (and changes nothing). -/
theorem c15_resubscribe (h : Host) (tab : Tab) (g c : Nat) (a : Ans) (hg : g ∈ groups h) :
    step h tab (.subscribe g c a) = (h, tab, ⟨.ok, none⟩) := by
  have : (lookupIdx h.mc g).isSome = true := lookupIdx_isSome.mpr hg
  simp [step, this]

/-- Subscribing with no free index reports failure and writes nothing. -/
theorem c15_full (h : Host) (tab : Tab) (g c : Nat) (a : Ans) (hg : g ∉ groups h) (hf : h.avail = []) :
    step h tab (.subscribe g c a) = (h, tab, ⟨.invalidIndex, none⟩) := by
  have : (lookupIdx h.mc g).isSome = false := by
    cases hs : (lookupIdx h.mc g).isSome
    · rfl
    · exact absurd (lookupIdx_isSome.mp hs) hg
  simp [step, this, hf]

/-- A call that fails — by rejection or by a command timeout — leaves the number of free
indices unchanged. (`choice ∈ avail` is what `set.pop()` guarantees.) -/
theorem c15_failed_call_keeps_free {h : Host} {tab : Tab} (inv : Inv h tab) (op : Op)
    (hop : op ≠ .init) (hch : ∀ g c a, op = .subscribe g c a → h.avail ≠ [] → c ∈ h.avail)
    (hfail : (step h tab op).2.2.res ≠ .ok) :
    (step h tab op).1.avail.length = h.avail.length := by
  cases op with
  | init => exact absurd rfl hop
  | subscribe g c a =>
    unfold step at hfail ⊢
    by_cases h1 : (lookupIdx h.mc g).isSome
    · simp [h1] at hfail
    · by_cases h2 : h.avail = []
      · simp [h1, h2]
      · have hc : c ∈ h.avail := hch g c a rfl h2
        simp only [h1, h2, hc, not_true_eq_false, if_false, Bool.false_eq_true] at hfail ⊢
        have hlen : (addAvail (h.avail.erase c) c).length = h.avail.length := by
          unfold addAvail
          have : c ∉ h.avail.erase c := fun hm => (inv.aNodup.mem_erase_iff.mp hm).1 rfl
          simp only [this, if_false, List.length_append, List.length_erase_of_mem hc, List.length_cons,
            List.length_nil]
          have : 0 < h.avail.length := List.length_pos_of_mem hc
          omega
        cases a with
        | ok => simp at hfail
        | reject st => exact hlen
        | timeout => exact hlen
  | unsubscribe g a =>
    unfold step at hfail ⊢
    cases hl : lookupIdx h.mc g with
    | none => simp [hl]
    | some idx =>
      simp only [hl] at hfail ⊢
      cases a with
      | ok => simp at hfail
      | reject st => simp
      | timeout => simp

/-- A successful subscribe programs the group with a non-zero endpoint at a previously free
index; a successful unsubscribe clears it and frees the index. -/
theorem c15_write_shape (h : Host) (tab : Tab) (op : Op) (i g ep : Nat)
    (hw : (step h tab op).2.2.write = some (i, g, ep)) :
    (∃ c a, op = .subscribe g c a ∧ i = c ∧ ep = 1 ∧ c ∈ h.avail ∧ g ∉ groups h) ∨
    (∃ a, op = .unsubscribe g a ∧ ep = 0 ∧ (g, i) ∈ h.mc) := by
  cases op with
  | init => simp [step] at hw
  | subscribe g' c a =>
    unfold step at hw
    by_cases h1 : (lookupIdx h.mc g').isSome
    · simp [h1] at hw
    · by_cases h2 : h.avail = []
      · simp [h1, h2] at hw
      · by_cases h3 : c ∉ h.avail
        · simp [h1, h2, h3] at hw
        · have hc : c ∈ h.avail := by simpa using h3
          have hgn : g' ∉ groups h := by unfold groups; rw [← lookupIdx_isSome]; exact h1
          simp only [h1, h2, h3, if_false, Bool.false_eq_true] at hw
          cases a <;> simp at hw <;> obtain ⟨rfl, rfl, rfl⟩ := hw <;>
            exact Or.inl ⟨_, _, rfl, rfl, rfl, hc, hgn⟩
  | unsubscribe g' a =>
    unfold step at hw
    cases hl : lookupIdx h.mc g' with
    | none => simp [hl] at hw
    | some idx =>
      have hm := lookupIdx_some hl
      simp only [hl] at hw
      cases a <;> simp at hw <;> obtain ⟨rfl, rfl, rfl⟩ := hw <;> exact Or.inr ⟨_, rfl, rfl, hm⟩

/-- non-vacuity: a concrete reachable history with a rejected and a timed-out write -/
example :
    let r := run {} [(7, 1), (0, 0), (9, 0)]
      [.init, .subscribe 5 1 .ok, .subscribe 6 2 .timeout, .subscribe 6 2 (.reject 3), .unsubscribe 7 .ok]
    r.1.mc = [(5, 1)] ∧ r.1.avail = [2, 0] ∧ r.2.1 = [(7, 0), (5, 1), (9, 0)] := by decide

/-! ### the same statements over the coroutines generated from bellows/multicast.py (BV/Gen/SrcMcast.lean)

`Multicast.subscribe`, `Multicast.unsubscribe` and `Multicast._initialize` are translated from the syntax tree on every run (each
`await` a call on a scripted command layer, `set.pop()` a scripted choice); `BV.Proofs.Src.Mcast` proves them to be the steps of
the model above.  Here the property's clauses are restated over the generated definitions. -/
section Src
open BV.Py BV.Src.Mcast BV.Proofs.Src.Mcast

/-- the translated `subscribe` *is* the model's subscribe step -/
theorem c15_src_subscribe (m : M) (tab : Tab) (g c : Nat) (cs : List Nat) (r : Resp) (rest : List Resp) (a : Ans)
    (hw : WF m) (hg : g < 65536) (hs : m.script = r :: rest) (hc : m.choices = c :: cs)
    (hca : m.available ≠ [] → c ∈ m.available) (ha : ansOf r = some a) :
    absH (Multicast.subscribe g m).2 = (step (absH m) tab (.subscribe g c a)).1 ∧
    WF (Multicast.subscribe g m).2 ∧
    resRel (Multicast.subscribe g m).1 (step (absH m) tab (.subscribe g c a)).2.2.res ∧
    writeRel ((Multicast.subscribe g m).2.trace.drop m.trace.length) (step (absH m) tab (.subscribe g c a)).2.2.write :=
  subscribe_eq m tab g c cs r rest a hw hg hs hc hca ha

/-- the translated `unsubscribe` *is* the model's unsubscribe step -/
theorem c15_src_unsubscribe (m : M) (tab : Tab) (g : Nat) (r : Resp) (rest : List Resp) (a : Ans)
    (hw : WF m) (hs : m.script = r :: rest) (ha : ansOf r = some a) :
    absH (Multicast.unsubscribe g m).2 = (step (absH m) tab (.unsubscribe g a)).1 ∧
    WF (Multicast.unsubscribe g m).2 ∧
    resRel (Multicast.unsubscribe g m).1 (step (absH m) tab (.unsubscribe g a)).2.2.res ∧
    writeRel ((Multicast.unsubscribe g m).2.trace.drop m.trace.length) (step (absH m) tab (.unsubscribe g a)).2.2.write :=
  unsubscribe_eq m tab g r rest a hw hs ha

/-- the translated `_initialize` *is* the model's table scan (all reads succeeding) -/
theorem c15_src_initialize (m : M) (rows : List Row) (rest : List Resp) (stc : StatusV) (hc : statusIsOk stc = true)
    (hall : ∀ r ∈ rows, statusIsOk r.1 = true)
    (hs : m.script = Resp.cfg stc rows.length :: (rows.map (fun r => Resp.entry r.1 r.2) ++ rest)) :
    ∃ m', Multicast.u_initialize m = (.ok (), m') ∧ absH m' = scan (tabOf rows) ∧ m'.script = rest ∧ WF m' ∧
      m'.trace = m.trace ++ .getConfig 6 :: (List.range rows.length).map MEv.getEntry :=
  initialize_eq m rows rest stc hc hall hs

/-- **a subscribe that fails - the table write is rejected or the command raises - leaves the number of free indices
unchanged** (source level; the clause the `fix:` commit 76e3f6a restored) -/
theorem c15_src_failed_subscribe_keeps_free (m : M) (tab : Tab) (g c : Nat) (cs : List Nat) (r : Resp) (rest : List Resp) (a : Ans)
    (inv : Inv (absH m) tab) (hw : WF m) (hg : g < 65536) (hs : m.script = r :: rest) (hc : m.choices = c :: cs)
    (hca : m.available ≠ [] → c ∈ m.available) (ha : ansOf r = some a)
    (hfail : ∀ st, (Multicast.subscribe g m).1 = .ok st → statusIsOk st = false) :
    (Multicast.subscribe g m).2.available.length = m.available.length := by
  obtain ⟨h1, -, h3, -⟩ := subscribe_eq m tab g c cs r rest a hw hg hs hc hca ha
  have hne : (step (absH m) tab (.subscribe g c a)).2.2.res ≠ .ok := by
    intro he
    rw [he] at h3
    obtain ⟨st, e1, e2⟩ := h3
    have := hfail st e1
    rw [e2] at this
    exact Bool.noConfusion this
  have := c15_failed_call_keeps_free inv (.subscribe g c a) (by simp)
    (by intro g' c' a' he hne'; cases he; exact hca hne') hne
  rw [← h1] at this
  exact this

/-- non-vacuity: a table with one free slot; the write is refused with a failure status - the slot is free again, the refusal
is what the caller gets, one table write was issued -/
example : Multicast.subscribe 5 { available := [0], script := [.one (.ember 1)], choices := [0] } =
    (.ok (.ember 1), { available := [0], script := [], choices := [],
                       trace := [.setEntry 0 { multicastId := 5, endpoint := 1, networkIndex := 0 }] }) := by decide +kernel

example : (Multicast.subscribe 5 { available := [0], script := [.raises "TimeoutError"], choices := [0] }).2.available = [0] := by
  decide +kernel

end Src

end BV.Props.C15
