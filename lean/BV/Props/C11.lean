/-
C11 — the reset handshake completes only on the NCP's software-reset acknowledgement.
Model: BV.Reset (Gateway.reset / wait_for_startup_reset / reset_received / error_received /
connection_lost / eof_received over the ASH receiver model; batches of primitives per loop iteration).
-/
import BV.Model.Stack.Reset
import BV.Props.C04
import BV.Proofs.Src.Uart
import BV.Proofs.Src.UartReset
namespace BV.Props.C11
open BV.Reset BV.Ash BV.Gen.Ash

/-- a reset request on an open transport with no request in progress writes exactly the CANCEL-prefixed
RST frame `1A C0 38 BC 7E` (computed from the C03 frame model) and arms the reset timeout -/
theorem c11_rst_bytes (s : GW) (c : Nat) (h1 : s.resetFut = none) (h2 : s.ash.open_ = true) :
    (prim s (.reset c)).2 = [.write [0x1A, 0xC0, 0x38, 0xBC, 0x7E]] ∧
    (prim s (.reset c)).1.deadline = some (s.now + resetTimeoutT) ∧
    (prim s (.reset c)).1.resetFut = some .pending := by
  have hw : wire [resCancel] .rst = [0x1A, 0xC0, 0x38, 0xBC, 0x7E] := by decide +kernel
  simp [prim, h1, h2, hw]

/-- **only the software-reset acknowledgement completes the request**, for all 256 codes: an RSTACK
resolves a pending reset future iff its code is RESET_SOFTWARE (0x0B); with any other code it is reported
as an NCP failure and the request stays pending -/
theorem c11_only_software_rstack (s : GW) (code : Nat) (h : s.resetFut = some .pending) :
    (code = resetSoftware →
        (resetReceived s code).1.resetFut = some .result ∧ (resetReceived s code).1.waitFut = .result ∧
        (resetReceived s code).2 = []) ∧
    (code ≠ resetSoftware → resetReceived s code = (s, [.enterFailed code])) := by
  constructor
  · intro hc; simp [resetReceived, hc, h]
  · intro hc; simp [resetReceived, hc]

/-- an ERROR frame, whatever code it carries, is an NCP failure and never a completion -/
theorem c11_error_is_failure (s : GW) (v code : UInt8) :
    (prim s (.frame (.error v code))).2 = [.enterFailed code.toNat] ∧
    (prim s (.frame (.error v code))).1.resetFut = s.resetFut ∧
    (prim s (.frame (.error v code))).1.waitFut = s.waitFut ∧
    (prim s (.frame (.error v code))).1.startupFut = s.startupFut := by
  simp [prim, onFrame, cancelPending]

theorem onData_events (t : Rx) (n : Nat) (r : Bool) (p : List UInt8) :
    ∀ e ∈ (onData t n r p).2, ∀ c, e ≠ Ev.reset c := by
  intro e he c hc
  subst hc
  unfold onData writeFrame at he
  by_cases h1 : n = t.rxSeq <;> by_cases h2 : t.open_ = true <;> cases r <;> simp_all

theorem fold_keeps {β : Type} (g : GW × β → Ev → GW × β) (evs : List Ev)
    (hg : ∀ acc e, (∀ c, e ≠ Ev.reset c) → (g acc e).1 = acc.1)
    (hno : ∀ e ∈ evs, ∀ c, e ≠ Ev.reset c) (init : GW × β) : (evs.foldl g init).1 = init.1 := by
  induction evs generalizing init with
  | nil => rfl
  | cons e es ih =>
    simp only [List.foldl_cons]
    rw [ih (fun x hx => hno x (List.mem_cons_of_mem _ hx)), hg _ _ (hno e (by simp))]

/-- frames other than RSTACK and ERROR never touch the reset / start-up futures -/
theorem c11_other_frames (s : GW) (f : Frame) (h1 : ∀ v c, f ≠ .rstack v c) (h2 : ∀ v c, f ≠ .error v c) :
    (prim s (.frame f)).1.resetFut = s.resetFut ∧ (prim s (.frame f)).1.startupFut = s.startupFut ∧
    (prim s (.frame f)).1.waitFut = s.waitFut := by
  have hno : ∀ e ∈ (onFrame s.ash f).2, ∀ c, e ≠ Ev.reset c := by
    cases f with
    | data n r a p =>
      obtain ⟨t, ht, -, -, -, -⟩ := C04.onFrame_data s.ash n r a p
      rw [ht]; exact onData_events t n r p
    | ack x y a => intro e he; simp [onFrame] at he
    | nak x y a => intro e he; simp [onFrame] at he
    | rst => intro e he; simp [onFrame] at he
    | rstack v c => exact absurd rfl (h1 v c)
    | error v c => exact absurd rfl (h2 v c)
  simp only [prim]
  rw [fold_keeps _ _ _ hno]
  · exact ⟨rfl, rfl, rfl⟩
  · intro acc e he
    cases e with
    | write b => rfl
    | up p => rfl
    | raised => rfl
    | reset c => exact absurd rfl (he c)

/-- after a software-reset RSTACK both directions restart at frame number zero, from every counter state -/
theorem c11_counters_zero (s : GW) (v code : UInt8) :
    (prim s (.frame (.rstack v code))).1.ash.rxSeq = 0 ∧ (prim s (.frame (.rstack v code))).1.ash.txSeq = 0 := by
  simp only [prim, onFrame, List.foldl_cons, List.foldl_nil]
  unfold resetReceived
  split
  · simp
  · split
    · simp
    · split <;> simp

/-- no reply in time: the request raises TimeoutError when the clock reaches `start + RESET_TIMEOUT` -/
theorem c11_timeout (s : GW) (c : Nat) (h1 : s.resetFut = none) (h2 : s.ash.open_ = true)
    (h3 : s.startupFut = none) :
    let s1 := (step s [.reset c]).1
    (step s1 [.timer]).2 = [.resetDone c .timeout] ∧ (step s1 [.timer]).1.now = s.now + resetTimeoutT := by
  simp [step, prim, h1, h2, h3, settle, List.zipIdx]

/-- invariant relating the attribute `_reset_future`, the future object the waiters hold, and the
start-up waiter -/
structure Inv (s : GW) : Prop where
  attr : ∀ st, s.resetFut = some st → st = s.waitFut
  held : s.resetWaiters ≠ [] → s.waitFut = .pending → s.resetFut ≠ none
  startup : s.startupWaiter.isSome → s.startupFut ≠ none

theorem resetReceived_inv (s : GW) (code : Nat) (h : Inv s) : Inv (resetReceived s code).1 := by
  unfold resetReceived
  split
  · exact h
  · split
    · refine ⟨by intro st hs; simp at hs; simp [← hs], by intro _ hp; simp at hp, h.startup⟩
    · split
      · exact ⟨h.attr, h.held, by intro _; simp⟩
      · exact h

theorem connectionLost_spec (s : GW) (e : Bool) (h : Inv s) :
    Inv (connectionLost s e).1 ∧ Out.invalidState ∉ (connectionLost s e).2 ∧
    ((connectionLost s e).1.resetWaiters ≠ [] → (connectionLost s e).1.waitFut ≠ .pending) ∧
    (connectionLost s e).1.startupFut ≠ some .pending ∧
    (connectionLost s e).1.resetWaiters = s.resetWaiters ∧ (connectionLost s e).1.startupWaiter = s.startupWaiter := by
  obtain ⟨ash, rf, wf, sf, rw_, sw, cd, dl, ft, now⟩ := s
  have hattr := h.attr
  have hheld := h.held
  have hstart := h.startup
  simp only at hattr hheld hstart
  have hout : Out.invalidState ∉ (connectionLost ⟨ash, rf, wf, sf, rw_, sw, cd, dl, ft, now⟩ e).2 := by
    cases cd <;> cases e <;> simp [connectionLost]
  refine ⟨?_, hout, ?_, ?_, ?_, ?_⟩
  · cases rf with
    | none =>
      rcases sf with _ | g
      · exact ⟨by intro st hh; simp [connectionLost] at hh, by simpa [connectionLost] using hheld,
          by simpa [connectionLost] using hstart⟩
      · cases g <;> exact ⟨by intro st hh; simp [connectionLost] at hh, by simpa [connectionLost] using hheld,
          by simp [connectionLost]⟩
    | some f =>
      have hw := hattr f rfl
      subst hw
      rcases sf with _ | g
      · cases f <;> exact ⟨by intro st hh; simp [connectionLost] at hh, by simp [connectionLost],
          by simpa [connectionLost] using hstart⟩
      · cases g <;> cases f <;> exact ⟨by intro st hh; simp [connectionLost] at hh, by simp [connectionLost],
          by simp [connectionLost]⟩
  · cases rf with
    | none =>
      rcases sf with _ | g
      · simpa [connectionLost] using hheld
      · cases g <;> simpa [connectionLost] using hheld
    | some f =>
      have hw := hattr f rfl
      subst hw
      rcases sf with _ | g
      · cases f <;> simp [connectionLost]
      · cases g <;> cases f <;> simp [connectionLost]
  · rcases sf with _ | g <;> rcases rf with _ | f
    · simp [connectionLost]
    · cases f <;> simp [connectionLost]
    · cases g <;> simp [connectionLost]
    · cases g <;> cases f <;> simp [connectionLost]
  · rcases sf with _ | g <;> rcases rf with _ | f
    · simp [connectionLost]
    · cases f <;> simp [connectionLost]
    · cases g <;> simp [connectionLost]
    · cases g <;> cases f <;> simp [connectionLost]
  · rcases sf with _ | g <;> rcases rf with _ | f
    · simp [connectionLost]
    · cases f <;> simp [connectionLost]
    · cases g <;> simp [connectionLost]
    · cases g <;> cases f <;> simp [connectionLost]

theorem prim_inv (s : GW) (p : Prim) (h : Inv s) : Inv (prim s p).1 := by
  cases p with
  | reset c =>
    obtain ⟨ash, rf, wf, sf, rw_, sw, cd, dl, ft, now⟩ := s
    cases rf with
    | some f =>
      exact ⟨h.attr, by intro _ hp; simp [prim], h.startup⟩
    | none =>
      simp only [prim]
      split
      · exact ⟨by intro st hs; simp at hs; simp [← hs], by intro _ _; simp, h.startup⟩
      · exact h
  | waitStartup c => exact ⟨h.attr, h.held, by intro _; simp [prim]⟩
  | frame f =>
    simp only [prim]
    generalize (onFrame s.ash f).2 = evs
    have hs0 : Inv { s with ash := (onFrame s.ash f).1 } := ⟨h.attr, h.held, h.startup⟩
    generalize ({ s with ash := (onFrame s.ash f).1 } : GW) = s0 at hs0
    suffices ∀ (o : List Out) (t : GW), Inv t →
        Inv (evs.foldl (fun (acc : GW × List Out) e =>
          match e with
          | .write b => (acc.1, acc.2 ++ [.write b])
          | .up p => (acc.1, acc.2 ++ [.up p])
          | .reset code =>
            match f with
            | .error _ _ => (acc.1, acc.2 ++ [.enterFailed code])
            | _ => let x := resetReceived acc.1 code; (x.1, acc.2 ++ x.2)
          | .raised => (acc.1, acc.2 ++ [.ncpFailure])) (t, o)).1 from this [] s0 hs0
    induction evs with
    | nil => intro o t ht; exact ht
    | cons e es ih =>
      intro o t ht
      simp only [List.foldl_cons]
      cases e with
      | write b => exact ih _ _ ht
      | up p => exact ih _ _ ht
      | raised => exact ih _ _ ht
      | reset code =>
        cases f with
        | error v c => exact ih _ _ ht
        | data n r a p => exact ih _ _ (resetReceived_inv t code ht)
        | ack x y a => exact ih _ _ (resetReceived_inv t code ht)
        | nak x y a => exact ih _ _ (resetReceived_inv t code ht)
        | rst => exact ih _ _ (resetReceived_inv t code ht)
        | rstack v c => exact ih _ _ (resetReceived_inv t code ht)
  | lost e =>
    have h' : Inv { s with ash := { s.ash with open_ := false } } := ⟨h.attr, h.held, h.startup⟩
    exact (connectionLost_spec _ e h').1
  | eof => exact (connectionLost_spec s true h).1
  | timer =>
    obtain ⟨ash, rf, wf, sf, rw_, sw, cd, dl, ft, now⟩ := s
    cases dl with
    | none => exact h
    | some d =>
      simp only [prim]
      split
      · exact ⟨h.attr, h.held, h.startup⟩
      · split
        · refine ⟨?_, by intro _ hp; simp at hp, h.startup⟩
          intro st hs
          cases rf with
          | none => simp at hs
          | some x => simp at hs; simp [← hs]
        · exact ⟨h.attr, h.held, h.startup⟩

theorem settle_clears (s : GW) (h1 : s.resetWaiters ≠ [] → s.waitFut ≠ .pending)
    (h2 : s.startupFut ≠ some .pending) (h3 : s.startupWaiter.isSome → s.startupFut ≠ none) :
    (settle s).1.resetWaiters = [] ∧ (settle s).1.startupWaiter = none := by
  unfold settle
  by_cases hw : s.resetWaiters = []
  · simp only [hw, List.isEmpty_nil, true_or, ↓reduceIte]
    cases hs : s.startupFut with
    | none =>
      cases hc : s.startupWaiter with
      | none => simp [hw, hc]
      | some c => exact absurd hs (h3 (by simp [hc]))
    | some st =>
      cases st with
      | pending => exact absurd hs h2
      | result => cases hc : s.startupWaiter <;> simp [hw, hc]
      | exc => cases hc : s.startupWaiter <;> simp [hw, hc]
      | cancelled => cases hc : s.startupWaiter <;> simp [hw, hc]
  · have hp := h1 hw
    have hw' : s.resetWaiters.isEmpty = false := by cases hl : s.resetWaiters <;> simp_all
    simp only [hw', Bool.false_eq_true, hp, or_self, ↓reduceIte]
    cases hs : s.startupFut with
    | none =>
      cases hc : s.startupWaiter with
      | none => simp [hc]
      | some c => exact absurd hs (h3 (by simp [hc]))
    | some st =>
      cases st with
      | pending => exact absurd hs h2
      | result => cases hc : s.startupWaiter <;> simp [hc]
      | exc => cases hc : s.startupWaiter <;> simp [hc]
      | cancelled => cases hc : s.startupWaiter <;> simp [hc]

theorem fold_inv (ps : List Prim) (s : GW) (o : List Out) (h : Inv s) :
    Inv (ps.foldl (fun (acc : GW × List Out) p => let x := prim acc.1 p; (x.1, acc.2 ++ x.2)) (s, o)).1 := by
  induction ps generalizing s o with
  | nil => exact h
  | cons p ps ih => simp only [List.foldl_cons]; exact ih _ _ (prim_inv s p h)

theorem fold_append (ps : List Prim) (p : Prim) (s : GW) (o : List Out) :
    ((ps ++ [p]).foldl (fun (acc : GW × List Out) p => let x := prim acc.1 p; (x.1, acc.2 ++ x.2)) (s, o)).1 =
    (prim (ps.foldl (fun (acc : GW × List Out) p => let x := prim acc.1 p; (x.1, acc.2 ++ x.2)) (s, o)).1 p).1 := by
  simp [List.foldl_append]

/-- **waiters are released on connection loss**: whatever happened earlier in the same loop iteration
(an RSTACK that already resolved the future, the reset timeout, another loss, …), once the connection
is lost - with or without an error, or by end-of-file - no reset waiter and no start-up waiter is left
pending after the iteration settles, and `connection_lost` itself never raises -/
theorem c11_waiters_released (s : GW) (h : Inv s) (pre : List Prim) (e : Bool) :
    (step s (pre ++ [.lost e])).1.resetWaiters = [] ∧ (step s (pre ++ [.lost e])).1.startupWaiter = none ∧
    (step s (pre ++ [.eof])).1.resetWaiters = [] ∧ (step s (pre ++ [.eof])).1.startupWaiter = none := by
  have hpre := fold_inv pre s [] h
  generalize hmid : (pre.foldl (fun (acc : GW × List Out) p => let x := prim acc.1 p; (x.1, acc.2 ++ x.2)) (s, [])).1 = mid at hpre
  have e1 := fold_append pre (.lost e) s []
  have e2 := fold_append pre .eof s []
  rw [hmid] at e1 e2
  unfold step
  simp only
  rw [e1, e2]
  have hmid' : Inv { mid with ash := { mid.ash with open_ := false } } := ⟨hpre.attr, hpre.held, hpre.startup⟩
  obtain ⟨i1, -, w1, st1, -, sw1⟩ := connectionLost_spec { mid with ash := { mid.ash with open_ := false } } e hmid'
  obtain ⟨i2, -, w2, st2, -, sw2⟩ := connectionLost_spec mid true hpre
  have a := settle_clears _ w1 st1 i1.startup
  have b := settle_clears _ w2 st2 i2.startup
  exact ⟨a.1, a.2, b.1, b.2⟩

theorem c11_connection_lost_never_raises (s : GW) (h : Inv s) (e : Bool) :
    Out.invalidState ∉ (connectionLost s e).2 := (connectionLost_spec s e h).2.1

theorem inv_init (tx rx : Nat) : Inv { ash := { txSeq := tx, rxSeq := rx } } :=
  ⟨by intro st h; simp at h, by intro h; simp at h, by intro h; simp at h⟩

theorem settle_inv (s : GW) (h : Inv s) : Inv (settle s).1 := by
  unfold settle
  by_cases hc : s.resetWaiters.isEmpty = true ∨ s.waitFut = .pending
  · simp only [hc, ↓reduceIte]
    split
    · exact h
    · exact ⟨h.attr, h.held, by intro hh; simp at hh⟩
    · exact h
  · simp only [hc, ↓reduceIte]
    split
    · exact ⟨by intro st hs; simp at hs, by intro hh; simp at hh, h.startup⟩
    · exact ⟨by intro st hs; simp at hs, by intro hh; simp at hh, by intro hh; simp at hh⟩
    · exact ⟨by intro st hs; simp at hs, by intro hh; simp at hh, h.startup⟩

/-- the invariant holds after every iteration, hence in every reachable state -/
theorem c11_invariant (s : GW) (h : Inv s) (batch : List Prim) : Inv (step s batch).1 := by
  unfold step
  exact settle_inv _ (fold_inv batch s [] h)

example : (step (step {} [.reset 1]).1 [.frame (.rstack 2 11), .lost true]).2 =
    [.connDone true, .appLost, .resetDone 1 .ok] := by decide +kernel

/-! ### the same statements over the definitions generated from bellows/uart.py (BV/Gen/SrcUart.lean)

`Gateway.reset_received`, `error_received`, `connection_lost`, `eof_received` are translated from the syntax tree on every
run; `BV.Proofs.Src.Uart` proves them equal to the primitives `resetReceived` / `connectionLost` used above (futures in a
heap, `WF` = ids valid and distinct, the connection-done future pending while the attribute holds it). -/
section Src
open BV.Py BV.Src.Uart BV.Proofs.Src.Uart

/-- the translated `Gateway.reset_received` *is* the model's `resetReceived`, on every well-formed gateway object -/
theorem c11_src_reset_received (g : Gateway) (s : GW) (code : Nat) (hw : WF g) (hr : Rel g s) :
    ∃ g', Gateway.reset_received code g = (.ok (), g') ∧ WF g' ∧ Rel g' (resetReceived s code).1 ∧
      g'.trace = g.trace ++ ((resetReceived s code).2.flatMap (evOf none)) :=
  let ⟨g', h1, h2, h3, h4, _⟩ := reset_received_eq g s code hw hr
  ⟨g', h1, h2, h3, h4⟩

/-- **only the software-reset acknowledgement completes the request** (source level): with a reset request pending,
`reset_received(RESET_SOFTWARE)` resolves exactly that future and tells the application nothing; any other code leaves
every future alone and reports an NCP failure with that code -/
theorem c11_src_only_software_rstack (g : Gateway) (code i : Nat) (hw : WF g) (hi : g.reset_future = some i)
    (hp : fget g.futs i = .pending) :
    (code = 11 → ∃ g', Gateway.reset_received code g = (.ok (), g') ∧ absF (fget g'.futs i) = .result ∧ g'.trace = g.trace ∧
        g'.reset_future = some i) ∧
    (code ≠ 11 → Gateway.reset_received code g = (.ok (), { g with trace := g.trace ++ [.appEnterFailed code] })) := by
  have h11 : BV.Gen.Ash.resetSoftware = 11 := by decide
  constructor
  · intro hc
    obtain ⟨g', e, -, hr', ht, hrf, -⟩ := reset_received_eq g (absG g) code hw (rel_absG g)
    refine ⟨g', e, ?_, ?_, hrf.trans hi⟩
    · have hw' := hr'.w i (hrf.trans hi)
      have hm : (resetReceived (absG g) code).1.waitFut = .result := by
        simp [resetReceived, hc, h11, absG, hi, hp, cell, absF]
      rw [hm] at hw'
      exact hw'.symm
    · have : (resetReceived (absG g) code).2 = [] := by simp [resetReceived, hc, h11, absG, hi, hp, cell, absF]
      simpa [this] using ht
  · intro hc
    obtain ⟨rf, sf, cf, cdf, tr, futs, trace⟩ := g
    simp [Gateway.reset_received, hc, bind, PyM.bind, gemit, PyM.modify, pure, PyM.pure]

/-- an ERROR frame's code goes to the application as a failure; no future is touched (source level) -/
theorem c11_src_error_is_failure (g : Gateway) (code : Nat) :
    Gateway.error_received code g = (.ok (), { g with trace := g.trace ++ [.appEnterFailed code] }) :=
  error_received_eq g code

/-- the translated `Gateway.connection_lost` *is* the model's `connectionLost` -/
theorem c11_src_connection_lost (g : Gateway) (s : GW) (exc : Option ExcVal) (hw : WF g) (hr : Rel g s) :
    (Gateway.connection_lost exc g).1 = .ok () ∧ WF (Gateway.connection_lost exc g).2 ∧
    Rel (Gateway.connection_lost exc g).2 (connectionLost s exc.isSome).1 ∧
    (Gateway.connection_lost exc g).2.trace = g.trace ++ ((connectionLost s exc.isSome).2.flatMap (evOf exc)) :=
  let ⟨h1, h2, h3, h4, _⟩ := connection_lost_eq g s exc hw hr
  ⟨h1, h2, h3, h4⟩

/-- **`connection_lost` and `eof_received` never raise, release every waiter and clear both attributes** (source level):
afterwards the future a reset waiter holds and the start-up future are resolved (with the connection error if they were
still pending, untouched otherwise), and the connection-done future carries the reason -/
theorem c11_src_connection_lost_releases (g : Gateway) (exc : Option ExcVal) (hw : WF g) :
    (Gateway.connection_lost exc g).1 = .ok () ∧
    (Gateway.eof_received g).1 = .ok () ∧
    (Gateway.connection_lost exc g).2.reset_future = none ∧
    (Gateway.connection_lost exc g).2.connection_done_future = none ∧
    (∀ i, g.reset_future = some i → fget (Gateway.connection_lost exc g).2.futs i ≠ .pending) ∧
    (∀ j, g.startup_reset_future = some j → fget (Gateway.connection_lost exc g).2.futs j ≠ .pending) ∧
    (∀ k, g.connection_done_future = some k → fget (Gateway.connection_lost exc g).2.futs k = .resultExc exc) := by
  obtain ⟨h1, h2, h3, -, h5, h6, h7, h8, h9⟩ := connection_lost_eq g (absG g) exc hw (rel_absG g)
  have he := (connection_lost_eq g (absG g) (some .connectionReset) hw (rel_absG g)).1
  refine ⟨h1, by rw [eof_received_eq]; exact he, h5, h6, ?_, ?_, h9⟩
  · intro i hi hp
    have := h8 i hi
    rw [hp, connectionLost_waitFut] at this
    simp only [absG, hi, cell, absF_p] at this
    by_cases hq : absF (fget g.futs i) = .pending <;> simp [hq] at this
  · intro j hj hp
    have hst := h3.st
    rw [h7, hj] at hst
    simp only [cell, hp, absF_p] at hst
    rw [connectionLost_startupFut] at hst
    simp only [absG, hj, cell] at hst
    by_cases hq : absF (fget g.futs j) = .pending <;> simp [hq] at hst

/-- non-vacuity: a gateway with a reset request, a start-up waiter and the connection-done future, all pending, is
well formed; losing the connection resolves all three and tells the application -/
example : WF ({ reset_future := some 0, startup_reset_future := some 1, connection_done_future := some 2,
                futs := [.pending, .pending, .pending] } : Gateway) := by
  rw [WF_iff]; simp

example : Gateway.connection_lost (some (.other 7))
      { reset_future := some 0, startup_reset_future := some 1, connection_done_future := some 2,
        futs := [.pending, .pending, .pending] } =
    (.ok (), { reset_future := none, startup_reset_future := some 1, connection_done_future := none,
               futs := [.exc (.other 7), .exc (.other 7), .resultExc (some (.other 7))],
               trace := [.appConnectionLost (some (.other 7))] }) := by decide +kernel

example : (Gateway.reset_received 11 { reset_future := some 0, futs := [.pending] }).2.futs = [.result] := by decide +kernel
example : (Gateway.reset_received 2 { reset_future := some 0, futs := [.pending] }).2.trace = [.appEnterFailed 2] := by
  decide +kernel

/-! #### the coroutine `Gateway.reset` itself (BV/Gen/SrcUartReset.lean), against a script of what reaches the gateway while it is
suspended - every input goes through the generated handlers above; the done-callback `_reset_cleanup` runs between loop iterations -/
open BV.Src.UartReset BV.Proofs.Src.UartReset

/-- **a fresh request sends RST once, first, and waits on a new future with a deadline of RESET_TIMEOUT = 5 s; a request while one
is in progress sends nothing and shares that request's future** (source level) -/
theorem c11_src_reset_request (g : Gateway) :
    (g.reset_future = none → g.transport = some () →
      Gateway.reset g = gAwait (some g.futs.length) (some 5) (requested g)) ∧
    (∀ f, g.reset_future = some f → Gateway.reset g = gAwait (some f) none g) :=
  ⟨reset_fresh g, reset_in_progress g⟩

/-- **completes only on the software-reset acknowledgement** (source level): if a fresh `reset()` returns, an RSTACK with code
0x0B reached the gateway while it waited - whatever else arrived (other reset codes, ERROR frames, data, a lost connection, EOF),
in whatever grouping into loop iterations, and however the script would have ended the wait -/
theorem c11_src_reset_only_ack (g : Gateway) (b : Bool) (hr : g.reset_future = none) (ht : g.transport = some ())
    (h : (Gateway.reset g).1 = .ok b) :
    ∃ w rest, g.script = w :: rest ∧ ∃ r ∈ w.rounds, GIn.rstack 11 ∈ r :=
  reset_only_ack g b hr ht h

/-- **the acknowledgement completes it; the clean-up has run before the caller goes on** (source level) -/
theorem c11_src_reset_ack (g : Gateway) (more : List (List GIn)) (fin : GEnd) (rest : List GWait) (hr : g.reset_future = none)
    (ht : g.transport = some ()) (hs : g.script = ⟨[.rstack 11] :: more, fin⟩ :: rest) (hc : g.cleanups = []) :
    Gateway.reset g = (.ok true,
      { requested g with script := rest, futs := g.futs ++ [.result], reset_future := none, cleanups := [] }) :=
  reset_ack g more fin rest hr ht hs hc

/-- **no acknowledgement: TimeoutError, and the request is gone** (source level) - `_reset_future` is clear again, so the next
`reset()` is a fresh request that sends RST again (an abandoned request does not block the next one); any other reset code in
between is reported to the application as an NCP failure and does not complete the request -/
theorem c11_src_reset_timeout (g : Gateway) (rest : List GWait) (hr : g.reset_future = none) (ht : g.transport = some ())
    (hc : g.cleanups = []) :
    (g.script = ⟨[], .deadline⟩ :: rest →
      Gateway.reset g = (.error (.raised "TimeoutError"),
        { requested g with script := rest, futs := g.futs ++ [.cancelled], reset_future := none, cleanups := [] })) ∧
    (∀ code, code ≠ 11 → g.script = ⟨[[.rstack code]], .deadline⟩ :: rest →
      Gateway.reset g = (.error (.raised "TimeoutError"),
        { requested g with script := rest, futs := g.futs ++ [.cancelled], reset_future := none, cleanups := [],
                           trace := g.trace ++ [.transportSendReset, .appEnterFailed code] })) :=
  ⟨fun hs => reset_timeout g rest hr ht hs hc, fun code hcode hs => reset_other_code g code rest hr ht hs hc hcode⟩

/-- **a lost connection ends the request at once with the reason** (source level) -/
theorem c11_src_reset_lost (g : Gateway) (exc : Option ExcVal) (more : List (List GIn)) (fin : GEnd) (rest : List GWait)
    (hr : g.reset_future = none) (ht : g.transport = some ()) (hsf : g.startup_reset_future = none)
    (hcd : g.connection_done_future = none) (hs : g.script = ⟨[.lost exc] :: more, fin⟩ :: rest) (hc : g.cleanups = []) :
    (Gateway.reset g).1 = .error (.raised (excCls (exc.getD .connectionReset))) ∧ (Gateway.reset g).2.reset_future = none :=
  reset_lost g exc more fin rest hr ht hsf hcd hs hc

/-- non-vacuity: a fresh gateway, the acknowledgement in the second loop iteration after an ERROR frame -/
example : (Gateway.reset { script := [⟨[[.error 0x51], [.rstack 11]], .deadline⟩] }).1 = .ok true := by decide +kernel
example : (Gateway.reset { script := [⟨[[.error 0x51], [.rstack 2]], .deadline⟩] }).1 = .error (.raised "TimeoutError") := by
  decide +kernel

end Src

end BV.Props.C11
