/-
C03 — ASH frames on the wire follow the specified layout bit for bit.
Model: BV.Ash (mirrors bellows/ash.py, constants generated from the source).
Spec:  BV.Spec.Ash (written independently with plain arithmetic).
-/
import BV.Proofs.Ash.FrameLemmas
import BV.Proofs.Src.Ash
namespace BV.Props.C03
open BV.Ash BV.Spec.Ash BV.Gen.Ash

/-- CRC anchor: the published check value of CRC-16/CCITT-FALSE -/
theorem c03_crc_check_value :
    crc [0x31, 0x32, 0x33, 0x34, 0x35, 0x36, 0x37, 0x38, 0x39] = 0x29B1#16 := by decide +kernel

/-- the generated `PSEUDO_RANDOM_DATA_SEQUENCE` is the specification's LFSR output, all 256 bytes -/
theorem c03_lfsr : pseudoRandom = randSeq := pseudoRandom_eq

/-- every one of the 256 control bytes selects the class the specification's value ranges give,
and at most one of the six (mask, value) pairs of the generated constants matches it -/
theorem c03_classify : ∀ c : UInt8, classify c = specClass c.toNat ∧
    ([c &&& dataMask == dataMaskValue, c &&& ackMask == ackMaskValue, c &&& nakMask == nakMaskValue,
      c &&& rstMask == rstMaskValue, c &&& rstackMask == rstackMaskValue,
      c &&& errorMask == errorMaskValue].count true ≤ 1) := by
  apply forall_uint8; decide +kernel

/-- bytes of every well-formed frame: implementation layout = specification layout -/
theorem c03_layout (f : Frame) (h : f.WF) : encode f = specEncode f := by
  cases f with
  | data fn r a p =>
    obtain ⟨h1, h2, h3⟩ := h
    obtain ⟨hc, -⟩ := ctl_data fn h1 r a h2
    simp [encode, specEncode, specAppendCrc_eq, ctl, dataField, hc, specRandomize, randomize, pseudoRandom_eq]
  | ack s n a =>
    obtain ⟨hc, -⟩ := ctl_ack s n a h
    simp [encode, specEncode, specAppendCrc_eq, ctl, dataField, hc]
  | nak s n a =>
    obtain ⟨hc, -⟩ := ctl_nak s n a h
    simp [encode, specEncode, specAppendCrc_eq, ctl, dataField, hc]
  | rst => simp [encode, specEncode, specAppendCrc_eq, ctl, dataField, rstMaskValue]
  | rstack v c => simp [encode, specEncode, specAppendCrc_eq, ctl, dataField, rstackMaskValue]
  | error v c => simp [encode, specEncode, specAppendCrc_eq, ctl, dataField, errorMaskValue]

/-- parsing is the exact inverse of encoding, for all field values and payloads -/
theorem c03_parse_encode (f : Frame) (h : f.WF) : parse (encode f) = .ok f := by
  cases f with
  | data fn r a p =>
    obtain ⟨h1, h2, h3⟩ := h
    obtain ⟨-, hcl, hf, hr, ha⟩ := ctl_data fn h1 r a h2
    have hlen : ¬ (randomize p).length > pseudoRandom.length := by
      rw [randomize_length p h3]; omega
    simp only [encode]
    unfold parse
    simp only [appendCrc, List.cons_append, hcl]
    rw [show ctlData fn r a :: (randomize p ++ crcBytes (crc (ctlData fn r a :: randomize p)))
          = appendCrc (ctlData fn r a :: randomize p) from rfl, unwrap_appendCrc]
    simp only [hlen, ↓reduceIte, hf, hr, ha, randomize_invol p h3]
  | ack s n a =>
    obtain ⟨-, hcl, hs, hn, ha⟩ := ctl_ack s n a h
    simp only [encode]
    unfold parse
    simp only [appendCrc, List.cons_append, List.nil_append, hcl]
    rw [show ctlAck s n a :: crcBytes (crc [ctlAck s n a]) = appendCrc [ctlAck s n a] from rfl, unwrap_appendCrc]
    simp only [hs, hn, ha]
  | nak s n a =>
    obtain ⟨-, hcl, hs, hn, ha⟩ := ctl_nak s n a h
    simp only [encode]
    unfold parse
    simp only [appendCrc, List.cons_append, List.nil_append, hcl]
    rw [show ctlNak s n a :: crcBytes (crc [ctlNak s n a]) = appendCrc [ctlNak s n a] from rfl, unwrap_appendCrc]
    simp only [hs, hn, ha]
  | rst =>
    simp only [encode]
    unfold parse
    simp only [appendCrc, List.cons_append, List.nil_append]
    rw [show rstMaskValue :: crcBytes (crc [rstMaskValue]) = appendCrc [rstMaskValue] from rfl, unwrap_appendCrc]
    have hcl : classify rstMaskValue = some .rst := by decide
    simp [hcl]
  | rstack v c =>
    have hv : v = 2 := h
    subst hv
    simp only [encode]
    unfold parse
    simp only [appendCrc, List.cons_append, List.nil_append]
    rw [show rstackMaskValue :: 2 :: c :: crcBytes (crc [rstackMaskValue, 2, c]) = appendCrc [rstackMaskValue, 2, c] from rfl,
      unwrap_appendCrc]
    have hcl : classify rstackMaskValue = some .rstack := by decide
    simp [hcl, rstackFields, Except.map]
  | error v c =>
    have hv : v = 2 := h
    subst hv
    simp only [encode]
    unfold parse
    simp only [appendCrc, List.cons_append, List.nil_append]
    rw [show errorMaskValue :: 2 :: c :: crcBytes (crc [errorMaskValue, 2, c]) = appendCrc [errorMaskValue, 2, c] from rfl,
      unwrap_appendCrc]
    have hcl : classify errorMaskValue = some .error := by decide
    simp [hcl, rstackFields, Except.map]

example : (Frame.data 7 true 5 [0x7E, 0x00, 0x11]).WF ∧ (Frame.rstack 2 0x0B).WF := by decide +kernel

/-- `unstuff` inverts `stuff` on every byte string -/
theorem c03_unstuff_stuff (bs : List UInt8) : unstuff (stuff bs) = some bs := unstuff_stuff bs

/-- stuffed output contains no reserved byte other than the escape byte -/
theorem c03_stuff_clean (bs : List UInt8) : ∀ b ∈ stuff bs, isReserved b = true → b = resEscape :=
  stuff_clean bs

/-- the implementation's stuffing is the specification's (reserved set and bit-5 inversion) -/
theorem c03_stuff_spec (bs : List UInt8) : stuff bs = specStuff bs := (specStuff_eq bs).symm

/-- bytes handed to the transport = prefix, stuffed specification bytes, flag -/
theorem c03_write_frame (pre : List UInt8) (f : Frame) (h : f.WF) : wire pre f = specWire pre f := by
  simp [wire, specWire, c03_layout f h, specStuff_eq, resFlag]

theorem parse_ok_crcValid {d : List UInt8} {f : Frame} (h : parse d = .ok f) : crcValid d := by
  unfold parse at h
  split at h
  · simp at h
  · rename_i c0 tl
    split at h
    · simp at h
    · split at h
      · simp at h
      · rename_i cls c rest hu
        unfold unwrap at hu
        split at hu
        · simp at hu
        · rename_i hlen
          dsimp only at hu
          split at hu
          · simp at hu
          · rename_i hcrc
            exact ⟨by omega, by simpa using hcrc⟩

/-- **one or two wrong bits are always detected**: if `d` is accepted (any frame of at most 4 095
bytes; DATA frames are at most 259) then `d` with one or two bits inverted is rejected -/
theorem c03_crc_detects_1_2_bit_errors (d e : List UInt8) (f : Frame) (hok : parse d = .ok f)
    (hl : d.length = e.length) (hlen : d.length ≤ 4095) (hw : weight e = 1 ∨ weight e = 2) :
    ∀ g, parse (xorBytes d e) ≠ .ok g := by
  intro g hg
  exact crc_detects d e hl hlen hw (parse_ok_crcValid hok) (parse_ok_crcValid hg)

example : (parse [0xC1, 0x02, 0x0B, 0x0A, 0x52]).toOption = some (.rstack 2 0x0B) ∧
    weight [0, 0x40, 0, 0, 0x01] = 2 := by decide +kernel


/-! ## the same statements over the definitions generated from the source text (BV/Gen/SrcAsh.lean)

`BV.Src.Ash.*` below are not hand-written: harness/pytrans.py produces them from the syntax tree of
bellows/ash.py on every run.  These theorems are therefore re-checked against the code as it is now. -/

section Source
open BV.Proofs.Src.Ash
open BV.Py (PyErr)

/-- `generate_random_sequence(256)` of the source is the LFSR sequence of the specification -/
theorem c03_src_lfsr : BV.Src.Ash.generate_random_sequence 256 = .ok randSeq := by
  rw [generate_random_sequence_256, c03_lfsr]

/-- `_stuff_bytes` of the source is the specification's stuffing, never raises, and what it produces
is undone by `_unstuff_bytes` of the source -/
theorem c03_src_stuff (bs : List UInt8) :
    BV.Src.Ash.stuff_bytes bs = .ok (specStuff bs) ∧
    BV.Src.Ash.unstuff_bytes (specStuff bs) = .ok bs := by
  refine ⟨by rw [stuff_eq, c03_stuff_spec], ?_⟩
  rw [unstuff_eq, ← c03_stuff_spec, c03_unstuff_stuff]
  simp [unstuffRes]

/-- `_unstuff_bytes` of the source on *any* byte string: the model's result, or `ParsingError` exactly when
an escape is followed by a byte that does not decode to a reserved value -/
theorem c03_src_unstuff (bs : List UInt8) :
    BV.Src.Ash.unstuff_bytes bs = match unstuff bs with
      | some r => .ok r
      | none => .error (.raised "ParsingError") := by
  rw [unstuff_eq]; cases unstuff bs <;> simp [unstuffRes]

/-- `frame.to_bytes()` of the source lays every well-formed frame out as the specification says -/
theorem c03_src_to_bytes (f : Frame) (h : f.WF) :
    BV.Src.Ash.Frame.to_bytes (ofM f) = .ok (specEncode f) := by
  rw [to_bytes_eq f h, c03_layout f h]

/-- `parse_frame` of the source inverts `to_bytes` of the source on every well-formed frame -/
theorem c03_src_parse_encode (f : Frame) (h : f.WF) :
    ∃ bs, BV.Src.Ash.Frame.to_bytes (ofM f) = .ok bs ∧ parsed bs = some f := by
  refine ⟨encode f, to_bytes_eq f h, ?_⟩
  rw [parse_frame_eq, c03_parse_encode f h]; rfl

/-- `parse_frame` of the source accepts exactly what the model's parser accepts, with the same fields -/
theorem c03_src_parse (d : List UInt8) : parsed d = (parse d).toOption := parse_frame_eq d

theorem parsed_some_iff (d : List UInt8) (f : Frame) : parsed d = some f ↔ parse d = .ok f := by
  rw [parse_frame_eq]
  cases parse d <;> simp [Except.toOption]

/-- `parse_frame` of the source never accepts a 1- or 2-bit corruption of a frame it accepts (the CRC theorem,
transported to the source-level parser) -/
theorem c03_src_crc_detects (d e : List UInt8) (f : Frame) (hok : parsed d = some f)
    (hl : d.length = e.length) (hlen : d.length ≤ 4095) (hw : weight e = 1 ∨ weight e = 2) :
    parsed (xorBytes d e) = none := by
  have h := c03_crc_detects_1_2_bit_errors d e f ((parsed_some_iff d f).mp hok) hl hlen hw
  cases hp : parsed (xorBytes d e) with
  | none => rfl
  | some g => exact absurd ((parsed_some_iff _ g).mp hp) (h g)

example : parsed [0x25, 0x42, 0x21, 0xa8, 0x56, 0xa6, 0x09] = some (.data 2 false 5 [0, 0, 0, 2]) := by
  decide +kernel

end Source

end BV.Props.C03
