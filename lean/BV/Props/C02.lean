/-
C02 — the ASH receiver decodes any byte stream like the reference decoder, however it is
split into reads.
Model: BV.Ash.feedChunk (data_received).  Spec: BV.Spec.Ash.refDecode (per-byte automaton,
specification unstuffing and frame decoding).
-/
import BV.Proofs.Ash.DecLemmas
import BV.Proofs.Ash.ParseSpec
import BV.Props.C03
import BV.Props.C04
import BV.Proofs.Src.AshDec
namespace BV.Props.C02
open BV.Ash BV.Spec.Ash BV.Gen.Ash

/-- receiver invariant under which replies are well-formed frames -/
def RxOk (s : Rx) : Prop := s.open_ = true ∧ s.rxSeq < 8

theorem onFrame_rxOk (s : Rx) (f : Frame) (h : RxOk s) : RxOk (onFrame s f).1 := by
  refine ⟨by rw [C04.onFrame_open]; exact h.1, ?_⟩
  cases f with
  | data n r a p =>
    have h1 : (onFrame s (.data n r a p)).1.rxSeq = (if n = s.rxSeq then (n + 1) % 8 else s.rxSeq) :=
      (C04.c04_one_reply s h.1 n r a p).1
    rw [h1]; split
    · omega
    · exact h.2
  | ack x y a => rw [((C04.c04_control_frames s).1 x y a).2]; exact h.2
  | nak x y a => rw [((C04.c04_control_frames s).2.1 x y a).2]; exact h.2
  | rst => rw [((C04.c04_control_frames s).2.2.1).2]; exact h.2
  | rstack v c => rw [((C04.c04_control_frames s).2.2.2.1 v c).2.1]; omega
  | error v c => rw [((C04.c04_control_frames s).2.2.2.2 v c).2.1]; exact h.2

/-- one closed segment: the implementation's handling is the reference decoder's -/
theorem onSegment_ref (s : Rx) (h : RxOk s) (seg : List UInt8) : onSegment s seg = refSegment s seg := by
  have hw : writeFrame s [resCancel] (.nak false false s.rxSeq) = some (specNak s.rxSeq) := by
    simp only [writeFrame, h.1, ↓reduceIte, specNak]
    rw [C03.c03_write_frame [resCancel] _ (show (Frame.nak false false s.rxSeq).WF from h.2)]
    rfl
  unfold onSegment refSegment
  rw [unstuff_spec]
  cases hu : specUnstuff seg with
  | none => simp [hw]
  | some d =>
    simp only [Option.bind_some]
    have hp := parse_spec d
    cases hpd : parse d with
    | error e => rw [hpd] at hp; simp [Except.toOption] at hp; simp [← hp, hw]
    | ok f => rw [hpd] at hp; simp [Except.toOption] at hp; simp [← hp]

theorem onSegment_rxOk (s : Rx) (h : RxOk s) (seg : List UInt8) : RxOk (onSegment s seg).1 := by
  unfold onSegment
  split
  · exact h
  · split
    · exact h
    · exact onFrame_rxOk s _ h

theorem onSegments_ref (s : Rx) (h : RxOk s) (segs : List (List UInt8)) :
    onSegments s segs = refSegments s segs := by
  induction segs generalizing s with
  | nil => rfl
  | cons g gs ih =>
    simp only [onSegments, refSegments]
    rw [← onSegment_ref s h g, ih _ (onSegment_rxOk s h g)]

theorem onSegments_append (s : Rx) (a b : List (List UInt8)) :
    onSegments s (a ++ b) =
      ((onSegments (onSegments s a).1 b).1, (onSegments s a).2 ++ (onSegments (onSegments s a).1 b).2) := by
  induction a generalizing s with
  | nil => simp [onSegments]
  | cons x xs ih => simp only [List.cons_append, onSegments]; rw [ih]; simp [List.append_assoc]

/-- decoder invariant: the remainder holds no boundary byte and is empty while discarding -/
def DecOk (s : Dec) : Prop := NoRwe s.buf ∧ (s.disc = true → s.buf = [])

/-- no unterminated remainder (under any split into reads) exceeds the buffer limit -/
def AccBounded (a : Acc) (stream : List UInt8) : Prop :=
  ∀ n, (runBytes a (stream.take n)).1.acc.length ≤ maxBufferSize

theorem feedChunk_ref (s : Dec) (hs : DecOk s) (c : List UInt8)
    (hb : (runBytes ⟨s.buf, s.disc⟩ c).1.acc.length ≤ maxBufferSize) :
    feedChunk s c =
      ({ buf := (runBytes ⟨s.buf, s.disc⟩ c).1.acc, disc := (runBytes ⟨s.buf, s.disc⟩ c).1.disc,
         rx := (onSegments s.rx (runBytes ⟨s.buf, s.disc⟩ c).2).1 },
       (onSegments s.rx (runBytes ⟨s.buf, s.disc⟩ c).2).2) := by
  unfold feedChunk
  simp only
  rw [scan_refines s.buf c s.disc hs.1 hs.2]
  simp only [out, truncate]
  have : ¬ (runBytes ⟨s.buf, s.disc⟩ c).1.acc.length > maxBufferSize := by omega
  simp [this]

/-- **stream equivalence**: for every stream whose unterminated remainders fit the buffer, and every
way of splitting it into reads, the events produced by `data_received` (upward payloads, reset
notifications, ACK/NAK bytes, in order) are those of the per-byte automaton on the whole stream -/
theorem c02_stream_equiv_segments (s : Dec) (hs : DecOk s) (chunks : List (List UInt8))
    (hb : AccBounded ⟨s.buf, s.disc⟩ chunks.flatten) :
    (feedChunks s chunks).2 = (onSegments s.rx (runBytes ⟨s.buf, s.disc⟩ chunks.flatten).2).2 ∧
    (feedChunks s chunks).1.buf = (runBytes ⟨s.buf, s.disc⟩ chunks.flatten).1.acc ∧
    (feedChunks s chunks).1.disc = (runBytes ⟨s.buf, s.disc⟩ chunks.flatten).1.disc := by
  induction chunks generalizing s with
  | nil => simp [feedChunks, runBytes, onSegments]
  | cons c cs ih =>
    have hc : (runBytes ⟨s.buf, s.disc⟩ c).1.acc.length ≤ maxBufferSize := by
      have := hb c.length
      simpa using this
    have hres := run_residue ⟨s.buf, s.disc⟩ c hs.1 hs.2
    simp only [feedChunks, List.flatten_cons]
    rw [feedChunk_ref s hs c hc, run_append]
    have hb' : AccBounded (runBytes ⟨s.buf, s.disc⟩ c).1 cs.flatten := by
      intro n
      have := hb (c.length + n)
      have ht : (c ++ cs.flatten).take (c.length + n) = c ++ cs.flatten.take n := by
        rw [List.take_append]; simp [List.take_of_length_le]
      rw [List.flatten_cons, ht, run_append] at this
      exact this
    obtain ⟨h1, h2, h3⟩ := ih (⟨(runBytes ⟨s.buf, s.disc⟩ c).1.acc, (runBytes ⟨s.buf, s.disc⟩ c).1.disc,
        (onSegments s.rx (runBytes ⟨s.buf, s.disc⟩ c).2).1⟩ : Dec) hres hb'
    simp only at h1 h2 h3
    refine ⟨?_, h2, h3⟩
    rw [h1, onSegments_append]

/-- **reference decoder**: with the transport open, the events are those of the specification's
decoder (flag / escape / cancel / substitute / XON-XOFF handling, length and CRC checks, the
receiver's ACK/NAK rules) run over the concatenated stream -/
theorem c02_stream_equiv (s : Dec) (hs : DecOk s) (hrx : RxOk s.rx) (chunks : List (List UInt8))
    (hb : AccBounded ⟨s.buf, s.disc⟩ chunks.flatten) :
    (feedChunks s chunks).2 = refDecode s.rx ⟨s.buf, s.disc⟩ chunks.flatten := by
  rw [(c02_stream_equiv_segments s hs chunks hb).1, onSegments_ref s.rx hrx]
  rfl

/-- any two ways of splitting one stream into reads give identical events -/
theorem c02_chunking_independent (s : Dec) (hs : DecOk s) (c1 c2 : List (List UInt8))
    (heq : c1.flatten = c2.flatten) (hb : AccBounded ⟨s.buf, s.disc⟩ c1.flatten) :
    (feedChunks s c1).2 = (feedChunks s c2).2 := by
  rw [(c02_stream_equiv_segments s hs c1 hb).1, (c02_stream_equiv_segments s hs c2 (heq ▸ hb)).1, heq]

/-- the hypotheses of the theorems above are met by the initial state and, e.g., any stream
shorter than the buffer -/
example : DecOk {} ∧ RxOk {} := by
  refine ⟨⟨by intro b hb; simp at hb, by simp⟩, rfl, by decide⟩

/-- memory: after every read, whatever arrived, the remainder kept is at most `MAX_BUFFER_SIZE` bytes -/
theorem c02_buffer_bounded (s : Dec) (c : List UInt8) : (feedChunk s c).1.buf.length ≤ maxBufferSize := by
  unfold feedChunk truncate
  simp only
  split
  · simp [List.length_drop]; omega
  · omega

theorem up_mem_onData (t : Rx) (n : Nat) (r : Bool) (q p : List UInt8)
    (h : Ev.up p ∈ (onData t n r q).2) : n = t.rxSeq ∧ p = q := by
  unfold onData writeFrame at h
  by_cases hn : n = t.rxSeq <;> by_cases ho : t.open_ = true <;> cases r <;> simp_all

/-- an upward delivery only ever comes from a segment that unstuffs correctly and parses, with a
valid CRC, as a DATA frame carrying exactly that payload with the expected frame number -/
theorem c02_no_bad_delivery (s : Rx) (seg : List UInt8) (p : List UInt8)
    (h : Ev.up p ∈ (onSegment s seg).2) :
    ∃ d r a, unstuff seg = some d ∧ parse d = .ok (.data s.rxSeq r a p) ∧ crcValid d := by
  unfold onSegment at h
  cases hu : unstuff seg with
  | none =>
    rw [hu] at h; simp only [writeFrame] at h
    by_cases ho : s.open_ = true <;> simp [ho] at h
  | some d =>
    rw [hu] at h
    simp only at h
    cases hp : parse d with
    | error e =>
      rw [hp] at h; simp only [writeFrame] at h
      by_cases ho : s.open_ = true <;> simp [ho] at h
    | ok f =>
      rw [hp] at h
      simp only at h
      cases f with
      | data n r a q =>
        obtain ⟨t, ht, h1, h3, -, -⟩ := C04.onFrame_data s n r a q
        rw [ht] at h
        obtain ⟨hn, hq⟩ := up_mem_onData t n r q p h
        subst hq
        exact ⟨d, r, a, rfl, by rw [hn, h1] at hp; exact hp, C03.parse_ok_crcValid hp⟩
      | ack x y a => simp [onFrame] at h
      | nak x y a => simp [onFrame] at h
      | rst => simp [onFrame] at h
      | rstack v c => simp [onFrame] at h
      | error v c => simp [onFrame] at h

/-- arbitrary bytes never raise out of the receive callback while the transport is open
(in the model, the only `raised` outcome is a write on a closed transport) -/
theorem c02_total (s : Rx) (h : RxOk s) (seg : List UInt8) : Ev.raised ∉ (onSegment s seg).2 := by
  rw [onSegment_ref s h]
  unfold refSegment
  split
  · simp [specNak]
  · rename_i f hf
    cases f with
    | data n r a q =>
      obtain ⟨t, ht, h1, h3, -, -⟩ := C04.onFrame_data s n r a q
      rw [ht, C04.onData_open t (by rw [h3]; exact h.1)]
      split
      · simp
      · split <;> simp
    | ack x y a => simp [onFrame]
    | nak x y a => simp [onFrame]
    | rst => simp [onFrame]
    | rstack v c => simp [onFrame]
    | error v c => simp [onFrame]

/-! ### Source level

The statements below are about `BV.Src.Ash.AshProtocol.data_received`, the definition `harness/pytrans.py`
generates from bellows/ash.py on every run (statement by statement: the `while self._buffer:` loop with its
discarding branch, the generator over RESERVED_WITHOUT_ESCAPE, the FLAG / CANCEL / SUBSTITUTE / XON / XOFF branches,
the try/except around unstuffing and parsing, the NAK under `contextlib.suppress`, the truncation to
MAX_BUFFER_SIZE), not about the hand-written decoder: `BV.Proofs.Src.AshDec` proves the two compute the same
thing, so every model-level theorem of this file transfers. -/
section Source
open BV.Proofs.Src.AshRx BV.Proofs.Src.AshDec
open BV.Py (PyErr)

/-- **source = model**: with the transport open, any sequence of reads handed to the translated `data_received`
returns normally every time; the remainder kept, the discarding flag, the receiver state (sequence numbers, pending
frames, failed flag) and the calls made on the environment (bytes written, payloads handed upward, reset
notifications), in order, are those of `feedChunks` -/
theorem c02_src_feed (s : S) (ho : isOpen s = true) (hw : WFs s) (hrx : s.rx_seq < 8) (flag0 : Bool)
    (chunks : List (List UInt8)) :
    ∃ s', srcFeed s chunks = (.ok (), s') ∧
      decOf s' (feedChunks (decOf s flag0) chunks).1.rx.ackTimeoutReset = (feedChunks (decOf s flag0) chunks).1 ∧
      srcEvs s s' = (feedChunks (decOf s flag0) chunks).2 :=
  let ⟨s', h1, h2, h3, _⟩ := srcFeed_eq chunks s ho hw hrx flag0
  ⟨s', h1, h2, h3⟩

/-- **totality at source level**: no byte stream, split in any way, makes `data_received` raise while the transport is open -/
theorem c02_src_total (s : S) (ho : isOpen s = true) (hw : WFs s) (hrx : s.rx_seq < 8) (chunks : List (List UInt8)) :
    (srcFeed s chunks).1 = .ok () := by
  obtain ⟨s', h1, _⟩ := srcFeed_eq chunks s ho hw hrx false
  rw [h1]

/-- **stream equivalence at source level**: the environment calls of the translated source over any split of a
stream are the events of the specification's decoder run over the concatenated stream -/
theorem c02_src_stream_equiv (s : S) (ho : isOpen s = true) (hw : WFs s) (hrx : s.rx_seq < 8) (flag0 : Bool)
    (hs : DecOk (decOf s flag0)) (chunks : List (List UInt8)) (hb : AccBounded ⟨s.buffer, s.discarding⟩ chunks.flatten) :
    srcEvs s (srcFeed s chunks).2 = refDecode (absS s flag0) ⟨s.buffer, s.discarding⟩ chunks.flatten := by
  obtain ⟨s', h1, -, h3⟩ := c02_src_feed s ho hw hrx flag0 chunks
  rw [h1, h3]
  exact c02_stream_equiv (decOf s flag0) hs ⟨ho, hrx⟩ chunks hb

/-- **chunking independence at source level** -/
theorem c02_src_chunking_independent (s : S) (ho : isOpen s = true) (hw : WFs s) (hrx : s.rx_seq < 8)
    (hs : DecOk (decOf s false)) (c1 c2 : List (List UInt8)) (heq : c1.flatten = c2.flatten)
    (hb : AccBounded ⟨s.buffer, s.discarding⟩ c1.flatten) :
    srcEvs s (srcFeed s c1).2 = srcEvs s (srcFeed s c2).2 := by
  rw [c02_src_stream_equiv s ho hw hrx false hs c1 hb, c02_src_stream_equiv s ho hw hrx false hs c2 (heq ▸ hb), heq]

/-- **bounded memory at source level**: after every read the buffer kept is at most MAX_BUFFER_SIZE bytes -/
theorem c02_src_buffer_bounded (s : S) (ho : isOpen s = true) (hw : WFs s) (hrx : s.rx_seq < 8) (c : List UInt8) :
    (BV.Src.Ash.AshProtocol.data_received c s).2.buffer.length ≤ maxBufferSize := by
  obtain ⟨s', h1, h2, _⟩ := data_received_eq s c ho hw hrx false
  rw [h1]
  simp only
  rw [h2]
  exact c02_buffer_bounded _ c

/-- the hypotheses are met by a freshly connected protocol object -/
example : isOpen ({ transport := some false } : S) = true ∧ WFs ({ transport := some false } : S) ∧
    DecOk (decOf ({ transport := some false } : S) false) := by
  refine ⟨rfl, ⟨?_, ?_, ?_⟩, ⟨by intro b hb; simp [decOf] at hb, by simp [decOf]⟩⟩ <;> simp

end Source

end BV.Props.C02
