/-
C07 — EZSP frame headers and command schemas form a consistent codec in every version.
Model: BV.Codec (generic payload codec over the generated descriptors; three header layouts).
Tables: BV.Gen.Commands, regenerated from bellows/ezsp/v*/commands.py on every run.
-/
import BV.Proofs.CodecLemmas
import BV.Gen.Commands
import BV.Proofs.Src.Hdr
namespace BV.Props.C07
open BV.Codec BV.Gen.Commands

/-- payload round trip for every descriptor of the prefix-free fragment and every value, with any bytes
following: decoding the encoding returns exactly the value and leaves exactly the rest -/
theorem c07_de_ser (fuel : Nat) (d : TDesc) (v : Val) (out rest : List UInt8) (hp : d.pf = true)
    (h : ser d v = some out) : de fuel d (out ++ rest) = some (v, rest) :=
  de_ser fuel d v out rest hp h

/-- schema round trip: prefix-free fields followed by at most one tail field (raw bytes, or an
optional field) decode to exactly the values with no bytes left over -/
theorem c07_schema_roundtrip (fuel : Nat) (fs : List TDesc) (vs : List Val) (out : List UInt8)
    (hok : rtOk fs = true) (h : serFields fs vs = some out) (hv : tailVals fs vs) :
    deFields fuel fs out = some (vs, []) :=
  schema_roundtrip fuel fs vs out hok h hv

/-- header round trip in all three layouts: sequence, frame ID and payload come back unchanged -/
theorem c07_header_roundtrip (h : Hdr) (seq id : Nat) (payload : List UInt8) (hs : seq < 256)
    (hi : id ≤ maxId h) : rxHeader h (txHeader h seq id ++ payload) = some (seq, id, payload) :=
  rx_tx_header h seq id payload hs hi

/-- the header layout per version and the literal bytes of each layout -/
theorem c07_tx_layout (seq id : Nat) :
    txHeader (hdrOf 4) seq id = [UInt8.ofNat seq, 0x00, UInt8.ofNat id] ∧
    (∀ v, 5 ≤ v → v ≤ 7 → txHeader (hdrOf v) seq id = [UInt8.ofNat seq, 0x00, 0xFF, 0x00, UInt8.ofNat id]) ∧
    (∀ v, 8 ≤ v → txHeader (hdrOf v) seq id =
        [UInt8.ofNat seq, 0x00, 0x01, UInt8.ofNat (id % 256), UInt8.ofNat (id / 256)]) := by
  refine ⟨rfl, ?_, ?_⟩
  · intro v h1 h2
    have : hdrOf v = .v5 := by unfold hdrOf; split; omega; split; rfl; omega
    rw [this]; rfl
  · intro v h1
    have : hdrOf v = .v8 := by unfold hdrOf; split; omega; split; omega; rfl
    rw [this]; rfl

/-- **every generated table** (all versions): frame IDs are unique, names are unique, every ID fits the
version's header, every tx and rx schema lowers to valid descriptors, greedy / optional fields occur
only in last position of an rx schema, argument names are unique -/
theorem c07_tables_ok : ∀ v ∈ versions, tableOk (maxId (hdrOf v)) (cmds v) = true := by
  decide +kernel

/-- the handler class registered for each version is that version's own, and `hdrOf` agrees with the
class hierarchy (v4: EZSPv4 layout; v5–v7: EZSPv5 layout; v8+: EZSPv8 layout) -/
theorem c07_by_version : byVersion = versions.map fun v => (v, v) := by decide +kernel

/-- how many (version, command) pairs the schema round-trip theorem covers: all but the rows whose rx
schema ends in a greedy list (`readCounters`, `readAndClearCounters`), nests an optional field in a trailing struct
(`getMulticastTableEntry`), contains the one `requires`-conditioned field (`getTokenData`) or the struct with the
receive-side padding quirk (`EmberKeyStruct` in `getKey` / `getKeyTableEntry`); those rows are covered by the
differential check only -/
theorem c07_rx_coverage :
    (versions.map fun v => ((cmds v).filter fun c => !rtOk c.rxT).length) =
      [5, 5, 5, 5, 5, 6, 6, 6, 6, 4, 3] := by
  decide +kernel

/-- **receive path, every version, every command, every value tuple**: for a command `c` of version `v`
whose rx schema is of the covered shape, the frame `header(seq, c.id) ++ encoding(vs)` is decoded by
the receive path as command `c` with exactly the values `vs` and no bytes left over -/
theorem c07_rx_roundtrip_all (v : Nat) (hv : v ∈ versions) (c : Cmd) (hc : c ∈ cmds v)
    (seq : Nat) (hs : seq < 256) (vs : List Val) (body : List UInt8)
    (hok : rtOk c.rxT = true) (hser : serFields c.rxT vs = some body) (htv : tailVals c.rxT vs) :
    rxFrame v (cmds v) (txHeader (hdrOf v) seq c.id ++ body) = .ok seq c.id c.name vs [] := by
  have htab := c07_tables_ok v hv
  simp only [tableOk, Bool.and_eq_true, List.all_eq_true] at htab
  obtain ⟨⟨hid, _⟩, hrows⟩ := htab
  have hrow := hrows c hc
  simp only [rowOk, Bool.and_eq_true, decide_eq_true_eq] at hrow
  have hmax : c.id ≤ maxId (hdrOf v) := hrow.1.1.1.1.1
  unfold rxFrame
  rw [rx_tx_header _ _ _ _ hs hmax]
  simp only [find_by_id (cmds v) c hc hid]
  rw [schema_roundtrip _ c.rxT vs body hok hser htv]

/-- the frame of a call = header, then the arguments serialised in declared order -/
theorem c07_tx_frame (v : Nat) (cs : List Cmd) (seq : Nat) (c : Cmd) (vs : List Val) (body : List UInt8)
    (hf : findByName cs c.name = some c) (hser : serFields c.txT vs = some body) :
    txFrame v cs seq c.name vs = some (txHeader (hdrOf v) seq c.id ++ body) := by
  simp [txFrame, hf, hser]

theorem resolve_go_pos (keys : List String) (args : List Val) (pre : List Val) (h : keys.length = args.length) :
    resolveArgs.go (pre ++ args) [] pre.length keys = some args := by
  induction keys generalizing args pre with
  | nil => cases args <;> simp_all [resolveArgs.go]
  | cons k ks ih =>
    cases args with
    | nil => simp at h
    | cons a as =>
      have h1 : (pre ++ a :: as)[pre.length]? = some a := by simp
      have h2 := ih as (pre ++ [a]) (by simpa using h)
      simp only [List.append_assoc, List.singleton_append, List.length_append, List.length_cons,
        List.length_nil] at h2
      simp [resolveArgs.go, List.lookup, h1, h2]

/-- positional and keyword forms are equivalent: all-positional resolves to the values as given -/
theorem c07_positional (keys : List String) (args : List Val) (h : keys.length = args.length) :
    resolveArgs keys args [] = some args := by
  have := resolve_go_pos keys args [] h
  simpa [resolveArgs] using this

theorem resolve_go_kw (keys : List String) (vals : List Val) (all : List (String × Val)) (i : Nat)
    (h : keys.length = vals.length)
    (hl : ∀ j (hj : j < keys.length), all.lookup keys[j] = some (vals[j]'(h ▸ hj))) :
    resolveArgs.go [] all i keys = some vals := by
  induction keys generalizing vals i with
  | nil =>
    cases vals with
    | nil => simp [resolveArgs.go]
    | cons _ _ => simp at h
  | cons k ks ih =>
    cases vals with
    | nil => simp at h
    | cons a as =>
      have h0 := hl 0 (by simp)
      simp only [List.getElem_cons_zero] at h0
      have := ih as (i + 1) (by simpa using h) (fun j hj => by
        have := hl (j + 1) (by simp; omega)
        simpa using this)
      simp [resolveArgs.go, h0, this]

/-- … and all-keyword (in any order, here as an association list whose lookup gives each key its
value) resolves to the same values in declared order -/
theorem c07_pos_kw_equiv (keys : List String) (vals : List Val) (kw : List (String × Val))
    (h : keys.length = vals.length)
    (hl : ∀ j (hj : j < keys.length), kw.lookup keys[j] = some (vals[j]'(h ▸ hj))) :
    resolveArgs keys [] kw = resolveArgs keys vals [] := by
  rw [c07_positional keys vals h]
  simpa [resolveArgs] using resolve_go_kw keys vals kw 0 h hl

example : rtOk [.uint 1, .lvbytes 1] = true ∧
    serFields [.uint 1, .lvbytes 1] [.num 7, .bytes [1, 2]] = some [7, 2, 1, 2] := by
  simp [rtOk, tailOk, TDesc.pf, serFields, ser, leBytes]


/-! ### the frame headers over the definitions generated from bellows/ezsp/v4, v5, v8 (BV/Gen/SrcHdrV4/5/8.lean)

`_ezsp_frame_tx` / `_ezsp_frame_rx` of the three classes that define them are translated from the syntax tree on every run and
proved equal to `txHeader` / `rxHeader` (BV/Proofs/Src/Hdr.lean); which class serves which protocol version is reflection data. -/
section Src
open BV.Py BV.Proofs.Src.Hdr

/-- transmit headers, source level: the translated code writes exactly the model's header (sequence number - masked to a byte by
the legacy class only -, frame control, and the frame ID in the width of its format) -/
theorem c07_src_tx_headers (h : Handler) (name : String) (id : Nat) (hl : h.cmds.lookup name = some id) (hs : h.seq < 256) :
    (id < 256 → BV.Src.HdrV4.frame_tx name h = (.ok (txHeader .v4 (h.seq % 256) id), h)) ∧
    (id < 256 → BV.Src.HdrV5.frame_tx name h = (.ok (txHeader .v5 h.seq id), h)) ∧
    (id < 65536 → BV.Src.HdrV8.frame_tx name h = (.ok (txHeader .v8 h.seq id), h)) :=
  ⟨fun hid => v4_tx h name id hl hid, fun hid => v5_tx h name id hl hid hs, fun hid => v8_tx h name id hl hid hs⟩

/-- receive headers, source level: for every byte string the translated parser returns the model's (sequence, frame ID, payload),
and raises exactly where the model has no header to read -/
theorem c07_src_rx_headers (h : Handler) (d : List UInt8) :
    (BV.Src.HdrV4.frame_rx d h).1.toOption = rxHeader .v4 d ∧
    (BV.Src.HdrV5.frame_rx d h).1.toOption = rxHeader .v5 d ∧
    (BV.Src.HdrV8.frame_rx d h).1.toOption = rxHeader .v8 d :=
  ⟨(v4_rx h d).1, (v5_rx h d).1, (v8_rx h d).1⟩

/-- the header round trip over the generated code: what `_ezsp_frame_rx` reads back from `_ezsp_frame_tx`'s bytes followed by any
payload is the sequence number, the frame ID and the payload (all three formats) -/
theorem c07_src_header_roundtrip (h : Handler) (name : String) (id : Nat) (p : List UInt8) (hl : h.cmds.lookup name = some id)
    (hs : h.seq < 256) (hid : id < 256) :
    (∀ b, BV.Src.HdrV4.frame_tx name h = (.ok b, h) → (BV.Src.HdrV4.frame_rx (b ++ p) h).1 = .ok (h.seq, id, p)) ∧
    (∀ b, BV.Src.HdrV5.frame_tx name h = (.ok b, h) → (BV.Src.HdrV5.frame_rx (b ++ p) h).1 = .ok (h.seq, id, p)) ∧
    (∀ b, BV.Src.HdrV8.frame_tx name h = (.ok b, h) → (BV.Src.HdrV8.frame_rx (b ++ p) h).1 = .ok (h.seq, id, p)) := by
  have hm : h.seq % 256 = h.seq := Nat.mod_eq_of_lt hs
  refine ⟨?_, ?_, ?_⟩
  · intro b hb
    rw [v4_tx h name id hl hid] at hb
    have hb' : b = txHeader .v4 (h.seq % 256) id := by injection hb with h1; injection h1 with h2; exact h2.symm
    subst hb'
    simp [BV.Src.HdrV4.frame_rx, txHeader, bind, PyM.bind, PyM.lift, byteAt, pure, PyM.pure, sliceFrom, hm,
      ofNat_toNat_eq h.seq hs, ofNat_toNat_eq id hid]
  · intro b hb
    rw [v5_tx h name id hl hid hs] at hb
    have hb' : b = txHeader .v5 h.seq id := by injection hb with h1; injection h1 with h2; exact h2.symm
    subst hb'
    simp [BV.Src.HdrV5.frame_rx, txHeader, bind, PyM.bind, PyM.lift, byteAt, pure, PyM.pure, sliceFrom,
      ofNat_toNat_eq h.seq hs, ofNat_toNat_eq id hid]
  · intro b hb
    rw [v8_tx h name id hl (by omega) hs] at hb
    have hb' : b = txHeader .v8 h.seq id := by injection hb with h1; injection h1 with h2; exact h2.symm
    subst hb'
    have h1 : id % 256 = id := Nat.mod_eq_of_lt hid
    have h2 : id / 256 = 0 := Nat.div_eq_of_lt hid
    simp [BV.Src.HdrV8.frame_rx, txHeader, bind, PyM.bind, PyM.lift, byteAt, pure, PyM.pure, sliceFrom, u16de,
      ofNat_toNat_eq h.seq hs, h1, h2, ofNat_toNat_eq id hid]

/-- which class serves which version (reflection) is the model's `hdrOf` -/
theorem c07_src_header_classes :
    ∀ r ∈ BV.Gen.Accessors.definedBy, (r.2.1 = "_ezsp_frame_tx" ∨ r.2.1 = "_ezsp_frame_rx") → r.2.2 = hdrClass (hdrOf r.1) :=
  header_classes

example : BV.Src.HdrV8.frame_tx "nop" { seq := 7, cmds := [("nop", 5)] } = (.ok [7, 0, 1, 5, 0], { seq := 7, cmds := [("nop", 5)] }) := by
  decide +kernel

end Src

end BV.Props.C07
