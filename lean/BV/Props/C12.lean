/-
C12 — a unicast is reported delivered only on its own delivery confirmation.
Model: BV.Send (send_packet / _handle_frame_sent at settled loop states; `_req_lock` as an explicit
holder; the pending table = the list of requests in progress).
-/
import BV.Model.App.Send
namespace BV.Props.C12
open BV.Send BV.Gen.App

/-! ### structural facts about the helpers -/

theorem finish_spec (s : St) (r : Req) (res : Res) :
    (finish s r res).2 = [.done r.id res] ∧ (finish s r res).1.lock = s.lock ∧
    (∀ x ∈ (finish s r res).1.reqs, x.id ≠ r.id) ∧ (finish s r res).1.now = s.now := by
  refine ⟨rfl, rfl, ?_, rfl⟩
  intro x hx
  simp only [finish, drop, List.mem_filter, decide_eq_true_eq] at hx
  exact hx.2

/-- **no bookkeeping remains**: whatever the outcome (success, refusal, busy, failed confirmation,
timeout, cancellation, an exception from the command layer), the request's (destination, tag) entry is
gone from the pending table in the very step that reports the outcome -/
theorem c12_no_leak (s : St) (r : Req) (res : Res) : ∀ x ∈ (finish s r res).1.reqs, x.id ≠ r.id :=
  (finish_spec s r res).2.2.1

theorem enter_spec (s : St) (r : Req) :
    (∀ id st, Out.cmd id st ∈ (enter s r).2 → id = r.id ∧ (enter s r).1.lock = some r.id) ∧
    ((enter s r).2 = [] → (enter s r).1 = s) := by
  unfold enter
  cases r.steps with
  | nil => simp
  | cons st rest =>
    refine ⟨?_, ?_⟩
    · intro id st' h; simp at h; exact ⟨h.1, rfl⟩
    · intro h; simp at h

theorem acquire_cmd (s : St) (r : Req) (id : Nat) (st : Step) (h : Out.cmd id st ∈ (acquire s r).2) :
    id = r.id ∧ (acquire s r).1.lock = some r.id ∧ s.lock = none := by
  unfold acquire at h ⊢
  split at h
  · rename_i hc
    simp only [hc, and_self, ↓reduceIte]
    obtain ⟨a, b⟩ := (enter_spec s r).1 id st h
    exact ⟨a, b, by simpa using hc.1⟩
  · simp at h

theorem acquire_lock (s : St) (r : Req) (a : Nat) (h : s.lock = some a) :
    (acquire s r).1.lock = some a ∧ (acquire s r).2 = [] := by
  unfold acquire
  simp [h, upd]

theorem grant_cmd (s : St) (id : Nat) (st : Step) (h : Out.cmd id st ∈ (grant s).2) :
    (grant s).1.lock = some id := by
  unfold grant at h ⊢
  cases hw : s.lockWaiters with
  | nil => simp [hw] at h
  | cons w ws =>
    simp only [hw] at h ⊢
    cases hr : s.reqs.find? (·.id = w) with
    | none => simp [hr] at h
    | some r =>
      simp only [hr] at h ⊢
      obtain ⟨a, b⟩ := (enter_spec { s with lockWaiters := ws } r).1 id st h
      rw [a]; exact b

/-- a deadline firing never hands out commands while somebody holds the lock, and never touches the lock
otherwise than by taking it when it is free -/
theorem fireOne_lock (s : St) (x : St × List Out) (h : fireOne s = some x) :
    (∀ id st, Out.cmd id st ∈ x.2 → x.1.lock = some id ∧ s.lock = none) ∧
    (∀ a, s.lock = some a → x.1.lock = some a) := by
  unfold fireOne at h
  split at h
  · simp at h
  · rename_i d r hd
    split at h
    · simp at h
    · split at h
      · split at h
        · injection h with h; subst h
          exact ⟨by intro id st hc; simp [finish] at hc, fun a ha => ha⟩
        · injection h with h; subst h
          refine ⟨fun id st hc => ?_, fun a ha => (acquire_lock s _ a ha).1⟩
          obtain ⟨e1, e2, e3⟩ := acquire_cmd s _ id st hc
          exact ⟨by rw [e1]; exact e2, e3⟩
      · injection h with h; subst h
        exact ⟨by intro id st hc; simp [finish] at hc, fun a ha => ha⟩
      · simp at h

theorem fireDue_lock (n : Nat) (s : St) :
    (∀ id st, Out.cmd id st ∈ (fireDue n s).2 → (fireDue n s).1.lock = some id) ∧
    (∀ a, s.lock = some a → (fireDue n s).1.lock = some a ∧ ∀ id st, Out.cmd id st ∉ (fireDue n s).2) := by
  induction n generalizing s with
  | zero => exact ⟨by intro id st h; simp [fireDue] at h, fun a ha => ⟨ha, by intro id st h; simp [fireDue] at h⟩⟩
  | succ n ih =>
    unfold fireDue
    cases hf : fireOne s with
    | none => exact ⟨by intro id st h; simp at h, fun a ha => ⟨ha, by intro id st h; simp at h⟩⟩
    | some x =>
      obtain ⟨s1, o1⟩ := x
      obtain ⟨f1, f2⟩ := fireOne_lock s (s1, o1) hf
      obtain ⟨i1, i2⟩ := ih s1
      simp only
      constructor
      · intro id st hc
        rcases List.mem_append.mp hc with hc | hc
        · obtain ⟨a, _⟩ := f1 id st hc
          exact (i2 id a).1
        · exact i1 id st hc
      · intro a ha
        have h1 := f2 a ha
        obtain ⟨j1, j2⟩ := i2 a h1
        refine ⟨j1, ?_⟩
        intro id st hc
        rcases List.mem_append.mp hc with hc | hc
        · have := (f1 id st hc).2; rw [ha] at this; cases this
        · exact j2 id st hc

/-- **set-up and send are never interleaved**: every EZSP command that `send_packet` issues is issued on
behalf of the request that holds `_req_lock` when the step settles -/
theorem c12_setup_atomic (s : St) (i : In) (id : Nat) (st : Step) (h : Out.cmd id st ∈ (step s i).2) :
    (step s i).1.lock = some id := by
  cases i with
  | send rid dst kind steps =>
    simp only [step] at h ⊢
    exact (acquire_cmd _ _ id st h).2.1 ▸ (by rw [(acquire_cmd _ _ id st h).1])
  | cmdDone e =>
    simp only [step] at h ⊢
    cases hh : holder s with
    | none => simp [hh] at h
    | some r =>
      simp only [hh] at h ⊢
      split
      · rename_i rest hp
        simp only [hp] at h
        cases e with
        | ok =>
          simp only at h ⊢
          rcases List.mem_append.mp h with h | h
          · unfold afterEnqueue at h
            split at h
            · simp [finish] at h
            · split at h <;> simp [finish] at h
          · exact grant_cmd _ id st h
        | busy =>
          simp only at h ⊢
          rcases List.mem_append.mp h with h | h
          · simp at h
          · exact grant_cmd _ id st h
        | refused =>
          simp only at h ⊢
          rcases List.mem_append.mp h with h | h
          · simp [finish] at h
          · exact grant_cmd _ id st h
      · rename_i x next rest hp
        simp only [hp, List.mem_singleton, Out.cmd.injEq] at h ⊢
        -- the holder issues its next set-up command and keeps the lock
        have hl : s.lock = some r.id := by
          unfold holder at hh
          cases hlk : s.lock with
          | none => simp [hlk] at hh
          | some a =>
            simp only [hlk, Option.bind_some] at hh
            have := List.find?_some hh
            simp at this
            rw [this]
        simp only [upd]
        rw [h.1]; exact hl
      · rename_i hne1 hne2
        split at h <;> simp_all
  | cmdRaise =>
    simp only [step] at h ⊢
    cases hh : holder s with
    | none => simp [hh] at h
    | some r =>
      simp only [hh] at h ⊢
      rcases List.mem_append.mp h with h | h
      · simp [finish] at h
      · exact grant_cmd _ id st h
  | confirm dst tag ok =>
    simp only [step] at h
    cases hf : s.reqs.find? (fun r => r.dst = dst ∧ r.tag = tag) with
    | none => simp only [hf] at h; simp at h
    | some r =>
      simp only [hf] at h
      cases hfu : r.fut with
      | result b => simp only [hfu] at h; simp at h
      | pending =>
        simp only [hfu] at h
        cases hp : r.phase <;> simp only [hp] at h <;> simp [finish] at h
  | timer =>
    simp only [step] at h ⊢
    split at h
    · simp at h
    · exact (fireDue_lock _ _).1 id st h
  | wait d =>
    simp only [step] at h ⊢
    exact (fireDue_lock _ _).1 id st h
  | cancel cid =>
    simp only [step] at h ⊢
    cases hfnd : s.reqs.find? (·.id = cid) with
    | none => simp [hfnd] at h
    | some r =>
      simp only [hfnd] at h ⊢
      by_cases hl : s.lock = some cid
      · simp only [hl, ↓reduceIte] at h ⊢
        rcases List.mem_append.mp h with h | h
        · simp [finish] at h
        · exact grant_cmd _ id st h
      · simp only [hl, ↓reduceIte] at h
        simp [finish] at h

/-- while a request holds the lock, a new request, a confirmation, a deadline or a clock advance neither
takes the lock away nor issues any command: only the holder's own command completing (or failing) or its
cancellation ends its section -/
theorem c12_holder_undisturbed (s : St) (a : Nat) (ha : s.lock = some a) (i : In)
    (hi : (∃ id dst k st, i = .send id dst k st) ∨ (∃ d t ok, i = .confirm d t ok) ∨ i = .timer ∨ (∃ d, i = .wait d) ∨
          (∃ c, i = .cancel c ∧ c ≠ a)) :
    (step s i).1.lock = some a ∧ ∀ id st, Out.cmd id st ∉ (step s i).2 := by
  rcases hi with ⟨id, dst, k, st, rfl⟩ | ⟨d, t, ok, rfl⟩ | rfl | ⟨d, rfl⟩ | ⟨c, rfl, hc⟩
  · simp only [step]
    have := acquire_lock { s with seq := (s.seq + 1) % 256, reqs := s.reqs ++ [⟨id, dst, k, (s.seq + 1) % 256, st, 0, .waitLock, .pending⟩] }
      ⟨id, dst, k, (s.seq + 1) % 256, st, 0, .waitLock, .pending⟩ a ha
    exact ⟨this.1, by intro x y h; rw [this.2] at h; simp at h⟩
  · simp only [step]
    split
    · exact ⟨ha, by simp⟩
    · split
      · exact ⟨ha, by simp⟩
      · split
        · exact ⟨by rw [(finish_spec s _ _).2.1]; exact ha, by simp [finish]⟩
        · exact ⟨ha, by simp⟩
  · simp only [step]
    split
    · exact ⟨ha, by simp⟩
    · exact (fireDue_lock _ _).2 a ha
  · simp only [step]
    exact (fireDue_lock _ _).2 a ha
  · simp only [step]
    split
    · exact ⟨ha, by simp⟩
    · have hne : ¬ s.lock = some c := by rw [ha]; intro h; cases h; exact hc rfl
      simp only [hne, ↓reduceIte]
      exact ⟨by rw [(finish_spec s _ _).2.1]; exact ha, by simp [finish]⟩

/-- **foreign, duplicate and unsolicited confirmations never complete a request**: a confirmation whose
(destination, tag) matches no request in progress is counted and ignored; one for a request that already
has its confirmation is counted as a duplicate and ignored; neither changes any state -/
theorem c12_foreign_ignored (s : St) (dst tag : Nat) (ok : Bool) :
    (s.reqs.find? (fun r => r.dst = dst ∧ r.tag = tag) = none → step s (.confirm dst tag ok) = (s, [.unexpected])) ∧
    (∀ r b, s.reqs.find? (fun r => r.dst = dst ∧ r.tag = tag) = some r → r.fut = .result b →
        step s (.confirm dst tag ok) = (s, [.duplicate])) := by
  constructor
  · intro h; simp only [step, h]
  · intro r b h hf; simp only [step, h, hf]

/-- **the own confirmation decides**: for the request waiting under (destination, tag), a confirmation
with that destination and tag ends it - delivered iff it reports success, otherwise a delivery error -/
theorem c12_own_confirmation (s : St) (r : Req) (d : Rat) (ok : Bool)
    (h : s.reqs.find? (fun x => x.dst = r.dst ∧ x.tag = r.tag) = some r) (hf : r.fut = .pending)
    (hp : r.phase = .confirm d) :
    step s (.confirm r.dst r.tag ok) = finish s r (if ok then .ok else .failedConfirm) := by
  simp only [step, h, hf, hp]

/-- a `done … ok` for a NWK-addressed request arises only from its own successful confirmation: either it
arrives while the request waits for it, or it arrived before the NCP accepted the message -/
theorem c12_ok_iff (s : St) (r : Req) (hk : r.kind = .unicast) :
    (afterEnqueue s r).2 = [.done r.id .ok] → r.fut = .result true := by
  unfold afterEnqueue
  simp only [hk, ne_eq, not_true_eq_false, ↓reduceIte]
  cases hf : r.fut with
  | pending => simp
  | result b => cases b <;> simp [finish]

/-- errors: a refusal ends the request at once; a busy reply arms exactly the configured retry delay;
after the last configured attempt the request gives up; a missing confirmation raises exactly
APS_ACK_TIMEOUT after the NCP accepted the message -/
theorem c12_errors :
    delays = [1/2, 1, 3/2] ∧ apsTimeout = 120 ∧
    (∀ (s : St) (r : Req), r.kind = .unicast → r.fut = .pending →
        (afterEnqueue s r).1.reqs = (upd s { r with phase := .confirm (s.now + apsTimeout) }).reqs ∧ (afterEnqueue s r).2 = []) ∧
    (∀ (s : St) (r : Req) (u : Rat), r.phase = .sleeping u → nextDeadline s = some (u, r) → u ≤ s.now →
        r.attempt + 1 ≥ delays.length → fireOne s = some (finish s r .busyGaveUp)) ∧
    (∀ (s : St) (r : Req) (u : Rat), r.phase = .confirm u → nextDeadline s = some (u, r) → u ≤ s.now →
        fireOne s = some (finish s r .timeout)) := by
  refine ⟨by decide +kernel, by decide +kernel, ?_, ?_, ?_⟩
  · intro s r hk hf
    simp [afterEnqueue, hk, hf]
  · intro s r u hp hn hu ha
    have : ¬ u > s.now := Rat.not_lt.mpr hu
    simp [fireOne, hn, this, hp, ha]
  · intro s r u hp hn hu
    have : ¬ u > s.now := Rat.not_lt.mpr hu
    simp [fireOne, hn, this, hp]

example : (run {} [.send 1 0x1234 .unicast [.sourceRoute, .send], .send 2 0x1235 .unicast [.send],
    .cmdDone .ok, .cmdDone .ok, .confirm 0x1234 1 true]).2 =
    [[.cmd 1 .sourceRoute], [], [.cmd 1 .send], [.cmd 2 .send], [.done 1 .ok]] := by decide +kernel

end BV.Props.C12
