/-
C17 — event-completed operations never miss their completing event or leak listeners.
Model: BV.Events (wait_for_stack_status / formNetwork / leaveNetwork / _ensure_network_running /
_list_command at settled loop states).  Listeners and callbacks are *derived* from the operations in
progress, so "no leak" is: every reported outcome removes its operation.
-/
import BV.Model.Ezsp.Events
namespace BV.Props.C17
open BV.Events BV.Gen.App

theorem timeouts_eq : Kind.form.timeout = 10 ∧ Kind.leave.timeout = 10 ∧ Kind.bringUp.timeout = 10 := by
  decide +kernel

/-- listeners and scan callbacks belong only to operations in progress -/
theorem c17_registered_subset (s : St) (st : Stat) :
    (∀ id ∈ listeners s st, id ∈ s.ops.map (·.id)) ∧ (∀ id ∈ callbacks s, id ∈ s.ops.map (·.id)) := by
  constructor
  · intro id h
    simp only [listeners, List.mem_map, List.mem_filter] at h ⊢
    obtain ⟨o, ⟨ho, _⟩, rfl⟩ := h
    exact ⟨o, ho, rfl⟩
  · intro id h
    simp only [callbacks, List.mem_map, List.mem_filter] at h ⊢
    obtain ⟨o, ⟨ho, _⟩, rfl⟩ := h
    exact ⟨o, ho, rfl⟩

/-- **no leak**: the step that reports an operation's outcome - success, refusal, timeout,
cancellation, failed completion - removes the operation, hence its listener and its callback -/
theorem c17_no_leak (s : St) (o : Op) (r : Res) (st : Stat) :
    (finish s o r).2 = [.done o.id r] ∧ o.id ∉ (finish s o r).1.ops.map (·.id) ∧
    o.id ∉ listeners (finish s o r).1 st ∧ o.id ∉ callbacks (finish s o r).1 := by
  have hno : o.id ∉ (finish s o r).1.ops.map (·.id) := by
    simp only [finish, drop, List.mem_map, List.mem_filter, decide_eq_true_eq, not_exists, not_and]
    intro x hx h; exact hx.2 h
  refine ⟨rfl, hno, ?_, ?_⟩
  · intro h; exact hno ((c17_registered_subset _ st).1 _ h)
  · intro h; exact hno ((c17_registered_subset _ st).2 _ h)

/-- an operation that ends is gone; the others keep their registration -/
theorem c17_cancel (s : St) (o : Op) (h : s.ops.find? (·.id = o.id) = some o) :
    step s (.cancel o.id) = finish s o .cancelled := by
  simp [step, h]

/-- **the event is observed whenever it arrives after the command was issued - even before the command's
own response**: begin, matching event, successful response ⇒ the operation returns -/
theorem c17_event_before_response (id : Nat) (k : Kind) (hk : k = .form ∨ k = .leave) :
    (run {} [.begin id k, .status k.want, .resp id .ok]).2 = [[.cmd id 0], [], [.done id (.ok [])]] ∧
    (run {} [.begin id k, .status k.want, .resp id .ok]).1.ops = [] := by
  rcases hk with rfl | rfl <;> simp [run, step, listening, Kind.want, upd, finish, drop]

/-- … and after the response -/
theorem c17_event_after_response (id : Nat) (k : Kind) (hk : k = .form ∨ k = .leave) :
    (run {} [.begin id k, .resp id .ok, .status k.want]).2 = [[.cmd id 0], [], [.done id (.ok [])]] ∧
    (run {} [.begin id k, .resp id .ok, .status k.want]).1.ops = [] := by
  rcases hk with rfl | rfl <;> simp [run, step, listening, Kind.want, upd, finish, drop, Kind.timeout]

/-- bring-up: already joined ⇒ nothing to do; otherwise initialise and wait for NETWORK_UP -/
theorem c17_bring_up (id : Nat) :
    (run {} [.begin id .bringUp, .resp id .joined]).2 = [[.cmd id 0], [.done id .notStarted]] ∧
    (run {} [.begin id .bringUp, .resp id .ok, .resp id .ok, .status .up]).2 =
      [[.cmd id 0], [.cmd id 1], [], [.done id (.ok [])]] ∧
    (run {} [.begin id .bringUp, .resp id .ok, .resp id .notJoined]).2 = [[.cmd id 0], [.cmd id 1], [.done id .notJoined]] := by
  refine ⟨?_, ?_, ?_⟩ <;> simp [run, step, listening, Kind.want, upd, finish, drop, Kind.timeout]

/-- an event that arrived before the operation was started does not complete it, nor does a
non-matching event: the operation then ends by TimeoutError exactly `timeout` after its command succeeded -/
theorem c17_no_stale_event (id : Nat) (k : Kind) (hk : k = .form ∨ k = .leave) (oth : Stat) (ho : oth ≠ k.want) :
    (run {} [.status k.want, .begin id k, .resp id .ok, .status oth, .timer]).2 =
      [[], [.cmd id 0], [], [], [.done id .timeout]] ∧
    (run {} [.status k.want, .begin id k, .resp id .ok, .status oth, .timer]).1.now = k.timeout := by
  rcases hk with rfl | rfl <;> cases oth <;>
    simp_all [run, step, listening, Kind.want, upd, finish, drop, nextDeadline, fireDue, Rat.zero_add]

/-- a refused command ends the operation with its error at once, and nothing stays registered -/
theorem c17_refused (id : Nat) (k : Kind) (hk : k = .form ∨ k = .leave ∨ k = .scan) :
    (run {} [.begin id k, .resp id .refused]).2 = [[.cmd id 0], [.done id .refused]] ∧
    (run {} [.begin id k, .resp id .refused]).1.ops = [] := by
  rcases hk with rfl | rfl | rfl <;> simp [run, step, finish, drop]

/-- **scan window**: the result list is, in order, every result callback processed from the issue of
the scan to its completion callback; one processed before the scan was issued is not in it; a failed
completion raises -/
theorem c17_scan_window (id a b c : Nat) :
    (run {} [.item a, .begin id .scan, .item b, .resp id .ok, .item c, .complete true]).2.getLast? =
      some [.done id (.ok [b, c])] ∧
    (run {} [.item a, .begin id .scan, .resp id .ok, .item b, .complete false]).2.getLast? =
      some [.done id .completionFailed] ∧
    (run {} [.begin id .scan, .item b, .complete true, .resp id .ok]).2.getLast? = some [.done id (.ok [b])] := by
  refine ⟨?_, ?_, ?_⟩ <;> simp [run, step, upd, finish, drop]

/-- items are appended, in arrival order, to every scan in progress and to nothing else -/
theorem c17_item (s : St) (tag : Nat) :
    (step s (.item tag)).2 = [] ∧
    (step s (.item tag)).1.ops = s.ops.map fun o => if o.kind = .scan then { o with results := o.results ++ [tag] } else o := by
  simp [step]

example : (run {} [.begin 1 .form, .begin 2 .scan, .status .up, .resp 1 .ok, .cancel 2]).1 = {} := by
  decide +kernel

end BV.Props.C17
