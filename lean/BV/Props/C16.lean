/-
C16 — Config write never shrinks a table, honours overrides, sets buffer count last.
Model: BV/Model/Config.lean (EZSP.write_config); tables: BV/Gen/Config.lean.
Overrides are what `config.items()` yields after schema validation: a dict, i.e. a list
without repeated keys (`hov`).
-/
import BV.Proofs.ConfigLemmas
namespace BV.Props.C16
open BV.Config BV.Gen.Config

theorem inj_of_nodup_map {α β} {f : α → β} {l : List α} (h : (l.map f).Nodup) {a b : α}
    (ha : a ∈ l) (hb : b ∈ l) (e : f a = f b) : a = b := by
  induction l with
  | nil => simp at ha
  | cons x xs ih =>
    simp only [List.map_cons, List.nodup_cons, List.mem_map, not_exists, not_and] at h
    rcases List.mem_cons.mp ha with ha | ha <;> rcases List.mem_cons.mp hb with hb | hb
    · rw [ha, hb]
    · exact absurd (ha ▸ e).symm (h.1 b hb)
    · exact absurd (hb ▸ e) (h.1 a ha)
    · exact ih h.2 ha hb

/-- the merged dict the write loop iterates: no repeated key, and exactly the overrides plus
the defaults that were neither overridden nor disabled -/
theorem merged_spec (rows : List Row) (sup : String → Bool) {ov : Overrides} (hov : (ovNames ov).Nodup) :
    (names (merged rows sup ov)).Nodup ∧ ∀ x, x ∈ merged rows sup ov ↔
      (∃ id v, (x.name, id, some v) ∈ ov ∧ x = ⟨x.name, id, v, !sup x.name && minOf (defaultCfgs rows) x.name⟩) ∨
        (x ∈ defaultCfgs rows ∧ x.name ∉ ovNames ov) := by
  obtain ⟨hn, hx⟩ := applyOverrides_spec sup (d := defaultCfgs rows) (defaultCfgs_nodup rows) hov
  unfold merged
  simp only
  split
  · exact ⟨moveLast_nodup hn _, fun x => by rw [moveLast_mem hn]; exact hx x⟩
  · exact ⟨hn, hx⟩

/-- Each setting is set at most once. -/
theorem c16_at_most_once (rows : List Row) (ncp : Ncp) (sup : String → Bool) {ov : Overrides}
    (hov : (ovNames ov).Nodup) : (setNames (writeConfigRows rows ncp sup ov)).Nodup := by
  unfold writeConfigRows
  rw [setNames_append, setNames_writeValues, List.nil_append]
  exact (setNames_writeCfgs_sublist ncp _).nodup (merged_spec rows sup hov).1

/-- **Never shrink.**  Take a grow-only default `c` (every capacity default is one, `c16_tables`) whose key the
user did not supply - whether the key is absent from the validated config or was filled in by the version's own
schema.  Whatever is written for that setting is strictly above the value the NCP reports; in particular nothing
is written when the NCP already reports at least the default. -/
theorem c16_never_shrink (rows : List Row) (ncp : Ncp) (sup : String → Bool) {ov : Overrides}
    (hov : (ovNames ov).Nodup)
    (c : Cfg) (hc : c ∈ defaultCfgs rows) (hmin : c.minimum = true) (hno : sup c.name = false)
    (cur : Nat) (hcur : ncp.cur c.id = some cur) :
    ∀ i v, Op.setCfg c.name i v ∈ writeConfigRows rows ncp sup ov → i = c.id → cur < v := by
  obtain ⟨hn, hx⟩ := merged_spec rows sup hov
  intro i v hmem hi
  rcases List.mem_append.mp hmem with hm | hm
  · exact absurd hm mem_writeValues_no_setCfg
  · obtain ⟨c', hc', hname, hid, hval, hskip⟩ := mem_writeCfgs_set.mp hm
    have hcur' : ncp.cur c'.id = some cur := by rw [hid, hi]; exact hcur
    rcases (hx c').mp hc' with ⟨id, w, hin, he⟩ | ⟨hdef, _⟩
    · have hm' : c'.minimum = true := by
        rw [he]
        simp only [hname, hno, Bool.not_false, Bool.true_and]
        rw [minOf_of_mem (defaultCfgs_nodup rows) hc]; exact hmin
      simp only [skip, hcur', hm', Bool.true_and, decide_eq_false_iff_not, Nat.not_le] at hskip
      omega
    · have : c' = c := same_name_eq (defaultCfgs_nodup rows) hdef hc hname
      subst this
      simp only [skip, hcur', hmin, Bool.true_and, decide_eq_false_iff_not, Nat.not_le] at hskip
      omega

/-- the corollary in the property's words: nothing is written for such a setting when the NCP already reports
at least the value the library would write -/
theorem c16_never_shrink_quiet (rows : List Row) (ncp : Ncp) (sup : String → Bool) {ov : Overrides}
    (hov : (ovNames ov).Nodup)
    (c : Cfg) (hc : c ∈ defaultCfgs rows) (hmin : c.minimum = true) (hno : sup c.name = false)
    (cur : Nat) (hcur : ncp.cur c.id = some cur) (v : Nat) (hge : cur ≥ v) :
    Op.setCfg c.name c.id v ∉ writeConfigRows rows ncp sup ov := by
  intro h
  have := c16_never_shrink rows ncp sup hov c hc hmin hno cur hcur c.id v h rfl
  omega

/-- … and it *is* written (with the default value) when the current value is smaller or unreadable. -/
theorem c16_grows_when_smaller (rows : List Row) (ncp : Ncp) (sup : String → Bool) {ov : Overrides}
    (hov : (ovNames ov).Nodup)
    (c : Cfg) (hc : c ∈ defaultCfgs rows) (hno : c.name ∉ ovNames ov)
    (hlt : ∀ cur, ncp.cur c.id = some cur → c.minimum = true → cur < c.value) :
    Op.setCfg c.name c.id c.value ∈ writeConfigRows rows ncp sup ov := by
  obtain ⟨hn, hx⟩ := merged_spec rows sup hov
  refine List.mem_append_right _ (mem_writeCfgs_set.mpr ⟨c, (hx c).mpr (Or.inr ⟨hc, hno⟩), rfl, rfl, rfl, ?_⟩)
  unfold skip
  cases hcur : ncp.cur c.id with
  | none => rfl
  | some cur =>
    cases hm : c.minimum with
    | false => simp
    | true => have := hlt cur hcur hm; simp; omega

/-- A user-supplied value is written exactly as given (and nothing else for that setting),
whatever the NCP currently reports. -/
theorem c16_override_exact (rows : List Row) (ncp : Ncp) (sup : String → Bool) {ov : Overrides}
    (hov : (ovNames ov).Nodup)
    (n : String) (i v : Nat) (hin : (n, i, some v) ∈ ov) (hsup : sup n = true) :
    Op.setCfg n i v ∈ writeConfigRows rows ncp sup ov ∧
      ∀ i' v', Op.setCfg n i' v' ∈ writeConfigRows rows ncp sup ov → i' = i ∧ v' = v := by
  obtain ⟨hn, hx⟩ := merged_spec rows sup hov
  have hcd : (⟨n, i, v, false⟩ : Cfg) ∈ merged rows sup ov := (hx _).mpr (Or.inl ⟨i, v, hin, by simp [hsup]⟩)
  constructor
  · refine List.mem_append_right _ (mem_writeCfgs_set.mpr ⟨_, hcd, rfl, rfl, rfl, ?_⟩)
    unfold skip; split <;> simp
  · intro i' v' hmem
    rcases List.mem_append.mp hmem with hm | hm
    · exact absurd hm mem_writeValues_no_setCfg
    · obtain ⟨c', hc', hname, hid, hval, _⟩ := mem_writeCfgs_set.mp hm
      have : c' = ⟨n, i, v, false⟩ := same_name_eq hn hc' hcd hname
      subst this
      exact ⟨hid.symm, hval.symm⟩

/-- Nothing is written for a disabled setting — whether or not it is among the defaults —
and the write cannot fail on it (`writeConfigRows` is total: it has no error outcome). -/
theorem c16_disabled_silent (rows : List Row) (ncp : Ncp) (sup : String → Bool) {ov : Overrides}
    (hov : (ovNames ov).Nodup) (n : String) (i : Nat) (hin : (n, i, none) ∈ ov) :
    ∀ i' v', Op.setCfg n i' v' ∉ writeConfigRows rows ncp sup ov := by
  obtain ⟨hn, hx⟩ := merged_spec rows sup hov
  intro i' v' hmem
  rcases List.mem_append.mp hmem with hm | hm
  · exact mem_writeValues_no_setCfg hm
  · obtain ⟨c', hc', hname, _, _, _⟩ := mem_writeCfgs_set.mp hm
    have hnin : n ∈ ovNames ov := List.mem_map_of_mem hin
    rcases (hx c').mp hc' with ⟨id, w, hin', _⟩ | ⟨_, hnot⟩
    · rw [hname] at hin'
      have hnd := hov
      unfold ovNames at hnd
      have := inj_of_nodup_map hnd hin hin' rfl
      simp at this
    · exact hnot (hname ▸ hnin)

/-- a version with defaults never fails, whatever the overrides -/
theorem c16_write_total (v : Nat) (rows : List Row) (hv : defaults v = some rows) (ncp : Ncp)
    (sup : String → Bool) (ov : Overrides) : writeConfig v ncp sup ov = .ok (writeConfigRows rows ncp sup ov) := by
  simp [writeConfig, hv]

def ncp0 : Ncp := ⟨fun _ => none, fun _ => true, fun _ => true⟩

/-- If the packet-buffer count is written, it is the last write of all — for every override
set, including settings outside the defaults. -/
theorem c16_buffer_last (rows : List Row) (ncp : Ncp) (sup : String → Bool) {ov : Overrides}
    (hov : (ovNames ov).Nodup)
    (i v : Nat) (hmem : Op.setCfg packetBufferCountName i v ∈ writeConfigRows rows ncp sup ov) :
    (writeConfigRows rows ncp sup ov).getLast? = some (Op.setCfg packetBufferCountName i v) := by
  obtain ⟨hn0, _⟩ := applyOverrides_spec sup (d := defaultCfgs rows) (ov := ov) (defaultCfgs_nodup rows) hov
  have hmn := (merged_spec rows sup hov).1
  rcases List.mem_append.mp hmem with hm | hm
  · exact absurd hm mem_writeValues_no_setCfg
  · obtain ⟨c, hc, hname, hid, hval, hskip⟩ := mem_writeCfgs_set.mp hm
    -- the merged dict is `… ++ [c]`
    have hshape : ∃ init, merged rows sup ov = init ++ [c] := by
      unfold merged at hc ⊢
      simp only at hc ⊢
      split at hc
      · rename_i hhas
        rw [if_pos hhas]
        cases hg : (applyOverrides sup (defaultCfgs rows) ov).get? packetBufferCountName with
        | none =>
          exfalso
          rw [moveLast_none _ hg] at hc
          have : (applyOverrides sup (defaultCfgs rows) ov).get? packetBufferCountName = some c :=
            (get?_eq_some hn0 _ c).mpr ⟨hc, hname⟩
          rw [hg] at this; cases this
        | some c' =>
          rw [moveLast_eq hn0 _ c' hg] at hc ⊢
          have hc'm := (get?_eq_some hn0 _ c').mp hg
          have : c = c' := by
            rcases List.mem_append.mp hc with h | h
            · exact absurd hname ((popD_mem hn0 _ c).mp h).2
            · simpa using h
          subst this
          exact ⟨_, rfl⟩
      · rename_i hhas
        exfalso; apply hhas
        simp only [Dict.has, List.any_eq_true]
        exact ⟨c, hc, by simpa using hname⟩
    obtain ⟨init, hinit⟩ := hshape
    unfold writeConfigRows
    rw [hinit, writeCfgs_append]
    simp only [writeCfgs, hskip, Bool.false_eq_true, if_false, ite_self]
    simp [hname, hid, hval]

def lastSet : List Op → Option String
  | ops => (setNames ops).getLast?

/-- A rejected setting does not stop the remaining ones: the sequence of reads and writes
is the same whatever the NCP answers to each set. -/
theorem c16_reject_continues (rows : List Row) (cur : Nat → Option Nat) (a1 a2 v1 v2 : Nat → Bool)
    (sup : String → Bool) (ov : Overrides) :
    writeConfigRows rows ⟨cur, a1, v1⟩ sup ov = writeConfigRows rows ⟨cur, a2, v2⟩ sup ov := by
  unfold writeConfigRows
  rw [writeValues_accept_indep cur a1 a2 v1 v2, writeCfgs_accept_indep cur a1 a2 v1 v2]

/-- capacity settings of the property (table sizes, child and network counts), by name -/
def capacityNames : List String :=
  ["CONFIG_SOURCE_ROUTE_TABLE_SIZE", "CONFIG_MULTICAST_TABLE_SIZE", "CONFIG_ADDRESS_TABLE_SIZE",
   "CONFIG_KEY_TABLE_SIZE", "CONFIG_TRUST_CENTER_ADDRESS_CACHE_SIZE", "CONFIG_MAX_END_DEVICE_CHILDREN",
   "CONFIG_SUPPORTED_NETWORKS", "CONFIG_NEIGHBOR_TABLE_SIZE", "CONFIG_BINDING_TABLE_SIZE",
   "CONFIG_ROUTE_TABLE_SIZE", "CONFIG_DISCOVERY_TABLE_SIZE", "CONFIG_BROADCAST_TABLE_SIZE"]

/-- Table facts, for every generated version: a default list exists; the packet-buffer count
is the last configuration default; default names are distinct (so the dict has one entry
per row); and over the schema keys and default rows together, name ↦ id is a function and
injective (so "one write per name" is "one write per setting ID"). -/
def tableOk (v : Nat) : Bool :=
  match defaults v, schemaKeys v with
  | some rows, some keys =>
    let cfg := rows.filter (·.kind == 0)
    let tbl := keys ++ cfg.map (fun r => (r.name, r.id))
    (cfg.map (·.name)).getLast? == some packetBufferCountName
      && (names (defaultCfgs rows)).getLast? == some packetBufferCountName
      && (cfg.map (·.name)).Nodup
      && cfg.all (fun r => !capacityNames.contains r.name || r.minimum)   -- every capacity default is grow-only
      -- a capacity setting the schema fills in by itself replaces a grow-only default (and so stays grow-only)
      && ((schemaFilled.lookup v).getD []).all (fun (n, i, _) => !capacityNames.contains n ||
            cfg.any (fun r => r.name == n && r.id == i && r.minimum))
      && (schemaFilled.lookup v).isSome
      && ((rows.filter (·.kind == 1)).map (·.id)).Nodup
      && tbl.all (fun a => tbl.all (fun b => (a.1 == b.1) == (a.2 == b.2)))
  | _, _ => false

theorem c16_tables : versions.all tableOk = true := by decide +kernel

/-- non-vacuity: a write with an in-defaults override and a disabled default succeeds, writes
the override verbatim, nothing for the disabled key, and the buffer count last -/
example :
    (match writeConfig 8 ⟨fun i => if i = 6 then some 64 else some 0, fun _ => true, fun _ => false⟩
        (fun _ => true) [("CONFIG_KEY_TABLE_SIZE", 30, some 2), ("CONFIG_STACK_PROFILE", 12, none)] with
     | .ok ops => ops.contains (.setCfg "CONFIG_KEY_TABLE_SIZE" 30 2)
                  && !(setNames ops).contains "CONFIG_STACK_PROFILE"
                  && !(setNames ops).contains "CONFIG_MULTICAST_TABLE_SIZE"
                  && lastSet ops == some packetBufferCountName
     | .error _ => false) = true := by decide +kernel

/-- non-vacuity of the schema-filled case (the defect repaired in 0ec9f72): EZSPv7's schema fills in
CONFIG_KEY_TABLE_SIZE = 12; with an NCP reporting 33 nothing is written for it, with an NCP reporting 5 it grows to 12;
a user who supplies 12 gets 12 written over 33 -/
example :
    (match writeConfig 7 ⟨fun i => if i = 30 then some 33 else some 0, fun _ => true, fun _ => true⟩
        (fun n => n != "CONFIG_KEY_TABLE_SIZE") [("CONFIG_KEY_TABLE_SIZE", 30, some 12)],
      writeConfig 7 ⟨fun i => if i = 30 then some 5 else some 0, fun _ => true, fun _ => true⟩
        (fun n => n != "CONFIG_KEY_TABLE_SIZE") [("CONFIG_KEY_TABLE_SIZE", 30, some 12)],
      writeConfig 7 ⟨fun i => if i = 30 then some 33 else some 0, fun _ => true, fun _ => true⟩
        (fun _ => true) [("CONFIG_KEY_TABLE_SIZE", 30, some 12)] with
     | .ok a, .ok b, .ok c => !(setNames a).contains "CONFIG_KEY_TABLE_SIZE" && b.contains (.setCfg "CONFIG_KEY_TABLE_SIZE" 30 12)
                              && c.contains (.setCfg "CONFIG_KEY_TABLE_SIZE" 30 12)
     | _, _, _ => false) = true := by decide +kernel

end BV.Props.C16
