/-
C18 — Status normalisation is total and reports success only for success.
Property theorems only; the model is BV/Model/Status.lean, the table is generated.
-/
import BV.Model.Status
namespace BV.Props.C18
open BV.Status BV.Gen.Status

/-- Unified statuses are returned unchanged (every value, defined or not). `conv` is a total
function, so "never raises" is its type. -/
theorem c18_total_passthrough (x : Nat) : conv (.sl x) = x := rfl

def okIffAll (fam : Nat → St) (succ : Nat) : Bool :=
  (List.range 256).all fun c => decide (conv (fam c) = slOK ↔ c = succ)

theorem ember_all : okIffAll .ember emberSuccess = true := by decide +kernel
theorem ezsp_all : okIffAll .ezsp ezspSuccess = true := by decide +kernel

private theorem lift (fam : Nat → St) (succ : Nat) (h : okIffAll fam succ = true)
    (c : Nat) (hc : c < 256) : conv (fam c) = slOK ↔ c = succ := by
  unfold okIffAll at h
  rw [List.all_eq_true] at h
  have := h c (List.mem_range.mpr hc)
  exact of_decide_eq_true this

/-- For every code of each 8-bit family: the result is OK exactly for that family's success code. -/
theorem c18_ok_iff_success_ember (c : Nat) (hc : c < 256) :
    conv (.ember c) = slOK ↔ c = emberSuccess := lift .ember emberSuccess ember_all c hc

theorem c18_ok_iff_success_ezsp (c : Nat) (hc : c < 256) :
    conv (.ezsp c) = slOK ↔ c = ezspSuccess := lift .ezsp ezspSuccess ezsp_all c hc

/-- success codes are the protocol's (0 in both families), OK is 0 -/
theorem c18_success_codes : emberSuccess = 0 ∧ ezspSuccess = 0 ∧ slOK = 0 ∧ slFAIL = 1 := by decide

/-- The steering codes (EmberZNet numeric values, written out literally – this table is the
specification side): busy, not-joined, not-found, erased entry, index out of range,
network up / down. -/
theorem c18_steering_codes :
    conv (.ember 0x72) = 0x0C03 ∧      -- MAX_MESSAGE_LIMIT_REACHED → ZIGBEE_MAX_MESSAGE_LIMIT_REACHED
    conv (.ember 0xA1) = 0x0C03 ∧      -- NETWORK_BUSY → ZIGBEE_MAX_MESSAGE_LIMIT_REACHED
    conv (.ember 0x18) = 0x0019 ∧      -- NO_BUFFERS → ALLOCATION_FAILED
    conv (.ember 0x93) = 0x0017 ∧      -- NOT_JOINED → NOT_JOINED
    conv (.ember 0x90) = 0x0015 ∧      -- NETWORK_UP
    conv (.ember 0x91) = 0x0016 ∧      -- NETWORK_DOWN
    conv (.ember 0x03) = 0x002D ∧      -- NOT_FOUND → NOT_FOUND
    conv (.ember 0xB6) = 0x002D ∧      -- TABLE_ENTRY_ERASED → NOT_FOUND
    conv (.ember 0xB1) = 0x0027 ∧      -- INDEX_OUT_OF_RANGE → INVALID_INDEX
    conv (.ember 0x66) = 0x0C02 ∧      -- DELIVERY_FAILED → ZIGBEE_DELIVERY_FAILED
    True := by decide +kernel

/-- the lookup never meets a repeated key, so first-match = Python's last-wins dict literal -/
theorem c18_map_keys_unique :
    (statusMap.map fun r => (r.1, r.2.1)).Nodup := by decide +kernel

/-- every value in the table is < 2^32 and every key is an 8-bit code of family 0/1 -/
theorem c18_map_wellformed :
    statusMap.all (fun r => r.1 < 2 && r.2.1 < 256 && r.2.2 < 2^32) = true := by decide +kernel

end BV.Props.C18
