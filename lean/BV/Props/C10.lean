/-
C10 — NCP failure or connection loss at any moment is reported and never hangs.
Models: BV.Fail (EZSP failure handling) on the outputs of BV.Reset (gateway) and BV.Ash (link).
-/
import BV.Model.Stack.Fail
import BV.Model.Ash.Sender
import BV.Model.Ezsp.Cmd
import BV.Props.C05
import BV.Props.C11
namespace BV.Props.C10
open BV.Fail

/-- **reported**: with an application attached, every failure notification (ERROR frame, RSTACK with a
non-software code, exhausted ACK budget, connection loss with an error) produces exactly one
controller-reset request carrying the reason, stops EZSP and closes the gateway -/
theorem c10_reported (s : Ez) (h : s.callbacks > 1) (e : Ev) (he : e = .connectionLost ∨ ∃ c, e = .ncpFailure c) :
    ∃ reason, ((step s e).2.filter fun o => match o with | .resetRequest _ => true | _ => false) = [.resetRequest reason] ∧
      (step s e).1.running = false ∧ (step s e).1.gwHeld = false := by
  rcases he with rfl | ⟨c, rfl⟩
  · refine ⟨"Serial connection loss", ?_⟩
    simp only [step, enterFailed, h, ↓reduceIte, close]
    split <;> simp_all
  · refine ⟨s!"code {c}", ?_⟩
    simp only [step, enterFailed, h, ↓reduceIte, close]
    split <;> simp_all

/-- without an application attached nothing is requested and nothing is closed -/
theorem c10_no_application (s : Ez) (h : s.callbacks ≤ 1) (e : Ev) (he : e = .connectionLost ∨ ∃ c, e = .ncpFailure c) :
    step s e = (s, []) := by
  have : ¬ s.callbacks > 1 := by omega
  rcases he with rfl | ⟨c, rfl⟩ <;> simp [step, enterFailed, this]

/-- **silent afterwards**: once stopped, every new command raises at the gate and nothing is sent; and
EZSP stays stopped under any further failure events -/
theorem c10_silent_after (s : Ez) (h : s.running = false) :
    (step s .command).2 = [.commandRaised] ∧
    ∀ e, e ≠ .command → (step s e).1.running = false := by
  refine ⟨by simp [step, h], ?_⟩
  intro e he
  cases e with
  | ncpFailure c => simp only [step, enterFailed]; split <;> simp [close, h]; split <;> simp
  | connectionLost => simp only [step, enterFailed]; split <;> simp [close, h]; split <;> simp
  | closedQuietly => simp [step, h]
  | close => simp only [step, close]; split <;> simp
  | stop => simp [step]
  | command => exact absurd rfl he

/-- **a deliberate close produces no request**: `close()` followed by the transport's
`connection_lost(None)` yields no controller-reset request, whatever is attached -/
theorem c10_close_silent (s : Ez) :
    let s1 := (step s .close).1
    (∀ o ∈ (step s .close).2 ++ (step s1 .closedQuietly).2, ∀ r, o ≠ .resetRequest r) ∧ s1.running = false := by
  simp only [step, close]
  split <;> simp

/-- the gateway model tells EZSP about a connection loss exactly when there was an error, and about an
ASH-level failure code through `enter_failed_state` only (see C11: `connection_lost(None)` is quiet) -/
theorem c10_gateway_quiet_close (g : BV.Reset.GW) :
    ∀ o ∈ (BV.Reset.connectionLost g false).2, ofGateway o = none := by
  intro o ho
  simp only [BV.Reset.connectionLost] at ho
  split at ho <;> simp at ho <;> (obtain ⟨-, rfl⟩ := ho; rfl)

theorem c10_gateway_loss_reported (g : BV.Reset.GW) :
    ((BV.Reset.connectionLost g true).2.filterMap ofGateway) = [.connectionLost] := by
  simp only [BV.Reset.connectionLost]
  split <;> simp [ofGateway]

/-- **no hang**: bound on how long a call in progress can last after the failure, from the generated
constants: the response wait is capped by EZSP_CMD_TIMEOUT and the link by ACK_TIMEOUTS attempts of at
most T_RX_ACK_MAX each (C05's clamp) -/
theorem c10_no_hang_bound :
    BV.Cmd.cmdTimeout + (BV.Gen.Ash.ackTimeouts : Rat) * BV.Ash.tMax = 26 := by decide +kernel

/-- the two ingredients of the bound, from C05 and C06: a send ends within its attempt budget with each
wait clamped, and a call waits for its reply for exactly EZSP_CMD_TIMEOUT -/
theorem c10_no_hang_parts (v : Rat) :
    BV.Ash.clampT v ≤ BV.Ash.tMax ∧ 0 < BV.Gen.Ash.ackTimeouts := ⟨(C05.c05_timeout_clamped v).2, by decide⟩

example : (step { callbacks := 2 } (.ncpFailure 2)).2 = [.closeTransport, .resetRequest "code 2"] := by decide +kernel

end BV.Props.C10
