/-
C05 — ASH sends end within the retry budget; a failed link stays silent until reset.
Model: BV.Ash.step (send_data / _send_data_frame at settled loop states, on the receiver model).
-/
import BV.Model.Ash.Sender
namespace BV.Props.C05
open BV.Ash BV.Gen.Ash

theorem tmin_le_tmax : tMin ≤ tMax := by decide +kernel

/-- the acknowledgement timeout always lies within the protocol's minimum and maximum, whatever value
`_change_ack_timeout` is given -/
theorem c05_timeout_clamped (v : Rat) : tMin ≤ clampT v ∧ clampT v ≤ tMax := by
  have h := tmin_le_tmax
  unfold clampT
  constructor <;> grind

/-- invariant of settled states -/
structure Inv (s : Tx) : Prop where
  tLo : tMin ≤ s.t
  tHi : s.t ≤ tMax
  att : ∀ c, s.cur = some c → c.attempt < ackTimeouts
  dl : ∀ c, s.cur = some c → tMin ≤ c.deadline - c.sendTime ∧ c.deadline - c.sendTime ≤ tMax

theorem inv_init (tx rx : Nat) : Inv { rx := { txSeq := tx, rxSeq := rx } } := by
  refine ⟨show tMin ≤ tInit by decide +kernel, show tInit ≤ tMax by decide +kernel, ?_, ?_⟩ <;> simp

/-- what one pass of the attempt loop does: a single DATA frame with the send's payload, the
retransmit flag set exactly on repeats, the current `rx_seq` as ackNum; the frame number is taken from
`tx_seq` (which advances by one mod 8) on the first attempt and kept on repeats; the deadline is the
current clamped timeout -/
theorem attempt_spec (s : Tx) (id : Nat) (p : List UInt8) (frm : Option Nat) (n : Nat)
    (s' : Tx) (o : List Out) (h : attempt s id p frm n = some (s', o)) :
    s.rx.failed = false ∧
    (∃ f, (frm = some f ∨ (frm = none ∧ f = s.rx.txSeq ∧ s'.rx.txSeq = (s.rx.txSeq + 1) % 8)) ∧
      o = [.ev (.write (wire [] (.data f (decide (n > 0)) s.rx.rxSeq p)))] ∧
      s'.cur = some { id := id, payload := p, frm := f, attempt := n, sendTime := s.now, deadline := s.now + s.t }) ∧
    s'.t = s.t ∧ s'.now = s.now ∧ s'.queue = s.queue ∧ s'.rx.failed = false ∧ s'.rx.rxSeq = s.rx.rxSeq := by
  unfold attempt at h
  by_cases hf : s.rx.failed = true
  · simp [hf] at h
  · have hf' : s.rx.failed = false := by simpa using hf
    simp only [hf', Bool.false_eq_true, ↓reduceIte] at h
    cases frm with
    | some f =>
      simp only [Option.some.injEq, Prod.mk.injEq] at h
      obtain ⟨rfl, rfl⟩ := h
      exact ⟨hf', ⟨f, Or.inl rfl, rfl, rfl⟩, rfl, rfl, rfl, hf', rfl⟩
    | none =>
      simp only [Option.some.injEq, Prod.mk.injEq] at h
      obtain ⟨rfl, rfl⟩ := h
      exact ⟨hf', ⟨s.rx.txSeq, Or.inr ⟨rfl, rfl, rfl⟩, rfl, rfl⟩, rfl, rfl, rfl, by simp [hf'], rfl⟩

theorem attempt_none (s : Tx) (id : Nat) (p : List UInt8) (frm : Option Nat) (n : Nat) :
    attempt s id p frm n = none ↔ s.rx.failed = true := by
  unfold attempt
  by_cases hf : s.rx.failed = true <;> simp [hf]

/-- **a failed link stays silent**: while the link is FAILED every new or queued send fails at the gate
with the ack-timeout failure code and nothing is written -/
theorem startNext_failed (qs : List (Nat × List UInt8)) (s : Tx) (hf : s.rx.failed = true) :
    (startNext qs s).1 = { s with queue := [], cur := none } ∧
    (startNext qs s).2 = qs.map fun x => Out.done x.1 (.ncpFailure errorExceededMaxAck) := by
  induction qs with
  | nil => simp [startNext]
  | cons x xs ih =>
    obtain ⟨id, p⟩ := x
    have : attempt { s with queue := xs, cur := none } id p none 0 = none := (attempt_none _ _ _ _ _).mpr hf
    simp only [startNext, this, List.map_cons]
    exact ⟨ih.1, by rw [ih.2]⟩

theorem c05_failed_silent (s : Tx) (hf : s.rx.failed = true) (hc : s.cur = none) (hq : s.queue = [])
    (id : Nat) (p : List UInt8) :
    step0 s (.send id p) = ({ s with queue := [], cur := none }, [.done id (.ncpFailure errorExceededMaxAck)]) := by
  simp only [step0, hc, hq, Option.isSome_none, Bool.false_eq_true, List.isEmpty_nil, not_true_eq_false, or_self, ↓reduceIte]
  have := startNext_failed [(id, p)] s hf
  exact Prod.ext this.1 (by simpa using this.2)

theorem startNext_inv (qs : List (Nat × List UInt8)) (s : Tx) (h1 : tMin ≤ s.t) (h2 : s.t ≤ tMax)
    (hN : 0 < ackTimeouts) : Inv (startNext qs s).1 := by
  induction qs with
  | nil => exact ⟨h1, h2, by simp [startNext], by simp [startNext]⟩
  | cons x xs ih =>
    obtain ⟨id, p⟩ := x
    simp only [startNext]
    cases ha : attempt { s with queue := xs, cur := none } id p none 0 with
    | none => exact ih
    | some r =>
      obtain ⟨s', o⟩ := r
      obtain ⟨-, ⟨f, -, -, hcur⟩, ht, hnow, hq, hfl, -⟩ := attempt_spec _ _ _ _ _ _ _ ha
      simp only
      refine ⟨by rw [ht]; exact h1, by rw [ht]; exact h2, ?_, ?_⟩
      · intro c hc; rw [hcur] at hc; cases hc; exact hN
      · intro c hc; rw [hcur] at hc; cases hc
        simp only
        constructor <;> grind

theorem ackTimeouts_pos : 0 < ackTimeouts := by decide

theorem finish_inv (s : Tx) (c : Cur) (r : Res) (h1 : tMin ≤ s.t) (h2 : s.t ≤ tMax) : Inv (finish s c r).1 := by
  unfold finish
  exact startNext_inv _ _ h1 h2 ackTimeouts_pos

theorem enterFailed_t (s : Tx) : (enterFailed s).1.t = s.t ∧ (enterFailed s).1.rx.failed = true ∧
    (enterFailed s).2 = [.ev (.reset errorExceededMaxAck)] := by
  simp [enterFailed, cancelPending]

theorem retryOrFail_inv (s : Tx) (c : Cur) (r : Res) (h1 : tMin ≤ s.t) (h2 : s.t ≤ tMax) :
    Inv (retryOrFail s c r).1 := by
  unfold retryOrFail
  split
  · simp only
    exact finish_inv _ _ _ (by rw [(enterFailed_t s).1]; exact h1) (by rw [(enterFailed_t s).1]; exact h2)
  · rename_i hlt
    cases ha : attempt s c.id c.payload (some c.frm) (c.attempt + 1) with
    | none => exact finish_inv _ _ _ h1 h2
    | some x =>
      obtain ⟨s', o⟩ := x
      obtain ⟨-, ⟨f, -, -, hcur⟩, ht, hnow, hq, hfl, -⟩ := attempt_spec _ _ _ _ _ _ _ ha
      simp only
      refine ⟨by rw [ht]; exact h1, by rw [ht]; exact h2, ?_, ?_⟩
      · intro c' hc; rw [hcur] at hc; cases hc; simp only; omega
      · intro c' hc; rw [hcur] at hc; cases hc
        simp only
        constructor <;> grind

theorem finish_failed (s : Tx) (c : Cur) (r : Res) (hf : s.rx.failed = true) :
    (finish s c r).2 = .done c.id r :: s.queue.map (fun x => Out.done x.1 (.ncpFailure errorExceededMaxAck)) ∧
    (finish s c r).1.rx.failed = true ∧ (finish s c r).1.cur = none ∧ (finish s c r).1.queue = [] := by
  unfold finish
  simp only
  have hsn := startNext_failed s.queue
    { s with rx := { s.rx with pending := s.rx.pending.filter (·.1 ≠ c.frm) }, cur := none } hf
  rw [hsn.1, hsn.2]
  exact ⟨rfl, hf, rfl, rfl⟩

/-- the number of transmissions of one send never exceeds the budget: a retransmission is attempt
`k + 1` of a send whose attempt `k` satisfied `k + 1 < ACK_TIMEOUTS`, and it carries the same frame
number and payload with the retransmit flag set and the current `rx_seq`; when the budget is used the
upper layer is told exactly once with the ack-timeout reason, the link is FAILED, the send ends with
its error and every queued send fails without writing -/
theorem c05_budget (s : Tx) (c : Cur) (r : Res) :
    (c.attempt + 1 ≥ ackTimeouts →
        (retryOrFail s c r).2 = .ev (.reset errorExceededMaxAck) :: .done c.id r ::
            s.queue.map (fun x => Out.done x.1 (.ncpFailure errorExceededMaxAck)) ∧
        (retryOrFail s c r).1.rx.failed = true ∧ (retryOrFail s c r).1.cur = none ∧
        (retryOrFail s c r).1.queue = []) ∧
    (c.attempt + 1 < ackTimeouts → s.rx.failed = false →
        (retryOrFail s c r).2 = [.ev (.write (wire [] (.data c.frm true s.rx.rxSeq c.payload)))] ∧
        (retryOrFail s c r).1.cur = some { c with attempt := c.attempt + 1, sendTime := s.now, deadline := s.now + s.t }) := by
  constructor
  · intro hge
    unfold retryOrFail
    simp only [hge, ↓reduceIte]
    obtain ⟨ht, hf, ho⟩ := enterFailed_t s
    obtain ⟨g1, g2, g3, g4⟩ := finish_failed (enterFailed s).1 c r hf
    have hq : (enterFailed s).1.queue = s.queue := by simp [enterFailed]
    rw [g1, ho, hq]
    exact ⟨rfl, g2, g3, g4⟩
  · intro hlt hnf
    unfold retryOrFail
    have : ¬ c.attempt + 1 ≥ ackTimeouts := by omega
    simp only [this, ↓reduceIte]
    simp [attempt, hnf]

theorem applyRx_fields (s : Tx) (f : Frame) :
    tMin ≤ (applyRx s f).1.t ∧ ((applyRx s f).1.t ≤ tMax) ∨ (applyRx s f).1.t = s.t := by
  simp only [applyRx]
  split
  · exact Or.inl (c05_timeout_clamped tInit)
  · exact Or.inr rfl

theorem applyRx_inv (s : Tx) (f : Frame) (h : Inv s) : Inv (applyRx s f).1 := by
  have hc : (applyRx s f).1.cur = s.cur := rfl
  refine ⟨?_, ?_, by rw [hc]; exact h.att, by rw [hc]; exact h.dl⟩
  · rcases applyRx_fields s f with h1 | h1
    · exact h1.1
    · rw [h1]; exact h.tLo
  · rcases applyRx_fields s f with h1 | h1
    · exact h1.2
    · rw [h1]; exact h.tHi

theorem wake_inv (s : Tx) (h : Inv s) : Inv (wake s).1 := by
  unfold wake
  cases hc : s.cur with
  | none => simpa using h
  | some c =>
    simp only
    have hcl := c05_timeout_clamped ((7 : Rat) / 8 * s.t + (1 : Rat) / 2 * (s.now - c.sendTime))
    split
    · exact finish_inv _ _ _ hcl.1 hcl.2
    · exact retryOrFail_inv _ _ _ hcl.1 hcl.2
    · exact finish_inv _ _ _ h.tLo h.tHi
    · exact finish_inv _ _ _ h.tLo h.tHi
    · exact h

theorem onTimeout_inv (s : Tx) (h : Inv s) : Inv (onTimeout s).1 := by
  unfold onTimeout
  cases hc : s.cur with
  | none => simpa using h
  | some c =>
    simp only
    have hcl := c05_timeout_clamped (2 * s.t)
    exact retryOrFail_inv _ _ _ hcl.1 hcl.2

/-- one event preserves the invariant -/
theorem step_inv (s : Tx) (i : In) (h : Inv s) : Inv (step s i).1 := by
  show Inv (step0 s i).1
  cases i with
  | send id p =>
    simp only [step0]
    split
    · exact ⟨h.tLo, h.tHi, h.att, h.dl⟩
    · exact startNext_inv _ _ h.tLo h.tHi ackTimeouts_pos
  | frame f =>
    simp only [step0]
    exact wake_inv _ (applyRx_inv s f h)
  | timeout =>
    simp only [step0]
    split
    · exact h
    · exact onTimeout_inv _ ⟨h.tLo, h.tHi, h.att, h.dl⟩
  | race f =>
    simp only [step0]
    split
    · exact applyRx_inv s f h
    · exact onTimeout_inv _ (applyRx_inv _ f ⟨h.tLo, h.tHi, h.att, h.dl⟩)
  | batch f g =>
    simp only [step0]
    exact wake_inv _ (applyRx_inv _ g (applyRx_inv s f h))
  | wait d => exact ⟨h.tLo, h.tHi, h.att, h.dl⟩
  | cancel id => exact ⟨h.tLo, h.tHi, h.att, h.dl⟩

/-- **every event list** (any interleaving of sends, arriving frames, timer expiries, frames racing the
timer, clock advances and caller cancellations): in every settled state the acknowledgement timeout
lies in [T_RX_ACK_MIN, T_RX_ACK_MAX], the send holding the slot has used fewer than ACK_TIMEOUTS
attempts, and its armed deadline is a clamped timeout after its last transmission -/
theorem c05_invariant (tx rx : Nat) (is : List In) :
    Inv (run { rx := { txSeq := tx, rxSeq := rx } } is).1 := by
  suffices ∀ s, Inv s → Inv (run s is).1 from this _ (inv_init tx rx)
  induction is with
  | nil => intro s h; exact h
  | cons i is ih => intro s h; exact ih _ (step_inv s i h)

/-- window of one: while a send holds the slot a new send writes nothing and waits -/
theorem c05_window_one (s : Tx) (c : Cur) (hc : s.cur = some c) (id : Nat) (p : List UInt8) :
    step s (.send id p) = ({ s with queue := s.queue ++ [(id, p)] }, []) := by
  simp [step, step0, hc]

/-- consecutive numbering: the first transmission of a send takes `tx_seq` and advances it by one
modulo 8 (an RSTACK puts it back to 0, see C04) -/
theorem c05_consecutive (s : Tx) (hnf : s.rx.failed = false) (hc : s.cur = none) (hq : s.queue = [])
    (id : Nat) (p : List UInt8) :
    (step0 s (.send id p)).2 = [.ev (.write (wire [] (.data s.rx.txSeq false s.rx.rxSeq p)))] ∧
    (step0 s (.send id p)).1.rx.txSeq = (s.rx.txSeq + 1) % 8 := by
  simp [step0, hc, hq, startNext, attempt, hnf]

example : (run {} [.send 1 [0xAA], .timeout, .timeout, .timeout, .timeout, .timeout]).1.rx.failed = true := by
  decide +kernel

end BV.Props.C05
