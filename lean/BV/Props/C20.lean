/-
C20 — the cross-thread proxy runs calls on the owner's loop and relays results.
Model: BV.Proxy.dispatch (the decision logic of ThreadsafeProxy.__getattr__ / func_wrapper).
-/
import BV.Model.Thread.Proxy
namespace BV.Props.C20
open BV.Proxy

/-- the whole decision table -/
theorem c20_table (c : Ctx) :
    dispatch .nonCallable c = .refuse ∧
    (c.callerIsOwnerLoop = true → dispatch .plain c = .runHere ∧ dispatch .coroutine c = .runHere) ∧
    (c.callerIsOwnerLoop = false → c.ownerClosed = true → dispatch .plain c = .drop ∧ dispatch .coroutine c = .drop) ∧
    (c.callerIsOwnerLoop = false → c.ownerClosed = false →
        dispatch .coroutine c = .onOwnerAwait ∧ dispatch .plain c = .onOwnerQueue) := by
  obtain ⟨a, b⟩ := c
  cases a <;> cases b <;> simp [dispatch]

/-- a call from another loop is never executed on the caller's loop, whatever the attribute -/
theorem c20_never_on_caller (k : AttrKind) (c : Ctx) (h : c.callerIsOwnerLoop = false) :
    dispatch k c ≠ .runHere := by
  obtain ⟨a, b⟩ := c
  simp only at h; subst h
  cases k <;> cases b <;> simp [dispatch]

/-- once the owner's loop is closed, a call from elsewhere neither executes nor blocks -/
theorem c20_closed_drops (k : AttrKind) (c : Ctx) (hk : k ≠ .nonCallable) (h1 : c.callerIsOwnerLoop = false)
    (h2 : c.ownerClosed = true) : dispatch k c = .drop := by
  obtain ⟨a, b⟩ := c
  simp only at h1 h2; subst h1; subst h2
  cases k <;> simp_all [dispatch]

/-- queued plain calls run on the owner's loop in the order they were made -/
theorem c20_fifo (q : List Nat) (calls : List Nat) : calls.foldl enqueue q = q ++ calls := by
  induction calls generalizing q with
  | nil => simp
  | cons c cs ih => simp [List.foldl_cons, enqueue, ih, List.append_assoc]

/-- a queued plain method must return nothing -/
theorem c20_plain_returns_nothing : queuedBodyOk none = true ∧ ∀ v, queuedBodyOk (some v) = false := by
  simp [queuedBodyOk]

end BV.Props.C20
