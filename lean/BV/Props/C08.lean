/-
C08 — malformed or unexpected EZSP frames are contained.
Model: BV.Rx.frameReceived = the guard of EZSP.frame_received around the codec model (C07) and the
command-layer model (C06).
-/
import BV.Model.Ezsp.Rx
import BV.Props.C06
namespace BV.Props.C08
open BV.Cmd BV.Rx BV.Codec

/-- what bytes can be: empty, too short for a header, an unknown frame ID, a known frame whose payload
does not decode, or a frame that decodes fully — nothing else (the classification is total), and only
the last kind carries a sequence number and frame ID into the command layer -/
theorem c08_classify_total (v : Nat) (cs : List Codec.Cmd) (d : List UInt8) :
    (classify v cs d).1 = .short ∨ (classify v cs d).1 = .unknown ∨ (classify v cs d).1 = .undecodable ∨
    ∃ seq id name vals tr, rxFrame v cs d = .ok seq id name vals tr ∧
      (classify v cs d).1 = .ok seq id (name == "invalidCommand") 0 := by
  unfold classify
  cases h : rxFrame v cs d with
  | short => exact Or.inl rfl
  | unknown id => exact Or.inr (Or.inl rfl)
  | undecodable n => exact Or.inr (Or.inr (Or.inl rfl))
  | ok seq id name vals tr => exact Or.inr (Or.inr (Or.inr ⟨seq, id, name, vals, tr, rfl, rfl⟩))

/-- a frame that decodes carries the sequence number and frame ID read from its own header, and its ID
is one of the active version's table -/
theorem rxFrame_ok_header {v : Nat} {cs : List Codec.Cmd} {d : List UInt8} {seq id : Nat} {name : String}
    {vals : List Val} {tr : List UInt8} (h : rxFrame v cs d = .ok seq id name vals tr) :
    ∃ payload c, rxHeader (hdrOf v) d = some (seq, id, payload) ∧ findById cs id = some c ∧ c.name = name ∧
      deFields (payload.length + 1) c.rxT payload = some (vals, tr) := by
  unfold rxFrame at h
  split at h
  · simp at h
  · rename_i sq i payload hh
    split at h
    · simp at h
    · rename_i c hc
      split at h
      · simp at h
      · rename_i vs r hd
        simp only [RxOut.ok.injEq] at h
        obtain ⟨rfl, rfl, rfl, rfl, rfl⟩ := h
        exact ⟨payload, c, hh, hc, rfl, hd⟩

/-- **malformed input leaves the command layer untouched**: an empty frame, a frame too short for the
header, an unknown frame ID or an undecodable payload changes no state, completes no call and invokes
no callback (the exception, where there is one, stays inside the guard) -/
theorem c08_malformed_contained (v : Nat) (cs : List Codec.Cmd) (s : St) (d : List UInt8)
    (h : d = [] ∨ (classify v cs d).1 = .short ∨ (classify v cs d).1 = .unknown ∨
         (classify v cs d).1 = .undecodable) :
    (frameReceived v cs s d).1 = s ∧
    ∀ o ∈ (frameReceived v cs s d).2, o = .rxRaised := by
  unfold frameReceived
  rcases h with rfl | h | h | h
  · simp
  · split
    · simp
    · rw [h]; simp [step]
  · split
    · simp
    · rw [h]; simp [step]
  · split
    · simp
    · rw [h]; simp [step]

/-- **no wrong completion**: a pending command is completed with a payload only by a frame whose header
carries its own sequence number and its own frame ID -/
theorem c08_no_wrong_completion (v : Nat) (cs : List Codec.Cmd) (s : St) (hi : C06.Inv s) (d : List UInt8)
    (c tag : Nat) (hd : Out.done c (.ok tag) ∈ (frameReceived v cs s d).2) :
    ∃ h payload, s.holder = some h ∧ h.caller = c ∧ rxHeader (hdrOf v) d = some (h.seqNo, h.cmdId, payload) := by
  unfold frameReceived at hd
  split at hd
  · simp at hd
  · obtain ⟨h, hh, hc, -, hf⟩ := C06.c06_own_response s hi _ c tag hd
    rcases c08_classify_total v cs d with h1 | h1 | h1 | ⟨seq, id, name, vals, tr, hrx, hcl⟩
    · rw [h1] at hf; cases hf
    · rw [h1] at hf; cases hf
    · rw [h1] at hf; cases hf
    · rw [hcl] at hf
      simp only [Frame.ok.injEq] at hf
      obtain ⟨rfl, rfl, -, -⟩ := hf
      obtain ⟨payload, c', hh', -, -, -⟩ := rxFrame_ok_header hrx
      exact ⟨h, payload, hh, hc, hh'⟩

/-- **callbacks only for frames that decode**: a callback is invoked only for bytes that parse, name a
frame of the active version's table and decode fully against its schema -/
theorem c08_callback_only_if_decodes (v : Nat) (cs : List Codec.Cmd) (s : St) (d : List UInt8) (fid tag : Nat)
    (hcb : Out.callback fid tag ∈ (frameReceived v cs s d).2) :
    ∃ seq name vals tr, rxFrame v cs d = .ok seq fid name vals tr := by
  unfold frameReceived at hcb
  split at hcb
  · simp at hcb
  · rcases c08_classify_total v cs d with h1 | h1 | h1 | ⟨seq, id, name, vals, tr, hrx, hcl⟩
    · rw [h1] at hcb; simp [step] at hcb
    · rw [h1] at hcb; simp [step] at hcb
    · rw [h1] at hcb; simp [step] at hcb
    · rw [hcl] at hcb
      simp only [step, onOk] at hcb
      have hfid : fid = id := by
        split at hcb
        · simp at hcb; exact hcb.1
        · rename_i e he
          -- with an `_awaiting` entry no callback is made at all
          split at hcb
          · split at hcb
            · split at hcb
              · split at hcb
                · simp at hcb
                · simp only [finish, List.mem_cons, reduceCtorEq, false_or] at hcb
                  unfold release at hcb; split at hcb
                  · simp at hcb
                  · simp [start] at hcb
              · simp at hcb
            · simp at hcb
          · split at hcb
            · simp at hcb
            · split at hcb
              · split at hcb
                · split at hcb
                  · simp at hcb
                  · simp only [finish, List.mem_cons, reduceCtorEq, false_or] at hcb
                    unfold release at hcb; split at hcb
                    · simp at hcb
                    · simp [start] at hcb
                · simp at hcb
              · simp at hcb
      exact ⟨seq, name, vals, tr, hfid ▸ hrx⟩

/-- **commands issued afterwards still complete normally**: from any reachable settled state with the
slot free, a fresh call followed by its matching reply returns that reply -/
theorem c08_still_works (s : St) (hi : C06.Inv s) (hfree : s.holder = none) (c cmd tag : Nat) (p : Int) :
    let s1 := (step s (.call c cmd p)).1
    let s2 := (step s1 (.sendDone true)).1
    (step s (.call c cmd p)).2 = [.sent s.seq cmd] ∧
    (step s2 (.frame (.ok s.seq cmd false tag))).2 = [.done c (.ok tag)] := by
  have hw := hi.queued hfree
  have haw : s.awaiting = [] := by
    cases ha : s.awaiting with
    | nil => rfl
    | cons e es =>
      obtain ⟨h, hh, _⟩ := hi.entries e (by rw [ha]; simp)
      rw [hfree] at hh; cases hh
  obtain ⟨sq, aw, holder, ws, now, pop⟩ := s
  simp only at hfree hw haw
  subst hfree hw haw
  simp [step, start, setEntry, onOk, finish, endCall, release, hi.pop]

/-- every reachable state of the command layer satisfies the invariant these theorems assume -/
theorem c08_reachable (seq0 : Nat) (is : List In) : C06.Inv (run { seq := seq0 } is).1 :=
  C06.c06_invariant seq0 is

end BV.Props.C08
