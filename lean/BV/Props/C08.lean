/-
C08 — malformed or unexpected EZSP frames are contained.
Model: BV.Rx.frameReceived = the guard of EZSP.frame_received around the codec model (C07) and the
command-layer model (C06).
-/
import BV.Model.Ezsp.Rx
import BV.Props.C06
import BV.Proofs.Src.ProtoFrame
namespace BV.Props.C08
open BV.Cmd BV.Rx BV.Codec

/-- what bytes can be: empty, too short for a header, an unknown frame ID, a known frame whose payload
does not decode, or a frame that decodes fully — nothing else (the classification is total), and only
the last kind carries a sequence number and frame ID into the command layer -/
theorem c08_classify_total (v : Nat) (cs : List Codec.Cmd) (d : List UInt8) :
    (classify v cs d).1 = .short ∨ (classify v cs d).1 = .unknown ∨ (classify v cs d).1 = .undecodable ∨
    ∃ seq id name vals tr, rxFrame v cs d = .ok seq id name vals tr ∧
      (classify v cs d).1 = .ok seq id (name == "invalidCommand") 0 := by
  unfold classify
  cases h : rxFrame v cs d with
  | short => exact Or.inl rfl
  | unknown id => exact Or.inr (Or.inl rfl)
  | undecodable n => exact Or.inr (Or.inr (Or.inl rfl))
  | ok seq id name vals tr => exact Or.inr (Or.inr (Or.inr ⟨seq, id, name, vals, tr, rfl, rfl⟩))

/-- a frame that decodes carries the sequence number and frame ID read from its own header, and its ID
is one of the active version's table -/
theorem rxFrame_ok_header {v : Nat} {cs : List Codec.Cmd} {d : List UInt8} {seq id : Nat} {name : String}
    {vals : List Val} {tr : List UInt8} (h : rxFrame v cs d = .ok seq id name vals tr) :
    ∃ payload c, rxHeader (hdrOf v) d = some (seq, id, payload) ∧ findById cs id = some c ∧ c.name = name ∧
      deFields (payload.length + 1) c.rxT payload = some (vals, tr) := by
  unfold rxFrame at h
  split at h
  · simp at h
  · rename_i sq i payload hh
    split at h
    · simp at h
    · rename_i c hc
      split at h
      · simp at h
      · rename_i vs r hd
        simp only [RxOut.ok.injEq] at h
        obtain ⟨rfl, rfl, rfl, rfl, rfl⟩ := h
        exact ⟨payload, c, hh, hc, rfl, hd⟩

/-- **malformed input leaves the command layer untouched**: an empty frame, a frame too short for the
header, an unknown frame ID or an undecodable payload changes no state, completes no call and invokes
no callback (the exception, where there is one, stays inside the guard) -/
theorem c08_malformed_contained (v : Nat) (cs : List Codec.Cmd) (s : St) (d : List UInt8)
    (h : d = [] ∨ (classify v cs d).1 = .short ∨ (classify v cs d).1 = .unknown ∨
         (classify v cs d).1 = .undecodable) :
    (frameReceived v cs s d).1 = s ∧
    ∀ o ∈ (frameReceived v cs s d).2, o = .rxRaised := by
  unfold frameReceived
  rcases h with rfl | h | h | h
  · simp
  · split
    · simp
    · rw [h]; simp [step]
  · split
    · simp
    · rw [h]; simp [step]
  · split
    · simp
    · rw [h]; simp [step]

/-- **no wrong completion**: a pending command is completed with a payload only by a frame whose header
carries its own sequence number and its own frame ID -/
theorem c08_no_wrong_completion (v : Nat) (cs : List Codec.Cmd) (s : St) (hi : C06.Inv s) (d : List UInt8)
    (c tag : Nat) (hd : Out.done c (.ok tag) ∈ (frameReceived v cs s d).2) :
    ∃ h payload, s.holder = some h ∧ h.caller = c ∧ rxHeader (hdrOf v) d = some (h.seqNo, h.cmdId, payload) := by
  unfold frameReceived at hd
  split at hd
  · simp at hd
  · obtain ⟨h, hh, hc, -, hf⟩ := C06.c06_own_response s hi _ c tag hd
    rcases c08_classify_total v cs d with h1 | h1 | h1 | ⟨seq, id, name, vals, tr, hrx, hcl⟩
    · rw [h1] at hf; cases hf
    · rw [h1] at hf; cases hf
    · rw [h1] at hf; cases hf
    · rw [hcl] at hf
      simp only [Frame.ok.injEq] at hf
      obtain ⟨rfl, rfl, -, -⟩ := hf
      obtain ⟨payload, c', hh', -, -, -⟩ := rxFrame_ok_header hrx
      exact ⟨h, payload, hh, hc, hh'⟩

/-- **callbacks only for frames that decode**: a callback is invoked only for bytes that parse, name a
frame of the active version's table and decode fully against its schema -/
theorem c08_callback_only_if_decodes (v : Nat) (cs : List Codec.Cmd) (s : St) (d : List UInt8) (fid tag : Nat)
    (hcb : Out.callback fid tag ∈ (frameReceived v cs s d).2) :
    ∃ seq name vals tr, rxFrame v cs d = .ok seq fid name vals tr := by
  unfold frameReceived at hcb
  split at hcb
  · simp at hcb
  · rcases c08_classify_total v cs d with h1 | h1 | h1 | ⟨seq, id, name, vals, tr, hrx, hcl⟩
    · rw [h1] at hcb; simp [step] at hcb
    · rw [h1] at hcb; simp [step] at hcb
    · rw [h1] at hcb; simp [step] at hcb
    · rw [hcl] at hcb
      simp only [step, onOk] at hcb
      have hfid : fid = id := by
        split at hcb
        · simp at hcb; exact hcb.1
        · rename_i e he
          -- with an `_awaiting` entry no callback is made at all
          split at hcb
          · split at hcb
            · split at hcb
              · split at hcb
                · simp at hcb
                · simp only [finish, List.mem_cons, reduceCtorEq, false_or] at hcb
                  unfold release at hcb; split at hcb
                  · simp at hcb
                  · simp [start] at hcb
              · simp at hcb
            · simp at hcb
          · split at hcb
            · simp at hcb
            · split at hcb
              · split at hcb
                · split at hcb
                  · simp at hcb
                  · simp only [finish, List.mem_cons, reduceCtorEq, false_or] at hcb
                    unfold release at hcb; split at hcb
                    · simp at hcb
                    · simp [start] at hcb
                · simp at hcb
              · simp at hcb
      exact ⟨seq, name, vals, tr, hfid ▸ hrx⟩

/-- **commands issued afterwards still complete normally**: from any reachable settled state with the
slot free, a fresh call followed by its matching reply returns that reply -/
theorem c08_still_works (s : St) (hi : C06.Inv s) (hfree : s.holder = none) (c cmd tag : Nat) (p : Int) :
    let s1 := (step s (.call c cmd p)).1
    let s2 := (step s1 (.sendDone true)).1
    (step s (.call c cmd p)).2 = [.sent s.seq cmd] ∧
    (step s2 (.frame (.ok s.seq cmd false tag))).2 = [.done c (.ok tag)] := by
  have hw := hi.queued hfree
  have haw : s.awaiting = [] := by
    cases ha : s.awaiting with
    | nil => rfl
    | cons e es =>
      obtain ⟨h, hh, _⟩ := hi.entries e (by rw [ha]; simp)
      rw [hfree] at hh; cases hh
  obtain ⟨sq, aw, holder, ws, now, pop⟩ := s
  simp only at hfree hw haw
  subst hfree hw haw
  simp [step, start, setEntry, onOk, finish, endCall, release, hi.pop]

/-- every reachable state of the command layer satisfies the invariant these theorems assume -/
theorem c08_reachable (seq0 : Nat) (is : List In) : C06.Inv (run { seq := seq0 } is).1 :=
  C06.c06_invariant seq0 is


/-! ### the same clauses over the definition generated from `ProtocolHandler.__call__` (BV/Gen/SrcProto.lean)

The receive path is translated from the syntax tree on every run, over the header parsers generated from EZSPv4 / v5 / v8;
`BV.Proofs.Src.Proto` says what it does for every byte string by the model's classification `rxFrame`. -/
section Src
open BV.Py BV.Codec BV.Src.Proto BV.Proofs.Src.Proto

/-- **malformed or unknown frames are contained** (source level): a frame too short for its header, with a frame ID the version does
not define, or whose payload does not decode leaves every pending entry, every future and the callbacks untouched; the unknown ID
is dropped without an exception, the other two raise (into the guard of `EZSP.frame_received`) -/
theorem c08_src_malformed_contained (s : Proto) (d : List UInt8) :
    (rxFrame s.version s.cmds d = .short → ∃ c, handler_call d s = (.error (.raised c), s)) ∧
    (∀ id, rxFrame s.version s.cmds d = .unknown id → handler_call d s = (.ok (), s)) ∧
    (∀ n, rxFrame s.version s.cmds d = .undecodable n → handler_call d s = (.error (.raised "ValueError"), s)) :=
  ⟨call_short s d, call_unknown s d, call_undecodable s d⟩

/-- **no wrong completion** (source level): whatever bytes arrive, a pending call's future is resolved with values only by a frame
that decodes under the active version, carries the sequence number the call is registered under *and* the frame ID it expects -
and then with exactly the decoded values -/
theorem c08_src_no_wrong_completion (s : Proto) (d : List UInt8) (fid : Nat) (v : Vals)
    (hp : s.futs[fid]? = some .pending) (hr : (handler_call d s).2.futs[fid]? = some (.result v)) :
    ∃ sq id name tr, rxFrame s.version s.cmds d = .ok sq id name v tr ∧ s.awaiting.lookup sq = some (id, fid) ∧
      name ≠ "invalidCommand" :=
  result_only_own_reply s d fid v hp hr

/-- **the receive entry point contains everything** (source level): the generated `EZSP.frame_received`
(BV/Gen/SrcEzspRx.lean) around the generated `__call__` never raises, for every byte string and every state whose pending entries
point to existing futures: the frame is ignored (no handler configured, or empty), or the handler's effects stand and whatever it
raised is swallowed -/
theorem c08_src_guard_contains (s : Proto) (d : List UInt8) (hw : BV.Proofs.Src.Cmd.WF s) :
    BV.Src.EzspRx.frame_received d s =
      (.ok (), if BV.Proofs.Src.Cmd.ignored s d then s else (handler_call d s).2) :=
  BV.Proofs.Src.Cmd.frameReceived_eq s d hw

/-- **a callback is made only for a frame that decodes** (source level), exactly once, and only when no entry waits under the
frame's sequence number -/
theorem c08_src_callback_only_if_decodes (s : Proto) (d : List UInt8) (hne : (handler_call d s).2.trace ≠ s.trace) :
    ∃ sq id name vals tr, rxFrame s.version s.cmds d = .ok sq id name vals tr ∧ s.awaiting.lookup sq = none ∧
      (handler_call d s).2.trace = s.trace ++ [.callback name vals] := by
  cases hc : rxFrame s.version s.cmds d with
  | short => obtain ⟨c, e⟩ := call_short s d hc; rw [e] at hne; exact absurd rfl hne
  | unknown id => rw [call_unknown s d id hc] at hne; exact absurd rfl hne
  | undecodable n => rw [call_undecodable s d n hc] at hne; exact absurd rfl hne
  | ok sq id name vals tr =>
    have ht := call_ok_trace s d sq id name vals tr hc
    cases hl : s.awaiting.lookup sq with
    | none =>
      rw [hl] at ht
      exact ⟨sq, id, name, vals, tr, rfl, hl, by simpa using ht⟩
    | some e =>
      rw [hl] at ht
      simp only [Option.isNone_some, Bool.false_eq_true, ↓reduceIte] at ht
      exact absurd ht hne

/-- non-vacuity: the hypotheses of the case theorems are met by a v8 handler with `nop` (ID 5) waiting under sequence number 7 and
its reply `07 80 01 05 00` -/
example : rxFrame 8 [⟨"nop", 5, [], []⟩] [7, 0x80, 1, 5, 0] = .ok 7 5 "nop" [] [] := by
  simp [rxFrame, rxHeader, hdrOf, findById, deFields, Cmd.rxT]

example : (handler_call [7, 0x80, 1, 5, 0]
      { version := 8, cmds := [⟨"nop", 5, [], []⟩], awaiting := [(7, (5, 0))], futs := [.pending] }).2.futs[0]? = some (.result []) := by
  rw [call_reply _ _ 7 5 0 "nop" [] [] (by simp [rxFrame, rxHeader, hdrOf, findById, deFields, Cmd.rxT]) (by simp) (by decide) (by simp)]
  simp

end Src

end BV.Props.C08
