/-
C06 — each EZSP command gets its own response; one in flight; keep-alives go first.
Model: BV.Cmd (ProtocolHandler.command / __call__ at settled loop states, repaired code: the
`_awaiting` entry is removed when its call ends).
-/
import BV.Model.Ezsp.Cmd
import BV.Model.Ezsp.Registry
namespace BV.Props.C06
open BV.Cmd BV.Gen.Priority

/-- invariant of settled states (repaired code): `_awaiting` holds exactly the live holder's entry
while it has not been answered, and nothing else; waiters are ordered by priority -/
structure Inv (s : St) : Prop where
  pop : s.popOnExit = true
  entries : ∀ e ∈ s.awaiting, ∃ h, s.holder = some h ∧ e = ⟨h.seqNo, h.cmdId, h.caller, .live⟩
  sorted : s.waiters.Pairwise (fun a b => a.prio ≥ b.prio)
  queued : s.holder = none → s.waiters = []

theorem inv_init (seq0 : Nat) : Inv { seq := seq0 } :=
  ⟨rfl, by intro e he; simp at he, by simp, by intro; rfl⟩

theorem setEntry_mem (l : List Entry) (e x : Entry) (hx : x ∈ setEntry l e) : x = e ∨ x ∈ l := by
  unfold setEntry at hx
  split at hx
  · obtain ⟨y, hy, rfl⟩ := List.mem_map.mp hx
    split
    · exact Or.inl rfl
    · exact Or.inr hy
  · rcases List.mem_append.mp hx with h | h
    · exact Or.inr h
    · simp at h; exact Or.inl h

/-- `start` with an empty table -/
theorem start_spec (s : St) (c cmd : Nat) (hs : s.awaiting = []) :
    (start s c cmd).2 = [.sent s.seq cmd] ∧ (start s c cmd).1.seq = (s.seq + 1) % 256 ∧
    (start s c cmd).1.holder = some ⟨c, s.seq, cmd, true, .waiting, 0⟩ ∧
    (start s c cmd).1.awaiting = [⟨s.seq, cmd, c, .live⟩] ∧ (start s c cmd).1.waiters = s.waiters := by
  simp [start, hs, setEntry]

theorem insertWaiter_sorted (ws : List Waiter) (w : Waiter) (h : ws.Pairwise (fun a b => a.prio ≥ b.prio)) :
    (insertWaiter ws w).Pairwise (fun a b => a.prio ≥ b.prio) := by
  induction ws with
  | nil => simp [insertWaiter]
  | cons x xs ih =>
    have hx := List.pairwise_cons.mp h
    unfold insertWaiter
    by_cases hp : x.prio ≥ w.prio
    · simp only [List.takeWhile_cons, List.dropWhile_cons, hp, decide_true, ↓reduceIte, List.cons_append]
      have ih' := ih hx.2
      unfold insertWaiter at ih'
      refine List.pairwise_cons.mpr ⟨?_, ih'⟩
      intro y hy
      simp only [List.append_assoc, List.mem_append, List.mem_cons, List.not_mem_nil, or_false] at hy
      rcases hy with hy | rfl | hy
      · exact hx.1 y (List.takeWhile_subset _ hy)
      · exact hp
      · exact hx.1 y (List.dropWhile_subset _ hy)
    · have hp' : ¬ (decide (x.prio ≥ w.prio) = true) := by simpa using hp
      simp only [List.takeWhile_cons, List.dropWhile_cons, hp', ↓reduceIte, List.nil_append, List.singleton_append]
      refine List.pairwise_cons.mpr ⟨?_, h⟩
      intro y hy
      rcases List.mem_cons.mp hy with rfl | hy
      · omega
      · have := hx.1 y hy; omega

/-- first-come first-served within a class, classes by priority: a new waiter goes behind every waiter
of greater or equal priority and ahead of every waiter of smaller priority; nobody else moves -/
theorem c06_priority_fifo (ws : List Waiter) (w : Waiter) (h : ws.Pairwise (fun a b => a.prio ≥ b.prio)) :
    ∃ pre post, ws = pre ++ post ∧ insertWaiter ws w = pre ++ [w] ++ post ∧
      (∀ x ∈ pre, x.prio ≥ w.prio) ∧ (∀ x ∈ post, x.prio < w.prio) := by
  refine ⟨ws.takeWhile (fun x => x.prio ≥ w.prio), ws.dropWhile (fun x => x.prio ≥ w.prio),
    (List.takeWhile_append_dropWhile).symm, rfl, ?_, ?_⟩
  · intro x hx
    have := List.all_eq_true.mp (List.all_takeWhile (p := fun x : Waiter => decide (x.prio ≥ w.prio)) (l := ws)) x hx
    simpa using this
  · intro x hx
    -- the first element of the dropped part fails the test; the rest is below it by sortedness
    induction ws with
    | nil => simp at hx
    | cons y ys ih =>
      have hy := List.pairwise_cons.mp h
      by_cases hp : y.prio ≥ w.prio
      · simp only [List.dropWhile_cons, hp, decide_true, ↓reduceIte] at hx
        exact ih hy.2 hx
      · have hp' : ¬ (decide (y.prio ≥ w.prio) = true) := by simpa using hp
        simp only [List.dropWhile_cons, hp', ↓reduceIte] at hx
        rcases List.mem_cons.mp hx with rfl | hx
        · omega
        · have := hy.1 x hx; omega

/-- the priority classes of the generated table: keep-alive and counter reads before ordinary commands
before packet-send commands -/
theorem c06_priority_classes :
    nonZero = [("getValue", 999), ("nop", 999), ("readAndClearCounters", 999), ("readCounters", 999),
               ("sendBroadcast", -1), ("sendMulticast", -1), ("sendUnicast", -1),
               ("setExtendedTimeout", -1), ("setSourceRoute", -1)] ∧ maxCommandConcurrency = 1 := by
  decide +kernel

theorem endCall_awaiting (s : St) (h : Holder) (f : EFut) (hi : Inv s) (hh : s.holder = some h) :
    (endCall s h f).awaiting = [] ∧ (endCall s h f).holder = none ∧ (endCall s h f).waiters = s.waiters ∧
    (endCall s h f).seq = s.seq ∧ (endCall s h f).popOnExit = true ∧ (endCall s h f).now = s.now := by
  refine ⟨?_, rfl, rfl, rfl, hi.pop, rfl⟩
  unfold endCall
  simp only [hi.pop, ↓reduceIte]
  apply List.filter_eq_nil_iff.mpr
  intro e he
  obtain ⟨h', hh', rfl⟩ := hi.entries e he
  rw [hh] at hh'; cases hh'
  simp

theorem release_inv (s : St) (hpop : s.popOnExit = true) (haw : s.awaiting = []) (hnone : s.holder = none)
    (hs : s.waiters.Pairwise (fun a b => a.prio ≥ b.prio)) : Inv (release s).1 := by
  unfold release
  cases hw : s.waiters with
  | nil => exact ⟨hpop, by intro e he; rw [haw] at he; simp at he, by rw [hw]; simp, by intro; exact hw⟩
  | cons w ws =>
    simp only
    obtain ⟨-, -, h3, h4, h5⟩ := start_spec { s with waiters := ws } w.caller w.cmdId haw
    refine ⟨by simp [start, hpop], ?_, ?_, ?_⟩
    · intro e he; rw [h4] at he; simp at he; exact ⟨_, h3, he⟩
    · rw [h5]; rw [hw] at hs; exact (List.pairwise_cons.mp hs).2
    · intro hn; rw [h3] at hn; cases hn

theorem finish_inv (s : St) (h : Holder) (f : EFut) (r : Res) (hi : Inv s) (hh : s.holder = some h) :
    Inv (finish s h f r).1 := by
  unfold finish
  obtain ⟨e1, e2, e3, -, e5, -⟩ := endCall_awaiting s h f hi hh
  exact release_inv _ e5 e1 e2 (by rw [e3]; exact hi.sorted)

/-- the released slot goes to the first waiter — by the ordering invariant, the waiting call with the
greatest priority, oldest first; its request is sent at once with the next sequence number -/
theorem c06_next_holder (s : St) (h : Holder) (f : EFut) (r : Res) (hi : Inv s) (hh : s.holder = some h)
    (w : Waiter) (ws : List Waiter) (hw : s.waiters = w :: ws) :
    (finish s h f r).2 = [.done h.caller r, .sent s.seq w.cmdId] ∧
    (finish s h f r).1.holder = some ⟨w.caller, s.seq, w.cmdId, true, .waiting, 0⟩ ∧
    (finish s h f r).1.seq = (s.seq + 1) % 256 ∧ (finish s h f r).1.waiters = ws := by
  obtain ⟨e1, e2, e3, e4, e5, -⟩ := endCall_awaiting s h f hi hh
  simp [finish, release, e3, hw, start, e4]

theorem onOk_inv (s : St) (seqNo fid : Nat) (inv : Bool) (tag : Nat) (hi : Inv s) :
    Inv (onOk s seqNo fid inv tag).1 := by
  unfold onOk
  cases hf : s.awaiting.find? (·.seqNo == seqNo) with
  | none => exact hi
  | some e =>
    have he : e ∈ s.awaiting := List.mem_of_find?_eq_some hf
    obtain ⟨h, hh, rfl⟩ := hi.entries e he
    obtain ⟨sq, aw, holder, ws, now, pop⟩ := s
    simp only at hh
    subst hh
    have hfil : ∀ x ∈ aw.filter (·.seqNo != seqNo),
        ∃ h', some h = some h' ∧ x = ⟨h'.seqNo, h'.cmdId, h'.caller, .live⟩ := by
      intro x hx; exact hi.entries x (List.mem_filter.mp hx).1
    have hs1 : Inv ⟨sq, aw.filter (·.seqNo != seqNo), some h, ws, now, pop⟩ :=
      ⟨hi.pop, hfil, hi.sorted, hi.queued⟩
    have hupd : ∀ h2 : Holder, h2.seqNo = h.seqNo → h2.cmdId = h.cmdId → h2.caller = h.caller →
        Inv ⟨sq, aw.filter (·.seqNo != seqNo), some h2, ws, now, pop⟩ := by
      intro h2 e1 e2 e3
      refine ⟨hi.pop, ?_, hi.sorted, by intro hn; cases hn⟩
      intro x hx
      obtain ⟨h', hh', rfl⟩ := hfil x hx
      cases hh'
      exact ⟨h2, rfl, by rw [e1, e2, e3]⟩
    simp only
    split
    · split
      · split
        · exact hupd _ rfl rfl rfl
        · exact finish_inv _ h _ _ hs1 rfl
      · exact hs1
    · split
      · exact hs1
      · split
        · split
          · exact hupd _ rfl rfl rfl
          · exact finish_inv _ h _ _ hs1 rfl
        · exact hs1

theorem step_inv (s : St) (i : In) (hi : Inv s) : Inv (step s i).1 := by
  cases i with
  | call c cmd prio =>
    simp only [step]
    split
    · rename_i hb
      exact ⟨hi.pop, hi.entries, insertWaiter_sorted _ _ hi.sorted, by
        intro hn
        simp only at hn
        have := hi.queued hn
        simp [hn, this] at hb⟩
    · rename_i hb
      have hn : s.holder = none := by
        cases hh : s.holder with
        | none => rfl
        | some _ => simp [hh] at hb
      have haw : s.awaiting = [] := by
        cases ha : s.awaiting with
        | nil => rfl
        | cons e es =>
          obtain ⟨h, hh, _⟩ := hi.entries e (by rw [ha]; simp)
          rw [hn] at hh; cases hh
      obtain ⟨-, -, h3, h4, h5⟩ := start_spec s c cmd haw
      refine ⟨by simp [start, hi.pop], ?_, by rw [h5]; exact hi.sorted, by intro h; rw [h3] at h; cases h⟩
      intro e he; rw [h4] at he; simp at he; exact ⟨_, h3, he⟩
  | sendDone ok =>
    obtain ⟨sq, aw, holder, ws, now, pop⟩ := s
    cases holder with
    | none => exact hi
    | some h =>
      simp only [step]
      split
      · exact hi
      · split
        · exact finish_inv _ h _ _ hi rfl
        · split
          · exact finish_inv _ h _ _ hi rfl
          · exact finish_inv _ h _ _ hi rfl
          · refine ⟨hi.pop, ?_, hi.sorted, by intro hn; cases hn⟩
            intro e he
            obtain ⟨h', hh', rfl⟩ := hi.entries e he
            cases hh'
            exact ⟨_, rfl, rfl⟩
  | frame f =>
    cases f with
    | short => exact hi
    | unknown => exact hi
    | undecodable => exact hi
    | ok seqNo fid inv tag => exact onOk_inv s seqNo fid inv tag hi
  | timeout =>
    obtain ⟨sq, aw, holder, ws, now, pop⟩ := s
    cases holder with
    | none => exact hi
    | some h =>
      simp only [step]
      split
      · exact hi
      · exact finish_inv _ h _ _ ⟨hi.pop, hi.entries, hi.sorted, hi.queued⟩ rfl
  | wait d => exact ⟨hi.pop, hi.entries, hi.sorted, hi.queued⟩
  | cancel c =>
    obtain ⟨sq, aw, holder, ws, now, pop⟩ := s
    cases holder with
    | none => exact hi
    | some h =>
      simp only [step]
      split
      · exact finish_inv _ h _ _ hi rfl
      · split
        · refine ⟨hi.pop, hi.entries, ?_, by intro hn; cases hn⟩
          exact List.Pairwise.sublist (List.filter_sublist) hi.sorted
        · exact hi

/-- **every event list**: the invariant holds in every settled state reachable from the start -/
theorem c06_invariant (seq0 : Nat) (is : List In) : Inv (run { seq := seq0 } is).1 := by
  suffices ∀ s, Inv s → Inv (run s is).1 from this _ (inv_init seq0)
  induction is with
  | nil => intro s h; exact h
  | cons i is ih => intro s h; exact ih _ (step_inv s i h)

/-- **own response only**: a call returns `tag` in a frame event only if that frame carried the sequence
number written in its own request and its own frame ID, while it was the (single) call in flight -/
theorem c06_own_response (s : St) (hi : Inv s) (f : Frame) (c tag : Nat)
    (hd : Out.done c (.ok tag) ∈ (step s (.frame f)).2) :
    ∃ h, s.holder = some h ∧ h.caller = c ∧ h.sending = false ∧ f = .ok h.seqNo h.cmdId false tag := by
  cases f with
  | short => simp [step] at hd
  | unknown => simp [step] at hd
  | undecodable => simp [step] at hd
  | ok seqNo fid inv tg =>
    simp only [step, onOk] at hd
    cases hf : s.awaiting.find? (·.seqNo == seqNo) with
    | none => simp [hf] at hd
    | some e =>
      have he : e ∈ s.awaiting := List.mem_of_find?_eq_some hf
      have hseq : e.seqNo = seqNo := by simpa using List.find?_some hf
      obtain ⟨h, hh, rfl⟩ := hi.entries e he
      obtain ⟨sq, aw, holder, ws, now, pop⟩ := s
      simp only at hh hf
      subst hh
      simp only [hf] at hd
      by_cases hinv : inv = true
      · -- an invalidCommand frame never yields an `ok`
        subst hinv
        simp only [↓reduceIte] at hd
        split at hd
        · split at hd
          · simp at hd
          · rename_i hcond hsend
            simp only [finish, List.mem_cons, Out.done.injEq, reduceCtorEq, and_false, false_or] at hd
            unfold release at hd
            split at hd
            · simp at hd
            · simp [start] at hd
        · simp at hd
      · have hinv' : inv = false := by simpa using hinv
        subst hinv'
        simp only [Bool.false_eq_true, ↓reduceIte] at hd
        split at hd
        · simp at hd
        · rename_i hid
          have hid' : h.cmdId = fid := by simpa using hid
          split at hd
          · rename_i hcond
            split at hd
            · simp at hd
            · rename_i hsend
              simp only [finish] at hd
              rcases List.mem_cons.mp hd with hd | hd
              · simp only [Out.done.injEq, Res.ok.injEq] at hd
                refine ⟨h, rfl, hd.1.symm, by simpa using hsend, ?_⟩
                simp only at hseq
                rw [← hseq, ← hid', hd.2]
              · unfold release at hd
                split at hd
                · simp at hd
                · simp [start] at hd
          · simp at hd

/-- **timeout**: a call whose request was handed over at time `t` and that receives no reply raises
TimeoutError exactly at `t + EZSP_CMD_TIMEOUT` -/
theorem c06_timeout (s : St) (h : Holder) (hh : s.holder = some h) (hs : h.sending = true) (hw : h.fut = .waiting) :
    (step s (.sendDone true)).1.holder = some { h with sending := false, deadline := s.now + cmdTimeout } ∧
    ∀ s' h', s'.holder = some h' → h'.sending = false →
      (step s' .timeout).2.head? = some (.done h'.caller .timeout) ∧
      ∀ hi : Inv s', (step s' .timeout).1.now = h'.deadline ∨ (step s' .timeout).1.holder.isSome := by
  constructor
  · simp [step, hh, hs, hw]
  · intro s' h' hh' hs'
    simp only [step, hh', hs', Bool.false_eq_true, ↓reduceIte, finish, List.head?_cons, true_and]
    intro hi
    have hi' : Inv { s' with now := h'.deadline } := ⟨hi.pop, hi.entries, hi.sorted, hi.queued⟩
    obtain ⟨e1, e2, e3, e4, e5, e6⟩ := endCall_awaiting { s' with now := h'.deadline } h' .cancelled hi' hh'
    unfold release
    split
    · exact Or.inl e6
    · exact Or.inr (by simp [start])

/-- **one in flight**: a request is handed to the gateway only when nobody holds the slot -/
theorem c06_one_in_flight (s : St) (h : Holder) (hh : s.holder = some h) (c cmd : Nat) (p : Int) :
    (step s (.call c cmd p)).2 = [] ∧ (step s (.call c cmd p)).1.holder = some h := by
  simp [step, hh]

/-- **sequence numbers** advance by one modulo 256 with every request -/
theorem c06_seq_mod_256 (s : St) (c cmd : Nat) :
    (start s c cmd).2 = [.sent s.seq cmd] ∧ (start s c cmd).1.seq = (s.seq + 1) % 256 := by
  simp [start]

/-- **unsolicited frames**: a decodable known frame whose sequence number no call in flight owns is
handed to the callbacks exactly once and touches nothing else (late, duplicate and foreign replies are
such frames: they never complete a call) -/
theorem c06_unsolicited_once (s : St) (hi : Inv s) (seqNo fid : Nat) (inv : Bool) (tag : Nat)
    (hno : ∀ h, s.holder = some h → h.seqNo ≠ seqNo ∨ s.awaiting = []) :
    step s (.frame (.ok seqNo fid inv tag)) = (s, [.callback fid tag]) := by
  simp only [step, onOk]
  have : s.awaiting.find? (·.seqNo == seqNo) = none := by
    apply List.find?_eq_none.mpr
    intro e he
    obtain ⟨h, hh, rfl⟩ := hi.entries e he
    rcases hno h hh with h1 | h1
    · simpa using h1
    · rw [h1] at he; simp at he
  rw [this]

example : (run {} [.call 1 82 0, .call 2 170 999, .call 3 52 (-1), .call 4 5 999, .sendDone true,
    .frame (.ok 0 82 false 7)]).2.getLast? = some [.done 1 (.ok 7), .sent 1 170] := by decide +kernel


/-! ## the callback registry (`EZSP.add_callback` / `remove_callback` / `handle_callback`) -/

section Registry
open BV.Registry

theorem probe_spec (taken : List Int) (fuel : Nat) (h r : Int) (hp : probe taken fuel h = some r) :
    r ∉ taken ∧ h ≤ r ∧ ∀ j, h ≤ j → j < r → j ∈ taken := by
  induction fuel generalizing h with
  | zero => simp [probe] at hp
  | succ n ih =>
    simp only [probe] at hp
    split at hp
    · rename_i hc
      obtain ⟨a, b, c⟩ := ih (h + 1) hp
      refine ⟨a, by omega, ?_⟩
      intro j hj hjr
      by_cases hjh : j = h
      · subst hjh; simpa using hc
      · exact c j (by omega) hjr
    · rename_i hc
      cases hp
      exact ⟨by simpa using hc, Int.le_refl _, fun j a b => by omega⟩

theorem probe_congr (a b : List Int) (fuel : Nat) (h : Int) (hab : ∀ j, h ≤ j → (j ∈ a ↔ j ∈ b)) :
    probe a fuel h = probe b fuel h := by
  induction fuel generalizing h with
  | zero => rfl
  | succ n ih =>
    simp only [probe]
    have : a.contains h = b.contains h := by
      have := hab h (Int.le_refl _)
      by_cases ha : h ∈ a
      · have hb := this.mp ha; simp [ha, hb]
      · have hb : h ∉ b := fun x => ha (this.mpr x); simp [ha, hb]
    rw [this, ih (h + 1) (fun j hj => hab j (by omega))]

/-- the probe always ends: with more fuel than taken ids it finds a free one -/
theorem probe_total (taken : List Int) (h : Int) (fuel : Nat) (hf : taken.length < fuel) :
    (probe taken fuel h).isSome := by
  induction fuel generalizing taken h with
  | zero => omega
  | succ n ih =>
    simp only [probe]
    split
    · rename_i hc
      have hmem : h ∈ taken := by simpa using hc
      rw [probe_congr taken (taken.erase h) n (h + 1) (fun j hj => by
        have : j ≠ h := by omega
        exact (List.mem_erase_of_ne this).symm)]
      apply ih
      have := List.length_erase_of_mem hmem
      have := List.length_pos_of_mem hmem
      omega
    · simp

/-- registering never overwrites: the id handed out is not in use, the new registration goes last and
every earlier registration stays exactly as it was; the probe never runs out of fuel -/
theorem c06_registry_add (r : Reg) (cb : Nat) (h : Int) :
    ∃ id, Registry.step r (.add cb h) = ({ cbs := r.cbs ++ [(id, cb)] }, .added id) ∧ id ∉ ids r ∧ h ≤ id := by
  have ht := probe_total (ids r) h (r.cbs.length + 1) (by simp [ids])
  obtain ⟨id, hid⟩ := Option.isSome_iff_exists.mp ht
  obtain ⟨a, b, -⟩ := probe_spec _ _ _ _ hid
  exact ⟨id, by simp [Registry.step, hid], a, b⟩

theorem ids_nodup_step (r : Reg) (hn : (ids r).Nodup) (o : Op) : (ids (Registry.step r o).1).Nodup := by
  cases o with
  | add cb h =>
    obtain ⟨id, hs, hfresh, -⟩ := c06_registry_add r cb h
    rw [hs]
    simp only [ids, List.map_append, List.map_cons, List.map_nil]
    exact List.nodup_append.mpr ⟨hn, by simp, by
      intro a ha b hb
      simp at hb
      subst hb
      intro hab
      subst hab
      exact hfresh ha⟩
  | remove id =>
    simp only [Registry.step]
    split
    · simp only [ids]
      exact (List.filter_sublist.map _).nodup hn
    · exact hn
  | deliver _ => exact hn

/-- **no two live registrations ever share an id**, for every history of add / remove / deliver -/
theorem c06_registry_inv (r : Reg) (hn : (ids r).Nodup) (ops : List Op) : (ids (Registry.run r ops).1).Nodup := by
  induction ops generalizing r with
  | nil => exact hn
  | cons o os ih =>
    simp only [Registry.run]
    exact ih _ (ids_nodup_step r hn o)

theorem lookup_of_mem_nodup (l : List (Int × Nat)) (id : Int) (cb : Nat) (hn : (l.map (·.1)).Nodup)
    (hmem : (id, cb) ∈ l) : l.lookup id = some cb := by
  induction l with
  | nil => simp at hmem
  | cons p ps ih =>
    obtain ⟨k, v⟩ := p
    simp only [List.map_cons, List.nodup_cons] at hn
    simp only [List.mem_cons] at hmem
    rcases hmem with h1 | h1
    · cases h1; simp [List.lookup]
    · have hk : k ≠ id := by
        intro hk; subst hk
        exact hn.1 (List.mem_map.mpr ⟨(k, cb), h1, rfl⟩)
      have hk' : (id == k) = false := by simpa using fun h => hk h.symm
      simp only [List.lookup, hk']
      exact ih hn.2 h1

/-- removing a registration by its id takes out exactly that registration: its callable is returned,
every other registration stays, in order; an unknown id is a `KeyError` and changes nothing -/
theorem c06_registry_remove (r : Reg) (hn : (ids r).Nodup) (id : Int) :
    (∀ cb, (id, cb) ∈ r.cbs →
        Registry.step r (.remove id) = ({ cbs := r.cbs.filter (·.1 != id) }, .removed cb) ∧
        (∀ p ∈ r.cbs, p.1 ≠ id → p ∈ (Registry.step r (.remove id)).1.cbs) ∧
        (∀ p ∈ (Registry.step r (.remove id)).1.cbs, p ∈ r.cbs ∧ p.1 ≠ id)) ∧
    (id ∉ ids r → Registry.step r (.remove id) = (r, .keyError)) := by
  constructor
  · intro cb hmem
    have hl : r.cbs.lookup id = some cb := lookup_of_mem_nodup r.cbs id cb hn hmem
    simp only [Registry.step, hl]
    refine ⟨trivial, ?_, ?_⟩
    · intro p hp hne; simp [List.mem_filter, hp, hne]
    · intro p hp; simp [List.mem_filter] at hp; exact ⟨hp.1, hp.2⟩
  · intro hnot
    have : r.cbs.lookup id = none := by
      apply List.lookup_eq_none_iff.mpr
      intro p hp
      simp only [ids, List.mem_map] at hnot
      simp
      intro h
      exact hnot ⟨p, hp, h.symm⟩
    simp [Registry.step, this]

/-- an unsolicited frame is handed to every live registration exactly once, in registration order,
whether or not a handler raises, and leaves the registry as it is -/
theorem c06_registry_fanout (r : Reg) (raising : List Nat) :
    Registry.step r (.deliver raising) = (r, .called (r.cbs.map (·.2))) := rfl

example : (Registry.run {} [.add 7 100, .add 8 100, .add 9 101, .remove 100, .add 5 100, .deliver [8]]).2 =
    [.added 100, .added 101, .added 102, .removed 7, .added 100, .called [8, 9, 5]] := by decide


end Registry

end BV.Props.C06
