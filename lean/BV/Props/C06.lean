/-
C06 — each EZSP command gets its own response; one in flight; keep-alives go first.
Model: BV.Cmd (ProtocolHandler.command / __call__ at settled loop states, repaired code: the
`_awaiting` entry is removed when its call ends).
-/
import BV.Model.Ezsp.Cmd
import BV.Model.Ezsp.Registry
import BV.Proofs.Src.Cmd
import BV.Gen.Commands
namespace BV.Props.C06
open BV.Cmd BV.Gen.Priority

/-- invariant of settled states (repaired code): `_awaiting` holds exactly the live holder's entry
while it has not been answered, and nothing else; waiters are ordered by priority -/
structure Inv (s : St) : Prop where
  pop : s.popOnExit = true
  entries : ∀ e ∈ s.awaiting, ∃ h, s.holder = some h ∧ e = ⟨h.seqNo, h.cmdId, h.caller, .live⟩
  sorted : s.waiters.Pairwise (fun a b => a.prio ≥ b.prio)
  queued : s.holder = none → s.waiters = []

theorem inv_init (seq0 : Nat) : Inv { seq := seq0 } :=
  ⟨rfl, by intro e he; simp at he, by simp, by intro; rfl⟩

theorem setEntry_mem (l : List Entry) (e x : Entry) (hx : x ∈ setEntry l e) : x = e ∨ x ∈ l := by
  unfold setEntry at hx
  split at hx
  · obtain ⟨y, hy, rfl⟩ := List.mem_map.mp hx
    split
    · exact Or.inl rfl
    · exact Or.inr hy
  · rcases List.mem_append.mp hx with h | h
    · exact Or.inr h
    · simp at h; exact Or.inl h

/-- `start` with an empty table -/
theorem start_spec (s : St) (c cmd : Nat) (hs : s.awaiting = []) :
    (start s c cmd).2 = [.sent s.seq cmd] ∧ (start s c cmd).1.seq = (s.seq + 1) % 256 ∧
    (start s c cmd).1.holder = some ⟨c, s.seq, cmd, true, .waiting, 0⟩ ∧
    (start s c cmd).1.awaiting = [⟨s.seq, cmd, c, .live⟩] ∧ (start s c cmd).1.waiters = s.waiters := by
  simp [start, hs, setEntry]

theorem insertWaiter_sorted (ws : List Waiter) (w : Waiter) (h : ws.Pairwise (fun a b => a.prio ≥ b.prio)) :
    (insertWaiter ws w).Pairwise (fun a b => a.prio ≥ b.prio) := by
  induction ws with
  | nil => simp [insertWaiter]
  | cons x xs ih =>
    have hx := List.pairwise_cons.mp h
    unfold insertWaiter
    by_cases hp : x.prio ≥ w.prio
    · simp only [List.takeWhile_cons, List.dropWhile_cons, hp, decide_true, ↓reduceIte, List.cons_append]
      have ih' := ih hx.2
      unfold insertWaiter at ih'
      refine List.pairwise_cons.mpr ⟨?_, ih'⟩
      intro y hy
      simp only [List.append_assoc, List.mem_append, List.mem_cons, List.not_mem_nil, or_false] at hy
      rcases hy with hy | rfl | hy
      · exact hx.1 y (List.takeWhile_subset _ hy)
      · exact hp
      · exact hx.1 y (List.dropWhile_subset _ hy)
    · have hp' : ¬ (decide (x.prio ≥ w.prio) = true) := by simpa using hp
      simp only [List.takeWhile_cons, List.dropWhile_cons, hp', ↓reduceIte, List.nil_append, List.singleton_append]
      refine List.pairwise_cons.mpr ⟨?_, h⟩
      intro y hy
      rcases List.mem_cons.mp hy with rfl | hy
      · omega
      · have := hx.1 y hy; omega

/-- first-come first-served within a class, classes by priority: a new waiter goes behind every waiter
of greater or equal priority and ahead of every waiter of smaller priority; nobody else moves -/
theorem c06_priority_fifo (ws : List Waiter) (w : Waiter) (h : ws.Pairwise (fun a b => a.prio ≥ b.prio)) :
    ∃ pre post, ws = pre ++ post ∧ insertWaiter ws w = pre ++ [w] ++ post ∧
      (∀ x ∈ pre, x.prio ≥ w.prio) ∧ (∀ x ∈ post, x.prio < w.prio) := by
  refine ⟨ws.takeWhile (fun x => x.prio ≥ w.prio), ws.dropWhile (fun x => x.prio ≥ w.prio),
    (List.takeWhile_append_dropWhile).symm, rfl, ?_, ?_⟩
  · intro x hx
    have := List.all_eq_true.mp (List.all_takeWhile (p := fun x : Waiter => decide (x.prio ≥ w.prio)) (l := ws)) x hx
    simpa using this
  · intro x hx
    -- the first element of the dropped part fails the test; the rest is below it by sortedness
    induction ws with
    | nil => simp at hx
    | cons y ys ih =>
      have hy := List.pairwise_cons.mp h
      by_cases hp : y.prio ≥ w.prio
      · simp only [List.dropWhile_cons, hp, decide_true, ↓reduceIte] at hx
        exact ih hy.2 hx
      · have hp' : ¬ (decide (y.prio ≥ w.prio) = true) := by simpa using hp
        simp only [List.dropWhile_cons, hp', ↓reduceIte] at hx
        rcases List.mem_cons.mp hx with rfl | hx
        · omega
        · have := hy.1 x hx; omega

/-- the priority classes of the generated table: keep-alive and counter reads before ordinary commands
before packet-send commands -/
theorem c06_priority_classes :
    nonZero = [("getValue", 999), ("nop", 999), ("readAndClearCounters", 999), ("readCounters", 999),
               ("sendBroadcast", -1), ("sendMulticast", -1), ("sendUnicast", -1),
               ("setExtendedTimeout", -1), ("setSourceRoute", -1)] ∧ maxCommandConcurrency = 1 := by
  decide +kernel

theorem endCall_awaiting (s : St) (h : Holder) (f : EFut) (hi : Inv s) (hh : s.holder = some h) :
    (endCall s h f).awaiting = [] ∧ (endCall s h f).holder = none ∧ (endCall s h f).waiters = s.waiters ∧
    (endCall s h f).seq = s.seq ∧ (endCall s h f).popOnExit = true ∧ (endCall s h f).now = s.now := by
  refine ⟨?_, rfl, rfl, rfl, hi.pop, rfl⟩
  unfold endCall
  simp only [hi.pop, ↓reduceIte]
  apply List.filter_eq_nil_iff.mpr
  intro e he
  obtain ⟨h', hh', rfl⟩ := hi.entries e he
  rw [hh] at hh'; cases hh'
  simp

theorem release_inv (s : St) (hpop : s.popOnExit = true) (haw : s.awaiting = []) (hnone : s.holder = none)
    (hs : s.waiters.Pairwise (fun a b => a.prio ≥ b.prio)) : Inv (release s).1 := by
  unfold release
  cases hw : s.waiters with
  | nil => exact ⟨hpop, by intro e he; rw [haw] at he; simp at he, by rw [hw]; simp, by intro; exact hw⟩
  | cons w ws =>
    simp only
    obtain ⟨-, -, h3, h4, h5⟩ := start_spec { s with waiters := ws } w.caller w.cmdId haw
    refine ⟨by simp [start, hpop], ?_, ?_, ?_⟩
    · intro e he; rw [h4] at he; simp at he; exact ⟨_, h3, he⟩
    · rw [h5]; rw [hw] at hs; exact (List.pairwise_cons.mp hs).2
    · intro hn; rw [h3] at hn; cases hn

theorem finish_inv (s : St) (h : Holder) (f : EFut) (r : Res) (hi : Inv s) (hh : s.holder = some h) :
    Inv (finish s h f r).1 := by
  unfold finish
  obtain ⟨e1, e2, e3, -, e5, -⟩ := endCall_awaiting s h f hi hh
  exact release_inv _ e5 e1 e2 (by rw [e3]; exact hi.sorted)

/-- the released slot goes to the first waiter — by the ordering invariant, the waiting call with the
greatest priority, oldest first; its request is sent at once with the next sequence number -/
theorem c06_next_holder (s : St) (h : Holder) (f : EFut) (r : Res) (hi : Inv s) (hh : s.holder = some h)
    (w : Waiter) (ws : List Waiter) (hw : s.waiters = w :: ws) :
    (finish s h f r).2 = [.done h.caller r, .sent s.seq w.cmdId] ∧
    (finish s h f r).1.holder = some ⟨w.caller, s.seq, w.cmdId, true, .waiting, 0⟩ ∧
    (finish s h f r).1.seq = (s.seq + 1) % 256 ∧ (finish s h f r).1.waiters = ws := by
  obtain ⟨e1, e2, e3, e4, e5, -⟩ := endCall_awaiting s h f hi hh
  simp [finish, release, e3, hw, start, e4]

theorem onOk_inv (s : St) (seqNo fid : Nat) (inv : Bool) (tag : Nat) (hi : Inv s) :
    Inv (onOk s seqNo fid inv tag).1 := by
  unfold onOk
  cases hf : s.awaiting.find? (·.seqNo == seqNo) with
  | none => exact hi
  | some e =>
    have he : e ∈ s.awaiting := List.mem_of_find?_eq_some hf
    obtain ⟨h, hh, rfl⟩ := hi.entries e he
    obtain ⟨sq, aw, holder, ws, now, pop⟩ := s
    simp only at hh
    subst hh
    have hfil : ∀ x ∈ aw.filter (·.seqNo != seqNo),
        ∃ h', some h = some h' ∧ x = ⟨h'.seqNo, h'.cmdId, h'.caller, .live⟩ := by
      intro x hx; exact hi.entries x (List.mem_filter.mp hx).1
    have hs1 : Inv ⟨sq, aw.filter (·.seqNo != seqNo), some h, ws, now, pop⟩ :=
      ⟨hi.pop, hfil, hi.sorted, hi.queued⟩
    have hupd : ∀ h2 : Holder, h2.seqNo = h.seqNo → h2.cmdId = h.cmdId → h2.caller = h.caller →
        Inv ⟨sq, aw.filter (·.seqNo != seqNo), some h2, ws, now, pop⟩ := by
      intro h2 e1 e2 e3
      refine ⟨hi.pop, ?_, hi.sorted, by intro hn; cases hn⟩
      intro x hx
      obtain ⟨h', hh', rfl⟩ := hfil x hx
      cases hh'
      exact ⟨h2, rfl, by rw [e1, e2, e3]⟩
    simp only
    split
    · split
      · split
        · exact hupd _ rfl rfl rfl
        · exact finish_inv _ h _ _ hs1 rfl
      · exact hs1
    · split
      · exact hs1
      · split
        · split
          · exact hupd _ rfl rfl rfl
          · exact finish_inv _ h _ _ hs1 rfl
        · exact hs1

theorem step_inv (s : St) (i : In) (hi : Inv s) : Inv (step s i).1 := by
  cases i with
  | call c cmd prio =>
    simp only [step]
    split
    · rename_i hb
      exact ⟨hi.pop, hi.entries, insertWaiter_sorted _ _ hi.sorted, by
        intro hn
        simp only at hn
        have := hi.queued hn
        simp [hn, this] at hb⟩
    · rename_i hb
      have hn : s.holder = none := by
        cases hh : s.holder with
        | none => rfl
        | some _ => simp [hh] at hb
      have haw : s.awaiting = [] := by
        cases ha : s.awaiting with
        | nil => rfl
        | cons e es =>
          obtain ⟨h, hh, _⟩ := hi.entries e (by rw [ha]; simp)
          rw [hn] at hh; cases hh
      obtain ⟨-, -, h3, h4, h5⟩ := start_spec s c cmd haw
      refine ⟨by simp [start, hi.pop], ?_, by rw [h5]; exact hi.sorted, by intro h; rw [h3] at h; cases h⟩
      intro e he; rw [h4] at he; simp at he; exact ⟨_, h3, he⟩
  | sendDone ok =>
    obtain ⟨sq, aw, holder, ws, now, pop⟩ := s
    cases holder with
    | none => exact hi
    | some h =>
      simp only [step]
      split
      · exact hi
      · split
        · exact finish_inv _ h _ _ hi rfl
        · split
          · exact finish_inv _ h _ _ hi rfl
          · exact finish_inv _ h _ _ hi rfl
          · refine ⟨hi.pop, ?_, hi.sorted, by intro hn; cases hn⟩
            intro e he
            obtain ⟨h', hh', rfl⟩ := hi.entries e he
            cases hh'
            exact ⟨_, rfl, rfl⟩
  | frame f =>
    cases f with
    | short => exact hi
    | unknown => exact hi
    | undecodable => exact hi
    | ok seqNo fid inv tag => exact onOk_inv s seqNo fid inv tag hi
  | timeout =>
    obtain ⟨sq, aw, holder, ws, now, pop⟩ := s
    cases holder with
    | none => exact hi
    | some h =>
      simp only [step]
      split
      · exact hi
      · exact finish_inv _ h _ _ ⟨hi.pop, hi.entries, hi.sorted, hi.queued⟩ rfl
  | wait d => exact ⟨hi.pop, hi.entries, hi.sorted, hi.queued⟩
  | cancel c =>
    obtain ⟨sq, aw, holder, ws, now, pop⟩ := s
    cases holder with
    | none => exact hi
    | some h =>
      simp only [step]
      split
      · exact finish_inv _ h _ _ hi rfl
      · split
        · refine ⟨hi.pop, hi.entries, ?_, by intro hn; cases hn⟩
          exact List.Pairwise.sublist (List.filter_sublist) hi.sorted
        · exact hi

/-- **every event list**: the invariant holds in every settled state reachable from the start -/
theorem c06_invariant (seq0 : Nat) (is : List In) : Inv (run { seq := seq0 } is).1 := by
  suffices ∀ s, Inv s → Inv (run s is).1 from this _ (inv_init seq0)
  induction is with
  | nil => intro s h; exact h
  | cons i is ih => intro s h; exact ih _ (step_inv s i h)

/-- **own response only**: a call returns `tag` in a frame event only if that frame carried the sequence
number written in its own request and its own frame ID, while it was the (single) call in flight -/
theorem c06_own_response (s : St) (hi : Inv s) (f : Frame) (c tag : Nat)
    (hd : Out.done c (.ok tag) ∈ (step s (.frame f)).2) :
    ∃ h, s.holder = some h ∧ h.caller = c ∧ h.sending = false ∧ f = .ok h.seqNo h.cmdId false tag := by
  cases f with
  | short => simp [step] at hd
  | unknown => simp [step] at hd
  | undecodable => simp [step] at hd
  | ok seqNo fid inv tg =>
    simp only [step, onOk] at hd
    cases hf : s.awaiting.find? (·.seqNo == seqNo) with
    | none => simp [hf] at hd
    | some e =>
      have he : e ∈ s.awaiting := List.mem_of_find?_eq_some hf
      have hseq : e.seqNo = seqNo := by simpa using List.find?_some hf
      obtain ⟨h, hh, rfl⟩ := hi.entries e he
      obtain ⟨sq, aw, holder, ws, now, pop⟩ := s
      simp only at hh hf
      subst hh
      simp only [hf] at hd
      by_cases hinv : inv = true
      · -- an invalidCommand frame never yields an `ok`
        subst hinv
        simp only [↓reduceIte] at hd
        split at hd
        · split at hd
          · simp at hd
          · rename_i hcond hsend
            simp only [finish, List.mem_cons, Out.done.injEq, reduceCtorEq, and_false, false_or] at hd
            unfold release at hd
            split at hd
            · simp at hd
            · simp [start] at hd
        · simp at hd
      · have hinv' : inv = false := by simpa using hinv
        subst hinv'
        simp only [Bool.false_eq_true, ↓reduceIte] at hd
        split at hd
        · simp at hd
        · rename_i hid
          have hid' : h.cmdId = fid := by simpa using hid
          split at hd
          · rename_i hcond
            split at hd
            · simp at hd
            · rename_i hsend
              simp only [finish] at hd
              rcases List.mem_cons.mp hd with hd | hd
              · simp only [Out.done.injEq, Res.ok.injEq] at hd
                refine ⟨h, rfl, hd.1.symm, by simpa using hsend, ?_⟩
                simp only at hseq
                rw [← hseq, ← hid', hd.2]
              · unfold release at hd
                split at hd
                · simp at hd
                · simp [start] at hd
          · simp at hd

/-- **timeout**: a call whose request was handed over at time `t` and that receives no reply raises
TimeoutError exactly at `t + EZSP_CMD_TIMEOUT` -/
theorem c06_timeout (s : St) (h : Holder) (hh : s.holder = some h) (hs : h.sending = true) (hw : h.fut = .waiting) :
    (step s (.sendDone true)).1.holder = some { h with sending := false, deadline := s.now + cmdTimeout } ∧
    ∀ s' h', s'.holder = some h' → h'.sending = false →
      (step s' .timeout).2.head? = some (.done h'.caller .timeout) ∧
      ∀ hi : Inv s', (step s' .timeout).1.now = h'.deadline ∨ (step s' .timeout).1.holder.isSome := by
  constructor
  · simp [step, hh, hs, hw]
  · intro s' h' hh' hs'
    simp only [step, hh', hs', Bool.false_eq_true, ↓reduceIte, finish, List.head?_cons, true_and]
    intro hi
    have hi' : Inv { s' with now := h'.deadline } := ⟨hi.pop, hi.entries, hi.sorted, hi.queued⟩
    obtain ⟨e1, e2, e3, e4, e5, e6⟩ := endCall_awaiting { s' with now := h'.deadline } h' .cancelled hi' hh'
    unfold release
    split
    · exact Or.inl e6
    · exact Or.inr (by simp [start])

/-- **one in flight**: a request is handed to the gateway only when nobody holds the slot -/
theorem c06_one_in_flight (s : St) (h : Holder) (hh : s.holder = some h) (c cmd : Nat) (p : Int) :
    (step s (.call c cmd p)).2 = [] ∧ (step s (.call c cmd p)).1.holder = some h := by
  simp [step, hh]

/-- **sequence numbers** advance by one modulo 256 with every request -/
theorem c06_seq_mod_256 (s : St) (c cmd : Nat) :
    (start s c cmd).2 = [.sent s.seq cmd] ∧ (start s c cmd).1.seq = (s.seq + 1) % 256 := by
  simp [start]

/-- **unsolicited frames**: a decodable known frame whose sequence number no call in flight owns is
handed to the callbacks exactly once and touches nothing else (late, duplicate and foreign replies are
such frames: they never complete a call) -/
theorem c06_unsolicited_once (s : St) (hi : Inv s) (seqNo fid : Nat) (inv : Bool) (tag : Nat)
    (hno : ∀ h, s.holder = some h → h.seqNo ≠ seqNo ∨ s.awaiting = []) :
    step s (.frame (.ok seqNo fid inv tag)) = (s, [.callback fid tag]) := by
  simp only [step, onOk]
  have : s.awaiting.find? (·.seqNo == seqNo) = none := by
    apply List.find?_eq_none.mpr
    intro e he
    obtain ⟨h, hh, rfl⟩ := hi.entries e he
    rcases hno h hh with h1 | h1
    · simpa using h1
    · rw [h1] at he; simp at he
  rw [this]

example : (run {} [.call 1 82 0, .call 2 170 999, .call 3 52 (-1), .call 4 5 999, .sendDone true,
    .frame (.ok 0 82 false 7)]).2.getLast? = some [.done 1 (.ok 7), .sent 1 170] := by decide +kernel


/-! ## the callback registry (`EZSP.add_callback` / `remove_callback` / `handle_callback`) -/

section Registry
open BV.Registry

theorem probe_spec (taken : List Int) (fuel : Nat) (h r : Int) (hp : probe taken fuel h = some r) :
    r ∉ taken ∧ h ≤ r ∧ ∀ j, h ≤ j → j < r → j ∈ taken := by
  induction fuel generalizing h with
  | zero => simp [probe] at hp
  | succ n ih =>
    simp only [probe] at hp
    split at hp
    · rename_i hc
      obtain ⟨a, b, c⟩ := ih (h + 1) hp
      refine ⟨a, by omega, ?_⟩
      intro j hj hjr
      by_cases hjh : j = h
      · subst hjh; simpa using hc
      · exact c j (by omega) hjr
    · rename_i hc
      cases hp
      exact ⟨by simpa using hc, Int.le_refl _, fun j a b => by omega⟩

theorem probe_congr (a b : List Int) (fuel : Nat) (h : Int) (hab : ∀ j, h ≤ j → (j ∈ a ↔ j ∈ b)) :
    probe a fuel h = probe b fuel h := by
  induction fuel generalizing h with
  | zero => rfl
  | succ n ih =>
    simp only [probe]
    have : a.contains h = b.contains h := by
      have := hab h (Int.le_refl _)
      by_cases ha : h ∈ a
      · have hb := this.mp ha; simp [ha, hb]
      · have hb : h ∉ b := fun x => ha (this.mpr x); simp [ha, hb]
    rw [this, ih (h + 1) (fun j hj => hab j (by omega))]

/-- the probe always ends: with more fuel than taken ids it finds a free one -/
theorem probe_total (taken : List Int) (h : Int) (fuel : Nat) (hf : taken.length < fuel) :
    (probe taken fuel h).isSome := by
  induction fuel generalizing taken h with
  | zero => omega
  | succ n ih =>
    simp only [probe]
    split
    · rename_i hc
      have hmem : h ∈ taken := by simpa using hc
      rw [probe_congr taken (taken.erase h) n (h + 1) (fun j hj => by
        have : j ≠ h := by omega
        exact (List.mem_erase_of_ne this).symm)]
      apply ih
      have := List.length_erase_of_mem hmem
      have := List.length_pos_of_mem hmem
      omega
    · simp

/-- registering never overwrites: the id handed out is not in use, the new registration goes last and
every earlier registration stays exactly as it was; the probe never runs out of fuel -/
theorem c06_registry_add (r : Reg) (cb : Nat) (h : Int) :
    ∃ id, Registry.step r (.add cb h) = ({ cbs := r.cbs ++ [(id, cb)] }, .added id) ∧ id ∉ ids r ∧ h ≤ id := by
  have ht := probe_total (ids r) h (r.cbs.length + 1) (by simp [ids])
  obtain ⟨id, hid⟩ := Option.isSome_iff_exists.mp ht
  obtain ⟨a, b, -⟩ := probe_spec _ _ _ _ hid
  exact ⟨id, by simp [Registry.step, hid], a, b⟩

theorem ids_nodup_step (r : Reg) (hn : (ids r).Nodup) (o : Op) : (ids (Registry.step r o).1).Nodup := by
  cases o with
  | add cb h =>
    obtain ⟨id, hs, hfresh, -⟩ := c06_registry_add r cb h
    rw [hs]
    simp only [ids, List.map_append, List.map_cons, List.map_nil]
    exact List.nodup_append.mpr ⟨hn, by simp, by
      intro a ha b hb
      simp at hb
      subst hb
      intro hab
      subst hab
      exact hfresh ha⟩
  | remove id =>
    simp only [Registry.step]
    split
    · simp only [ids]
      exact (List.filter_sublist.map _).nodup hn
    · exact hn
  | deliver _ => exact hn

/-- **no two live registrations ever share an id**, for every history of add / remove / deliver -/
theorem c06_registry_inv (r : Reg) (hn : (ids r).Nodup) (ops : List Op) : (ids (Registry.run r ops).1).Nodup := by
  induction ops generalizing r with
  | nil => exact hn
  | cons o os ih =>
    simp only [Registry.run]
    exact ih _ (ids_nodup_step r hn o)

theorem lookup_of_mem_nodup (l : List (Int × Nat)) (id : Int) (cb : Nat) (hn : (l.map (·.1)).Nodup)
    (hmem : (id, cb) ∈ l) : l.lookup id = some cb := by
  induction l with
  | nil => simp at hmem
  | cons p ps ih =>
    obtain ⟨k, v⟩ := p
    simp only [List.map_cons, List.nodup_cons] at hn
    simp only [List.mem_cons] at hmem
    rcases hmem with h1 | h1
    · cases h1; simp [List.lookup]
    · have hk : k ≠ id := by
        intro hk; subst hk
        exact hn.1 (List.mem_map.mpr ⟨(k, cb), h1, rfl⟩)
      have hk' : (id == k) = false := by simpa using fun h => hk h.symm
      simp only [List.lookup, hk']
      exact ih hn.2 h1

/-- removing a registration by its id takes out exactly that registration: its callable is returned,
every other registration stays, in order; an unknown id is a `KeyError` and changes nothing -/
theorem c06_registry_remove (r : Reg) (hn : (ids r).Nodup) (id : Int) :
    (∀ cb, (id, cb) ∈ r.cbs →
        Registry.step r (.remove id) = ({ cbs := r.cbs.filter (·.1 != id) }, .removed cb) ∧
        (∀ p ∈ r.cbs, p.1 ≠ id → p ∈ (Registry.step r (.remove id)).1.cbs) ∧
        (∀ p ∈ (Registry.step r (.remove id)).1.cbs, p ∈ r.cbs ∧ p.1 ≠ id)) ∧
    (id ∉ ids r → Registry.step r (.remove id) = (r, .keyError)) := by
  constructor
  · intro cb hmem
    have hl : r.cbs.lookup id = some cb := lookup_of_mem_nodup r.cbs id cb hn hmem
    simp only [Registry.step, hl]
    refine ⟨trivial, ?_, ?_⟩
    · intro p hp hne; simp [List.mem_filter, hp, hne]
    · intro p hp; simp [List.mem_filter] at hp; exact ⟨hp.1, hp.2⟩
  · intro hnot
    have : r.cbs.lookup id = none := by
      apply List.lookup_eq_none_iff.mpr
      intro p hp
      simp only [ids, List.mem_map] at hnot
      simp
      intro h
      exact hnot ⟨p, hp, h.symm⟩
    simp [Registry.step, this]

/-- an unsolicited frame is handed to every live registration exactly once, in registration order,
whether or not a handler raises, and leaves the registry as it is -/
theorem c06_registry_fanout (r : Reg) (raising : List Nat) :
    Registry.step r (.deliver raising) = (r, .called (r.cbs.map (·.2))) := rfl

example : (Registry.run {} [.add 7 100, .add 8 100, .add 9 101, .remove 100, .add 5 100, .deliver [8]]).2 =
    [.added 100, .added 101, .added 102, .removed 7, .added 100, .called [8, 9, 5]] := by decide


end Registry


/-! ### the same clauses over the definitions generated from `ProtocolHandler.command`, `_ezsp_frame` and
`_get_command_priority` (BV/Gen/SrcCmd.lean)

The coroutine is translated from the syntax tree on every run.  It runs against an arbitrary *script* of what the environment does at
its three await points (is the semaphore granted; which frames arrive while `send_data` runs and how it ends; which frames arrive
during the bounded wait and what ends it); every such frame goes through the guard of `frame_received` into the generated
`ProtocolHandler.__call__` on the same state.  `BV.Proofs.Src.Cmd` evaluates the generated code for every script. -/
section Src
open BV.Py BV.Codec BV.Src.Cmd BV.Proofs.Src.Cmd

/-- **no entry is left behind** (source level; the `finally` block this repair added): for every script - replies, strays,
duplicates, no reply; a send failure; the timeout; cancellation at any of the three await points; a script that does not fit -
every entry of `_awaiting` after the call was there before it, none holds a future of this call, and the table stays
well-formed -/
theorem c06_src_no_entry_left (s : Proto) (name : String) (args : Vals) (kwargs : KwVals) (hw : WF s) :
    (∀ e ∈ (command name args kwargs s).2.awaiting, e ∈ s.awaiting ∧ e.2.2 < s.futs.length) ∧ WF (command name args kwargs s).2 := by
  obtain ⟨h1, h2, -, -⟩ := command_sub s name args kwargs hw
  exact ⟨fun e he => ⟨h1 e he, hw e (h1 e he)⟩, h2⟩

/-- **the slot is given back exactly once, last** (source level): entered ⇒ entry, events that are no semaphore events, one release;
not entered ⇒ no event and no release -/
theorem c06_src_release_once (s : Proto) (name : String) (args : Vals) (kwargs : KwVals) (hw : WF s) :
    ((∀ rest, s.script ≠ .acquire true :: rest) → (command name args kwargs s).2.trace = s.trace) ∧
    (∀ rest, s.script = .acquire true :: rest →
      ∃ t, (command name args kwargs s).2.trace = s.trace ++ [.acquire (prioOf name)] ++ t ++ [.release] ∧ Quiet t) :=
  command_trace s name args kwargs hw

/-- **the priority asked for** (source level) is the reflected table `BV.Gen.Priority.nonZero` that `c06_priority_classes` is
about, for every command name -/
theorem c06_src_priority (name : String) (s : Proto) :
    get_command_priority name s = (.ok ((BV.Gen.Priority.nonZero.lookup name).getD 0), s) :=
  get_command_priority_eq name s

/-- **register, then send, one step of the counter** (source level): the request carries the handler's sequence number in the
version's header layout, the command's frame ID and the arguments in declared order; it is handed over once, right after the entry;
the counter ends one further modulo 256 however the call ends -/
theorem c06_src_request (s : Proto) (name : String) (args : Vals) (kwargs : KwVals) (c : Cmd) (b : List UInt8)
    (frames : List (List UInt8)) (out : Option String) (rest : List CResp) (hw : WF s)
    (hs : s.script = .acquire true :: .send frames out :: rest) (hc : findByName s.cmds name = some c) (hq : s.seq < 256)
    (hid : c.id ≤ maxId (hdrOf s.version)) (hb : txBody c args kwargs = .ok b) :
    (∃ t, (command name args kwargs s).2.trace =
        s.trace ++ [.acquire (prioOf name), .sent (txHeader (hdrOf s.version) s.seq c.id ++ b)] ++ t ++ [.release] ∧ Calm t) ∧
    (command name args kwargs s).2.seq = (s.seq + 1) % 256 :=
  command_sends s name args kwargs c b frames out rest hw hs hc hq hid hb

/-- **a value comes only from the own reply** (source level): values returned ⇒ one of the frames received while the call was
suspended decodes, under the handler's version and table, to exactly these values with the sequence number placed in the request
and the frame ID of the command - late replies, duplicates, replies under another number or ID never produce a return value -/
theorem c06_src_own_reply (s : Proto) (name : String) (args : Vals) (kwargs : KwVals) (v : Vals) (sf : Proto) (hw : WF s)
    (h : command name args kwargs s = (.ok v, sf)) :
    ∃ c f1 f2 fin rest, s.script = .acquire true :: .send f1 none :: .wait f2 fin :: rest ∧ findByName s.cmds name = some c ∧
      ∃ d ∈ f1 ++ f2, ∃ nm tr, rxFrame s.version s.cmds d = .ok s.seq c.id nm v tr ∧ nm ≠ "invalidCommand" :=
  command_result s name args kwargs v sf hw h

/-- **the own reply is returned** (source level): no frame before it decodes with the call's sequence number; then the frame that
decodes with the sequence number placed in the request and the command's frame ID completes the call with exactly its decoded
payload - whatever follows it in the same wait, whatever would have ended the wait (`hpr`: EZSP holds this handler, so received
frames reach it) -/
theorem c06_src_reply_returned (s : Proto) (name : String) (args : Vals) (kwargs : KwVals) (c : Cmd) (data : List UInt8)
    (f1 pre post : List (List UInt8)) (d : List UInt8) (fin : WaitEnd) (rest : List CResp) (nm : String) (v : Vals) (tr : List UInt8)
    (hw : WF s) (hs : s.script = .acquire true :: .send f1 none :: .wait (pre ++ d :: post) fin :: rest)
    (hc : findByName s.cmds name = some c)
    (hfr : (ezsp_frame name args kwargs (entered s name (.send f1 none :: .wait (pre ++ d :: post) fin :: rest))).1 = .ok data)
    (hno : ∀ x ∈ f1 ++ pre, ∀ id nm v tr, rxFrame s.version s.cmds x ≠ .ok s.seq id nm v tr)
    (hd : rxFrame s.version s.cmds d = .ok s.seq c.id nm v tr) (hnm : nm ≠ "invalidCommand") (hpr : s.protocol = some ()) :
    (command name args kwargs s).1 = .ok v :=
  command_reply s name args kwargs c data f1 pre post d fin rest nm v tr hw hs hc hfr hno hd hnm hpr

/-- **the timeout** (source level): no frame with the call's sequence number while it is suspended ⇒ `TimeoutError` at the
deadline (`CancelledError` when the caller is cancelled), and the call's future is dead afterwards -/
theorem c06_src_timeout (s : Proto) (name : String) (args : Vals) (kwargs : KwVals) (c : Cmd) (data : List UInt8)
    (f1 f2 : List (List UInt8)) (fin : WaitEnd) (rest : List CResp) (hw : WF s)
    (hs : s.script = .acquire true :: .send f1 none :: .wait f2 fin :: rest) (hc : findByName s.cmds name = some c)
    (hfr : (ezsp_frame name args kwargs (entered s name (.send f1 none :: .wait f2 fin :: rest))).1 = .ok data)
    (hno : ∀ d ∈ f1 ++ f2, ∀ id nm v tr, rxFrame s.version s.cmds d ≠ .ok s.seq id nm v tr) :
    (command name args kwargs s).1 = .error (.raised (match fin with | .deadline => "TimeoutError" | .cancelled => "CancelledError")) ∧
    (command name args kwargs s).2.futs[s.futs.length]? = some .finished :=
  command_timeout s name args kwargs c data f1 f2 fin rest hw hs hc hfr hno

/-- `_ezsp_frame` (source level) is the model's `txFrame` header and changes nothing -/
theorem c06_src_frame (s : Proto) (name : String) (args : Vals) (kwargs : KwVals) (c : Cmd) (hc : findByName s.cmds name = some c)
    (hs : s.seq < 256) (hid : c.id ≤ maxId (hdrOf s.version)) :
    ezsp_frame name args kwargs s = ((txBody c args kwargs).map (txHeader (hdrOf s.version) s.seq c.id ++ ·), s) :=
  ezsp_frame_eq s name args kwargs c hc hs hid

/-! non-vacuity: a handler of protocol version 8 with the generated table, sequence number 255, one stale foreign entry; `getValue`
is answered (after a callback and a stray reply under another number) / is never answered -/
def st0 : Proto := { version := 8, cmds := BV.Gen.Commands.cmdsV8, seq := 255, awaiting := [(7, (5, 0))], futs := [.finished] }

example : WF st0 := by intro e he; simp [st0] at he; subst he; decide

/-- the hypotheses of `c06_src_request` / `c06_src_timeout` hold for `getValue(3)` on that handler: the command is in the table,
its frame ID fits the header, the argument serialises (to the byte 3) -/
example : ∃ c, findByName st0.cmds "getValue" = some c ∧ c.id = 170 ∧ c.id ≤ maxId (hdrOf st0.version) ∧
    txBody c [.num 3] [] = .ok [3] := by
  refine ⟨⟨"getValue", 170, [("valueId", .uint 1)], [("status", .uint 1), ("value", .lvbytes 1)]⟩, by rfl, rfl, by decide, ?_⟩
  simp [txBody, schemaIsDict, serDict, resolveArgs, resolveArgs.go, serFields, ser, leBytes]

/-- ... and the reply `ff 80 01 aa 00 | 00 | 02 07 08` decodes, under a version-8 handler that knows `getValue` as the generated
table declares it, with sequence number 255 and that frame ID to (0, bytes 07 08): the premise of `c06_src_reply_returned` about
the reply frame is satisfiable -/
example : rxFrame 8 [⟨"getValue", 170, [("valueId", .uint 1)], [("status", .uint 1), ("value", .lvbytes 1)]⟩]
    [255, 0x80, 1, 0xAA, 0, 0, 2, 7, 8] = .ok 255 170 "getValue" [.num 0, .bytes [7, 8]] [] := by
  simp [rxFrame, rxHeader, hdrOf, findById, List.find?, Cmd.rxT, deFields, de, leVal]

end Src

end BV.Props.C06
