import BV.Model.Watchdog
import BV.Drv.Util
namespace BV.Drv.C19
open BV.Watchdog

def parseO : String → Option Outcome
  | "o" => some .ok | "t" => some .timeout | "e" => some .ezspError | _ => none

def kaStr : KeepAlive → String
  | .nop => "nop" | .readCounters => "readCounters" | .readAndClearCounters => "readAndClearCounters"

/-- `run <version> <startCounter> <word over o/t/e>` → `r0:ka0 r1:ka1 …` (r = 1 when the feed raised) -/
def handle : List String → String
  | ["run", v, c0, word] =>
    match v.toNat?, c0.toNat?, BV.Drv.allSome (word.toList.map (fun ch => parseO ch.toString)) with
    | some v, some c0, some os =>
      " ".intercalate ((run v { failures := 0, feedCounter := c0 } os).map fun (r, k) =>
        (if r = true then "1" else "0") ++ ":" ++ kaStr k)
    | _, _, _ => "bad-op"
  | _ => "bad-op"
end BV.Drv.C19
