import BV.Model.Stack.Reset
import BV.Drv.Ash
namespace BV.Drv.C11
open BV.Reset BV.Drv BV.Drv.Ash

def resStr : Res → String
  | .ok => "ok" | .timeout => "timeout" | .connErr => "connerr" | .cancelled => "cancelled" | .ncpFailure => "ncpfail"

def outStr : Out → String
  | .write b => "W" ++ toHex b
  | .up p => "U" ++ toHex p
  | .enterFailed c => s!"EF{c}"
  | .appLost => "AL"
  | .connDone e => "CD" ++ b01 e
  | .resetDone c r => s!"RD{c}:{resStr r}"
  | .startupDone c r => s!"SD{c}:{resStr r}"
  | .invalidState => "ISE"
  | .ncpFailure => "NF"

def parsePrim (s : String) : Option Prim :=
  if s.startsWith "R=" then (s.drop 2).toString.toNat?.map .reset
  else if s.startsWith "S=" then (s.drop 2).toString.toNat?.map .waitStartup
  else if s.startsWith "F=" then (parseFrame (s.drop 2).toString).map .frame
  else if s = "L1" then some (.lost true) else if s = "L0" then some (.lost false)
  else if s = "E" then some .eof else if s = "T" then some .timer else none

def fsStr : Option FS → String
  | none => "-" | some .pending => "p" | some .result => "r" | some .exc => "e" | some .cancelled => "c"

def stStr (s : GW) : String :=
  s!"rx={s.ash.rxSeq} tx={s.ash.txSeq} failed={b01 s.ash.failed} rf={fsStr s.resetFut} sf={fsStr s.startupFut}"

/-- `run <tx> <rx> <batch> …`, a batch is primitives joined by `+` -/
def handle : List String → String
  | "run" :: tx :: rx :: batches =>
    match tx.toNat?, rx.toNat?, allSome (batches.map fun b => allSome ((b.splitOn "+").map parsePrim)) with
    | some tx, some rx, some bs =>
      let s0 : GW := { ash := { txSeq := tx, rxSeq := rx } }
      let (_, outs) := bs.foldl (fun (acc : GW × List String) b =>
          let r := step acc.1 b
          (r.1, acc.2 ++ [(if r.2.isEmpty then "." else ",".intercalate (r.2.map outStr)) ++ ";" ++ stStr r.1])) (s0, [])
      "|".intercalate outs
    | _, _, _ => "bad-op"
  | _ => "bad-op"

end BV.Drv.C11
