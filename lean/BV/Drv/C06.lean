import BV.Model.Ezsp.Cmd
import BV.Model.Ezsp.Registry
import BV.Drv.C05
namespace BV.Drv.C06
open BV.Cmd BV.Drv

def resStr : Res → String
  | .ok tag => s!"ok{tag}" | .timeout => "timeout" | .cancelled => "cancelled" | .sendFail => "sendfail"
  | .invalidCommand => "invalid"

def outStr : Out → String
  | .sent s c => s!"S{s}:{c}"
  | .done c r => s!"D{c}:{resStr r}"
  | .callback f t => s!"CB{f}:{t}"
  | .rxRaised => "X"

def futStr : EFut → String
  | .live => "l" | .pendingOrphan => "p" | .cancelled => "c"

def stStr (s : St) : String :=
  s!"seq={s.seq} aw=" ++ (if s.awaiting.isEmpty then "-" else ",".intercalate (s.awaiting.map fun e => s!"{e.seqNo}:{e.cmdId}")) ++
  " holder=" ++ (match s.holder with | some h => s!"{h.caller}" | none => "-") ++
  " waiters=" ++ (if s.waiters.isEmpty then "-" else ",".intercalate (s.waiters.map fun w => toString w.caller)) ++
  s!" now={BV.Drv.C05.us s.now}"

def parseInt (s : String) : Option Int :=
  if s.startsWith "-" then (s.drop 1).toString.toNat?.map fun n => -(n : Int) else s.toNat?.map fun n => (n : Int)

def parseIn (s : String) : Option In :=
  match s.splitOn "=" with
  | ["K", c, cmd, p] => do pure (.call (← c.toNat?) (← cmd.toNat?) (← parseInt p))
  | ["D", "1"] => some (.sendDone true)
  | ["D", "0"] => some (.sendDone false)
  | ["F", "short"] => some (.frame .short)
  | ["F", "unknown"] => some (.frame .unknown)
  | ["F", "undec"] => some (.frame .undecodable)
  | ["F", f] =>
    match f.splitOn ":" with
    | [s, i, inv, tag] => do pure (.frame (.ok (← s.toNat?) (← i.toNat?) (inv == "1") (← tag.toNat?)))
    | _ => none
  | ["T"] => some .timeout
  | ["W", d] => (BV.Drv.C05.parseRat d).map .wait
  | ["C", c] => c.toNat?.map .cancel
  | _ => none

def parseROp (s : String) : Option BV.Registry.Op :=
  match s.splitOn "=" with
  | ["A", cb, h] => do pure (.add (← cb.toNat?) (← parseInt h))
  | ["R", id] => (parseInt id).map .remove
  | ["D", l] => (natList l).map .deliver
  | _ => none

def rOutStr : BV.Registry.Out → String
  | .added id => s!"added:{id}"
  | .removed cb => s!"removed:{cb}"
  | .keyError => "keyerror"
  | .called cbs => "called:" ++ (if cbs.isEmpty then "-" else ",".intercalate (cbs.map toString))
  | .fuel => "FUEL"

/-- `run <popOnExit 0|1> <seq0> <event> …`  |  `reg <op> …` (callback registry) -/
def handle : List String → String
  | "reg" :: ops =>
    match allSome (ops.map parseROp) with
    | some os => "|".intercalate ((BV.Registry.run {} os).2.map rOutStr)
    | none => "bad-op"
  | "run" :: pop :: seq0 :: evs =>
    match seq0.toNat?, allSome (evs.map parseIn) with
    | some seq0, some is =>
      let s0 : St := { seq := seq0, popOnExit := pop == "1" }
      let (_, outs) := is.foldl (fun (acc : St × List String) i =>
          let r := step acc.1 i
          (r.1, acc.2 ++ [(if r.2.isEmpty then "." else ",".intercalate (r.2.map outStr)) ++ ";" ++ stStr r.1])) (s0, [])
      "|".intercalate outs
    | _, _ => "bad-op"
  | _ => "bad-op"

end BV.Drv.C06
