import BV.Model.App.Callbacks
import BV.Drv.C07
namespace BV.Drv.C13
open BV.Callbacks BV.Codec BV.Drv

def dstStr : Dst → String
  | .nwk a => s!"nwk:{a}" | .group g => s!"group:{g}" | .broadcast a => s!"bcast:{a}"

def pktStr (p : Packet) : String :=
  s!"P src={p.src} sep={p.srcEp} dst={dstStr p.dst} dep={p.dstEp} tsn={p.tsn} prof={p.profile} clus={p.cluster} data={toHex p.data} lqi={p.lqi} rssi={p.rssi}"

def ieeeStr (l : List Nat) : String := ":".intercalate (l.map toString)

/-- `cb <version> <ownNwk> <hex frame>` → what the application does with the callback frame -/
def handle : List String → String
  | ["cb", v, own, h] =>
    match v.toNat?, own.toNat?, parseHex h with
    | some v, some own, some d =>
      match rxFrame v (BV.Gen.Commands.cmds v) d with
      | .ok _ _ "incomingMessageHandler" vals _ =>
        (match incomingMessage v own vals with
         | some (some p) => pktStr p
         | some none => "none"
         | none => "raised")
      | .ok _ _ "trustCenterJoinHandler" vals _ =>
        (match tcJoin vals with
         | some (.leave n i) => s!"L nwk={n} ieee={ieeeStr i}"
         | some (.join n i p) => s!"J nwk={n} ieee={ieeeStr i} parent={p}"
         | some .nothing => "none"
         | none => "raised")
      | .ok _ _ name _ _ => "other:" ++ name
      | _ => "undecoded"
    | _, _, _ => "bad-op"
  | _ => "bad-op"

end BV.Drv.C13
