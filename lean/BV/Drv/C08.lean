import BV.Model.Ezsp.Rx
import BV.Gen.Commands
import BV.Drv.C07
namespace BV.Drv.C08
open BV.Cmd BV.Rx BV.Codec BV.Drv

/-- `rx <version> <pending seq | -> <pending cmdId> <hex>` → what the receive entry point does -/
def handle : List String → String
  | ["rx", v, pseq, pcmd, h] =>
    match v.toNat?, parseHex h with
    | some v, some d =>
      let cs := BV.Gen.Commands.cmds v
      let dead := pseq.startsWith "c"     -- the entry's future is already cancelled (defensive branch)
      let pseq := if dead then (pseq.drop 1).toString else pseq
      let s0 : St := match pseq.toNat?, pcmd.toNat? with
        | some q, some c =>
          if dead then { seq := (q + 1) % 256, awaiting := [⟨q, c, 1, .cancelled⟩], popOnExit := false }
          else { seq := (q + 1) % 256, awaiting := [⟨q, c, 1, .live⟩],
                 holder := some ⟨1, q, c, false, .waiting, 10⟩ }
        | _, _ => {}
      let (s1, outs) := frameReceived v cs s0 d
      let info := (classify v cs d).2
      let vals := match info with | some (n, vs) => n ++ ":" ++ BV.Drv.C07.valStr (.seq vs) | none => "-"
      let act := match outs with
        | [] => if d.isEmpty then "ignored" else (match (classify v cs d).1 with
            | .unknown => "dropped" | _ => if s1.awaiting.length < s0.awaiting.length then "swallowed" else "none")
        | .rxRaised :: _ => if s1.awaiting.length < s0.awaiting.length then "raised-popped" else "raised"
        | .callback _ _ :: _ => "callback:" ++ vals
        | .done _ (.ok _) :: _ => "complete:" ++ vals
        | .done _ .invalidCommand :: _ => "invalid"
        | _ => "other"
      act ++ s!" aw={s1.awaiting.length}"
    | _, _ => "bad-op"
  | _ => "bad-op"

end BV.Drv.C08
