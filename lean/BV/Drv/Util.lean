namespace BV.Drv

def allSome {α} : List (Option α) → Option (List α)
  | [] => some []
  | none :: _ => none
  | some a :: rest => (allSome rest).map (a :: ·)

def hexDigit (c : Char) : Option Nat :=
  if '0' ≤ c ∧ c ≤ '9' then some (c.toNat - '0'.toNat)
  else if 'a' ≤ c ∧ c ≤ 'f' then some (c.toNat - 'a'.toNat + 10)
  else if 'A' ≤ c ∧ c ≤ 'F' then some (c.toNat - 'A'.toNat + 10)
  else none

/-- "0a7e" → [0x0a, 0x7e]; "-" is the empty string -/
def parseHex (s : String) : Option (List UInt8) :=
  if s = "-" then some [] else
  let rec go : List Char → Option (List UInt8)
    | [] => some []
    | [_] => none
    | a :: b :: rest => do
      let x ← hexDigit a
      let y ← hexDigit b
      let r ← go rest
      pure (UInt8.ofNat (16 * x + y) :: r)
  go s.toList

def hexNib (n : Nat) : Char :=
  if n < 10 then Char.ofNat ('0'.toNat + n) else Char.ofNat ('a'.toNat + n - 10)

def toHex (bs : List UInt8) : String :=
  if bs.isEmpty then "-" else
  String.ofList (bs.flatMap fun b => [hexNib (b.toNat / 16), hexNib (b.toNat % 16)])

def natList (s : String) : Option (List Nat) :=
  if s = "-" then some [] else allSome ((s.splitOn ",").map String.toNat?)

end BV.Drv
