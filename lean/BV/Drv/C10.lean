import BV.Model.Stack.Fail
import BV.Drv.Util
namespace BV.Drv.C10
open BV.Fail BV.Drv

def outStr : Out → String
  | .resetRequest _ => "REQ"
  | .closeTransport => "CLOSE"
  | .commandRaised => "RAISED"
  | .commandSent => "SENT"

def parseEv : String → Option Ev
  | "lost" => some .connectionLost
  | "quiet" => some .closedQuietly
  | "close" => some .close
  | "stop" => some .stop
  | "cmd" => some .command
  | s => if s.startsWith "fail" then (s.drop 4).toString.toNat?.map .ncpFailure else none

/-- `run <callbacks> <ev> …` from the running state -/
def handle : List String → String
  | "run" :: cb :: evs =>
    match cb.toNat?, allSome (evs.map parseEv) with
    | some cb, some es =>
      let (_, outs) := es.foldl (fun (acc : Ez × List String) e =>
          let r := step acc.1 e
          (r.1, acc.2 ++ [(if r.2.isEmpty then "." else ",".intercalate (r.2.map outStr)) ++
            s!";running={if r.1.running then 1 else 0} held={if r.1.gwHeld then 1 else 0}"])) ({ callbacks := cb }, [])
      "|".intercalate outs
    | _, _ => "bad-op"
  | _ => "bad-op"
end BV.Drv.C10
