import BV.Gen.SrcUartReset
import BV.Drv.Util
namespace BV.Drv.C11Src
open BV.Drv BV.Py BV.Src.Uart BV.Src.UartReset

def inOf (tok : String) : Option GIn :=
  match tok.toList with
  | 'K' :: cs => (String.ofList cs).toNat?.map GIn.rstack
  | 'E' :: cs => (String.ofList cs).toNat?.map GIn.error
  | ['L', '0'] => some (.lost none)
  | ['L', '1'] => some (.lost (some (.other 7)))
  | ['F'] => some .eof
  | 'D' :: cs => (parseHex (String.ofList cs)).map GIn.data
  | _ => none

def roundOf (s : String) : Option (List GIn) :=
  if s = "-" then some [] else allSome ((s.splitOn ",").map inOf)

def evStr : GEv → String
  | .appFrame d => s!"frame:{toHex d}"
  | .appEnterFailed c => s!"failed:{c}"
  | .appConnectionLost _ => "lost"
  | .transportClose => "close"
  | .transportSendReset => "rst"

def outcome : Except PyErr Bool → String
  | .ok _ => "ok"
  | .error (.raised c) => s!"raised:{c}"
  | .error (.unsupported m) => s!"unsupported:{m}"
  | .error .fuel => "fuel"

/-- `<S|-><C|-> <round/round/...|-> <D|C>`: a fresh `reset()` on a gateway with (S) a start-up waiter pending / (C) a pending
connection-done future; what arrives, grouped by loop iteration; how the wait ends otherwise -/
def handle : List String → String
  | [init, rounds, fin] =>
    let hasS := init.contains 'S'
    let hasC := init.contains 'C'
    let futs : List GFut := (if hasS then [.pending] else []) ++ (if hasC then [.pending] else [])
    let g0 : Gateway := { startup_reset_future := if hasS then some 0 else none,
                          connection_done_future := if hasC then some (if hasS then 1 else 0) else none,
                          futs := futs }
    match (if rounds = "-" then some [] else allSome ((rounds.splitOn "/").map roundOf)), fin with
    | some rs, "D" =>
      let (r, g) := Gateway.reset { g0 with script := [⟨rs, .deadline⟩] }
      s!"{outcome r}|rf={g.reset_future.isNone}|" ++ ",".intercalate (g.trace.map evStr)
    | some rs, "C" =>
      let (r, g) := Gateway.reset { g0 with script := [⟨rs, .cancelled⟩] }
      s!"{outcome r}|rf={g.reset_future.isNone}|" ++ ",".intercalate (g.trace.map evStr)
    | _, _ => "bad-op"
  | _ => "bad-op"

end BV.Drv.C11Src
