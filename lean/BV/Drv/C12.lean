import BV.Model.App.Send
import BV.Drv.C05
namespace BV.Drv.C12
open BV.Send BV.Drv

def stepCh : Step → String
  | .extTimeout => "e" | .sourceRoute => "r" | .send => "s"
def parseSteps (s : String) : Option (List Step) :=
  allSome (s.toList.map fun c => match c with | 'e' => some Step.extTimeout | 'r' => some .sourceRoute | 's' => some .send | _ => none)

def resStr : Res → String
  | .ok => "ok" | .refused => "refused" | .busyGaveUp => "busy" | .failedConfirm => "failed" | .timeout => "timeout"
  | .cancelled => "cancelled" | .raised => "raised"

def outStr : Out → String
  | .cmd r s => s!"K{r}:{stepCh s}"
  | .done r res => s!"D{r}:{resStr res}"
  | .unexpected => "UNEXP"
  | .duplicate => "DUP"

def parseIn (s : String) : Option In :=
  match s.splitOn "=" with
  | ["S", id, dst, k, steps] => do
      let kind ← match k with | "u" => some Kind.unicast | "m" => some .multicast | "b" => some .broadcast | _ => none
      pure (.send (← id.toNat?) (← dst.toNat?) kind (← parseSteps steps))
  | ["D", "ok"] => some (.cmdDone .ok)
  | ["D", "busy"] => some (.cmdDone .busy)
  | ["D", "refused"] => some (.cmdDone .refused)
  | ["E"] => some .cmdRaise
  | ["F", d, t, ok] => do pure (.confirm (← d.toNat?) (← t.toNat?) (ok == "1"))
  | ["T"] => some .timer
  | ["W", d] => (BV.Drv.C05.parseRat d).map .wait
  | ["C", id] => id.toNat?.map .cancel
  | _ => none

def stStr (s : St) : String :=
  "pending=" ++ (if s.reqs.isEmpty then "-" else ",".intercalate (s.reqs.map fun r => s!"{r.dst}/{r.tag}")) ++
  s!" now={BV.Drv.C05.us s.now}"

/-- `run <seq0> <event> …` -/
def handle : List String → String
  | "run" :: seq0 :: evs =>
    match seq0.toNat?, allSome (evs.map parseIn) with
    | some seq0, some is =>
      let (_, outs) := is.foldl (fun (acc : St × List String) i =>
          let r := step acc.1 i
          (r.1, acc.2 ++ [(if r.2.isEmpty then "." else ",".intercalate (r.2.map outStr)) ++ ";" ++ stStr r.1])) ({ seq := seq0 }, [])
      "|".intercalate outs
    | _, _ => "bad-op"
  | _ => "bad-op"

end BV.Drv.C12
