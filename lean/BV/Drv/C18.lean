import BV.Model.Status
namespace BV.Drv.C18
open BV.Status

/-- `conv <ember|ezsp|sl> <n>` → unified value -/
def handle : List String → String
  | ["conv", fam, n] =>
    match n.toNat? with
    | none => "bad-op"
    | some k =>
      match fam with
      | "ember" => toString (conv (.ember k))
      | "ezsp" => toString (conv (.ezsp k))
      | "sl" => toString (conv (.sl k))
      | _ => "bad-op"
  | _ => "bad-op"
end BV.Drv.C18
