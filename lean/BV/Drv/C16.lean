import BV.Model.Config
import BV.Drv.Util
namespace BV.Drv.C16
open BV.Config BV.Drv

def opStr : Op → String
  | .getValue i => s!"gv{i}"
  | .setValue i v => s!"sv{i}={v}"
  | .getCfg i => s!"gc{i}"
  | .setCfg _ i v => s!"sc{i}={v}"

/-- "id=val,id=x" → lookup (x = unreadable; absent = unreadable) -/
def parseCur (s : String) : Option (List (Nat × Option Nat)) :=
  if s = "-" then some [] else
  allSome ((s.splitOn ",").map fun kv =>
    match kv.splitOn "=" with
    | [k, "x"] => k.toNat?.map (·, none)
    | [k, v] => do let k ← k.toNat?; let v ← v.toNat?; pure (k, some v)
    | _ => none)

/-- "NAME:id=val,NAME:id=none" in `config.items()` order; a leading `~` marks an item the schema filled in -/
def parseOv (s : String) : Option Overrides :=
  if s = "-" then some [] else
  allSome ((s.splitOn ",").map fun kv =>
    match kv.splitOn "=" with
    | [k, v] =>
      match k.splitOn ":" with
      | [n, i] => do
        let i ← i.toNat?
        if v = "none" then pure (n, i, none) else do let v ← v.toNat?; pure (n, i, some v)
      | _ => none
    | _ => none)

/-- `write <version> <cur> <overrides>` -/
def handle : List String → String
  | ["write", v, cur, ov] =>
    match v.toNat?, parseCur cur, parseOv ov with
    | some v, some cur, some ov =>
      let ncp : Ncp := ⟨fun i => (cur.lookup i).join, fun _ => true, fun _ => true⟩
      let injected := (ov.filter fun o => o.1.startsWith "~").map fun o => (o.1.drop 1).toString
      let ov : Overrides := ov.map fun o => (if o.1.startsWith "~" then (o.1.drop 1).toString else o.1, o.2)
      match writeConfig v ncp (fun n => !injected.contains n) ov with
      | .ok ops => " ".intercalate (ops.map opStr)
      | .error (.noDefaults v) => s!"ERR KeyError {v}"
    | _, _, _ => "bad-op"
  | _ => "bad-op"
end BV.Drv.C16
