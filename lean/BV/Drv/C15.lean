import BV.Model.Multicast
import BV.Drv.Util
namespace BV.Drv.C15
open BV.Mcast BV.Drv

def parseTab (s : String) : Option Tab :=
  if s = "-" then some [] else
  allSome ((s.splitOn ",").map fun e =>
    match e.splitOn ":" with
    | [g, ep] => do let g ← g.toNat?; let ep ← ep.toNat?; pure (g, ep)
    | _ => none)

def parseAns (s : String) : Option Ans :=
  if s = "o" then some .ok else if s = "t" then some .timeout
  else if s.startsWith "r" then (s.drop 1).toString.toNat?.map .reject else none

def parseOp (s : String) : Option Op :=
  match s.splitOn "/" with
  | ["I"] => some .init
  | ["S", g, c, a] => do let g ← g.toNat?; let c ← c.toNat?; let a ← parseAns a; pure (.subscribe g c a)
  | ["U", g, a] => do let g ← g.toNat?; let a ← parseAns a; pure (.unsubscribe g a)
  | _ => none

def resStr : Res → String
  | .ok => "OK" | .invalidIndex => "INVALID_INDEX" | .status st => s!"ST{st}" | .raised => "RAISED"

def sortNat (l : List Nat) : List Nat := l.mergeSort (· ≤ ·)

def stateStr (h : Host) (tab : Tab) : String :=
  let mc := (h.mc.mergeSort (fun a b => a.1 ≤ b.1)).map fun (g, i) => s!"{g}@{i}"
  let av := (sortNat h.avail).map toString
  let tb := tab.map fun (g, ep) => s!"{g}:{ep}"
  ",".intercalate mc ++ "|" ++ ",".intercalate av ++ "|" ++ ",".intercalate tb

def outStr (o : Out) : String :=
  resStr o.res ++ "|" ++ (match o.write with | none => "-" | some (i, g, ep) => s!"{i}={g}:{ep}")

/-- `run <tab> <op;op;…>` → per op `res|write|mc|avail|tab`, joined by spaces -/
def handle : List String → String
  | ["run", tab, ops] =>
    match parseTab tab, allSome ((ops.splitOn ";").map parseOp) with
    | some tab, some ops =>
      let rec go (h : Host) (t : Tab) : List Op → List String
        | [] => []
        | op :: rest =>
          let (h1, t1, o) := step h t op
          (outStr o ++ "|" ++ stateStr h1 t1) :: go h1 t1 rest
      " ".intercalate (go {} tab ops)
    | _, _ => "bad-op"
  | _ => "bad-op"
end BV.Drv.C15
