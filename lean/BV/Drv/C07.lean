import BV.Model.Ezsp.Codec
import BV.Gen.Commands
import BV.Drv.Util
namespace BV.Drv.C07
open BV.Codec BV.Drv

partial def valStr : Val → String
  | .num n => s!"n{n}"
  | .bytes bs => "b" ++ (if bs.isEmpty then "" else toHex bs)
  | .seq vs => "[" ++ ",".intercalate (vs.map valStr) ++ "]"
  | .absent => "a"

def isHex (c : Char) : Bool := (hexDigit c).isSome

mutual
partial def pVal : List Char → Option (Val × List Char)
  | 'n' :: cs =>
    let ds := cs.takeWhile Char.isDigit
    (String.ofList ds).toNat?.map fun n => (.num n, cs.dropWhile Char.isDigit)
  | 'b' :: cs =>
    let hs := cs.takeWhile isHex
    (if hs.isEmpty then some [] else parseHex (String.ofList hs)).map fun b => (.bytes b, cs.dropWhile isHex)
  | 'a' :: cs => some (.absent, cs)
  | '[' :: ']' :: cs => some (.seq [], cs)
  | '[' :: cs => pList cs []
  | _ => none
partial def pList (cs : List Char) (acc : List Val) : Option (Val × List Char) :=
  match pVal cs with
  | some (v, ',' :: rest) => pList rest (acc ++ [v])
  | some (v, ']' :: rest) => some (.seq (acc ++ [v]), rest)
  | _ => none
end

def parseVals (s : String) : Option (List Val) :=
  match pVal s.toList with
  | some (.seq vs, []) => some vs
  | _ => none

def rxStr : RxOut → String
  | .short => "short"
  | .unknown id => s!"unknown:{id}"
  | .undecodable n => s!"undecodable:{n}"
  | .ok seq _ name vs tr => s!"ok:{seq}:{name}:{valStr (.seq vs)}:{toHex tr}"

/-- `tx <version> <seq> <name> <vals>` → frame bytes;  `rx <version> <hex>` → decoded frame;
    `kw <version> <seq> <name> <positional vals> <k=v;k=v>` → frame bytes through `resolveArgs` -/
def handle : List String → String
  | ["tx", v, seq, name, vals] =>
    match v.toNat?, seq.toNat?, parseVals vals with
    | some v, some seq, some vs =>
      match txFrame v (BV.Gen.Commands.cmds v) seq name vs with
      | some b => toHex b | none => "err"
    | _, _, _ => "bad-op"
  | ["rx", v, h] =>
    match v.toNat?, parseHex h with
    | some v, some d => rxStr (rxFrame v (BV.Gen.Commands.cmds v) d)
    | _, _ => "bad-op"
  | ["kw", v, seq, name, pos, kws] =>
    match v.toNat?, seq.toNat?, parseVals pos with
    | some v, some seq, some ps =>
      let kw := if kws = "-" then some [] else allSome ((kws.splitOn ";").map fun kv =>
        match kv.splitOn "=" with
        | [k, x] => (pVal x.toList).bind fun (val, r) => if r.isEmpty then some (k, val) else none
        | _ => none)
      match kw, findByName (BV.Gen.Commands.cmds v) name with
      | some kw, some c =>
        match resolveArgs (c.tx.map (·.1)) ps kw with
        | some vs => (match txFrame v (BV.Gen.Commands.cmds v) seq name vs with | some b => toHex b | none => "err")
        | none => "keyerror"
      | _, _ => "bad-op"
    | _, _, _ => "bad-op"
  | _ => "bad-op"

end BV.Drv.C07
