import BV.Model.Ezsp.Negotiate
import BV.Drv.Util
namespace BV.Drv.C09
open BV.Neg BV.Drv

/-- `neg <n>` → requests of the bring-up, final versions, whether a default configuration exists;
    `again <n>` → the same after a later reset -/
def handle : List String → String
  | [cmd, n] =>
    match n.toNat? with
    | some n =>
      let r := if cmd == "again" then version (afterReset (startup n).1) n else startup n
      " ".intercalate (r.2.map toHex) ++ s!" ev={r.1.ezspVersion} hv={r.1.handlerVersion} cfg=" ++
        (if (configDefaults r.1).isSome then "ok" else "missing")
    | none => "bad-op"
  | _ => "bad-op"

end BV.Drv.C09
