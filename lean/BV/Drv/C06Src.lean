import BV.Gen.SrcCmd
import BV.Gen.Commands
import BV.Drv.C07
namespace BV.Drv.C06Src
open BV.Codec BV.Drv BV.Py

def frames (s : String) : Option (List (List UInt8)) :=
  if s = "-" then some [] else allSome ((s.splitOn ",").map parseHex)

def respOf (tok : String) : Option CResp :=
  match tok.splitOn "/" with
  | ["A1"] => some (.acquire true)
  | ["A0"] => some (.acquire false)
  | ["S", fs, out] => (frames fs).map fun f => .send f (if out = "-" then none else some out)
  | ["W", fs, "D"] => (frames fs).map fun f => .wait f .deadline
  | ["W", fs, "C"] => (frames fs).map fun f => .wait f .cancelled
  | _ => none

/-- `seq.id.p` / `seq.id.f`: an entry left by someone else, its future pending / dead -/
def entryOf (i : Nat) (tok : String) : Option ((Nat × Nat × Nat) × PFut) :=
  match tok.splitOn "." with
  | [a, b, st] =>
    match a.toNat?, b.toNat?, st with
    | some a, some b, "p" => some ((a, (b, i)), .pending)
    | some a, some b, "f" => some ((a, (b, i)), .finished)
    | _, _, _ => none
  | _ => none

def evStr : PEv → String
  | .callback n v => s!"cb:{n}:{C07.valStr (.seq v)}"
  | .sent d => s!"sent:{toHex d}"
  | .acquire p => s!"acq:{p}"
  | .release => "rel"
  | .wait t => s!"wait:{t}"

def outcome : Except PyErr Vals → String
  | .ok v => s!"ok:{C07.valStr (.seq v)}"
  | .error (.raised c) => s!"raised:{c}"
  | .error (.unsupported m) => s!"unsupported:{m}"
  | .error .fuel => "fuel"

def futStr : PFut → String
  | .pending => "p" | .result _ => "r" | .invalidCommand => "i" | .finished => "f"

/-- `<version> <seq> <entries|-> <name> <positional vals> <script>` → outcome, `_seq`, `_awaiting`, the futures, the events -/
def handle : List String → String
  | [v, seq, aw, name, pos, script] =>
    match v.toNat?, seq.toNat?, C07.parseVals pos,
          allSome ((script.splitOn ";").map respOf),
          (if aw = "-" then some [] else allSome ((aw.splitOn ";").zipIdx.map fun (t, i) => entryOf i t)) with
    | some v, some seq, some ps, some sc, some es =>
      let s0 : Proto := { version := v, cmds := BV.Gen.Commands.cmds v, seq := seq, script := sc,
                          awaiting := es.map (·.1), futs := es.map (·.2) }
      let (r, s') := BV.Src.Cmd.command name ps [] s0
      s!"{outcome r}|seq={s'.seq}|aw={",".intercalate (s'.awaiting.map fun e => s!"{e.1}.{e.2.1}")}|futs={String.join (s'.futs.map futStr)}|" ++
        ",".intercalate (s'.trace.map evStr)
    | _, _, _, _, _ => "bad-op"
  | _ => "bad-op"

end BV.Drv.C06Src
