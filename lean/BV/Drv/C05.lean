import BV.Model.Ash.Sender
import BV.Drv.Ash
namespace BV.Drv.C05
open BV.Ash BV.Drv BV.Drv.Ash

def resStr : Res → String
  | .ok => "ok" | .notAcked => "nak" | .ncpFailure c => s!"fail{c}" | .timeout => "timeout" | .cancelled => "cancelled"

def outStr : Out → String
  | .ev e => evStr e
  | .done id r => s!"D{id}:{resStr r}"

def us (r : Rat) : Int := (r * 1000000 + (1 : Rat) / 2).floor

def parseRat (s : String) : Option Rat :=
  match s.splitOn "/" with
  | [a, b] => do
      let a ← a.toNat?; let b ← b.toNat?
      if b = 0 then none else pure ((a : Rat) / (b : Rat))
  | _ => none

def parseIn (s : String) : Option In :=
  match s.splitOn "=" with
  | ["S", id, p] => do pure (.send (← id.toNat?) (← parseHex p))
  | ["F", f] => (parseFrame f).map .frame
  | ["T"] => some .timeout
  | ["X", f] => (parseFrame f).map .race
  | ["B", f, g] => do pure (.batch (← parseFrame f) (← parseFrame g))
  | ["W", d] => (parseRat d).map .wait
  | ["C", id] => id.toNat?.map .cancel
  | _ => none

def stStr (s : Tx) : String :=
  s!"tx={s.rx.txSeq} rx={s.rx.rxSeq} failed={b01 s.rx.failed} t={us s.t} now={us s.now} cur=" ++
  (match s.cur with | some c => s!"{c.id}/{c.frm}/{c.attempt}" | none => "-") ++ s!" q={s.queue.length}"

/-- `run <txSeq> <rxSeq> <event> …` -/
def handle : List String → String
  | "run" :: tx :: rx :: evs =>
    match tx.toNat?, rx.toNat?, allSome (evs.map parseIn) with
    | some tx, some rx, some is =>
      let s0 : Tx := { rx := { txSeq := tx, rxSeq := rx } }
      let (_, outs) := is.foldl (fun (acc : Tx × List String) i =>
          let r := step acc.1 i
          (r.1, acc.2 ++ [(if r.2.isEmpty then "." else ",".intercalate (r.2.map outStr)) ++ ";" ++ stStr r.1])) (s0, [])
      "|".intercalate outs
    | _, _, _ => "bad-op"
  | _ => "bad-op"

end BV.Drv.C05
