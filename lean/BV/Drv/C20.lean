import BV.Model.Thread.Proxy
namespace BV.Drv.C20
open BV.Proxy

def handle : List String → String
  | [k, same, closed] =>
    match (match k with | "attr" => some AttrKind.nonCallable | "plain" => some .plain | "coro" => some .coroutine | _ => none) with
    | some k =>
      match dispatch k ⟨same == "1", closed == "1"⟩ with
      | .refuse => "refuse" | .runHere => "here" | .drop => "drop" | .onOwnerAwait => "owner-await" | .onOwnerQueue => "owner-queue"
    | none => "bad-op"
  | _ => "bad-op"
end BV.Drv.C20
