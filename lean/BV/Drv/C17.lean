import BV.Model.Ezsp.Events
import BV.Drv.C05
namespace BV.Drv.C17
open BV.Events BV.Drv

def resStr : Res → String
  | .ok rs => "ok[" ++ "+".intercalate (rs.map toString) ++ "]"
  | .notStarted => "notstarted" | .refused => "refused" | .notJoined => "notjoined" | .timeout => "timeout"
  | .cancelled => "cancelled" | .completionFailed => "cfailed"

def outStr : Out → String
  | .cmd id n => s!"K{id}:{n}"
  | .done id r => s!"D{id}:{resStr r}"

def parseIn (s : String) : Option In :=
  match s.splitOn "=" with
  | ["B", id, k] => do
      let k ← match k with | "form" => some Kind.form | "leave" => some .leave | "up" => some .bringUp | "scan" => some .scan | _ => none
      pure (.begin (← id.toNat?) k)
  | ["R", id, r] => do
      let r ← match r with | "ok" => some Resp.ok | "refused" => some .refused | "notjoined" => some .notJoined | "joined" => some .joined | _ => none
      pure (.resp (← id.toNat?) r)
  | ["E", st] => (match st with | "up" => some Stat.up | "down" => some .down | "other" => some .other | _ => none).map .status
  | ["I", tag] => tag.toNat?.map .item
  | ["X", ok] => some (.complete (ok == "1"))
  | ["T"] => some .timer
  | ["W", d] => (BV.Drv.C05.parseRat d).map .wait
  | ["C", id] => id.toNat?.map .cancel
  | _ => none

def stStr (s : St) : String :=
  s!"lup={(listeners s .up).length} ldown={(listeners s .down).length} cbs={(callbacks s).length} now={BV.Drv.C05.us s.now}"

def handle : List String → String
  | "run" :: evs =>
    match allSome (evs.map parseIn) with
    | some is =>
      let (_, outs) := is.foldl (fun (acc : St × List String) i =>
          let r := step acc.1 i
          (r.1, acc.2 ++ [(if r.2.isEmpty then "." else ",".intercalate (r.2.map outStr)) ++ ";" ++ stStr r.1])) ({}, [])
      "|".intercalate outs
    | none => "bad-op"
  | _ => "bad-op"

end BV.Drv.C17
