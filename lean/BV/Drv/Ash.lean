import BV.Model.Ash.Decoder
import BV.Spec.AshDecoder
import BV.Drv.Util
namespace BV.Drv.Ash
open BV.Ash BV.Drv

def b01 (b : Bool) : String := if b then "1" else "0"
def p01 : String → Option Bool
  | "0" => some false | "1" => some true | _ => none

def frameStr : Frame → String
  | .data f r a p => s!"D:{f}:{b01 r}:{a}:{toHex p}"
  | .ack s n a => s!"A:{b01 s}:{b01 n}:{a}"
  | .nak s n a => s!"N:{b01 s}:{b01 n}:{a}"
  | .rst => "R"
  | .rstack v c => s!"K:{v.toNat}:{c.toNat}"
  | .error v c => s!"E:{v.toNat}:{c.toNat}"

def parseFrame (s : String) : Option Frame :=
  match s.splitOn ":" with
  | ["D", f, r, a, p] => do
      let f ← f.toNat?; let r ← p01 r; let a ← a.toNat?; let p ← parseHex p
      pure (.data f r a p)
  | ["A", s, n, a] => do pure (.ack (← p01 s) (← p01 n) (← a.toNat?))
  | ["N", s, n, a] => do pure (.nak (← p01 s) (← p01 n) (← a.toNat?))
  | ["R"] => some .rst
  | ["K", v, c] => do pure (.rstack (UInt8.ofNat (← v.toNat?)) (UInt8.ofNat (← c.toNat?)))
  | ["E", v, c] => do pure (.error (UInt8.ofNat (← v.toNat?)) (UInt8.ofNat (← c.toNat?)))
  | _ => none

def perrStr : PErr → String
  | .empty => "empty" | .tooShort => "tooShort" | .badCrc => "badCrc" | .rstData => "rstData"
  | .rstackLen => "rstackLen" | .rstackVersion => "rstackVersion" | .noClass => "noClass" | .tooLong => "tooLong"

def evStr : Ev → String
  | .write b => "W" ++ toHex b
  | .up p => "U" ++ toHex p
  | .reset c => s!"R{c}"
  | .raised => "X"

def evsStr (es : List Ev) : String := if es.isEmpty then "." else ",".intercalate (es.map evStr)

def futStr : Fut → String
  | .waiting => "w" | .acked => "a" | .notAcked => "n" | .ncpFailure c => s!"f{c}" | .closed => "c"

def parseFut (s : String) : Option Fut :=
  match s with
  | "w" => some .waiting | "a" => some .acked | "n" => some .notAcked | "c" => some .closed
  | _ => if s.startsWith "f" then (s.drop 1).toString.toNat?.map Fut.ncpFailure else none

def pendStr (p : List (Nat × Fut)) : String :=
  if p.isEmpty then "-" else ",".intercalate (p.map fun (k, f) => s!"{k}={futStr f}")

def parsePend (s : String) : Option (List (Nat × Fut)) :=
  if s = "-" then some [] else
  allSome ((s.splitOn ",").map fun kv =>
    match kv.splitOn "=" with
    | [k, f] => do pure ((← k.toNat?), (← parseFut f))
    | _ => none)

def rxStr (s : Rx) : String :=
  s!"rx={s.rxSeq} tx={s.txSeq} failed={b01 s.failed} treset={b01 s.ackTimeoutReset} pending={pendStr s.pending}"

def c03 : List String → String
  | ["enc", f] => match parseFrame f with
      | some f => toHex (encode f) | none => "bad-op"
  | ["spec", f] => match parseFrame f with
      | some f => toHex (BV.Spec.Ash.specEncode f) | none => "bad-op"
  | ["wire", pre, f] => match parseHex pre, parseFrame f with
      | some pre, some f => toHex (wire pre f) ++ " " ++ toHex (BV.Spec.Ash.specWire pre f) | _, _ => "bad-op"
  | ["parse", h] => match parseHex h with
      | some d => (match parse d with
          | .ok f => frameStr f
          | .error e => "err:" ++ perrStr e) ++ " " ++
          (match BV.Spec.Ash.specParse d with | some f => frameStr f | none => "err")
      | none => "bad-op"
  | ["stuff", h] => match parseHex h with
      | some d => toHex (stuff d) ++ " " ++ toHex (BV.Spec.Ash.specStuff d) | none => "bad-op"
  | ["unstuff", h] => match parseHex h with
      | some d => (match unstuff d with | some o => toHex o | none => "err") ++ " " ++
                  (match BV.Spec.Ash.specUnstuff d with | some o => toHex o | none => "err")
      | none => "bad-op"
  | ["crc", h] => match parseHex h with
      | some d => toHex (crcBytes (crc d)) ++ " " ++ toString (BV.Spec.Ash.crc16 d) | none => "bad-op"
  | ["classify", n] => match n.toNat? with
      | some n => (match classify (UInt8.ofNat n) with
          | some .data => "data" | some .ack => "ack" | some .nak => "nak" | some .rst => "rst"
          | some .rstack => "rstack" | some .error => "error" | none => "none")
      | none => "bad-op"
  | _ => "bad-op"

/-- `run <rxSeq> <txSeq> <failed> <open> <pending> <frame> <frame> …` →
    per-frame events joined by `|`, then the final state -/
def c04 : List String → String
  | "run" :: rx :: tx :: failed :: op :: pend :: frames =>
    match rx.toNat?, tx.toNat?, p01 failed, p01 op, parsePend pend, allSome (frames.map parseFrame) with
    | some rx, some tx, some failed, some op, some pend, some fs =>
      let s0 : Rx := { rxSeq := rx, txSeq := tx, failed := failed, pending := pend, open_ := op }
      let (s, outs) := fs.foldl (fun (acc : Rx × List String) f =>
          let r := onFrame acc.1 f
          (r.1, acc.2 ++ [evsStr r.2 ++ ";" ++ rxStr r.1])) (s0, [])
      "|".intercalate outs
    | _, _, _, _, _, _ => "bad-op"
  | _ => "bad-op"

/-- `feed <rxSeq> <chunk> <chunk> …` → per-chunk events joined by `|`, then `buf=<n> disc=<b> rx=<n>`;
    `ref <rxSeq> <stream>` → events of the reference decoder -/
def c02 : List String → String
  | "feed" :: rx :: chunks =>
    match rx.toNat?, allSome (chunks.map parseHex) with
    | some rx, some cs =>
      let s0 : Dec := { rx := { rxSeq := rx } }
      let (s, outs) := cs.foldl (fun (acc : Dec × List String) c =>
          let r := feedChunk acc.1 c
          (r.1, acc.2 ++ [evsStr r.2])) (s0, [])
      "|".intercalate outs ++ s!" buf={s.buf.length} disc={b01 s.disc} rx={s.rx.rxSeq}"
    | _, _ => "bad-op"
  | ["ref", rx, h] =>
    match rx.toNat?, parseHex h with
    | some rx, some d => evsStr (BV.Spec.Ash.refDecode { rxSeq := rx } {} d)
    | _, _ => "bad-op"
  | _ => "bad-op"

end BV.Drv.Ash
