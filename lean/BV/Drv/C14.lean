import BV.Model.App.NetInfo
namespace BV.Drv.C14
open BV.NetInfo

def keyOf (n : Nat) : Key := (List.range 16).map fun i => UInt8.ofNat (n / 256 ^ (15 - i) % 256)
def keyNat (k : Key) : Nat := k.foldl (fun a b => a * 256 + b.toNat) 0

def pairs (s : String) : Option (List (Nat × Nat)) :=
  if s == "-" then some [] else
  (s.splitOn ",").mapM fun x => match x.splitOn ":" with
    | [a, b] => do pure (← a.toNat?, ← b.toNat?)
    | _ => none

def pairsStr (l : List (Nat × Nat)) : String :=
  if l.isEmpty then "-" else ",".intercalate (l.map fun (a, b) => s!"{a}:{b}")

def handle : List String → String
  | [v, K, priorFc, priorKeys, pan, ext, chan, mask, upd, nk, seq, fc, tclk, hashed, tcKnown, gen, keys, children] =>
    let r : Option String := do
      let s : Settings := {
        params := ⟨← pan.toNat?, ← ext.toNat?, ← chan.toNat?, ← mask.toNat?, ← upd.toNat?⟩,
        nwkKey := keyOf (← nk.toNat?), nwkSeq := ← seq.toNat?, nwkFc := ← fc.toNat?, tclk := keyOf (← tclk.toNat?),
        hashed := ← (if hashed == "-" then some none else hashed.toNat?.map (some ∘ keyOf)),
        tcPartnerKnown := tcKnown == "1",
        linkKeys := (← pairs keys).map fun (k, p) => (keyOf k, p),
        children := ← pairs children }
      let k ← K.toNat?
      let pk ← priorKeys.toNat?
      -- the NCP as an earlier write left it: a frame counter, some key table entries, a child
      let n0 : Ncp := { K := k, nwkFc := ← priorFc.toNat?, params := some ⟨1, 2, 3, 4, 5⟩,
                        keys := (List.range k).map fun i => if i < pk then some (1000 + i, keyOf i) else none,
                        children := if pk > 0 then [(0, 77, 78)] else [] }
      let n := write (← v.toNat?) s (keyOf (← gen.toNat?)) (reset (← v.toNat?) n0)
      let sec ← n.sec
      let l ← load (← v.toNat?) n
      pure (" ".intercalate [toString l.params.panId, toString l.params.extPanId, toString l.params.channel,
        toString l.params.channelMask, toString l.params.updateId, toString (keyNat l.nwkKey), toString l.nwkSeq,
        toString l.nwkFc, toString (keyNat l.tclk), (match l.hashed with | some h => toString (keyNat h) | none => "-"),
        pairsStr (l.linkKeys.map fun (k, p) => (keyNat k, p)), pairsStr l.children,
        s!"sec={keyNat sec.nwkKey}/{sec.nwkSeq}/{keyNat sec.preconfigured}/{if sec.hashedFlag then 1 else 0}/{if sec.haveTcEui64 then 1 else 0}"])
    r.getD "bad-op"
  | _ => "bad-op"
end BV.Drv.C14
