/-
Model of bellows/multicast.py (Multicast._initialize / subscribe / unsubscribe) and the
abstract NCP multicast table it talks to.
-/
namespace BV.Mcast

/-- NCP multicast table: entry i = (multicastId, endpoint) -/
abbrev Tab := List (Nat × Nat)

structure Host where
  mc : List (Nat × Nat) := []      -- `_multicast`: groupId ↦ table index, insertion order
  avail : List Nat := []           -- `_available` (a set; kept without duplicates)
deriving Repr, DecidableEq

/-- answer of the NCP to a table write -/
inductive Ans
  | ok
  | reject (st : Nat)     -- a non-OK status
  | timeout               -- the command raises (asyncio.TimeoutError / EzspError)
deriving Repr, DecidableEq

inductive Res
  | ok | invalidIndex | status (st : Nat) | raised
deriving Repr, DecidableEq

/-- `_multicast[g] = (entry, i)` -/
def mcSet : List (Nat × Nat) → Nat → Nat → List (Nat × Nat)
  | [], g, i => [(g, i)]
  | (g', i') :: rest, g, i => if g' = g then (g, i) :: rest else (g', i') :: mcSet rest g i

def addAvail (a : List Nat) (i : Nat) : List Nat := if i ∈ a then a else a ++ [i]

/-- `_initialize` when the table-size read succeeds and every entry read succeeds -/
def scanFrom : Nat → Tab → Host → Host
  | _, [], h => h
  | i, (g, ep) :: rest, h =>
    if ep ≠ 0 then scanFrom (i + 1) rest { h with mc := mcSet h.mc g i }
    else scanFrom (i + 1) rest { h with avail := addAvail h.avail i }

def scan (tab : Tab) : Host := scanFrom 0 tab {}

/-- NCP applies a write that it answers with OK; rejected / timed-out writes are not applied -/
def applyWrite (tab : Tab) (idx g ep : Nat) : Ans → Tab
  | .ok => tab.set idx (g, ep)
  | _ => tab

inductive Op
  | init
  | subscribe (g : Nat) (choice : Nat) (a : Ans)   -- `choice`: the element `set.pop()` returns
  | unsubscribe (g : Nat) (a : Ans)
deriving Repr, DecidableEq

structure Out where
  res : Res
  write : Option (Nat × Nat × Nat)   -- (index, group, endpoint) of the table write, if any
deriving Repr, DecidableEq

def lookupIdx (mc : List (Nat × Nat)) (g : Nat) : Option Nat := (mc.find? (·.1 == g)).map (·.2)

def step (h : Host) (tab : Tab) : Op → Host × Tab × Out
  | .init => (scan tab, tab, ⟨.ok, none⟩)
  | .subscribe g choice a =>
    if (lookupIdx h.mc g).isSome then (h, tab, ⟨.ok, none⟩)
    else if h.avail = [] then (h, tab, ⟨.invalidIndex, none⟩)
    else if choice ∉ h.avail then (h, tab, ⟨.raised, none⟩)   -- not a possible `pop()`; never happens
    else
      let av := h.avail.erase choice
      match a with
      | .ok => ({ mc := mcSet h.mc g choice, avail := av }, tab.set choice (g, 1), ⟨.ok, some (choice, g, 1)⟩)
      | .reject st => ({ h with avail := addAvail av choice }, tab, ⟨.status st, some (choice, g, 1)⟩)
      | .timeout => ({ h with avail := addAvail av choice }, tab, ⟨.raised, some (choice, g, 1)⟩)
  | .unsubscribe g a =>
    match lookupIdx h.mc g with
    | none => (h, tab, ⟨.invalidIndex, none⟩)
    | some idx =>
      match a with
      | .ok => ({ mc := h.mc.filter (·.1 != g), avail := addAvail h.avail idx }, tab.set idx (g, 0),
                ⟨.ok, some (idx, g, 0)⟩)
      | .reject st => (h, tab, ⟨.status st, some (idx, g, 0)⟩)
      | .timeout => (h, tab, ⟨.raised, some (idx, g, 0)⟩)

def run (h : Host) (tab : Tab) : List Op → Host × Tab × List Out
  | [] => (h, tab, [])
  | op :: ops =>
    let (h1, t1, o) := step h tab op
    let (h2, t2, os) := run h1 t1 ops
    (h2, t2, o :: os)

end BV.Mcast
