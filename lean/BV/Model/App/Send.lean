/-
`ControllerApplication.send_packet` / `_handle_frame_sent` (bellows/zigbee/application.py) at settled
loop states.  A request goes through: tag + pending entry → up to |RETRY_DELAYS| attempts, each under
`_req_lock` (set-up commands, then the send command) → for NWK-addressed packets the wait for the
delivery confirmation under APS_ACK_TIMEOUT.

  send r …        a caller starts `send_packet`
  cmdDone st      the EZSP command the lock holder is awaiting returns (`st` = its status for a send command)
  cmdRaise        … or raises (EzspError, timeout)
  confirm d t st  `messageSentHandler` for (destination, tag) with status
  timer           the clock moves to the earliest armed deadline (retry sleep or confirmation timeout)
  wait d          the clock advances by d; deadlines that become due fire
  cancel r        the caller's task is cancelled
-/
import BV.Gen.AppConsts
namespace BV.Send
open BV.Gen.App

def q (p : Nat × Nat) : Rat := (p.1 : Rat) / (p.2 : Rat)
def apsTimeout : Rat := q apsAckTimeout
def delays : List Rat := retryDelays.map q

inductive Kind | unicast | multicast | broadcast
deriving Repr, DecidableEq

/-- commands issued inside one locked section -/
inductive Step | extTimeout | sourceRoute | send
deriving Repr, DecidableEq

/-- status of the send command as `send_packet` sees it (after normalisation) -/
inductive Enq | ok | busy | refused
deriving Repr, DecidableEq

inductive Phase
  | waitLock
  | running (rest : List Step)      -- holds the lock, awaiting the head command
  | sleeping (until_ : Rat)
  | confirm (deadline : Rat)
deriving Repr, DecidableEq

/-- `req.result` -/
inductive Fut | pending | result (ok : Bool)
deriving Repr, DecidableEq

structure Req where
  id : Nat
  dst : Nat
  kind : Kind
  tag : Nat
  steps : List Step
  attempt : Nat
  phase : Phase
  fut : Fut := .pending
deriving Repr, DecidableEq

structure St where
  reqs : List Req := []             -- requests in progress = the pending table (insertion order)
  lock : Option Nat := none         -- id of the request holding `_req_lock`
  lockWaiters : List Nat := []      -- ids waiting for `_req_lock`, FIFO
  seq : Nat := 0                    -- `_send_sequence`
  now : Rat := 0
deriving Repr, DecidableEq

inductive Res | ok | refused | busyGaveUp | failedConfirm | timeout | cancelled | raised
deriving Repr, DecidableEq

inductive Out
  | cmd (r : Nat) (s : Step)          -- EZSP command issued on behalf of request r
  | done (r : Nat) (res : Res)
  | unexpected                        -- confirmation matching no pending request (counted, ignored)
  | duplicate                         -- confirmation for a request that already has one (counted, ignored)
deriving Repr, DecidableEq

def holder (s : St) : Option Req := s.lock.bind fun id => s.reqs.find? (·.id = id)

def upd (s : St) (r : Req) : St := { s with reqs := s.reqs.map fun x => if x.id = r.id then r else x }
def drop (s : St) (id : Nat) : St :=
  { s with reqs := s.reqs.filter (·.id ≠ id), lockWaiters := s.lockWaiters.filter (· ≠ id) }

/-- enter the locked section: issue the first command -/
def enter (s : St) (r : Req) : St × List Out :=
  match r.steps with
  | [] => (s, [])
  | st :: _ => ({ upd s { r with phase := .running r.steps } with lock := some r.id }, [.cmd r.id st])

/-- the lock is free: the oldest waiter takes it -/
def grant (s : St) : St × List Out :=
  match s.lockWaiters with
  | [] => (s, [])
  | w :: ws =>
    match s.reqs.find? (·.id = w) with
    | some r => enter { s with lockWaiters := ws } r
    | none => ({ s with lockWaiters := ws }, [])

/-- a request asks for the lock -/
def acquire (s : St) (r : Req) : St × List Out :=
  if s.lock.isNone ∧ s.lockWaiters.isEmpty then enter s r
  else ({ upd s { r with phase := .waitLock } with lockWaiters := s.lockWaiters ++ [r.id] }, [])

def finish (s : St) (r : Req) (res : Res) : St × List Out := (drop s r.id, [.done r.id res])

/-- after the enqueue succeeded: non-NWK packets return; NWK packets wait for the confirmation, which
may already be there -/
def afterEnqueue (s : St) (r : Req) : St × List Out :=
  if r.kind ≠ .unicast then finish s r .ok
  else
    match r.fut with
    | .result true => finish s r .ok
    | .result false => finish s r .failedConfirm
    | .pending => (upd s { r with phase := .confirm (s.now + apsTimeout) }, [])

inductive In
  | send (id dst : Nat) (kind : Kind) (steps : List Step)
  | cmdDone (st : Enq)
  | cmdRaise
  | confirm (dst tag : Nat) (ok : Bool)
  | timer
  | wait (d : Rat)
  | cancel (id : Nat)
deriving Repr

/-- earliest armed deadline -/
def nextDeadline (s : St) : Option (Rat × Req) :=
  s.reqs.foldl (fun acc r =>
    let d : Option Rat := match r.phase with | .sleeping u => some u | .confirm d => some d | _ => none
    match d, acc with
    | some d, none => some (d, r)
    | some d, some (e, x) => if d < e then some (d, r) else some (e, x)
    | none, _ => acc) none

/-- one armed deadline that is due (≤ now) fires -/
def fireOne (s : St) : Option (St × List Out) :=
  match nextDeadline s with
  | none => none
  | some (d, r) =>
    if d > s.now then none else
    match r.phase with
    | .sleeping _ =>
      if r.attempt + 1 ≥ delays.length then some (finish s r .busyGaveUp)
      else some (acquire s { r with attempt := r.attempt + 1 })
    | .confirm _ => some (finish s r .timeout)
    | _ => none

def fireDue : Nat → St → St × List Out
  | 0, s => (s, [])
  | f + 1, s =>
    match fireOne s with
    | none => (s, [])
    | some (s1, o1) => let r := fireDue f s1; (r.1, o1 ++ r.2)

def step (s : St) : In → St × List Out
  | .send id dst kind steps =>
    let tag := (s.seq + 1) % 256
    let r : Req := { id := id, dst := dst, kind := kind, tag := tag, steps := steps, attempt := 0, phase := .waitLock }
    acquire { s with seq := tag, reqs := s.reqs ++ [r] } r
  | .cmdDone st =>
    match holder s with
    | none => (s, [])
    | some r =>
      match r.phase with
      | .running (.send :: _) =>
        -- the send command returned: the lock is released
        let s0 := { upd s { r with phase := .waitLock } with lock := none }
        let (s1, o1) := match st with
          | .ok => afterEnqueue s0 r
          | .refused => finish s0 r .refused
          | .busy => (upd s0 { r with phase := .sleeping (s.now + delays.getD r.attempt 0) }, [])
        let (s2, o2) := grant s1
        (s2, o1 ++ o2)
      | .running (_ :: next :: rest) =>
        (upd s { r with phase := .running (next :: rest) }, [.cmd r.id next])
      | _ => (s, [])
  | .cmdRaise =>
    match holder s with
    | none => (s, [])
    | some r =>
      let (s1, o1) := finish { s with lock := none } r .raised
      let (s2, o2) := grant s1
      (s2, o1 ++ o2)
  | .confirm dst tag ok =>
    match s.reqs.find? (fun r => r.dst = dst ∧ r.tag = tag) with
    | none => (s, [.unexpected])
    | some r =>
      match r.fut with
      | .result _ => (s, [.duplicate])
      | .pending =>
        match r.phase with
        | .confirm _ => finish s r (if ok then .ok else .failedConfirm)
        | _ => (upd s { r with fut := .result ok }, [])
  | .timer =>
    match nextDeadline s with
    | none => (s, [])
    | some (d, _) => fireDue (s.reqs.length + 1) { s with now := d }
  | .wait d => fireDue (s.reqs.length + 1) { s with now := s.now + d }
  | .cancel id =>
    match s.reqs.find? (·.id = id) with
    | none => (s, [])
    | some r =>
      if s.lock = some id then
        let (s1, o1) := finish { s with lock := none } r .cancelled
        let (s2, o2) := grant s1
        (s2, o1 ++ o2)
      else finish s r .cancelled

def run (s : St) : List In → St × List (List Out)
  | [] => (s, [])
  | i :: is => let r := step s i; let r2 := run r.1 is; (r2.1, r.2 :: r2.2)

end BV.Send
