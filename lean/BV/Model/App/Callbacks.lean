/-
`ControllerApplication.ezsp_callback_handler` (version-dependent unpacking of incomingMessageHandler and
trustCenterJoinHandler arguments), `_handle_frame` (packet construction, destination by message type)
and `_handle_tc_join_handler` (join / leave triage), over decoded value lists of the codec model.
-/
import BV.Model.Ezsp.Codec
import BV.Gen.AppConsts
import BV.Gen.Commands
namespace BV.Callbacks
open BV.Codec BV.Gen.App

inductive Role | mtype | aps | lqi | rssi | sender | binding | addrIdx | payload | eui64 | timestamp
deriving Repr, DecidableEq

/-- the order in which `ezsp_callback_handler` unpacks `incomingMessageHandler` arguments -/
def incomingOrder (version : Nat) : List Role :=
  if version ≥ 14 then [.mtype, .aps, .sender, .eui64, .binding, .addrIdx, .lqi, .rssi, .timestamp, .payload]
  else [.mtype, .aps, .lqi, .rssi, .sender, .binding, .addrIdx, .payload]

/-- which role a schema field name denotes (both naming families) -/
def roleOfName (n : String) : Option Role :=
  if n = "type" ∨ n = "message_type" then some .mtype
  else if n = "apsFrame" ∨ n = "aps_frame" then some .aps
  else if n = "lastHopLqi" ∨ n = "lqi" then some .lqi
  else if n = "lastHopRssi" ∨ n = "rssi" then some .rssi
  else if n = "sender" ∨ n = "nwk" then some .sender
  else if n = "bindingIndex" ∨ n = "binding_index" then some .binding
  else if n = "addressIndex" ∨ n = "address_index" then some .addrIdx
  else if n = "messageContents" ∨ n = "message" then some .payload
  else if n = "eui64" then some .eui64
  else if n = "timestamp" then some .timestamp
  else none

inductive Dst | nwk (a : Nat) | group (g : Nat) | broadcast (a : Nat)
deriving Repr, DecidableEq

structure Packet where
  src : Nat
  srcEp : Nat
  dst : Dst
  dstEp : Nat
  tsn : Nat
  profile : Nat
  cluster : Nat
  data : List UInt8
  lqi : Nat
  rssi : Int
deriving Repr, DecidableEq

def numOf : Val → Option Nat
  | .num n => some n
  | _ => none

def getRole (order : List Role) (vals : List Val) (r : Role) : Option Val :=
  (order.zip vals).lookup r

/-- field of the decoded EmberApsFrame struct by name -/
def apsField (aps : Val) (name : String) : Option Nat :=
  match aps with
  | .seq fs => ((apsFrameFields.zip fs).lookup name).bind numOf
  | _ => none

/-- two's complement int8 -/
def int8 (n : Nat) : Int := if n ≥ 128 then (n : Int) - 256 else n

/-- `_handle_frame` after the version-dependent unpacking: one packet, or none for other message types -/
def incomingMessage (version ownNwk : Nat) (vals : List Val) : Option (Option Packet) := do
  let order := incomingOrder version
  if vals.length ≠ order.length then none    -- the tuple assignment raises ValueError
  let mt ← (getRole order vals .mtype).bind numOf
  let aps ← getRole order vals .aps
  let lqi ← (getRole order vals .lqi).bind numOf
  let rssi ← (getRole order vals .rssi).bind numOf
  let sender ← (getRole order vals .sender).bind numOf
  let payload ← match getRole order vals .payload with | some (.bytes b) => some b | _ => none
  let group ← apsField aps "groupId"
  let dst : Option Dst :=
    if mt = incoming_INCOMING_BROADCAST then some (.broadcast broadcastAllRoutersAndCoordinator)
    else if mt = incoming_INCOMING_MULTICAST then some (.group group)
    else if mt = incoming_INCOMING_UNICAST then some (.nwk ownNwk)
    else none
  match dst with
  | none => pure none
  | some d =>
    pure (some { src := sender, srcEp := ← apsField aps "sourceEndpoint", dst := d,
                 dstEp := ← apsField aps "destinationEndpoint", tsn := ← apsField aps "sequence",
                 profile := ← apsField aps "profileId", cluster := ← apsField aps "clusterId",
                 data := payload, lqi := lqi, rssi := int8 rssi })

inductive JoinOut | leave (nwk : Nat) (ieee : List Nat) | join (nwk : Nat) (ieee : List Nat) (parent : Nat) | nothing
deriving Repr, DecidableEq

def ieeeOf : Val → Option (List Nat)
  | .seq bs => bs.mapM numOf
  | _ => none

/-- `_handle_tc_join_handler(*args)`: departure → leave; denied → nothing; otherwise join -/
def tcJoin (vals : List Val) : Option JoinOut :=
  match vals with
  | [nwk, ieee, status, decision, parent] => do
    let nwk ← numOf nwk; let ieee ← ieeeOf ieee; let st ← numOf status; let dec ← numOf decision
    let parent ← numOf parent
    if st = deviceLeft then pure (.leave nwk ieee)
    else if dec = denyJoin then pure .nothing
    else pure (.join nwk ieee parent)
  | _ => none

end BV.Callbacks
