/-
`write_network_info` / `load_network_info` (bellows/zigbee/application.py) with the per-version accessors
(EZSPv4, v5, v7, v9, v10, v13, v14), `zha_security`, `ezsp_key_to_zigpy_key`, as programs over an abstract
NCP store.  The store's behaviour (what an NCP keeps and returns) is the specification side:
  setInitialSecurityState stores the keys and flags it is given;
  a frame counter written with setValue before the network is formed is the one reported afterwards;
  addOrUpdateKeyTableEntry updates the entry of that partner or fills the first free index;
  importLinkKey / setChildData write the given index;
  the current security state reports the hashed-link-key flag it was given.
Opaque numbers stand for PAN IDs, EUI64s etc.; keys are byte lists.
-/
namespace BV.NetInfo

abbrev Key := List UInt8

def wellKnown : Key := [0x5A, 0x69, 0x67, 0x42, 0x65, 0x65, 0x41, 0x6C, 0x6C, 0x69, 0x61, 0x6E, 0x63, 0x65, 0x30, 0x39]

structure Params where
  panId : Nat
  extPanId : Nat
  channel : Nat
  channelMask : Nat
  updateId : Nat
deriving Repr, DecidableEq

structure Settings where
  params : Params
  nwkKey : Key
  nwkSeq : Nat
  nwkFc : Nat
  tclk : Key
  hashed : Option Key                 -- stack_specific["ezsp"]["hashed_tclk"], if supplied
  tcPartnerKnown : Bool               -- tc_link_key.partner_ieee ≠ UNKNOWN after the EUI64 decision
  linkKeys : List (Key × Nat)         -- (key, partner EUI64)
  children : List (Nat × Nat)         -- (EUI64, NWK) of the children that have a NWK address
deriving Repr, DecidableEq

structure Sec where
  nwkKey : Key
  nwkSeq : Nat
  preconfigured : Key
  hashedFlag : Bool
  haveTcEui64 : Bool
deriving Repr, DecidableEq

structure Ncp where
  K : Nat                              -- key table size
  params : Option Params := none
  sec : Option Sec := none
  nwkFc : Nat := 0
  keys : List (Option (Nat × Key))     -- index ↦ (partner, key)
  children : List (Nat × Nat × Nat) := []   -- (index, EUI64, NWK)
deriving Repr, DecidableEq

def factoryFresh (K : Nat) : Ncp := { K := K, keys := List.replicate K none }

/-- `addOrUpdateKeyTableEntry`: the partner's entry, else the first free index; a full table refuses -/
def isPartner (partner : Nat) : Option (Nat × Key) → Bool
  | some (p, _) => p == partner
  | none => false

def updEntry (partner : Nat) (k : Key) : Option (Nat × Key) → Option (Nat × Key)
  | some (p, x) => if p == partner then some (p, k) else some (p, x)
  | none => none

def addOrUpdate (t : List (Option (Nat × Key))) (partner : Nat) (k : Key) : List (Option (Nat × Key)) :=
  if t.any (isPartner partner) then t.map (updEntry partner k)
  else
    match t.findIdx? Option.isNone with
    | some i => t.set i (some (partner, k))
    | none => t

/-- `importLinkKey(index, …)` -/
def importAt (t : List (Option (Nat × Key))) (i partner : Nat) (k : Key) : List (Option (Nat × Key)) :=
  if i < t.length then t.set i (some (partner, k)) else t

def writeLinkKeys (v : Nat) (t : List (Option (Nat × Key))) (ks : List (Key × Nat)) : List (Option (Nat × Key)) :=
  if v < 13 then ks.foldl (fun t x => addOrUpdate t x.2 x.1) t
  else (ks.zipIdx).foldl (fun t x => importAt t x.2 x.1.2 x.1.1) t

/-- `reset_network_info` on an NCP in any earlier state: leaving the network drops the network parameters and
the child table; `factory_reset` clears the key table and, from version 13 on (`tokenFactoryReset`), the frame
counters; below 13 the NCP keeps its frame counter (the network is formed with NO_FRAME_COUNTER_RESET) -/
def reset (v : Nat) (n : Ncp) : Ncp :=
  { n with params := none, children := [], keys := List.replicate n.K none,
           nwkFc := if v ≥ 13 then 0 else n.nwkFc }

/-- `write_network_info` after `reset_network_info`; `gen` is the random default for a missing hashed TCLK -/
def write (v : Nat) (s : Settings) (gen : Key) (n : Ncp) : Ncp :=
  let hashedUsed : Bool := v > 4
  { n with
    nwkFc := if v ≥ 5 then s.nwkFc else n.nwkFc,
    sec := some { nwkKey := s.nwkKey, nwkSeq := s.nwkSeq,
                  preconfigured := if hashedUsed then s.hashed.getD gen else s.tclk,
                  hashedFlag := hashedUsed, haveTcEui64 := s.tcPartnerKnown },
    keys := writeLinkKeys v n.keys s.linkKeys,
    children := if v ≥ 9 then s.children.zipIdx.map fun x => (x.2, x.1.1, x.1.2) else n.children,
    params := some s.params }

structure Loaded where
  params : Params
  nwkKey : Key
  nwkSeq : Nat
  nwkFc : Nat
  tclk : Key
  hashed : Option Key
  linkKeys : List (Key × Nat)
  children : List (Nat × Nat)
deriving Repr, DecidableEq

/-- `load_network_info(load_devices=True)` -/
def load (_v : Nat) (n : Ncp) : Option Loaded := do
  let p ← n.params
  let sec ← n.sec
  pure { params := p, nwkKey := sec.nwkKey, nwkSeq := sec.nwkSeq, nwkFc := n.nwkFc,
         tclk := if sec.hashedFlag then wellKnown else sec.preconfigured,
         hashed := if sec.hashedFlag then some sec.preconfigured else none,
         linkKeys := n.keys.filterMap fun e => e.map fun (p, k) => (k, p),
         children := n.children.map fun (_, e, a) => (e, a) }

end BV.NetInfo
