/-
Operations of `EZSP` that complete on an event: `wait_for_stack_status` + `formNetwork` / `leaveNetwork`
/ `ControllerApplication._ensure_network_running`, and `_list_command` (`startScan` …), at settled loop
states.  The listener / callback is registered *before* the command is issued and removed when the
operation ends.

  begin id k        an operation of kind k starts (its first command is issued)
  resp id r         the command operation `id` is awaiting returns
  status s          a `stackStatusHandler` callback with (normalised) status s is processed
  item tag          a scan result callback;  complete ok   the scan completion callback
  timer             the clock moves to the earliest armed operation deadline
  cancel id         the operation's task is cancelled
-/
import BV.Gen.AppConsts
namespace BV.Events
open BV.Gen.App

def q (p : Nat × Nat) : Rat := (p.1 : Rat) / (p.2 : Rat)

inductive Stat | up | down | other
deriving Repr, DecidableEq

inductive Kind
  | form          -- formNetwork: NETWORK_UP within NETWORK_OPS_TIMEOUT
  | leave         -- leaveNetwork: NETWORK_DOWN within its timeout (default NETWORK_OPS_TIMEOUT)
  | bringUp       -- _ensure_network_running: networkState, then initialize_network + NETWORK_UP within NETWORK_UP_TIMEOUT_S
  | scan          -- _list_command
deriving Repr, DecidableEq

def Kind.want : Kind → Stat
  | .leave => .down
  | _ => .up

def Kind.timeout : Kind → Rat
  | .bringUp => q networkUpTimeoutS
  | _ => q networkOpsTimeout

inductive Phase
  | awaitState                 -- bringUp: waiting for networkState
  | awaitResp                  -- waiting for the command's response (listener / callback registered)
  | awaitEvent (deadline : Rat)
  | awaitCompletion            -- scan: response was OK, waiting for the completion callback
deriving Repr, DecidableEq

structure Op where
  id : Nat
  kind : Kind
  phase : Phase
  got : Bool := false          -- the listener future / completion future is resolved
  gotOk : Bool := true         -- scan: status carried by the completion callback
  results : List Nat := []     -- scan: collected item tags
deriving Repr, DecidableEq

structure St where
  ops : List Op := []
  now : Rat := 0
deriving Repr, DecidableEq

/-- the listener of an operation is in `_stack_status_listeners[want]` from registration until it is
resolved or the operation ends -/
def listening (o : Op) : Bool :=
  match o.kind, o.phase with
  | .scan, _ => false
  | _, .awaitState => false
  | _, _ => !o.got

def listeners (s : St) (st : Stat) : List Nat :=
  (s.ops.filter fun o => listening o && o.kind.want == st).map (·.id)

/-- callbacks registered by list commands -/
def callbacks (s : St) : List Nat := (s.ops.filter fun o => o.kind == .scan).map (·.id)

inductive Res
  | ok (results : List Nat)
  | notStarted            -- bringUp: the network was already running
  | refused | notJoined | timeout | cancelled | completionFailed
deriving Repr, DecidableEq

inductive Out
  | cmd (id : Nat) (n : Nat)    -- n-th command of operation id
  | done (id : Nat) (r : Res)
deriving Repr, DecidableEq

inductive Resp | ok | refused | notJoined | joined
deriving Repr, DecidableEq

inductive In
  | begin (id : Nat) (k : Kind)
  | resp (id : Nat) (r : Resp)
  | status (s : Stat)
  | item (tag : Nat)
  | complete (ok : Bool)
  | timer
  | wait (d : Rat)
  | cancel (id : Nat)
deriving Repr

def upd (s : St) (o : Op) : St := { s with ops := s.ops.map fun x => if x.id = o.id then o else x }
def drop (s : St) (id : Nat) : St := { s with ops := s.ops.filter (·.id ≠ id) }
def finish (s : St) (o : Op) (r : Res) : St × List Out := (drop s o.id, [.done o.id r])

/-- the operation whose command is outstanding (commands are serialised by the EZSP layer: the oldest) -/
def awaiting (s : St) : Option Op :=
  s.ops.find? fun o => match o.phase with | .awaitState | .awaitResp => true | _ => false

def nextDeadline (s : St) : Option (Rat × Op) :=
  s.ops.foldl (fun acc o =>
    match o.phase, acc with
    | .awaitEvent d, none => some (d, o)
    | .awaitEvent d, some (e, x) => if d < e then some (d, o) else some (e, x)
    | _, _ => acc) none

/-- every armed deadline that is due fires (TimeoutError for its operation) -/
def fireDue : Nat → St → St × List Out
  | 0, s => (s, [])
  | f + 1, s =>
    match nextDeadline s with
    | none => (s, [])
    | some (d, o) =>
      if d > s.now then (s, [])
      else
        let r := finish s o .timeout
        let r2 := fireDue f r.1
        (r2.1, r.2 ++ r2.2)

def step (s : St) : In → St × List Out
  | .begin id k =>
    let o : Op := { id := id, kind := k, phase := if k = .bringUp then .awaitState else .awaitResp }
    ({ s with ops := s.ops ++ [o] }, [.cmd id 0])
  | .resp id r =>
    match s.ops.find? (fun o => o.id = id ∧ (o.phase = .awaitState ∨ o.phase = .awaitResp)) with
    | none => (s, [])
    | some o =>
      match o.phase, r with
      | .awaitState, .joined => finish s o .notStarted
      | .awaitState, _ => (upd s { o with phase := .awaitResp }, [.cmd o.id 1])
      | _, .ok =>
        if o.kind = .scan then
          if o.got then finish s o (if o.gotOk then .ok o.results else .completionFailed)
          else (upd s { o with phase := .awaitCompletion }, [])
        else if o.got then finish s o (.ok [])
        else (upd s { o with phase := .awaitEvent (s.now + o.kind.timeout) }, [])
      | _, .notJoined => finish s o (if o.kind = .bringUp then .notJoined else .refused)
      | _, _ => finish s o .refused
  | .status st =>
    -- every listener registered for `st` is resolved; waiting operations return
    s.ops.foldl (fun (acc : St × List Out) o =>
        if listening o && o.kind.want == st then
          match o.phase with
          | .awaitEvent _ => let r := finish acc.1 o (.ok []); (r.1, acc.2 ++ r.2)
          | _ => (upd acc.1 { o with got := true }, acc.2)
        else acc) (s, [])
  | .item tag =>
    -- the callback appends as long as it is registered, i.e. until the operation ends
    ({ s with ops := s.ops.map fun o => if o.kind = .scan then { o with results := o.results ++ [tag] } else o }, [])
  | .complete ok =>
    s.ops.foldl (fun (acc : St × List Out) o =>
        if o.kind = .scan ∧ ¬ o.got then
          match o.phase with
          | .awaitCompletion =>
            let r := finish acc.1 o (if ok then .ok o.results else .completionFailed); (r.1, acc.2 ++ r.2)
          | _ => (upd acc.1 { o with got := true, gotOk := ok }, acc.2)
        else acc) (s, [])
  | .timer =>
    match nextDeadline s with
    | none => (s, [])
    | some (d, _) => fireDue (s.ops.length + 1) { s with now := d }
  | .wait d => fireDue (s.ops.length + 1) { s with now := s.now + d }
  | .cancel id =>
    match s.ops.find? (·.id = id) with
    | none => (s, [])
    | some o => finish s o .cancelled

def run (s : St) : List In → St × List (List Out)
  | [] => (s, [])
  | i :: is => let r := step s i; let r2 := run r.1 is; (r2.1, r.2 :: r2.2)

end BV.Events
