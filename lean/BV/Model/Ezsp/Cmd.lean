/-
`ProtocolHandler.command` / `ProtocolHandler.__call__` / the guard of `EZSP.frame_received`, at the
granularity of settled loop states (every event is processed until the ready queue is empty).

  call c cmd prio   a caller starts `command(name, …)`; `cmd` is the frame ID, `prio` its priority
  sendDone ok       `gateway.send_data` of the holder returns / raises
  frame f           `EZSP.frame_received(bytes)`; `f` is how the bytes classify under the active version
  timeout           the clock moves exactly to the holder's response deadline
  wait d            the clock advances by d (not reaching the deadline)
  cancel c          the caller's task is cancelled

Kept between events: `_seq`, `_awaiting` (insertion-ordered, one entry per sequence number, *including
the entries of calls that have ended* — the code pops an entry only when a frame with its sequence
number arrives… or, since the fix recorded in known_findings.json, when the call ends), the holder of
the MAX_COMMAND_CONCURRENCY = 1 slot with the state of its future, the waiters ordered by
(-priority, arrival).
-/
import BV.Gen.Priority
namespace BV.Cmd
open BV.Gen.Priority

def q (p : Nat × Nat) : Rat := (p.1 : Rat) / (p.2 : Rat)
def cmdTimeout : Rat := q ezspCmdTimeout

/-- state of the future stored in an `_awaiting` entry -/
inductive EFut | live | pendingOrphan | cancelled
deriving Repr, DecidableEq

structure Entry where
  seqNo : Nat
  cmdId : Nat
  owner : Nat
  fut : EFut
deriving Repr, DecidableEq

/-- the holder's own view of its future -/
inductive HFut | waiting | result (tag : Nat) | invalid
deriving Repr, DecidableEq

structure Holder where
  caller : Nat
  seqNo : Nat
  cmdId : Nat
  sending : Bool
  fut : HFut
  deadline : Rat
deriving Repr, DecidableEq

structure Waiter where
  prio : Int
  caller : Nat
  cmdId : Nat
deriving Repr, DecidableEq

structure St where
  seq : Nat := 0
  awaiting : List Entry := []
  holder : Option Holder := none
  waiters : List Waiter := []
  now : Rat := 0
  /-- entries are removed when their call ends (the repaired code) -/
  popOnExit : Bool := true
deriving Repr, DecidableEq

inductive Res | ok (tag : Nat) | timeout | cancelled | sendFail | invalidCommand
deriving Repr, DecidableEq

inductive Out
  | sent (seqNo cmdId : Nat)        -- frame handed to gateway.send_data
  | done (caller : Nat) (r : Res)
  | callback (frameId tag : Nat)    -- EZSP.handle_callback fan-out, once per registered callback
  | rxRaised                        -- an exception left __call__ and was swallowed by the guard
deriving Repr, DecidableEq

/-- how received bytes classify under the active version's header layout and command table -/
inductive Frame
  | short | unknown | undecodable
  | ok (seqNo frameId : Nat) (isInvalidCommand : Bool) (tag : Nat)
deriving Repr, DecidableEq

/-- `self._awaiting[seq] = …`: replaces in place when the key exists, appends otherwise -/
def setEntry (l : List Entry) (e : Entry) : List Entry :=
  if l.any (·.seqNo == e.seqNo) then l.map fun x => if x.seqNo == e.seqNo then e else x else l ++ [e]

/-- the slot is taken: build the frame, register, bump `_seq`, hand to the gateway -/
def start (s : St) (caller cmdId : Nat) : St × List Out :=
  ({ s with awaiting := setEntry s.awaiting ⟨s.seq, cmdId, caller, .live⟩,
            seq := (s.seq + 1) % 256,
            holder := some ⟨caller, s.seq, cmdId, true, .waiting, 0⟩ },
   [.sent s.seq cmdId])

/-- `bisect.insort_right` on (-priority, counter): behind every waiter of greater or equal priority -/
def insertWaiter (ws : List Waiter) (w : Waiter) : List Waiter :=
  ws.takeWhile (fun x => x.prio ≥ w.prio) ++ [w] ++ ws.dropWhile (fun x => x.prio ≥ w.prio)

/-- the holder's call ends: its `_awaiting` entry (if still there) keeps a dead future, or is removed -/
def endCall (s : St) (h : Holder) (fut : EFut) : St :=
  let aw := if s.popOnExit then s.awaiting.filter (fun e => !(e.seqNo == h.seqNo && e.owner == h.caller))
            else s.awaiting.map fun e => if e.seqNo == h.seqNo ∧ e.owner == h.caller ∧ e.fut == .live
                                         then { e with fut := fut } else e
  { s with awaiting := aw, holder := none }

/-- release of the slot: the first waiter (greatest priority, oldest) starts -/
def release (s : St) : St × List Out :=
  match s.waiters with
  | [] => (s, [])
  | w :: ws => start { s with waiters := ws } w.caller w.cmdId

def finish (s : St) (h : Holder) (fut : EFut) (r : Res) : St × List Out :=
  let (s', o) := release (endCall s h fut)
  (s', .done h.caller r :: o)

/-- `ProtocolHandler.__call__` on a frame that parsed, is known and decoded -/
def onOk (s : St) (seqNo frameId : Nat) (inv : Bool) (tag : Nat) : St × List Out :=
  match s.awaiting.find? (·.seqNo == seqNo) with
  | none => (s, [.callback frameId tag])
  | some e =>
    let s1 := { s with awaiting := s.awaiting.filter (·.seqNo != seqNo) }   -- `_awaiting.pop(sequence)`
    if inv then
      -- future.set_exception(InvalidCommandError): only a live waiting holder notices
      match s1.holder, e.fut with
      | some h, .live =>
        if h.caller = e.owner ∧ h.seqNo = seqNo ∧ h.fut = .waiting then
          if h.sending then ({ s1 with holder := some { h with fut := .invalid } }, [])
          else finish s1 h .cancelled .invalidCommand
        else (s1, [])
      | _, _ => (s1, [])
    else if e.cmdId ≠ frameId then (s1, [.rxRaised])           -- `assert expected_id == frame_id`
    else
      match s1.holder, e.fut with
      | some h, .live =>
        if h.caller = e.owner ∧ h.seqNo = seqNo ∧ h.fut = .waiting then
          if h.sending then ({ s1 with holder := some { h with fut := .result tag } }, [])
          else finish s1 h .cancelled (.ok tag)
        else (s1, [])
      | _, _ => (s1, [])     -- orphan future resolved silently, or InvalidStateError swallowed

inductive In
  | call (caller cmdId : Nat) (prio : Int)
  | sendDone (ok : Bool)
  | frame (f : Frame)
  | timeout
  | wait (d : Rat)
  | cancel (caller : Nat)
deriving Repr

def step (s : St) : In → St × List Out
  | .call c cmd prio =>
    if s.holder.isSome ∨ ¬ s.waiters.isEmpty then
      ({ s with waiters := insertWaiter s.waiters ⟨prio, c, cmd⟩ }, [])
    else start s c cmd
  | .sendDone ok =>
    match s.holder with
    | some h =>
      if ¬ h.sending then (s, [])
      else if ¬ ok then finish s h .pendingOrphan .sendFail
      else
        match h.fut with
        | .result tag => finish s h .cancelled (.ok tag)          -- the reply overtook the link-level ACK
        | .invalid => finish s h .cancelled .invalidCommand
        | .waiting => ({ s with holder := some { h with sending := false, deadline := s.now + cmdTimeout } }, [])
    | none => (s, [])
  | .frame .short => (s, [.rxRaised])
  | .frame .unknown => (s, [])
  | .frame .undecodable => (s, [.rxRaised])
  | .frame (.ok seqNo frameId inv tag) => onOk s seqNo frameId inv tag
  | .timeout =>
    match s.holder with
    | some h => if h.sending then (s, []) else finish { s with now := h.deadline } h .cancelled .timeout
    | none => (s, [])
  | .wait d => ({ s with now := s.now + d }, [])
  | .cancel c =>
    match s.holder with
    | some h =>
      if h.caller = c then finish s h (if h.sending then .pendingOrphan else .cancelled) .cancelled
      else if s.waiters.any (·.caller == c) then
        ({ s with waiters := s.waiters.filter (·.caller != c) }, [.done c .cancelled])
      else (s, [])
    | none => (s, [])

def run (s : St) : List In → St × List (List Out)
  | [] => (s, [])
  | i :: is =>
    let r := step s i
    let r2 := run r.1 is
    (r2.1, r.2 :: r2.2)

end BV.Cmd
