/-
Generic EZSP payload codec over the type descriptors the translator lowers zigpy/bellows types into,
and the three frame-header layouts (`_ezsp_frame_tx` / `_ezsp_frame_rx` of EZSPv4, EZSPv5, EZSPv8).
Values are untyped trees; integers are carried as their unsigned little-endian residue (signed,
enum and bitmap types differ only in how Python presents the same bytes).
-/
import BV.Model.TDesc
namespace BV.Codec

inductive Val where
  | num (n : Nat)
  | bytes (bs : List UInt8)
  | seq (vs : List Val)
  | absent                      -- optional trailing struct field that is not there
deriving Repr, BEq, Inhabited

def leBytes : Nat → Nat → List UInt8
  | 0, _ => []
  | k+1, n => UInt8.ofNat (n % 256) :: leBytes k (n / 256)

def leVal : List UInt8 → Nat
  | [] => 0
  | b :: bs => b.toNat + 256 * leVal bs

mutual
def ser : TDesc → Val → Option (List UInt8)
  | .uint k, .num n => if n < 256 ^ k then some (leBytes k n) else none
  | .sint k, .num n => if n < 256 ^ k then some (leBytes k n) else none
  | .lvbytes p, .bytes bs => if bs.length < 256 ^ p then some (leBytes p bs.length ++ bs) else none
  | .fixedlist n e, .seq vs => if vs.length = n then serAll e vs else none
  | .lvlist p e, .seq vs => if vs.length < 256 ^ p then (serAll e vs).map (leBytes p vs.length ++ ·) else none
  | .greedy e, .seq vs => serAll e vs
  | .rest, .bytes bs => some bs
  | .struct fs, .seq vs => serFields fs vs
  | .padstruct _ _ _ fs, .seq vs => serFields fs vs
  | .opt _, .absent => some []
  | .opt t, v => ser t v
  | _, _ => none
def serAll : TDesc → List Val → Option (List UInt8)
  | _, [] => some []
  | e, v :: vs => do let a ← ser e v; let b ← serAll e vs; pure (a ++ b)
def serFields : List TDesc → List Val → Option (List UInt8)
  | [], [] => some []
  | f :: fs, v :: vs => do let a ← ser f v; let b ← serFields fs vs; pure (a ++ b)
  | _, _ => none
end

mutual
/-- `fuel` bounds the item loop of greedy lists (it is always given the input length + 1) -/
def de (fuel : Nat) : TDesc → List UInt8 → Option (Val × List UInt8)
  | .uint k, bs => if bs.length < k then none else some (.num (leVal (bs.take k)), bs.drop k)
  | .sint k, bs => if bs.length < k then none else some (.num (leVal (bs.take k)), bs.drop k)
  | .lvbytes p, bs =>
      if bs.length < p then none else
      let n := leVal (bs.take p); let r := bs.drop p
      if r.length < n then none else some (.bytes (r.take n), r.drop n)
  | .fixedlist n e, bs => (deN fuel e n bs).map fun (vs, r) => (.seq vs, r)
  | .lvlist p e, bs =>
      if bs.length < p then none else
      (deN fuel e (leVal (bs.take p)) (bs.drop p)).map fun (vs, r) => (.seq vs, r)
  | .greedy e, bs => (deGreedy fuel e bs).map fun vs => (.seq vs, [])
  | .rest, bs => some (.bytes bs, [])
  | .struct fs, bs => (deFields fuel fs bs).map fun (vs, r) => (.seq vs, r)
  | .padstruct len at_ pad fs, bs =>
      let bs' := if bs.length = len then bs.take at_ ++ List.replicate pad 0 ++ bs.drop at_ else bs
      (deFields fuel fs bs').map fun (vs, r) => (.seq vs, r)
  | .opt t, bs => if bs.isEmpty then some (.absent, []) else de fuel t bs
  | .cond _, _ => none
  | .invalid, _ => none
def deN (fuel : Nat) : TDesc → Nat → List UInt8 → Option (List Val × List UInt8)
  | _, 0, bs => some ([], bs)
  | e, n+1, bs => do let (v, r) ← de fuel e bs; let (vs, r') ← deN fuel e n r; pure (v :: vs, r')
def deFields (fuel : Nat) : List TDesc → List UInt8 → Option (List Val × List UInt8)
  | [], bs => some ([], bs)
  | f :: fs, bs => do let (v, r) ← de fuel f bs; let (vs, r') ← deFields fuel fs r; pure (v :: vs, r')
def deGreedy : Nat → TDesc → List UInt8 → Option (List Val)
  | 0, _, bs => if bs.isEmpty then some [] else none
  | f+1, e, bs =>
    if bs.isEmpty then some [] else do
      let (v, r) ← de f e bs
      let vs ← deGreedy f e r
      pure (v :: vs)
end

/-! ### headers -/

inductive Hdr | v4 | v5 | v8
deriving Repr, DecidableEq

/-- header layout used by the handler class of a protocol version -/
def hdrOf (version : Nat) : Hdr := if version < 5 then .v4 else if version < 8 then .v5 else .v8

def maxId : Hdr → Nat
  | .v8 => 65535
  | _ => 255

/-- `_ezsp_frame_tx`: sequence, frame control, frame ID -/
def txHeader (h : Hdr) (seq id : Nat) : List UInt8 :=
  match h with
  | .v4 => [UInt8.ofNat seq, 0, UInt8.ofNat id]
  | .v5 => [UInt8.ofNat seq, 0, 0xFF, 0, UInt8.ofNat id]
  | .v8 => [UInt8.ofNat seq, 0, 1, UInt8.ofNat (id % 256), UInt8.ofNat (id / 256)]

/-- `_ezsp_frame_rx`: (sequence, frame ID, payload); `none` = IndexError / ValueError on a short frame -/
def rxHeader (h : Hdr) (d : List UInt8) : Option (Nat × Nat × List UInt8) :=
  match h, d with
  | .v4, s :: _ :: i :: rest => some (s.toNat, i.toNat, rest)
  | .v5, s :: _ :: _ :: _ :: i :: rest => some (s.toNat, i.toNat, rest)
  | .v8, s :: _ :: _ :: lo :: hi :: rest => some (s.toNat, lo.toNat + 256 * hi.toNat, rest)
  | _, _ => none

def findById (cs : List Cmd) (id : Nat) : Option Cmd := cs.find? (·.id == id)
def findByName (cs : List Cmd) (name : String) : Option Cmd := cs.find? (·.name == name)

/-- `serialize_dict(args, kwargs, schema)`: positional values fill the schema keys in order, keyword
values override; a key left without a value is a KeyError (`none`) -/
def resolveArgs (keys : List String) (args : List Val) (kwargs : List (String × Val)) : Option (List Val) :=
  let rec go : Nat → List String → Option (List Val)
    | _, [] => some []
    | i, k :: ks =>
      match kwargs.lookup k, args[i]? with
      | some v, _ => (go (i + 1) ks).map (v :: ·)
      | none, some v => (go (i + 1) ks).map (v :: ·)
      | none, none => none
  go 0 keys

/-- bytes of a command call: header, then the arguments serialised in declared order -/
def txFrame (version : Nat) (cs : List Cmd) (seq : Nat) (name : String) (vals : List Val) : Option (List UInt8) := do
  let c ← findByName cs name
  let body ← serFields c.txT vals
  pure (txHeader (hdrOf version) seq c.id ++ body)

inductive RxOut
  | short                       -- header could not be read (raises)
  | unknown (id : Nat)          -- frame ID not in the table: logged and dropped
  | undecodable (name : String) -- payload does not decode (raises)
  | ok (seq id : Nat) (name : String) (vals : List Val) (trailing : List UInt8)
deriving Repr, BEq

/-- receive path: header → table → payload -/
def rxFrame (version : Nat) (cs : List Cmd) (d : List UInt8) : RxOut :=
  match rxHeader (hdrOf version) d with
  | none => .short
  | some (seq, id, payload) =>
    match findById cs id with
    | none => .unknown id
    | some c =>
      match deFields (payload.length + 1) c.rxT payload with
      | none => .undecodable c.name
      | some (vs, r) => .ok seq id c.name vs r

end BV.Codec
