/-
`EZSP.startup_reset` / `reset` / `version` / `_switch_protocol_version` and the lookup that
`write_config` starts with, as a state machine over (reported version, handler version), against an NCP
that reports protocol version `n`: it answers the legacy version query with `n`.
-/
import BV.Model.Ezsp.Codec
import BV.Gen.Commands
import BV.Gen.Config
namespace BV.Neg
open BV.Codec

structure St where
  ezspVersion : Nat := 4        -- `_ezsp_version`
  handlerVersion : Nat := 4     -- `VERSION` of the handler object in `_protocol`
  running : Bool := false
  seq : Nat := 0                -- `_seq` of the current handler object
deriving Repr, DecidableEq

def latest : Nat := (BV.Gen.Commands.byVersion.map (·.1)).foldl max 0

/-- `_switch_protocol_version`: a fresh handler object (sequence numbers restart at 0) -/
def switch (s : St) (v : Nat) : St :=
  { s with ezspVersion := v,
           handlerVersion := match BV.Gen.Commands.byVersion.lookup v with
             | some hv => hv
             | none => (BV.Gen.Commands.byVersion.lookup latest).getD latest,
           seq := 0 }

/-- `EZSP.reset()` after the ASH handshake: always back to the v4 handler -/
def afterReset (s : St) : St := { switch s 4 with running := true }

/-- the bytes of a `version` request as the current handler frames it -/
def versionRequest (s : St) (desired : Nat) : List UInt8 :=
  txHeader (hdrOf s.handlerVersion) s.seq 0 ++ [UInt8.ofNat desired]

/-- `EZSP.version()` against an NCP reporting `n`: requests sent, final state -/
def version (s : St) (n : Nat) : St × List (List UInt8) :=
  let q1 := versionRequest s s.ezspVersion
  let s1 := { s with seq := (s.seq + 1) % 256 }
  if n ≠ s.ezspVersion then
    let s2 := switch s1 n
    let q2 := versionRequest s2 n
    ({ s2 with seq := (s2.seq + 1) % 256 }, [q1, q2])
  else (s1, [q1])

/-- bring-up: reset, then version -/
def startup (n : Nat) : St × List (List UInt8) := version (afterReset {}) n

/-- the default list `write_config` looks up -/
def configDefaults (s : St) : Option (List BV.Gen.Config.Row) := match BV.Gen.Config.defaults s.ezspVersion with
    | some d => some d
    | none => BV.Gen.Config.defaults latest

end BV.Neg
