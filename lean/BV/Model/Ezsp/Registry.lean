/-
`EZSP.add_callback` / `remove_callback` / `handle_callback` (bellows/ezsp/__init__.py): the registry of
callback functions every unsolicited frame is fanned out to.

  add_callback(cb):    id_ = hash(cb); while id_ in self._callbacks: id_ += 1; self._callbacks[id_] = cb; return id_
  remove_callback(id): return self._callbacks.pop(id_)          (KeyError when absent)
  handle_callback(*a): for each (id, handler) in insertion order: call it, an exception is logged and swallowed

`hash(cb)` is outside the model: it is an input of `add` (the harness reports the value the real object has).
Callables are identified by a natural number.
-/
namespace BV.Registry

structure Reg where
  /-- `_callbacks`: id ↦ callable, insertion ordered -/
  cbs : List (Int × Nat) := []
deriving Repr, DecidableEq

def ids (r : Reg) : List Int := r.cbs.map (·.1)

/-- the `while id_ in self._callbacks: id_ += 1` probe; `none` = fuel exhausted (never, see `probe_total`) -/
def probe (taken : List Int) : Nat → Int → Option Int
  | 0, _ => none
  | fuel + 1, h => if taken.contains h then probe taken fuel (h + 1) else some h

inductive Op
  | add (cb : Nat) (hash : Int)
  | remove (id : Int)
  /-- one unsolicited frame; `raising` lists the callables whose invocation raises -/
  | deliver (raising : List Nat)
deriving Repr, DecidableEq

inductive Out
  | added (id : Int)
  | removed (cb : Nat)
  | keyError
  /-- the callables invoked, in order -/
  | called (cbs : List Nat)
  | fuel
deriving Repr, DecidableEq

def step (r : Reg) : Op → Reg × Out
  | .add cb h =>
    match probe (ids r) (r.cbs.length + 1) h with
    | some id => ({ cbs := r.cbs ++ [(id, cb)] }, .added id)
    | none => (r, .fuel)
  | .remove id =>
    match r.cbs.lookup id with
    | some cb => ({ cbs := r.cbs.filter (·.1 != id) }, .removed cb)
    | none => (r, .keyError)
  | .deliver _ => (r, .called (r.cbs.map (·.2)))

def run (r : Reg) : List Op → Reg × List Out
  | [] => (r, [])
  | o :: os => let (r', out) := step r o; let (r'', outs) := run r' os; (r'', out :: outs)

end BV.Registry
