/-
`EZSP.frame_received`: the guard (no protocol / empty frame / catch-all) around
`ProtocolHandler.__call__`, composed from the codec model (header, table lookup, payload decoding)
and the command-layer model.
-/
import BV.Model.Ezsp.Cmd
import BV.Model.Ezsp.Codec
namespace BV.Rx
open BV.Codec BV.Cmd

/-- classification of received bytes under a version's header layout and command table -/
def classify (version : Nat) (cs : List Codec.Cmd) (d : List UInt8) : Frame × Option (String × List Val) :=
  match rxFrame version cs d with
  | .short => (.short, none)
  | .unknown _ => (.unknown, none)
  | .undecodable _ => (.undecodable, none)
  | .ok seq id name vals _ => (.ok seq id (name == "invalidCommand") 0, some (name, vals))

/-- the receive entry point: an empty frame is ignored before anything is parsed -/
def frameReceived (version : Nat) (cs : List Codec.Cmd) (s : St) (d : List UInt8) : St × List Out :=
  if d.isEmpty then (s, []) else step s (.frame (classify version cs d).1)

end BV.Rx
