/-
Model of `sl_Status.from_ember_status` (bellows/types/named.py):
pass-through for unified statuses, lookup in the generated `SL_STATUS_MAP` keyed by
(family, code), generic-failure fallback.
-/
import BV.Gen.Status
namespace BV.Status
open BV.Gen.Status

inductive St where
  | ember (c : Nat)     -- EmberStatus(c), c < 256 (enum8: defined or undefined member)
  | ezsp (c : Nat)      -- EzspStatus(c), c < 256
  | sl (x : Nat)        -- sl_Status(x), any 32-bit value
deriving Repr, DecidableEq

def lookup (fam code : Nat) : List (Nat × Nat × Nat) → Option Nat
  | [] => none
  | (f, c, u) :: rest => if f = fam ∧ c = code then some u else lookup fam code rest

/-- a dict literal built from a list keeps the *last* value of a repeated key -/
def lookupLast (fam code : Nat) (m : List (Nat × Nat × Nat)) : Option Nat :=
  lookup fam code m.reverse

def conv : St → Nat
  | .sl x => x
  | .ember c => (lookup 0 c statusMap).getD slFAIL
  | .ezsp c => (lookup 1 c statusMap).getD slFAIL

def success : St → Bool
  | .sl x => x == slOK
  | .ember c => c == emberSuccess
  | .ezsp c => c == ezspSuccess

end BV.Status
