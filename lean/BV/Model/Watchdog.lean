/-
Model of ControllerApplication._watchdog_feed (bellows/zigbee/application.py):
failure counting against MAX_WATCHDOG_FAILURES, reset on success, and the choice of the
keep-alive command.
-/
import BV.Gen.AppConsts
namespace BV.Watchdog
open BV.Gen.App

structure Wd where
  failures : Nat := 0
  feedCounter : Nat := 0
deriving Repr, DecidableEq

/-- what happens inside the `try` block -/
inductive Outcome | ok | timeout | ezspError
deriving Repr, DecidableEq

def Outcome.failed : Outcome → Bool
  | .ok => false
  | _ => true

inductive KeepAlive | nop | readCounters | readAndClearCounters
deriving Repr, DecidableEq

/-- the keep-alive command chosen by this feed, and the counter after choosing it -/
def keepAlive (version : Nat) (w : Wd) : KeepAlive × Nat :=
  if version = 4 then (.nop, w.feedCounter)
  else
    let c := w.feedCounter + 1
    if c % countersClearPeriods > 0 then (.readCounters, c) else (.readAndClearCounters, c)

/-- one feed: new state, whether it raised, the keep-alive issued -/
def feed (version : Nat) (w : Wd) (o : Outcome) : Wd × Bool × KeepAlive :=
  let (ka, c) := keepAlive version w
  if o.failed then
    let f := w.failures + 1
    ({ failures := f, feedCounter := c }, decide (f > maxWatchdogFailures), ka)
  else
    ({ failures := 0, feedCounter := c }, false, ka)

/-- run a word of outcomes, collecting (raised, keepAlive) per feed -/
def run (version : Nat) : Wd → List Outcome → List (Bool × KeepAlive)
  | _, [] => []
  | w, o :: os => let r := feed version w o; (r.2.1, r.2.2) :: run version r.1 os

def final (version : Nat) : Wd → List Outcome → Wd
  | w, [] => w
  | w, o :: os => final version (feed version w o).1 os

end BV.Watchdog
