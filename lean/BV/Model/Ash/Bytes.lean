/-
Byte-level primitives of bellows/ash.py: CRC-CCITT (binascii.crc_hqx, seed 0xFFFF,
big-endian), byte stuffing (`_stuff_bytes` / `_unstuff_bytes`) and data-field
randomisation (`DataFrame._randomize`).  Constants come from the generated file.
-/
import BV.Gen.AshConsts
import BV.Model.Ash.Crc
namespace BV.Ash
open BV.Gen.Ash

/-- membership in `RESERVED_BYTES` -/
def isReserved (b : UInt8) : Bool := reservedBytes.contains b
/-- membership in `RESERVED_WITHOUT_ESCAPE` -/
def isReservedNoEsc (b : UInt8) : Bool := reservedWithoutEscape.contains b

/-- `_stuff_bytes` -/
def stuff : List UInt8 → List UInt8
  | [] => []
  | c :: cs => if isReserved c then resEscape :: (c ^^^ 0x20) :: stuff cs else c :: stuff cs

/-- `_unstuff_bytes`: an escaped byte must decode to a reserved value; a dangling escape at
the end is dropped silently (the loop just ends) -/
def unstuffAux : Bool → List UInt8 → Option (List UInt8)
  | _, [] => some []
  | true, c :: cs =>
      let b := c ^^^ 0x20
      if isReserved b then (unstuffAux false cs).map (b :: ·) else none
  | false, c :: cs =>
      if c == resEscape then unstuffAux true cs else (unstuffAux false cs).map (c :: ·)

def unstuff : List UInt8 → Option (List UInt8) := unstuffAux false

/-- `zip(data, PSEUDO_RANDOM_DATA_SEQUENCE)` xor; the `assert len(data) <= 256` is the caller's guard -/
def xorSeq : List UInt8 → List UInt8 → List UInt8
  | d :: ds, r :: rs => (d ^^^ r) :: xorSeq ds rs
  | _, _ => []

def randomize (d : List UInt8) : List UInt8 := xorSeq d pseudoRandom

end BV.Ash
