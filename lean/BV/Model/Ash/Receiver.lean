/-
`AshProtocol.frame_received` and the handlers it dispatches to, as a step function over the
fields they read and write.  Effects are returned in program order.
-/
import BV.Model.Ash.Frame
namespace BV.Ash
open BV.Gen.Ash

/-- state of one ack future in `_pending_data_frames` -/
inductive Fut | waiting | acked | notAcked | ncpFailure (code : Nat) | closed
deriving Repr, DecidableEq

def Fut.done : Fut → Bool
  | .waiting => false
  | _ => true

inductive Ev
  | write (bytes : List UInt8)     -- transport.write(bytes)
  | up (payload : List UInt8)      -- ezsp.data_received(payload)
  | reset (code : Nat)             -- ezsp.reset_received(code)
  | raised                         -- NcpFailure escaped (transport closed)
deriving Repr, DecidableEq

structure Rx where
  rxSeq : Nat := 0
  txSeq : Nat := 0
  failed : Bool := false
  /-- `_t_rx_ack` was put back to `T_RX_ACK_INIT` by the last step -/
  ackTimeoutReset : Bool := false
  /-- `_pending_data_frames`, insertion ordered -/
  pending : List (Nat × Fut) := []
  /-- `_transport is not None and not is_closing()` -/
  open_ : Bool := true
deriving Repr, DecidableEq

def setFut (p : List (Nat × Fut)) (k : Nat) (v : Fut) : List (Nat × Fut) :=
  p.map fun (k', f) => if k' = k then (k', v) else (k', f)

/-- `_handle_ack` for TX_K offsets -1 … -TX_K (TX_K from the generated constants) -/
def handleAck (s : Rx) (ackNum : Nat) : Rx :=
  (List.range txK).foldl (fun s i =>
      let n := (ackNum + 8 - (txK - i)) % 8
      match s.pending.lookup n with
      | some .waiting => { s with pending := setFut s.pending n .acked }
      | _ => s) s

/-- `_cancel_pending_data_frames(exc)` -/
def cancelPending (s : Rx) (v : Fut) : Rx :=
  { s with pending := s.pending.map fun (k, f) => if f.done then (k, f) else (k, v) }

/-- `_write_frame`: bytes written, or the NcpFailure of a closed transport -/
def writeFrame (s : Rx) (pre : List UInt8) (f : Frame) : Option Ev :=
  if s.open_ then some (.write (wire pre f)) else none

def onData (s : Rx) (frm : Nat) (reTx : Bool) (payload : List UInt8) : Rx × List Ev :=
  if frm = s.rxSeq then
    let s' := { s with rxSeq := (frm + 1) % 8 }
    match writeFrame s' [] (.ack false false s'.rxSeq) with
    | some w => (s', [w, .up payload])
    | none => (s', [.raised])
  else if reTx then
    match writeFrame s [] (.ack false false s.rxSeq) with
    | some w => (s, [w])
    | none => (s, [.raised])
  else
    match writeFrame s [] (.nak false false s.rxSeq) with
    | some w => (s, [w])
    | none => (s, [.raised])

/-- `frame_received` -/
def onFrame (s0 : Rx) (f : Frame) : Rx × List Ev :=
  let s := { s0 with ackTimeoutReset := false }
  match f with
  | .data frm reTx ackNum payload => onData (handleAck s ackNum) frm reTx payload
  | .ack _ _ ackNum => (handleAck s ackNum, [])
  | .nak _ _ ackNum => (cancelPending (handleAck s ackNum) .notAcked, [])
  | .rstack _ code =>
      ({ s with failed := false, txSeq := 0, rxSeq := 0, ackTimeoutReset := true }, [.reset code.toNat])
  | .rst => ({ s with failed := false }, [])
  | .error _ code =>
      (cancelPending { s with failed := true } (.ncpFailure code.toNat), [.reset code.toNat])

def runFrames (s : Rx) : List Frame → Rx × List Ev
  | [] => (s, [])
  | f :: fs =>
    let r := onFrame s f
    let r2 := runFrames r.1 fs
    (r2.1, r.2 ++ r2.2)

end BV.Ash
