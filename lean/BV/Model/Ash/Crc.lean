/-
CRC-CCITT as `binascii.crc_hqx(data, 0xFFFF)` computes it (polynomial x^16 + x^12 + x^5 + 1,
bits shifted in MSB first), and `.to_bytes(2, "big")`.  No generated constants are involved,
so the (expensive) CRC proofs do not depend on the repository's tables.
-/
namespace BV.Ash

abbrev W := BitVec 16
def poly : W := 0x1021

/-- multiply by x modulo the CCITT polynomial x^16 + x^12 + x^5 + 1 -/
def mulx (t : W) : W := if t.msb then (t <<< 1) ^^^ poly else t <<< 1

/-- shift one message bit in, MSB first -/
def crcBit (s : W) (b : Bool) : W := mulx (s ^^^ (if b then 0x8000#16 else 0))

def byteBits (b : UInt8) : List Bool :=
  [b.toNat.testBit 7, b.toNat.testBit 6, b.toNat.testBit 5, b.toNat.testBit 4,
   b.toNat.testBit 3, b.toNat.testBit 2, b.toNat.testBit 1, b.toNat.testBit 0]

def bitsOf (bs : List UInt8) : List Bool := bs.flatMap byteBits

def crcBits (s : W) (bs : List Bool) : W := bs.foldl crcBit s

def crcByte (s : W) (b : UInt8) : W := crcBits s (byteBits b)

def crcFrom (s : W) (bs : List UInt8) : W := bs.foldl crcByte s

/-- `binascii.crc_hqx(bs, 0xFFFF)` -/
def crc (bs : List UInt8) : W := crcFrom 0xFFFF bs

/-- `.to_bytes(2, "big")` -/
def crcBytes (c : W) : List UInt8 := [UInt8.ofNat (c.toNat / 256), UInt8.ofNat (c.toNat % 256)]

/-- `AshFrame.append_crc` -/
def appendCrc (bs : List UInt8) : List UInt8 := bs ++ crcBytes (crc bs)

end BV.Ash
