/-
`AshProtocol.send_data` / `_send_data_frame` on top of the receiver model, at the granularity of
*settled* loop states: every event below is processed until the asyncio ready queue is empty.

  send id p      a caller starts `send_data(p)`
  frame f        a parsed frame arrives (`frame_received(f)`), then the woken tasks run
  timeout        the clock moves exactly to the armed ACK deadline and the timer fires
  race f         frame `f` arrives in the very loop iteration in which the ACK deadline expires:
                 asyncio.timeout turns the late cancellation into TimeoutError whatever `f` did to
                 the ack future (verified on the real code)
  batch f g      two frames arrive in one read: both are processed before any woken task runs
  wait d         the clock advances by `d` without reaching the deadline
  cancel id      the caller of `send_data` is cancelled (the shielded inner task goes on)

State mirrors the fields the code keeps: `_tx_seq/_rx_seq/_ncp_state/_pending_data_frames` (in `Rx`),
the holder of the TX_K = 1 semaphore with its loop variables, the FIFO of semaphore waiters,
`_t_rx_ack`, and the loop clock.
-/
import BV.Model.Ash.Receiver
namespace BV.Ash
open BV.Gen.Ash

def q (p : Nat × Nat) : Rat := (p.1 : Rat) / (p.2 : Rat)

def tMin : Rat := q tRxAckMin
def tMax : Rat := q tRxAckMax
def tInit : Rat := q tRxAckInit

/-- `max(T_RX_ACK_MIN, min(v, T_RX_ACK_MAX))` -/
def clampT (v : Rat) : Rat := max tMin (min v tMax)

inductive Res | ok | notAcked | ncpFailure (code : Nat) | timeout | cancelled
deriving Repr, DecidableEq

inductive Out
  | ev (e : Ev)
  | done (id : Nat) (r : Res)
deriving Repr, DecidableEq

structure Cur where
  id : Nat
  payload : List UInt8
  frm : Nat
  attempt : Nat
  sendTime : Rat
  deadline : Rat
deriving Repr, DecidableEq

structure Tx where
  rx : Rx := {}
  cur : Option Cur := none
  queue : List (Nat × List UInt8) := []
  t : Rat := tInit
  now : Rat := 0
  cancelled : List Nat := []
deriving Repr, DecidableEq

/-- `_enter_failed_state(ERROR_EXCEEDED_MAXIMUM_ACK_TIMEOUT_COUNT)` -/
def enterFailed (s : Tx) : Tx × List Out :=
  ({ s with rx := cancelPending { s.rx with failed := true } (.ncpFailure errorExceededMaxAck) },
   [.ev (.reset errorExceededMaxAck)])

/-- one pass through the body of the `for attempt` loop up to the `await` -/
def attempt (s : Tx) (id : Nat) (p : List UInt8) (frm : Option Nat) (n : Nat) : Option (Tx × List Out) :=
  if s.rx.failed then none     -- the FAILED gate raises NcpFailure(81)
  else
    let (f, rx1) := match frm with
      | some f => (f, s.rx)
      | none => (s.rx.txSeq, { s.rx with txSeq := (s.rx.txSeq + 1) % 8 })
    let rx2 := { rx1 with pending := (rx1.pending.filter (·.1 ≠ f)) ++ [(f, Fut.waiting)] }
    some ({ s with rx := rx2,
                   cur := some { id := id, payload := p, frm := f, attempt := n, sendTime := s.now,
                                 deadline := s.now + s.t } },
          [.ev (.write (wire [] (.data f (decide (n > 0)) rx2.rxSeq p)))])

/-- semaphore hand-over: the oldest waiter starts; with the link FAILED each one fails at the gate -/
def startNext : List (Nat × List UInt8) → Tx → Tx × List Out
  | [], s => ({ s with queue := [], cur := none }, [])
  | (id, p) :: rest, s =>
    match attempt { s with queue := rest, cur := none } id p none 0 with
    | some r => r
    | none =>
      let r := startNext rest s
      (r.1, .done id (.ncpFailure errorExceededMaxAck) :: r.2)

/-- the `finally` clause pops the ack future; the semaphore is released -/
def finish (s : Tx) (c : Cur) (r : Res) : Tx × List Out :=
  let s1 := { s with rx := { s.rx with pending := s.rx.pending.filter (·.1 ≠ c.frm) }, cur := none }
  let n := startNext s1.queue s1
  (n.1, .done c.id r :: n.2)

/-- a failed attempt: retry, or give up when the budget is used -/
def retryOrFail (s : Tx) (c : Cur) (r : Res) : Tx × List Out :=
  if c.attempt + 1 ≥ ackTimeouts then
    let (s1, o1) := enterFailed s
    let (s2, o2) := finish s1 c r
    (s2, o1 ++ o2)
  else
    match attempt s c.id c.payload (some c.frm) (c.attempt + 1) with
    | some x => x
    | none => finish s c (.ncpFailure errorExceededMaxAck)

/-- what the holder of the semaphore does once its ack future is resolved -/
def wake (s : Tx) : Tx × List Out :=
  match s.cur with
  | none => (s, [])
  | some c =>
    match s.rx.pending.lookup c.frm with
    | some .acked =>
      finish { s with t := clampT ((7 : Rat) / 8 * s.t + (1 : Rat) / 2 * (s.now - c.sendTime)) } c .ok
    | some .notAcked =>
      retryOrFail { s with t := clampT ((7 : Rat) / 8 * s.t + (1 : Rat) / 2 * (s.now - c.sendTime)) } c .notAcked
    | some (.ncpFailure code) => finish s c (.ncpFailure code)
    | some .closed => finish s c (.ncpFailure 0)
    | _ => (s, [])

def onTimeout (s : Tx) : Tx × List Out :=
  match s.cur with
  | none => (s, [])
  | some c => retryOrFail { s with t := clampT (2 * s.t) } c .timeout

inductive In
  | send (id : Nat) (p : List UInt8)
  | frame (f : Frame)
  | timeout
  | race (f : Frame)
  | batch (f g : Frame)
  | wait (d : Rat)
  | cancel (id : Nat)
deriving Repr

def applyRx (s : Tx) (f : Frame) : Tx × List Out :=
  let r := onFrame s.rx f
  let s1 := { s with rx := r.1, t := if r.1.ackTimeoutReset then clampT tInit else s.t }
  (s1, r.2.map Out.ev)

def step0 (s : Tx) : In → Tx × List Out
  | .send id p =>
    if s.cur.isSome ∨ ¬ s.queue.isEmpty then ({ s with queue := s.queue ++ [(id, p)] }, [])
    else startNext [(id, p)] s
  | .frame f =>
    let (s1, o1) := applyRx s f
    let (s2, o2) := wake s1
    (s2, o1 ++ o2)
  | .timeout =>
    match s.cur with
    | none => (s, [])
    | some c => onTimeout { s with now := c.deadline }
  | .race f =>
    match s.cur with
    | none => applyRx s f
    | some c =>
      let (s1, o1) := applyRx { s with now := c.deadline } f
      let (s2, o2) := onTimeout s1
      (s2, o1 ++ o2)
  | .batch f g =>
    let (s1, o1) := applyRx s f
    let (s2, o2) := applyRx s1 g
    let (s3, o3) := wake s2
    (s3, o1 ++ o2 ++ o3)
  | .wait d => ({ s with now := s.now + d }, [])
  | .cancel id => ({ s with cancelled := id :: s.cancelled }, [.done id .cancelled])

/-- the caller of a cancelled `send_data` has already been told; the shielded task's own outcome
reaches nobody -/
def step (s : Tx) (i : In) : Tx × List Out :=
  let r := step0 s i
  (r.1, r.2.filter fun
    | .done id res => res == .cancelled || !(s.cancelled.contains id)
    | _ => true)

def run (s : Tx) : List In → Tx × List (List Out)
  | [] => (s, [])
  | i :: is =>
    let r := step s i
    let r2 := run r.1 is
    (r2.1, r.2 :: r2.2)

end BV.Ash
