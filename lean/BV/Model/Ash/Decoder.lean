/-
`AshProtocol.data_received`: buffer extension, the scanning loop, truncation of the unterminated
remainder to the last MAX_BUFFER_SIZE bytes, and the scanning loop (discarding mode, first non-escape reserved byte,
FLAG / CANCEL / SUBSTITUTE / XON / XOFF branches).  The loop yields the raw segments in the
order the code extracts them; each is then unstuffed, parsed and dispatched (or answered
with a CANCEL-prefixed NAK) exactly as in the body of the FLAG branch.  Dispatch touches
neither the buffer nor the discarding flag, so threading it after the scan is the same
computation as the interleaved original, provided `frame_received` does not raise, i.e.
while the transport is open.
-/
import BV.Model.Ash.Receiver
namespace BV.Ash
open BV.Gen.Ash

/-- split at the first byte in RESERVED_WITHOUT_ESCAPE: the `next(...)` generator -/
def splitRwe : List UInt8 → Option (List UInt8 × UInt8 × List UInt8)
  | [] => none
  | b :: bs =>
    if isReservedNoEsc b then some ([], b, bs)
    else match splitRwe bs with
      | none => none
      | some (pre, x, rest) => some (b :: pre, x, rest)

/-- `buffer.partition(FLAG)[2]`, or none when there is no FLAG -/
def afterFlag : List UInt8 → Option (List UInt8)
  | [] => none
  | b :: bs => if b == resFlag then some bs else afterFlag bs

mutual
/-- the `while self._buffer:` loop; result = (buffer, discarding, segments) -/
def scan : Nat → List UInt8 → Bool → List UInt8 × Bool × List (List UInt8)
  | 0, buf, d => (buf, d, [])
  | n+1, buf, d =>
    if buf.isEmpty then (buf, d, [])
    else if d then
      match afterFlag buf with
      | none => ([], true, [])
      | some q => scanBody n q
    else scanBody n buf
def scanBody : Nat → List UInt8 → List UInt8 × Bool × List (List UInt8)
  | n, buf =>
    match splitRwe buf with
    | none => (buf, false, [])
    | some (pre, b, rest) =>
      if b == resFlag then
        let r := scan n rest false
        (r.1, r.2.1, (if pre.isEmpty then [] else [pre]) ++ r.2.2)
      else if b == resCancel then scan n rest false
      else if b == resSubstitute then scan n rest true
      else scan n (pre ++ rest) false      -- XON / XOFF: `buffer.pop(index)`
end

/-- the body of the FLAG branch for one non-empty segment -/
def onSegment (s : Rx) (seg : List UInt8) : Rx × List Ev :=
  match unstuff seg with
  | none =>
    (s, match writeFrame s [resCancel] (.nak false false s.rxSeq) with | some w => [w] | none => [])
  | some d =>
    match parse d with
    | .error _ =>
      (s, match writeFrame s [resCancel] (.nak false false s.rxSeq) with | some w => [w] | none => [])
    | .ok f => onFrame s f

def onSegments (s : Rx) : List (List UInt8) → Rx × List Ev
  | [] => (s, [])
  | g :: gs =>
    let r := onSegment s g
    let r2 := onSegments r.1 gs
    (r2.1, r.2 ++ r2.2)

structure Dec where
  buf : List UInt8 := []
  disc : Bool := false
  rx : Rx := {}
deriving Repr, DecidableEq

/-- keep the last `MAX_BUFFER_SIZE` bytes: `buffer[-MAX_BUFFER_SIZE:]` -/
def truncate (b : List UInt8) : List UInt8 :=
  if b.length > maxBufferSize then b.drop (b.length - maxBufferSize) else b

/-- one `data_received(chunk)` call: extend, scan, then bound the unterminated remainder -/
def feedChunk (s : Dec) (chunk : List UInt8) : Dec × List Ev :=
  let buf := s.buf ++ chunk
  let r := scan (buf.length + 1) buf s.disc
  let o := onSegments s.rx r.2.2
  ({ buf := truncate r.1, disc := r.2.1, rx := o.1 }, o.2)

def feedChunks (s : Dec) : List (List UInt8) → Dec × List Ev
  | [] => (s, [])
  | c :: cs =>
    let r := feedChunk s c
    let r2 := feedChunks r.1 cs
    (r2.1, r.2 ++ r2.2)

end BV.Ash
