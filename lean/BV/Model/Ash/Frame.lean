/-
ASH frames: the six classes of bellows/ash.py with `to_bytes`, `from_bytes`, `_unwrap`
and `parse_frame` (same order of checks, every raise an explicit error value).
-/
import BV.Model.Ash.Bytes
namespace BV.Ash
open BV.Gen.Ash

inductive Frame
  | data (frmNum : Nat) (reTx : Bool) (ackNum : Nat) (payload : List UInt8)
  | ack (res : Bool) (nRdy : Bool) (ackNum : Nat)
  | nak (res : Bool) (nRdy : Bool) (ackNum : Nat)
  | rst
  | rstack (version : UInt8) (code : UInt8)
  | error (version : UInt8) (code : UInt8)
deriving Repr, DecidableEq

/-- the field ranges for which the wire layout is defined -/
def Frame.WF : Frame → Prop
  | .data f _ a p => f < 8 ∧ a < 8 ∧ p.length ≤ pseudoRandom.length
  | .ack _ _ a => a < 8
  | .nak _ _ a => a < 8
  | .rst => True
  | .rstack v _ => v = 2
  | .error v _ => v = 2

instance (f : Frame) : Decidable f.WF := by
  cases f <;> unfold Frame.WF <;> infer_instance

def b2n (b : Bool) : Nat := if b then 1 else 0

/-- control byte as `to_bytes` computes it: MASK_VALUE | a << 4 | b << 3 | c -/
def ctlData (f : Nat) (r : Bool) (a : Nat) : UInt8 :=
  dataMaskValue ||| UInt8.ofNat (f <<< 4) ||| UInt8.ofNat (b2n r <<< 3) ||| UInt8.ofNat a
def ctlAck (res nRdy : Bool) (a : Nat) : UInt8 :=
  ackMaskValue ||| UInt8.ofNat (b2n res <<< 4) ||| UInt8.ofNat (b2n nRdy <<< 3) ||| UInt8.ofNat a
def ctlNak (res nRdy : Bool) (a : Nat) : UInt8 :=
  nakMaskValue ||| UInt8.ofNat (b2n res <<< 4) ||| UInt8.ofNat (b2n nRdy <<< 3) ||| UInt8.ofNat a

/-- `frame.to_bytes()` -/
def encode : Frame → List UInt8
  | .data f r a p => appendCrc (ctlData f r a :: randomize p)
  | .ack res n a => appendCrc [ctlAck res n a]
  | .nak res n a => appendCrc [ctlNak res n a]
  | .rst => appendCrc [rstMaskValue]
  | .rstack v c => appendCrc [rstackMaskValue, v, c]
  | .error v c => appendCrc [errorMaskValue, v, c]

inductive PErr | empty | tooShort | badCrc | rstData | rstackLen | rstackVersion | noClass | tooLong
deriving Repr, DecidableEq

inductive Cls | data | ack | nak | rst | rstack | error
deriving Repr, DecidableEq

/-- the class `parse_frame` selects for a control byte (first match in its list) -/
def classify (c : UInt8) : Option Cls :=
  if c &&& dataMask == dataMaskValue then some .data
  else if c &&& ackMask == ackMaskValue then some .ack
  else if c &&& nakMask == nakMaskValue then some .nak
  else if c &&& rstMask == rstMaskValue then some .rst
  else if c &&& rstackMask == rstackMaskValue then some .rstack
  else if c &&& errorMask == errorMaskValue then some .error
  else none

/-- `AshFrame._unwrap`: (control, data-without-crc) -/
def unwrap (d : List UInt8) : Except PErr (UInt8 × List UInt8) :=
  if d.length < 3 then .error .tooShort
  else
    let body := d.take (d.length - 2)
    if crcBytes (crc body) != d.drop (d.length - 2) then .error .badCrc
    else match body with
      | c :: rest => .ok (c, rest)
      | [] => .error .tooShort

def bit (c : UInt8) (mask : UInt8) (sh : UInt8) : Nat := ((c &&& mask) >>> sh).toNat

def rstackFields (rest : List UInt8) : Except PErr (UInt8 × UInt8) :=
  match rest with
  | [v, code] => if v != 2 then .error .rstackVersion else .ok (v, code)
  | _ => .error .rstackLen

/-- `parse_frame` -/
def parse (d : List UInt8) : Except PErr Frame :=
  match d with
  | [] => .error .empty
  | c0 :: _ =>
    match classify c0 with
    | none => .error .noClass
    | some cls =>
      match unwrap d with
      | .error e => .error e
      | .ok (c, rest) =>
        match cls with
        | .data =>
          -- `_randomize` asserts `len(data) <= len(PSEUDO_RANDOM_DATA_SEQUENCE)`
          if rest.length > pseudoRandom.length then .error .tooLong
          else .ok (.data (bit c 0x70 4) (bit c 0x08 3 != 0) (bit c 0x07 0) (randomize rest))
        | .ack => .ok (.ack (bit c 0x10 4 != 0) (bit c 0x08 3 != 0) (bit c 0x07 0))
        | .nak => .ok (.nak (bit c 0x10 4 != 0) (bit c 0x08 3 != 0) (bit c 0x07 0))
        | .rst => if rest.isEmpty then .ok .rst else .error .rstData
        | .rstack => (rstackFields rest).map fun (v, code) => .rstack v code
        | .error => (rstackFields rest).map fun (v, code) => .error v code

/-- bytes handed to `transport.write` by `_write_frame(frame, prefix=…)` -/
def wire (prefix_ : List UInt8) (f : Frame) : List UInt8 :=
  prefix_ ++ stuff (encode f) ++ [resFlag]

end BV.Ash
