/-
Model of EZSP.write_config (bellows/ezsp/__init__.py): defaults + overrides merge on
insertion-ordered dicts, the "move CONFIG_PACKET_BUFFER_COUNT last" step (`d[k] = d.pop(k)`), the value loop and the read-compare-skip configuration loop.
-/
import BV.Gen.Config
namespace BV.Config
open BV.Gen.Config

structure Cfg where
  name : String
  id : Nat
  value : Nat
  minimum : Bool
deriving Repr, DecidableEq

/-- insertion-ordered dict keyed by `name` -/
abbrev Dict := List Cfg

def Dict.has (d : Dict) (k : String) : Bool := d.any (·.name == k)

/-- `d[k] = c`: replace in place when the key exists, append otherwise -/
def Dict.set : Dict → Cfg → Dict
  | [], c => [c]
  | x :: xs, c => if x.name = c.name then c :: xs else x :: Dict.set xs c

/-- `d.pop(k)`: `none` is Python's KeyError -/
def Dict.pop : Dict → String → Option Dict
  | [], _ => none
  | x :: xs, k => if x.name = k then some xs else (Dict.pop xs k).map (x :: ·)

def Dict.get? (d : Dict) (k : String) : Option Cfg := d.find? (·.name == k)

inductive Err | noDefaults (version : Nat)
deriving Repr, DecidableEq

/-- the items of the validated config in the order `config.items()` yields them (user-supplied and
schema-filled alike); `none` = disabled -/
abbrev Overrides := List (String × Nat × Option Nat)   -- (name, EzspConfigId[name], value)

/-- `d.pop(k, None)` -/
def Dict.popD (d : Dict) (k : String) : Dict := (d.pop k).getD d

/-- the grow-only flag of the entry currently stored under `n` (false when there is none) -/
def minOf (d : Dict) (n : String) : Bool := ((d.get? n).map (·.minimum)).getD false

/-- `sup n` = "`n in user_supplied`": the caller passed this key itself.  An item the schema filled in
(`sup n = false`) is one of the library's own defaults and keeps the grow-only flag of the default it replaces -/
def applyOverrides (sup : String → Bool) : Dict → Overrides → Dict
  | d, [] => d
  | d, (name, _, none) :: rest => applyOverrides sup (d.popD name) rest
  | d, (name, id, some v) :: rest =>
    applyOverrides sup (d.set { name := name, id := id, value := v, minimum := !sup name && minOf d name }) rest

/-- `d[k] = d.pop(k)` when `k in d`: the entry moves to the end -/
def moveLast (d : Dict) (k : String) : Dict :=
  match d.get? k with
  | some c => (d.popD k).set c
  | none => d

inductive Op
  | getValue (id : Nat) | setValue (id val : Nat)
  | getCfg (id : Nat) | setCfg (name : String) (id val : Nat)   -- `name` is ghost (the dict key)
deriving Repr, DecidableEq

/-- NCP side: current configuration value per id (`none` = read fails) and whether a set is accepted -/
structure Ncp where
  cur : Nat → Option Nat
  acceptCfg : Nat → Bool
  acceptVal : Nat → Bool

def writeValues (ncp : Ncp) : List Cfg → List Op
  | [] => []
  | c :: cs =>
    -- read (result only logged), write, `continue` on rejection
    .getValue c.id :: .setValue c.id c.value ::
      (if ncp.acceptVal c.id then writeValues ncp cs else writeValues ncp cs)

def skip (ncp : Ncp) (c : Cfg) : Bool :=
  match ncp.cur c.id with
  | some cur => c.minimum && decide (cur ≥ c.value)
  | none => false

def writeCfgs (ncp : Ncp) : List Cfg → List Op
  | [] => []
  | c :: cs =>
    if skip ncp c then .getCfg c.id :: writeCfgs ncp cs
    else .getCfg c.id :: .setCfg c.name c.id c.value ::
      (if ncp.acceptCfg c.id then writeCfgs ncp cs else writeCfgs ncp cs)

def rowCfg (r : Row) : Cfg := { name := r.name, id := r.id, value := r.value, minimum := r.minimum }

def defaultCfgs (rows : List Row) : Dict :=
  (rows.filter (·.kind == 0)).foldl (fun d r => d.set (rowCfg r)) []

def defaultVals (rows : List Row) : Dict :=
  (rows.filter (·.kind == 1)).foldl (fun d r => d.set (rowCfg r)) []

/-- the merged configuration dict that the write loop iterates -/
def merged (rows : List Row) (sup : String → Bool) (ov : Overrides) : Dict :=
  let d := applyOverrides sup (defaultCfgs rows) ov
  if d.has packetBufferCountName then moveLast d packetBufferCountName else d

def writeConfigRows (rows : List Row) (ncp : Ncp) (sup : String → Bool) (ov : Overrides) : List Op :=
  writeValues ncp (defaultVals rows) ++ writeCfgs ncp (merged rows sup ov)

def writeConfig (version : Nat) (ncp : Ncp) (sup : String → Bool) (ov : Overrides) : Except Err (List Op) :=
  match defaults version with
  | none => .error (.noDefaults version)
  | some rows => .ok (writeConfigRows rows ncp sup ov)

end BV.Config
