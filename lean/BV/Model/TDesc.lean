/-
Type descriptors for EZSP command schemas (the universe the translator lowers zigpy /
bellows types into) and the table-level well-formedness checks.  Core Lean only.
-/
namespace BV.Codec

inductive TDesc where
  | uint (bytes : Nat)                    -- unsigned / enum / bitmap, little endian
  | sint (bytes : Nat)                    -- two's complement signed, little endian
  | lvbytes (pfx : Nat)                   -- length-prefixed bytes, prefix of `pfx` bytes
  | fixedlist (n : Nat) (elem : TDesc)
  | lvlist (pfx : Nat) (elem : TDesc)
  | greedy (elem : TDesc)                 -- `List[T]`: consume to the end
  | rest                                  -- raw `Bytes`: everything that is left
  | struct (fields : List TDesc)
  /-- a struct whose `deserialize` first pads the input when exactly `len` bytes remain: `pad` zero bytes
  are inserted at offset `at_` (EmberKeyStruct's tolerance for a short `key` field) -/
  | padstruct (len at_ pad : Nat) (fields : List TDesc)
  | opt (t : TDesc)                       -- struct field that may be absent at the tail
  | cond (t : TDesc)                      -- struct field with a `requires` predicate
  | invalid                               -- anything the translator could not lower
deriving Repr, BEq, Inhabited

structure Cmd where
  name : String
  id : Nat
  tx : List (String × TDesc)
  rx : List (String × TDesc)
deriving Repr, Inhabited

mutual
def TDesc.valid : TDesc → Bool
  | .uint n => 0 < n
  | .sint n => 0 < n
  | .lvbytes p => 0 < p
  | .fixedlist _ e => e.valid && !e.isGreedy
  | .lvlist p e => 0 < p && e.valid && !e.isGreedy
  | .greedy e => e.valid && !e.isGreedy
  | .rest => true
  | .struct fs => validAll fs
  | .padstruct _ _ _ fs => validAll fs
  | .opt t => t.valid
  | .cond t => t.valid
  | .invalid => false
def TDesc.isGreedy : TDesc → Bool
  | .greedy _ => true
  | .rest => true
  | .opt _ => true
  | .cond _ => true
  | .struct fs => anyGreedy fs
  | .padstruct _ _ _ fs => anyGreedy fs
  | _ => false
def validAll : List TDesc → Bool
  | [] => true
  | f :: fs => f.valid && validAll fs
def anyGreedy : List TDesc → Bool
  | [] => false
  | f :: fs => f.isGreedy || anyGreedy fs
end

/-- greedy / optional-tail fields only in last position -/
def greedyLast : List TDesc → Bool
  | [] => true
  | [_] => true
  | f :: fs => !f.isGreedy && greedyLast fs

def nodupNat : List Nat → Bool
  | [] => true
  | x :: xs => !(xs.contains x) && nodupNat xs

def nodupStr : List String → Bool
  | [] => true
  | x :: xs => !(xs.contains x) && nodupStr xs

def Cmd.txT (c : Cmd) : List TDesc := c.tx.map (·.2)
def Cmd.rxT (c : Cmd) : List TDesc := c.rx.map (·.2)

def rowOk (maxId : Nat) (c : Cmd) : Bool :=
  c.id ≤ maxId && validAll c.txT && validAll c.rxT && greedyLast c.rxT
    && nodupStr (c.tx.map (·.1)) && nodupStr (c.rx.map (·.1))

def tableOk (maxId : Nat) (cs : List Cmd) : Bool :=
  nodupNat (cs.map (·.id)) && nodupStr (cs.map (·.name)) && cs.all (rowOk maxId)

def badRows (maxId : Nat) (cs : List Cmd) : List String :=
  (cs.filter (fun c => !rowOk maxId c)).map (·.name)

def dupIds (cs : List Cmd) : List Nat :=
  let ids := cs.map (·.id)
  (ids.filter (fun i => ids.count i > 1)).eraseDups

end BV.Codec
