/-
`Gateway.reset` / `wait_for_startup_reset` / `reset_received` / `connection_lost` / `eof_received`
(bellows/uart.py) on top of the ASH receiver model, with the asyncio detail that matters here made
explicit: resolving a future only *schedules* its waiters and done-callbacks; they run in the next loop
iteration.  Primitive handlers below are the synchronous parts; `settle` runs what they scheduled.
An event of the model is a *batch* of primitives that land in one loop iteration, followed by `settle`.
-/
import BV.Model.Ash.Receiver
namespace BV.Reset
open BV.Ash BV.Gen.Ash

def q (p : Nat × Nat) : Rat := (p.1 : Rat) / (p.2 : Rat)
def resetTimeoutT : Rat := q resetTimeout

inductive FS | pending | result | exc | cancelled
deriving Repr, DecidableEq

def FS.done : FS → Bool
  | .pending => false
  | _ => true

structure GW where
  ash : Rx := {}
  resetFut : Option FS := none          -- `_reset_future` (the attribute; state of the future it refers to)
  /-- state of the future object the `resetWaiters` are awaiting (the attribute may already be cleared) -/
  waitFut : FS := .pending
  startupFut : Option FS := none        -- `_startup_reset_future`
  resetWaiters : List Nat := []         -- tasks awaiting the reset future; the first one owns the timeout
  startupWaiter : Option Nat := none
  connDonePending : Bool := true        -- `_connection_done_future` present
  deadline : Option Rat := none
  /-- the timeout fired in the iteration in which the future was resolved: the owner still gets TimeoutError -/
  forceTimeout : Bool := false
  now : Rat := 0
deriving Repr, DecidableEq

inductive Res | ok | timeout | connErr | cancelled | ncpFailure
deriving Repr, DecidableEq

inductive Out
  | write (bytes : List UInt8)
  | up (payload : List UInt8)             -- application.frame_received
  | enterFailed (code : Nat)              -- application.enter_failed_state(code)
  | appLost                               -- application.connection_lost(exc)
  | connDone (withExc : Bool)             -- connection-done future resolved
  | resetDone (caller : Nat) (r : Res)
  | startupDone (caller : Nat) (r : Res)
  | invalidState                          -- InvalidStateError escaped connection_lost
  | ncpFailure                            -- NcpFailure escaped frame_received (reply on a closed transport)
deriving Repr, DecidableEq

inductive Prim
  | reset (caller : Nat)                  -- `Gateway.reset()` called
  | waitStartup (caller : Nat)            -- `wait_for_startup_reset()` called
  | frame (f : Frame)                     -- an ASH frame is received
  | lost (withExc : Bool)                 -- `AshProtocol.connection_lost(exc | None)`
  | eof                                   -- `AshProtocol.eof_received()`
  | timer                                 -- the reset timeout fires (clock at the deadline)
deriving Repr

/-- `Gateway.reset_received(code)` -/
def resetReceived (s : GW) (code : Nat) : GW × List Out :=
  if code ≠ resetSoftware then (s, [.enterFailed code])
  else
    match s.resetFut with
    | some .pending => ({ s with resetFut := some .result, waitFut := .result }, [])
    | _ =>
      match s.startupFut with
      | some .pending => ({ s with startupFut := some .result }, [])
      | _ => (s, [])

/-- `Gateway.connection_lost(exc)`: a start-up waiter and a reset waiter that are still pending get the
connection error (resolved ones are left alone), the connection-done future is resolved, the attribute
`_reset_future` is cleared, and the application is told when there was an error -/
def connectionLost (s : GW) (withExc : Bool) : GW × List Out :=
  let s1 : GW := match s.startupFut with
    | some .pending => { s with startupFut := some .exc }
    | _ => s
  let o2 : List Out := if s1.connDonePending then [.connDone withExc] else []
  let s2 : GW := { s1 with connDonePending := false }
  let s3 : GW := match s2.resetFut with
    | some .pending => { s2 with resetFut := none, waitFut := .exc }
    | some _ => { s2 with resetFut := none }
    | none => s2
  (s3, o2 ++ (if withExc then [.appLost] else []))

def prim (s : GW) : Prim → GW × List Out
  | .reset c =>
    match s.resetFut with
    | some _ => ({ s with resetWaiters := s.resetWaiters ++ [c] }, [])
    | none =>
      if s.ash.open_ then
        ({ s with resetFut := some .pending, waitFut := .pending, resetWaiters := [c],
                  deadline := some (s.now + resetTimeoutT), forceTimeout := false },
         [.write (wire [resCancel] .rst)])
      else (s, [.resetDone c .ncpFailure])
  | .waitStartup c => ({ s with startupFut := some .pending, startupWaiter := some c }, [])
  | .frame f =>
    let r := onFrame s.ash f
    r.2.foldl (fun (acc : GW × List Out) e =>
        match e with
        | .write b => (acc.1, acc.2 ++ [.write b])
        | .up p => (acc.1, acc.2 ++ [.up p])
        | .reset code =>
          match f with
          | .error _ _ => (acc.1, acc.2 ++ [.enterFailed code])   -- `Gateway.error_received`
          | _ => let x := resetReceived acc.1 code; (x.1, acc.2 ++ x.2)
        | .raised => (acc.1, acc.2 ++ [.ncpFailure])) ({ s with ash := r.1 }, [])
  | .lost e => connectionLost { s with ash := { s.ash with open_ := false } } e
  | .eof => connectionLost s true
  | .timer =>
    match s.deadline with
    | some d =>
      if s.resetWaiters.isEmpty then ({ s with deadline := none, now := d }, [])
      else if s.waitFut = .pending then
        ({ s with resetFut := s.resetFut.map fun _ => .cancelled, waitFut := .cancelled, deadline := none, now := d }, [])
      else ({ s with deadline := none, now := d, forceTimeout := true }, [])
    | none => (s, [])

/-- what the previous iteration scheduled: waiters of resolved futures resume, the reset future's
done-callback clears `_reset_future`, the start-up waiter's `finally` clears `_startup_reset_future` -/
def settle (s : GW) : GW × List Out :=
  let (s1, o1) :=
    if s.resetWaiters.isEmpty ∨ s.waitFut = .pending then (s, [])
    else
      let r : Nat → Res := fun i => match s.waitFut with
        | .result => if i = 0 ∧ s.forceTimeout then .timeout else .ok
        | .exc => if i = 0 ∧ s.forceTimeout then .timeout else .connErr
        | _ => if i = 0 then .timeout else .cancelled     -- the owner of the timeout vs the joiners
      ({ s with resetFut := none, resetWaiters := [], deadline := none, forceTimeout := false },
       (s.resetWaiters.zipIdx.map fun (c, i) => Out.resetDone c (r i)))
  match s1.startupFut, s1.startupWaiter with
  | some .pending, _ => (s1, o1)
  | some st, some c =>
    ({ s1 with startupFut := none, startupWaiter := none },
     o1 ++ [.startupDone c (match st with | .result => .ok | .exc => .connErr | _ => .cancelled)])
  | _, _ => (s1, o1)

/-- one loop iteration's batch of primitives, then the scheduled wake-ups -/
def step (s : GW) (batch : List Prim) : GW × List Out :=
  let r := batch.foldl (fun (acc : GW × List Out) p => let x := prim acc.1 p; (x.1, acc.2 ++ x.2)) (s, [])
  let t := settle r.1
  (t.1, r.2 ++ t.2)

end BV.Reset
