/-
Failure paths above the gateway: `Gateway.reset_received` / `error_received` / `connection_lost`
→ `EZSP.enter_failed_state` / `EZSP.connection_lost` / `EZSP.close` / `stop_ezsp` / the `_command` gate.
State: the EZSP running flag, the number of registered callbacks (the built-in stack-status callback
counts as one: more than one means an application is attached), whether the gateway is still held.
-/
import BV.Model.Stack.Reset
namespace BV.Fail
open BV.Reset

structure Ez where
  running : Bool := true
  callbacks : Nat := 1
  gwHeld : Bool := true            -- `self._gw is not None`
  transportClosed : Bool := false  -- `Gateway.close()` → `AshProtocol.close()` was called
deriving Repr, DecidableEq

inductive Out
  | resetRequest (reason : String)   -- handle_callback("_reset_controller_application", (error,))
  | closeTransport
  | commandRaised                    -- `_command`: EzspError("EZSP is not running")
  | commandSent
deriving Repr, DecidableEq

/-- `EZSP.close()` -/
def close (s : Ez) : Ez × List Out :=
  if s.gwHeld then ({ s with running := false, gwHeld := false, transportClosed := true }, [.closeTransport])
  else ({ s with running := false }, [])

/-- `EZSP.enter_failed_state(error)` -/
def enterFailed (s : Ez) (reason : String) : Ez × List Out :=
  if s.callbacks > 1 then
    let (s1, o1) := close s
    (s1, o1 ++ [.resetRequest reason])
  else (s, [])

/-- failure events as they reach EZSP from the gateway model's outputs -/
inductive Ev
  | ncpFailure (code : Nat)     -- Gateway → application.enter_failed_state(code): ERROR frame, non-software RSTACK, ACK budget exhausted
  | connectionLost              -- Gateway → application.connection_lost(exc), exc ≠ None
  | closedQuietly               -- Gateway.connection_lost(None): nothing reaches EZSP
  | close                       -- deliberate `EZSP.close()`
  | stop                        -- `stop_ezsp()` (first step of `EZSP.reset()`)
  | command                     -- a new command is issued
deriving Repr, DecidableEq

def step (s : Ez) : Ev → Ez × List Out
  | .ncpFailure code => enterFailed s s!"code {code}"
  | .connectionLost => enterFailed s "Serial connection loss"
  | .closedQuietly => (s, [])
  | .close => close s
  | .stop => ({ s with running := false }, [])
  | .command => if s.running then (s, [.commandSent]) else (s, [.commandRaised])

/-- which outputs of the gateway model are failure notifications towards EZSP -/
def ofGateway : Reset.Out → Option Ev
  | .enterFailed code => some (.ncpFailure code)
  | .appLost => some .connectionLost
  | _ => none

end BV.Fail
