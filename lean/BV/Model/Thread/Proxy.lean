/-
`ThreadsafeProxy.__getattr__` (bellows/thread.py): what happens to a call made through the proxy, as a
decision on the attribute kind and on the situation *at call time* (the loop the caller is running on,
whether the owner's loop is closed).  Where the attribute was looked up plays no role.
-/
namespace BV.Proxy

inductive AttrKind | nonCallable | plain | coroutine
deriving Repr, DecidableEq

structure Ctx where
  callerIsOwnerLoop : Bool      -- `asyncio.get_running_loop() == self._obj_loop` when the wrapper is called
  ownerClosed : Bool            -- `self._obj_loop.is_closed()`
deriving Repr, DecidableEq

inductive Action
  | refuse                -- TypeError at attribute access
  | runHere               -- called directly, the caller gets whatever the method returns
  | drop                  -- owner loop closed: a warning, nothing is executed, returns None at once
  | onOwnerAwait          -- run_coroutine_threadsafe on the owner's loop; the caller awaits result / exception
  | onOwnerQueue          -- call_soon_threadsafe on the owner's loop; the caller gets None
deriving Repr, DecidableEq

def dispatch (k : AttrKind) (c : Ctx) : Action :=
  match k with
  | .nonCallable => .refuse
  | .plain | .coroutine =>
    if c.callerIsOwnerLoop then .runHere
    else if c.ownerClosed then .drop
    else if k = .coroutine then .onOwnerAwait else .onOwnerQueue

/-- what the caller sees, given what the method itself produces -/
inductive Result | value (v : Nat) | raises (e : Nat) | none_ | future (r : Result)
deriving Repr, DecidableEq

/-- outcome of the wrapped body on the owner side for queued plain calls: a returned value is an error
there (the caller has long got None) -/
def queuedBodyOk (returned : Option Nat) : Bool := returned.isNone

/-- the owner's queue: calls handed over by `call_soon_threadsafe` run in hand-over order -/
def enqueue (q : List Nat) (call : Nat) : List Nat := q ++ [call]

end BV.Proxy
