/-
Source-level tie for the EZSP receive path: `ProtocolHandler.__call__` (bellows/ezsp/protocol.py), as generated from the syntax
tree (BV/Gen/SrcProto.lean), over the header parsers generated from EZSPv4 / v5 / v8 and the payload decoder of the codec model.
The case theorems below say what the translated code does for every byte string, by how it classifies under the model's
`rxFrame`; the C08 clauses are then statements about the generated definition.
-/
import BV.Gen.SrcProto
import BV.Proofs.Src.Hdr
namespace BV.Proofs.Src.Proto
open BV.Py BV.Codec BV.Src.Proto BV.Proofs.Src.Hdr

/-- the header parser of the handler's class is the model's `rxHeader`; a frame too short for its header raises -/
theorem frameRx_eq (s : Proto) (d : List UInt8) :
    (∃ r, rxHeader (hdrOf s.version) d = some r ∧ frameRx d s = (.ok r, s)) ∨
    (rxHeader (hdrOf s.version) d = none ∧ ∃ c, frameRx d s = (.error (.raised c), s)) := by
  unfold frameRx
  cases hh : hdrOf s.version with
  | v4 =>
    obtain ⟨h1, -, h3⟩ := v4_rx {} d
    cases hr : rxHeader .v4 d with
    | none => obtain ⟨c, hc⟩ := h3 hr; exact Or.inr ⟨rfl, c, by simp [hc]⟩
    | some r =>
      rw [hr] at h1
      cases he : (BV.Src.HdrV4.frame_rx d {}).1 with
      | error e => rw [he] at h1; simp [Except.toOption] at h1
      | ok x => rw [he] at h1; simp [Except.toOption] at h1; subst h1; exact Or.inl ⟨x, rfl, by simp [he]⟩
  | v5 =>
    obtain ⟨h1, -, h3⟩ := v5_rx {} d
    cases hr : rxHeader .v5 d with
    | none => obtain ⟨c, hc⟩ := h3 hr; exact Or.inr ⟨rfl, c, by simp [hc]⟩
    | some r =>
      rw [hr] at h1
      cases he : (BV.Src.HdrV5.frame_rx d {}).1 with
      | error e => rw [he] at h1; simp [Except.toOption] at h1
      | ok x => rw [he] at h1; simp [Except.toOption] at h1; subst h1; exact Or.inl ⟨x, rfl, by simp [he]⟩
  | v8 =>
    obtain ⟨h1, -, h3⟩ := v8_rx {} d
    cases hr : rxHeader .v8 d with
    | none => obtain ⟨c, hc⟩ := h3 hr; exact Or.inr ⟨rfl, c, by simp [hc]⟩
    | some r =>
      rw [hr] at h1
      cases he : (BV.Src.HdrV8.frame_rx d {}).1 with
      | error e => rw [he] at h1; simp [Except.toOption] at h1
      | ok x => rw [he] at h1; simp [Except.toOption] at h1; subst h1; exact Or.inl ⟨x, rfl, by simp [he]⟩

/-- too short for a header: the call raises, nothing is touched -/
theorem call_short (s : Proto) (d : List UInt8) (h : rxFrame s.version s.cmds d = .short) :
    ∃ c, handler_call d s = (.error (.raised c), s) := by
  unfold rxFrame at h
  rcases frameRx_eq s d with ⟨r, hr, he⟩ | ⟨hr, c, he⟩
  · rw [hr] at h; obtain ⟨sq, id, pl⟩ := r; simp only at h; split at h <;> (try split at h) <;> simp at h
  · exact ⟨c, by simp [handler_call, bind, PyM.bind, he]⟩

/-- what a classification `ok` of the model means in terms of the pieces the source computes -/
theorem rx_ok_parts (v : Nat) (cs : List Cmd) (d : List UInt8) (sq id : Nat) (name : String) (vals : List Val) (tr : List UInt8)
    (h : rxFrame v cs d = .ok sq id name vals tr) :
    ∃ pl c, rxHeader (hdrOf v) d = some (sq, id, pl) ∧ findById cs id = some c ∧ c.name = name ∧
      deFields (pl.length + 1) c.rxT pl = some (vals, tr) := by
  unfold rxFrame at h
  cases hr : rxHeader (hdrOf v) d with
  | none => simp [hr] at h
  | some r =>
    obtain ⟨sq', id', pl⟩ := r
    simp only [hr] at h
    cases hf : findById cs id' with
    | none => simp [hf] at h
    | some c =>
      simp only [hf] at h
      cases hd : deFields (pl.length + 1) c.rxT pl with
      | none => simp [hd] at h
      | some x =>
        obtain ⟨vs, r'⟩ := x
        simp only [hd] at h
        injection h with h1 h2 h3 h4 h5
        subst h1 h2 h3 h4 h5
        exact ⟨pl, c, rfl, hf, rfl, hd⟩

/-- a frame ID the version's table does not have: logged and dropped - no callback, no pending command touched, no exception -/
theorem call_unknown (s : Proto) (d : List UInt8) (id : Nat) (h : rxFrame s.version s.cmds d = .unknown id) :
    handler_call d s = (.ok (), s) := by
  unfold rxFrame at h
  rcases frameRx_eq s d with ⟨r, hr, he⟩ | ⟨hr, c, he⟩
  · obtain ⟨sq, id', pl⟩ := r
    rw [hr] at h
    simp only at h
    cases hf : findById s.cmds id' with
    | none =>
      simp [handler_call, bind, PyM.bind, he, PyM.attempt, cmdById, hf, PyErr.caughtBy, pure, PyM.pure]
    | some c =>
      simp only [hf] at h
      split at h <;> simp at h
  · rw [hr] at h; simp at h

/-- a known frame whose payload does not decode: the call raises (the caller of `__call__`, `EZSP.frame_received`, contains it);
no callback, and the pending table is not touched - the entry is only popped after a successful decode -/
theorem call_undecodable (s : Proto) (d : List UInt8) (name : String) (h : rxFrame s.version s.cmds d = .undecodable name) :
    handler_call d s = (.error (.raised "ValueError"), s) := by
  unfold rxFrame at h
  rcases frameRx_eq s d with ⟨r, hr, he⟩ | ⟨hr, c, he⟩
  · obtain ⟨sq, id', pl⟩ := r
    rw [hr] at h
    simp only at h
    cases hf : findById s.cmds id' with
    | none => simp [hf] at h
    | some c =>
      simp only [hf] at h
      cases hd : deFields (pl.length + 1) c.rxT pl with
      | some x => simp [hd] at h
      | none =>
        have hd' : deFields (pl.length + 1) (List.map (fun x => x.2) c.rx) pl = none := hd
        by_cases hs : schemaIsDict c.rx = true <;>
          simp [handler_call, bind, PyM.bind, he, PyM.attempt, cmdById, hf, hs, PyM.lift, deSchema, hd', PyErr.caughtBy, baseOnly,
            PyM.throw, pure, PyM.pure]
  · rw [hr] at h; simp at h

/-- an unsolicited frame (no call waits under its sequence number): handed to the callback exactly once with the decoded values -/
theorem call_callback (s : Proto) (d : List UInt8) (sq id : Nat) (name : String) (vals : List Val) (tr : List UInt8)
    (h : rxFrame s.version s.cmds d = .ok sq id name vals tr) (hn : s.awaiting.lookup sq = none) :
    handler_call d s = (.ok (), { s with trace := s.trace ++ [.callback name vals] }) := by
  obtain ⟨pl, c, hr, hf, hnm, hd⟩ := rx_ok_parts _ _ _ _ _ _ _ _ h
  rcases frameRx_eq s d with ⟨r, hr', he⟩ | ⟨hr', -⟩
  · rw [hr] at hr'; cases hr'
    have hd' : deFields (pl.length + 1) (List.map (fun x => x.2) c.rx) pl = some (vals, tr) := hd
    subst hnm
    by_cases hs : schemaIsDict c.rx = true <;> by_cases ht : tr.isEmpty = true <;>
      simp [handler_call, bind, PyM.bind, he, PyM.attempt, cmdById, hf, hs, PyM.lift, deSchema, hd', ht, PyM.get, dictGet, hn, pemit,
        PyM.modify, pure, PyM.pure]
  · rw [hr] at hr'; cases hr'

def isPending : Option PFut → Bool
  | some .pending => true
  | _ => false

/-- the state after the pending entry for `sq` was popped -/
def popped (s : Proto) (sq : Nat) : Proto := { s with awaiting := s.awaiting.filter (·.1 != sq) }

macro "call_simp" : tactic => `(tactic|
  simp [isPending, handler_call, bind, PyM.bind, PyM.attempt, cmdById, PyM.lift, deSchema, PyM.get, dictGet, awaitingPop, pfutSet, popped,
    PyErr.caughtBy, baseOnly, PyM.throw, valsHead, pure, PyM.pure, *])

/-- **the reply of a waiting call**: a decodable frame under the call's sequence number *and* with the frame ID the call expects
resolves that call's future with the decoded values, removes the entry, and goes nowhere else -/
theorem call_reply (s : Proto) (d : List UInt8) (sq id fid : Nat) (name : String) (vals : List Val) (tr : List UInt8)
    (h : rxFrame s.version s.cmds d = .ok sq id name vals tr) (hl : s.awaiting.lookup sq = some (id, fid))
    (hname : name ≠ "invalidCommand") (hp : s.futs[fid]? = some .pending) :
    handler_call d s = (.ok (), { popped s sq with futs := s.futs.set fid (.result vals) }) := by
  obtain ⟨pl, c, hr, hf, hnm, hd⟩ := rx_ok_parts _ _ _ _ _ _ _ _ h
  rcases frameRx_eq s d with ⟨r, hr', he⟩ | ⟨hr', -⟩
  · rw [hr] at hr'; cases hr'
    have hd' : deFields (pl.length + 1) (List.map (fun x => x.2) c.rx) pl = some (vals, tr) := hd
    subst hnm
    by_cases hs : schemaIsDict c.rx = true <;> by_cases ht : tr.isEmpty = true <;> call_simp
  · rw [hr] at hr'; cases hr'

/-- a frame under a waiting call's sequence number but with **another frame ID** (and not the invalid-command answer): the entry is
popped, the assertion fails - the future is *not* resolved, no callback is made -/
theorem call_wrong_id (s : Proto) (d : List UInt8) (sq id eid fid : Nat) (name : String) (vals : List Val) (tr : List UInt8)
    (h : rxFrame s.version s.cmds d = .ok sq id name vals tr) (hl : s.awaiting.lookup sq = some (eid, fid))
    (hname : name ≠ "invalidCommand") (hne : eid ≠ id) :
    handler_call d s = (.error (.raised "AssertionError"), popped s sq) := by
  obtain ⟨pl, c, hr, hf, hnm, hd⟩ := rx_ok_parts _ _ _ _ _ _ _ _ h
  rcases frameRx_eq s d with ⟨r, hr', he⟩ | ⟨hr', -⟩
  · rw [hr] at hr'; cases hr'
    have hd' : deFields (pl.length + 1) (List.map (fun x => x.2) c.rx) pl = some (vals, tr) := hd
    subst hnm
    by_cases hs : schemaIsDict c.rx = true <;> by_cases ht : tr.isEmpty = true <;> call_simp
  · rw [hr] at hr'; cases hr'

/-- a reply for a call that is already over (its future cancelled or timed out): swallowed - entry popped, nothing raised, no
callback -/
theorem call_dead (s : Proto) (d : List UInt8) (sq id fid : Nat) (name : String) (vals : List Val) (tr : List UInt8) (f : PFut)
    (h : rxFrame s.version s.cmds d = .ok sq id name vals tr) (hl : s.awaiting.lookup sq = some (id, fid))
    (hname : name ≠ "invalidCommand") (hp : s.futs[fid]? = some f) (hf' : (f == PFut.pending) = false) :
    handler_call d s = (.ok (), popped s sq) := by
  obtain ⟨pl, c, hr, hf, hnm, hd⟩ := rx_ok_parts _ _ _ _ _ _ _ _ h
  rcases frameRx_eq s d with ⟨r, hr', he⟩ | ⟨hr', -⟩
  · rw [hr] at hr'; cases hr'
    have hd' : deFields (pl.length + 1) (List.map (fun x => x.2) c.rx) pl = some (vals, tr) := hd
    subst hnm
    cases f with
    | pending => exact absurd hf' (by decide)
    | result v => by_cases hs : schemaIsDict c.rx = true <;> by_cases ht : tr.isEmpty = true <;> call_simp
    | invalidCommand => by_cases hs : schemaIsDict c.rx = true <;> by_cases ht : tr.isEmpty = true <;> call_simp
    | finished => by_cases hs : schemaIsDict c.rx = true <;> by_cases ht : tr.isEmpty = true <;> call_simp
  · rw [hr] at hr'; cases hr'

/-- the invalid-command answer under a waiting call's sequence number fails that call with `InvalidCommandError` -/
theorem call_invalid (s : Proto) (d : List UInt8) (sq id eid fid : Nat) (v0 : Val) (vals : List Val) (tr : List UInt8) (ce : Cmd)
    (h : rxFrame s.version s.cmds d = .ok sq id "invalidCommand" (v0 :: vals) tr) (hl : s.awaiting.lookup sq = some (eid, fid))
    (hce : findById s.cmds eid = some ce) (hp : s.futs[fid]? = some .pending) :
    handler_call d s = (.ok (), { popped s sq with futs := s.futs.set fid .invalidCommand }) := by
  obtain ⟨pl, c, hr, hf, hnm, hd⟩ := rx_ok_parts _ _ _ _ _ _ _ _ h
  rcases frameRx_eq s d with ⟨r, hr', he⟩ | ⟨hr', -⟩
  · rw [hr] at hr'; cases hr'
    have hd' : deFields (pl.length + 1) (List.map (fun x => x.2) c.rx) pl = some (v0 :: vals, tr) := hd
    by_cases hs : schemaIsDict c.rx = true <;> by_cases ht : tr.isEmpty = true <;> call_simp
  · rw [hr] at hr'; cases hr'

/-- the futures after any decodable frame: at most the future of the entry under the frame's sequence number changes - to the
decoded values when the frame carries the expected ID, to the invalid-command failure when it is that answer -/
theorem call_ok_futs (s : Proto) (d : List UInt8) (sq id : Nat) (name : String) (vals : List Val) (tr : List UInt8)
    (h : rxFrame s.version s.cmds d = .ok sq id name vals tr) :
    (handler_call d s).2.futs =
      match s.awaiting.lookup sq with
      | none => s.futs
      | some (eid, fid) =>
        if name = "invalidCommand" then
          (if (findById s.cmds eid).isSome && !vals.isEmpty && isPending s.futs[fid]? then s.futs.set fid .invalidCommand
           else s.futs)
        else if eid == id && isPending s.futs[fid]? then s.futs.set fid (.result vals) else s.futs := by
  obtain ⟨pl, c, hr, hf, hnm, hd⟩ := rx_ok_parts _ _ _ _ _ _ _ _ h
  rcases frameRx_eq s d with ⟨r, hr', he⟩ | ⟨hr', -⟩
  · rw [hr] at hr'; cases hr'
    have hd' : deFields (pl.length + 1) (List.map (fun x => x.2) c.rx) pl = some (vals, tr) := hd
    subst hnm
    cases hl : s.awaiting.lookup sq with
    | none => rw [call_callback s d sq id c.name vals tr h hl]
    | some e =>
      obtain ⟨eid, fid⟩ := e
      simp only
      by_cases hname : c.name = "invalidCommand"
      · simp only [hname, ↓reduceIte]
        cases hce : findById s.cmds eid with
        | none =>
          by_cases hs : schemaIsDict c.rx = true <;> by_cases ht : tr.isEmpty = true <;> call_simp
        | some ce =>
          cases vals with
          | nil => by_cases hs : schemaIsDict c.rx = true <;> by_cases ht : tr.isEmpty = true <;> call_simp
          | cons v0 vs =>
            cases hfu : s.futs[fid]? with
            | none => by_cases hs : schemaIsDict c.rx = true <;> by_cases ht : tr.isEmpty = true <;> call_simp
            | some f =>
              cases f <;> by_cases hs : schemaIsDict c.rx = true <;> by_cases ht : tr.isEmpty = true <;> call_simp
      · simp only [hname, ↓reduceIte]
        by_cases hid : eid = id
        · subst hid
          cases hfu : s.futs[fid]? with
          | none => by_cases hs : schemaIsDict c.rx = true <;> by_cases ht : tr.isEmpty = true <;> call_simp
          | some f =>
            cases f <;> by_cases hs : schemaIsDict c.rx = true <;> by_cases ht : tr.isEmpty = true <;> call_simp
        · rw [call_wrong_id s d sq id eid fid c.name vals tr h hl hname hid]
          simp [popped, hid]
  · rw [hr] at hr'; cases hr'

/-- callbacks after any decodable frame: exactly one, with the frame's name and values, iff no entry waits under its sequence
number; none otherwise -/
theorem call_ok_trace (s : Proto) (d : List UInt8) (sq id : Nat) (name : String) (vals : List Val) (tr : List UInt8)
    (h : rxFrame s.version s.cmds d = .ok sq id name vals tr) :
    (handler_call d s).2.trace = if (s.awaiting.lookup sq).isNone then s.trace ++ [.callback name vals] else s.trace := by
  obtain ⟨pl, c, hr, hf, hnm, hd⟩ := rx_ok_parts _ _ _ _ _ _ _ _ h
  rcases frameRx_eq s d with ⟨r, hr', he⟩ | ⟨hr', -⟩
  · rw [hr] at hr'; cases hr'
    have hd' : deFields (pl.length + 1) (List.map (fun x => x.2) c.rx) pl = some (vals, tr) := hd
    subst hnm
    cases hl : s.awaiting.lookup sq with
    | none => rw [call_callback s d sq id c.name vals tr h hl]; simp
    | some e =>
      obtain ⟨eid, fid⟩ := e
      simp only [Option.isNone_some, Bool.false_eq_true, ↓reduceIte]
      by_cases hname : c.name = "invalidCommand"
      · cases hce : findById s.cmds eid with
        | none => by_cases hs : schemaIsDict c.rx = true <;> by_cases ht : tr.isEmpty = true <;> call_simp
        | some ce =>
          cases vals with
          | nil => by_cases hs : schemaIsDict c.rx = true <;> by_cases ht : tr.isEmpty = true <;> call_simp
          | cons v0 vs =>
            cases hfu : s.futs[fid]? with
            | none => by_cases hs : schemaIsDict c.rx = true <;> by_cases ht : tr.isEmpty = true <;> call_simp
            | some f => cases f <;> by_cases hs : schemaIsDict c.rx = true <;> by_cases ht : tr.isEmpty = true <;> call_simp
      · by_cases hid : eid = id
        · subst hid
          cases hfu : s.futs[fid]? with
          | none => by_cases hs : schemaIsDict c.rx = true <;> by_cases ht : tr.isEmpty = true <;> call_simp
          | some f => cases f <;> by_cases hs : schemaIsDict c.rx = true <;> by_cases ht : tr.isEmpty = true <;> call_simp
        · rw [call_wrong_id s d sq id eid fid c.name vals tr h hl hname hid]; rfl
  · rw [hr] at hr'; cases hr'

end BV.Proofs.Src.Proto
