/-
Source-level tie for the synchronous half of bellows/uart.py: `Gateway.reset_received`, `error_received`,
`connection_lost`, `eof_received`, `_reset_cleanup`, `data_received`, `close`, `connection_made`, as generated from
the syntax tree (BV/Gen/SrcUart.lean), are proved to be the primitives `resetReceived` / `connectionLost` of the
hand-written reset model `BV.Reset` that the C10/C11 theorems are about.

The generated code keeps futures in a heap (`futs`, attributes hold ids); the model keeps the state of the future
inline in `resetFut` / `startupFut` and, separately, the state of the future *object* the reset waiters hold
(`waitFut`) because `_reset_future` may be cleared while the waiters still hold the object.  `Rel` is the
abstraction, `WF` the heap invariant (ids valid and pairwise distinct; the connection-done future, which only
`connection_lost` ever resolves, is pending while the attribute holds it).
-/
import BV.Gen.SrcUart
import BV.Model.Stack.Reset
namespace BV.Proofs.Src.Uart
open BV.Py BV.Src.Uart BV.Reset

def absF : GFut → FS
  | .pending => .pending
  | .result => .result
  | .resultExc _ => .result
  | .exc _ => .exc
  | .cancelled => .cancelled

theorem absF_done (f : GFut) : (absF f).done = f.done := by cases f <;> rfl

/-- heap cell `i` (a dangling id reads as pending; `WF` excludes dangling ids) -/
def fget (futs : List GFut) (i : Nat) : GFut := (futs[i]?).getD .pending

/-- state of the future an attribute refers to -/
def cell (futs : List GFut) : Option Nat → Option FS
  | none => none
  | some i => some (absF (fget futs i))

/-- heap invariant of a gateway object -/
structure WF (g : Gateway) : Prop where
  rv : ∀ i, g.reset_future = some i → i < g.futs.length
  sv : ∀ i, g.startup_reset_future = some i → i < g.futs.length
  cv : ∀ i, g.connection_done_future = some i → g.futs[i]? = some .pending
  rs : ∀ i j, g.reset_future = some i → g.startup_reset_future = some j → i ≠ j
  rc : ∀ i j, g.reset_future = some i → g.connection_done_future = some j → i ≠ j
  sc : ∀ i j, g.startup_reset_future = some i → g.connection_done_future = some j → i ≠ j

/-- the model state `s` describes the gateway object `g` -/
structure Rel (g : Gateway) (s : GW) : Prop where
  r : s.resetFut = cell g.futs g.reset_future
  st : s.startupFut = cell g.futs g.startup_reset_future
  c : s.connDonePending = g.connection_done_future.isSome
  w : ∀ i, g.reset_future = some i → s.waitFut = absF (fget g.futs i)

/-- the model's outputs of the synchronous handlers as the calls the source makes on the application -/
def evOf (exc : Option ExcVal) : Out → List GEv
  | .enterFailed c => [.appEnterFailed c]
  | .appLost => [.appConnectionLost exc]
  | _ => []

theorem getD_of_lt (futs : List GFut) (i : Nat) (h : i < futs.length) : futs[i]? = some (fget futs i) := by
  simp [fget, List.getElem?_eq_getElem h]

theorem getD_set_self (futs : List GFut) (i : Nat) (v : GFut) (h : i < futs.length) :
    fget (futs.set i v) i = v := by
  simp [fget, List.getElem?_set, h]

theorem getD_set_ne (futs : List GFut) (i j : Nat) (v : GFut) (h : i ≠ j) :
    fget (futs.set i v) j = fget futs j := by
  simp [fget, List.getElem?_set, h]

/-- `Gateway.error_received`: the application is told, nothing else -/
theorem error_received_eq (g : Gateway) (code : Nat) :
    Gateway.error_received code g = (.ok (), { g with trace := g.trace ++ [.appEnterFailed code] }) := by
  simp [Gateway.error_received, bind, PyM.bind, gemit, PyM.modify, pure, PyM.pure]

/-- `Gateway.data_received`: the payload goes to the application -/
theorem data_received_eq (g : Gateway) (d : List UInt8) :
    Gateway.data_received d g = (.ok (), { g with trace := g.trace ++ [.appFrame d] }) := by
  simp [Gateway.data_received, bind, PyM.bind, gemit, PyM.modify, pure, PyM.pure]

/-- `Gateway._reset_cleanup` (the reset future's done-callback) clears the attribute and nothing else -/
theorem reset_cleanup_eq (g : Gateway) (f : Nat) :
    Gateway.u_reset_cleanup f g = (.ok (), { g with reset_future := none }) := by
  simp [Gateway.u_reset_cleanup, bind, PyM.bind, PyM.modify, pure, PyM.pure]

/-- **`Gateway.reset_received` is the model's `resetReceived`**: it never raises, the futures afterwards are the
model's, and the calls on the application are the model's outputs -/
theorem reset_received_eq (g : Gateway) (s : GW) (code : Nat) (hw : WF g) (hr : Rel g s) :
    ∃ g', Gateway.reset_received code g = (.ok (), g') ∧ WF g' ∧ Rel g' (resetReceived s code).1 ∧
      g'.trace = g.trace ++ ((resetReceived s code).2.flatMap (evOf none)) ∧
      g'.reset_future = g.reset_future ∧ g'.startup_reset_future = g.startup_reset_future ∧
      g'.connection_done_future = g.connection_done_future ∧ g'.transport = g.transport := by
  obtain ⟨rf, sf, cf, cdf, tr, futs, trace, cl, sc⟩ := g
  obtain ⟨hrv, hsv, hcv, hrs, hrc, hsc⟩ := hw
  obtain ⟨h1, h2, h3, h4⟩ := hr
  simp only at hrv hsv hcv hrs hrc hsc h1 h2 h3 h4
  by_cases hc : code = BV.Gen.Ash.resetSoftware
  · -- the software-reset acknowledgement
    have hrs11 : BV.Gen.Ash.resetSoftware = 11 := by decide
    have hc' : code = 11 := by rw [hc]; decide
    subst hc'
    cases rf with
    | none =>
      cases sf with
      | none =>
        refine ⟨_, ?_, ⟨hrv, hsv, hcv, hrs, hrc, hsc⟩, ?_, ?_, rfl, rfl, rfl, rfl⟩
        · simp [Gateway.reset_received, bind, PyM.bind, PyM.get, pure, PyM.pure]
        · simp only [cell] at h1 h2
          refine ⟨?_, ?_, ?_, ?_⟩ <;> simp [resetReceived, hrs11, h1, h2, cell, h3]
        · simp only [cell] at h1 h2
          simp [resetReceived, hrs11, h1, h2]
      | some j =>
        have hj := hsv j rfl
        have hgj := getD_of_lt futs j hj
        simp only [cell] at h1 h2
        generalize hfj : fget futs j = fj at *
        cases fj with
        | pending =>
          refine ⟨{ reset_future := none, startup_reset_future := some j, connected_future := cf,
                    connection_done_future := cdf, transport := tr, futs := futs.set j .result, trace := trace, cleanups := cl, script := sc },
            ?_, ?_, ?_, ?_, rfl, rfl, rfl, rfl⟩
          · simp [Gateway.reset_received, bind, PyM.bind, PyM.get, pure, PyM.pure, gfutDone, gfutSet, hgj, GFut.done]
          · refine ⟨by simp, ?_, ?_, by simp, by simp, hsc⟩
            · intro i hi; simp at hi; subst hi; simpa using hj
            · intro i hi
              have := hcv i hi
              have hne : j ≠ i := hsc j i rfl hi
              simp [List.getElem?_set, hne, this]
          · refine ⟨?_, ?_, ?_, ?_⟩
            · simp [resetReceived, hrs11, h1, h2, absF, cell]
            · simp [resetReceived, hrs11, h1, h2, absF, cell, getD_set_self futs j .result hj]
            · simp [resetReceived, hrs11, h1, h2, absF, h3]
            · intro i hi; simp at hi
          · simp [resetReceived, hrs11, h1, h2, absF]
        | result =>
          refine ⟨_, ?_, ⟨hrv, hsv, hcv, hrs, hrc, hsc⟩, ?_, ?_, rfl, rfl, rfl, rfl⟩
          · simp [Gateway.reset_received, bind, PyM.bind, PyM.get, pure, PyM.pure, gfutDone, hgj, GFut.done]
          · refine ⟨?_, ?_, ?_, ?_⟩ <;> simp [resetReceived, hrs11, h1, h2, absF, cell, hfj, h3]
          · simp [resetReceived, hrs11, h1, h2, absF]
        | resultExc e =>
          refine ⟨_, ?_, ⟨hrv, hsv, hcv, hrs, hrc, hsc⟩, ?_, ?_, rfl, rfl, rfl, rfl⟩
          · simp [Gateway.reset_received, bind, PyM.bind, PyM.get, pure, PyM.pure, gfutDone, hgj, GFut.done]
          · refine ⟨?_, ?_, ?_, ?_⟩ <;> simp [resetReceived, hrs11, h1, h2, absF, cell, hfj, h3]
          · simp [resetReceived, hrs11, h1, h2, absF]
        | exc e =>
          refine ⟨_, ?_, ⟨hrv, hsv, hcv, hrs, hrc, hsc⟩, ?_, ?_, rfl, rfl, rfl, rfl⟩
          · simp [Gateway.reset_received, bind, PyM.bind, PyM.get, pure, PyM.pure, gfutDone, hgj, GFut.done]
          · refine ⟨?_, ?_, ?_, ?_⟩ <;> simp [resetReceived, hrs11, h1, h2, absF, cell, hfj, h3]
          · simp [resetReceived, hrs11, h1, h2, absF]
        | cancelled =>
          refine ⟨_, ?_, ⟨hrv, hsv, hcv, hrs, hrc, hsc⟩, ?_, ?_, rfl, rfl, rfl, rfl⟩
          · simp [Gateway.reset_received, bind, PyM.bind, PyM.get, pure, PyM.pure, gfutDone, hgj, GFut.done]
          · refine ⟨?_, ?_, ?_, ?_⟩ <;> simp [resetReceived, hrs11, h1, h2, absF, cell, hfj, h3]
          · simp [resetReceived, hrs11, h1, h2, absF]
    | some i =>
      have hi := hrv i rfl
      have hgi := getD_of_lt futs i hi
      have hwi := h4 i rfl
      simp only [cell] at h1 h2
      generalize hfi : fget futs i = fi at *
      cases fi with
      | pending =>
        refine ⟨{ reset_future := some i, startup_reset_future := sf, connected_future := cf,
                  connection_done_future := cdf, transport := tr, futs := futs.set i .result, trace := trace, cleanups := cl, script := sc },
          ?_, ?_, ?_, ?_, rfl, rfl, rfl, rfl⟩
        · simp [Gateway.reset_received, bind, PyM.bind, PyM.get, pure, PyM.pure, gfutDone, gfutSet, hgi, GFut.done]
        · refine ⟨?_, ?_, ?_, hrs, hrc, hsc⟩
          · intro k hk; simp at hk; subst hk; simpa using hi
          · intro k hk; simpa using hsv k hk
          · intro k hk
            have := hcv k hk
            have hne : i ≠ k := hrc i k rfl hk
            simp [List.getElem?_set, hne, this]
        · refine ⟨?_, ?_, ?_, ?_⟩
          · simp [resetReceived, hrs11, h1, absF, cell, getD_set_self futs i .result hi]
          · cases sf with
            | none => simp [resetReceived, hrs11, h1, h2, absF, cell]
            | some j =>
              have hne : i ≠ j := hrs i j rfl rfl
              simp [resetReceived, hrs11, h1, h2, absF, cell, getD_set_ne futs i j .result hne]
          · simp [resetReceived, hrs11, h1, absF, h3]
          · intro k hk; simp at hk; subst hk
            simp [resetReceived, hrs11, h1, absF, getD_set_self futs i .result hi]
        · simp [resetReceived, hrs11, h1, absF]
      | result | resultExc _ | exc _ | cancelled =>
        -- the reset future is already resolved: the start-up future is looked at next
        all_goals
        cases sf with
        | none =>
          refine ⟨_, ?_, ⟨hrv, hsv, hcv, hrs, hrc, hsc⟩, ?_, ?_, rfl, rfl, rfl, rfl⟩
          · simp [Gateway.reset_received, bind, PyM.bind, PyM.get, pure, PyM.pure, gfutDone, hgi, GFut.done]
          · refine ⟨?_, ?_, ?_, ?_⟩
            · simp [resetReceived, hrs11, h1, h2, absF, cell, hfi]
            · simp [resetReceived, hrs11, h1, h2, absF, cell]
            · simp [resetReceived, hrs11, h1, h2, absF, h3]
            · intro k hk; simp at hk; subst hk; simp [resetReceived, hrs11, h1, h2, absF, hwi, hfi]
          · simp [resetReceived, hrs11, h1, h2, absF]
        | some j =>
          have hj := hsv j rfl
          have hgj := getD_of_lt futs j hj
          have hne : i ≠ j := hrs i j rfl rfl
          simp only at h2
          generalize hfj : fget futs j = fj at *
          cases fj with
          | pending =>
            refine ⟨{ reset_future := some i, startup_reset_future := some j, connected_future := cf,
                      connection_done_future := cdf, transport := tr, futs := futs.set j .result, trace := trace, cleanups := cl, script := sc },
              ?_, ?_, ?_, ?_, rfl, rfl, rfl, rfl⟩
            · simp [Gateway.reset_received, bind, PyM.bind, PyM.get, pure, PyM.pure, gfutDone, gfutSet, hgi, hgj, GFut.done]
            · refine ⟨?_, ?_, ?_, hrs, hrc, hsc⟩
              · intro k hk; simp at hk; subst hk; simpa using hi
              · intro k hk; simp at hk; subst hk; simpa using hj
              · intro k hk
                have := hcv k hk
                have hne' : j ≠ k := hsc j k rfl hk
                simp [List.getElem?_set, hne', this]
            · refine ⟨?_, ?_, ?_, ?_⟩
              · simp [resetReceived, hrs11, h1, h2, absF, cell, getD_set_ne futs j i .result (Ne.symm hne), hfi]
              · simp [resetReceived, hrs11, h1, h2, absF, cell, getD_set_self futs j .result hj]
              · simp [resetReceived, hrs11, h1, h2, absF, h3]
              · intro k hk; simp at hk; subst hk
                simp [resetReceived, hrs11, h1, h2, absF, hwi, getD_set_ne futs j i .result (Ne.symm hne), hfi]
            · simp [resetReceived, hrs11, h1, h2, absF]
          | result | resultExc _ | exc _ | cancelled =>
            all_goals
            refine ⟨_, ?_, ⟨hrv, hsv, hcv, hrs, hrc, hsc⟩, ?_, ?_, rfl, rfl, rfl, rfl⟩
            · simp [Gateway.reset_received, bind, PyM.bind, PyM.get, pure, PyM.pure, gfutDone, hgi, hgj, GFut.done]
            · refine ⟨?_, ?_, ?_, ?_⟩
              · simp [resetReceived, hrs11, h1, h2, absF, cell, hfi]
              · simp [resetReceived, hrs11, h1, h2, absF, cell, hfj]
              · simp [resetReceived, hrs11, h1, h2, absF, h3]
              · intro k hk; simp at hk; subst hk; simp [resetReceived, hrs11, h1, h2, absF, hwi, hfi]
            · simp [resetReceived, hrs11, h1, h2, absF]
  · -- any other code: an NCP failure, no future is touched
    have hc' : code ≠ 11 := by intro h; apply hc; rw [h]; decide
    refine ⟨{ reset_future := rf, startup_reset_future := sf, connected_future := cf, connection_done_future := cdf,
              transport := tr, futs := futs, trace := trace ++ [.appEnterFailed code], cleanups := cl, script := sc }, ?_,
      ⟨hrv, hsv, hcv, hrs, hrc, hsc⟩, ?_, ?_, rfl, rfl, rfl, rfl⟩
    · simp [Gateway.reset_received, hc', bind, PyM.bind, gemit, PyM.modify, pure, PyM.pure]
    · simp only [resetReceived, hc, if_true, ne_eq, not_false_eq_true]
      exact ⟨h1, h2, h3, h4⟩
    · simp [resetReceived, hc, evOf]

theorem WF_iff (g : Gateway) : WF g ↔
    (∀ i, g.reset_future = some i → i < g.futs.length) ∧
    (∀ i, g.startup_reset_future = some i → i < g.futs.length) ∧
    (∀ i, g.connection_done_future = some i → g.futs[i]? = some .pending) ∧
    (∀ i j, g.reset_future = some i → g.startup_reset_future = some j → i ≠ j) ∧
    (∀ i j, g.reset_future = some i → g.connection_done_future = some j → i ≠ j) ∧
    (∀ i j, g.startup_reset_future = some i → g.connection_done_future = some j → i ≠ j) :=
  ⟨fun h => ⟨h.rv, h.sv, h.cv, h.rs, h.rc, h.sc⟩, fun ⟨a, b, c, d, e, f⟩ => ⟨a, b, c, d, e, f⟩⟩

theorem Rel_iff (g : Gateway) (s : GW) : Rel g s ↔
    s.resetFut = cell g.futs g.reset_future ∧ s.startupFut = cell g.futs g.startup_reset_future ∧
    s.connDonePending = g.connection_done_future.isSome ∧
    (∀ i, g.reset_future = some i → s.waitFut = absF (fget g.futs i)) :=
  ⟨fun h => ⟨h.r, h.st, h.c, h.w⟩, fun ⟨a, b, c, d⟩ => ⟨a, b, c, d⟩⟩

theorem fget_set (futs : List GFut) (i k : Nat) (v : GFut) :
    fget (futs.set i v) k = if i = k then (if i < futs.length then v else fget futs k) else fget futs k := by
  unfold fget
  by_cases h : i = k
  · subst h
    by_cases hl : i < futs.length
    · simp [List.getElem?_set, hl]
    · simp [List.getElem?_set, hl]
  · simp [List.getElem?_set, h]

theorem getElem_fget (futs : List GFut) (i : Nat) (h : i < futs.length) : futs[i] = fget futs i := by
  simp [fget, List.getElem?_eq_getElem h]

theorem absF_p : absF .pending = .pending := rfl
theorem absF_r : absF .result = .result := rfl
theorem absF_re (e : Option ExcVal) : absF (.resultExc e) = .result := rfl
theorem absF_e (e : ExcVal) : absF (.exc e) = .exc := rfl
theorem absF_c : absF .cancelled = .cancelled := rfl
theorem done_p : GFut.pending.done = false := rfl

theorem done_of_ne (f : GFut) (h : f ≠ .pending) : f.done = true := by cases f <;> simp_all [GFut.done]

theorem absF_pending (f : GFut) : absF f = .pending ↔ f = .pending := by cases f <;> simp [absF]

/-- the model's `connectionLost` with its pattern matches written as tests for "still pending" -/
theorem connectionLost_if (s : GW) (withExc : Bool) : connectionLost s withExc =
    (let s1 : GW := if s.startupFut = some .pending then { s with startupFut := some .exc } else s
     let s2 : GW := { s1 with connDonePending := false }
     let s3 : GW := if s2.resetFut = some .pending then { s2 with resetFut := none, waitFut := .exc }
                    else { s2 with resetFut := none }
     (s3, (if s.connDonePending then [.connDone withExc] else []) ++ (if withExc then [.appLost] else []))) := by
  obtain ⟨ash, rf, wf, sf, rw, sw, cd, dl, ft, now⟩ := s
  rcases sf with _ | (_ | _ | _ | _) <;> rcases rf with _ | (_ | _ | _ | _) <;> simp [connectionLost]

/-- closes one case-split instance of the `connection_lost` statement -/
macro "uart_leaf" : tactic => `(tactic|
  (simp [*, BV.Src.Uart.Gateway.connection_lost, connectionLost_if, bind, PyM.bind, PyM.get, pure, PyM.pure,
     gfutDone, gfutSet, gemit, PyM.modify, done_p, absF_p, absF_r, absF_re, absF_e, absF_c, absF_pending, cell, fget_set, evOf, List.getElem?_set, WF_iff, Rel_iff]))

/-- **`Gateway.connection_lost` is the model's `connectionLost`**: it never raises (`c11_connection_lost_never_raises`
at source level), pending waiters get the connection error, resolved ones are left alone, the connection-done future
is resolved with the reason, both attributes are cleared, and the application is told exactly when there was an error -/
theorem connection_lost_eq (g : Gateway) (s : GW) (exc : Option ExcVal) (hw : WF g) (hr : Rel g s) :
    (Gateway.connection_lost exc g).1 = .ok () ∧
    WF (Gateway.connection_lost exc g).2 ∧
    Rel (Gateway.connection_lost exc g).2 (connectionLost s exc.isSome).1 ∧
    (Gateway.connection_lost exc g).2.trace = g.trace ++ ((connectionLost s exc.isSome).2.flatMap (evOf exc)) ∧
    (Gateway.connection_lost exc g).2.reset_future = none ∧
    (Gateway.connection_lost exc g).2.connection_done_future = none ∧
    (Gateway.connection_lost exc g).2.startup_reset_future = g.startup_reset_future ∧
    (∀ i, g.reset_future = some i →
      (connectionLost s exc.isSome).1.waitFut = absF (fget (Gateway.connection_lost exc g).2.futs i)) ∧
    (∀ k, g.connection_done_future = some k → fget (Gateway.connection_lost exc g).2.futs k = .resultExc exc) := by
  obtain ⟨rf, sf, cf, cdf, tr, futs, trace, cl, sc⟩ := g
  rw [WF_iff] at hw
  rw [Rel_iff] at hr
  obtain ⟨hrv, hsv, hcv, hrs, hrc, hsc⟩ := hw
  obtain ⟨h1, h2, h3, h4⟩ := hr
  simp only at hrv hsv hcv hrs hrc hsc h1 h2 h3 h4
  rcases sf with _ | j
  · rcases cdf with _ | k
    · rcases rf with _ | i
      · rcases exc with _ | e <;> uart_leaf
      · have hi := hrv i rfl
        have hgi := getD_of_lt futs i hi
        have hgi' := getElem_fget futs i hi
        have hwi := h4 i rfl
        by_cases hfi : fget futs i = .pending
        · rcases exc with _ | e <;> uart_leaf
        · have hdi := done_of_ne _ hfi
          rcases exc with _ | e <;> uart_leaf
    · have hk := hcv k rfl
      have hkl : k < futs.length := by
        rcases Nat.lt_or_ge k futs.length with h | h
        · exact h
        · simp [List.getElem?_eq_none h] at hk
      have hk' : futs[k] = .pending := by simpa [List.getElem?_eq_getElem hkl] using hk
      have hfk : fget futs k = .pending := by simp [fget, hk]
      rcases rf with _ | i
      · rcases exc with _ | e <;> uart_leaf
      · have hi := hrv i rfl
        have hgi := getD_of_lt futs i hi
        have hgi' := getElem_fget futs i hi
        have hwi := h4 i rfl
        have hik : i ≠ k := hrc i k rfl rfl
        have hki : k ≠ i := Ne.symm hik
        by_cases hfi : fget futs i = .pending
        · rcases exc with _ | e <;> uart_leaf
        · have hdi := done_of_ne _ hfi
          rcases exc with _ | e <;> uart_leaf
  · have hj := hsv j rfl
    have hgj := getD_of_lt futs j hj
    have hgj' := getElem_fget futs j hj
    by_cases hfj : fget futs j = .pending
    · rcases cdf with _ | k
      · rcases rf with _ | i
        · rcases exc with _ | e <;> uart_leaf
        · have hi := hrv i rfl
          have hgi := getD_of_lt futs i hi
          have hgi' := getElem_fget futs i hi
          have hwi := h4 i rfl
          have hij : i ≠ j := hrs i j rfl rfl
          have hji : j ≠ i := Ne.symm hij
          by_cases hfi : fget futs i = .pending
          · rcases exc with _ | e <;> uart_leaf
          · have hdi := done_of_ne _ hfi
            rcases exc with _ | e <;> uart_leaf
      · have hk := hcv k rfl
        have hkl : k < futs.length := by
          rcases Nat.lt_or_ge k futs.length with h | h
          · exact h
          · simp [List.getElem?_eq_none h] at hk
        have hk' : futs[k] = .pending := by simpa [List.getElem?_eq_getElem hkl] using hk
        have hfk : fget futs k = .pending := by simp [fget, hk]
        have hjk : j ≠ k := hsc j k rfl rfl
        have hkj : k ≠ j := Ne.symm hjk
        rcases rf with _ | i
        · rcases exc with _ | e <;> uart_leaf
        · have hi := hrv i rfl
          have hgi := getD_of_lt futs i hi
          have hgi' := getElem_fget futs i hi
          have hwi := h4 i rfl
          have hij : i ≠ j := hrs i j rfl rfl
          have hji : j ≠ i := Ne.symm hij
          have hik : i ≠ k := hrc i k rfl rfl
          have hki : k ≠ i := Ne.symm hik
          by_cases hfi : fget futs i = .pending
          · rcases exc with _ | e <;> uart_leaf
          · have hdi := done_of_ne _ hfi
            rcases exc with _ | e <;> uart_leaf
    · have hdj := done_of_ne _ hfj
      rcases cdf with _ | k
      · rcases rf with _ | i
        · rcases exc with _ | e <;> uart_leaf
        · have hi := hrv i rfl
          have hgi := getD_of_lt futs i hi
          have hgi' := getElem_fget futs i hi
          have hwi := h4 i rfl
          have hij : i ≠ j := hrs i j rfl rfl
          have hji : j ≠ i := Ne.symm hij
          by_cases hfi : fget futs i = .pending
          · rcases exc with _ | e <;> uart_leaf
          · have hdi := done_of_ne _ hfi
            rcases exc with _ | e <;> uart_leaf
      · have hk := hcv k rfl
        have hkl : k < futs.length := by
          rcases Nat.lt_or_ge k futs.length with h | h
          · exact h
          · simp [List.getElem?_eq_none h] at hk
        have hk' : futs[k] = .pending := by simpa [List.getElem?_eq_getElem hkl] using hk
        have hfk : fget futs k = .pending := by simp [fget, hk]
        have hjk : j ≠ k := hsc j k rfl rfl
        have hkj : k ≠ j := Ne.symm hjk
        rcases rf with _ | i
        · rcases exc with _ | e <;> uart_leaf
        · have hi := hrv i rfl
          have hgi := getD_of_lt futs i hi
          have hgi' := getElem_fget futs i hi
          have hwi := h4 i rfl
          have hij : i ≠ j := hrs i j rfl rfl
          have hji : j ≠ i := Ne.symm hij
          have hik : i ≠ k := hrc i k rfl rfl
          have hki : k ≠ i := Ne.symm hik
          by_cases hfi : fget futs i = .pending
          · rcases exc with _ | e <;> uart_leaf
          · have hdi := done_of_ne _ hfi
            rcases exc with _ | e <;> uart_leaf

/-- `Gateway.eof_received` is `connection_lost` with a `ConnectionResetError` -/
theorem eof_received_eq (g : Gateway) :
    Gateway.eof_received g = Gateway.connection_lost (some .connectionReset) g := by
  simp only [Gateway.eof_received, bind, PyM.bind, pure, PyM.pure]
  rcases h : Gateway.connection_lost (some ExcVal.connectionReset) g with ⟨r, g'⟩
  cases r <;> rfl

/-- `Gateway.close` closes the transport (AttributeError before `connection_made`) and touches nothing else -/
theorem close_eq (g : Gateway) :
    Gateway.close g = match g.transport with
      | some _ => (.ok (), { g with trace := g.trace ++ [.transportClose] })
      | none => (.error (.raised "AttributeError"), g) := by
  obtain ⟨rf, sf, cf, cdf, tr, futs, trace, cl, sc⟩ := g
  cases tr <;> simp [Gateway.close, bind, PyM.bind, pure, PyM.pure, gtransport]

/-- the model state that describes a gateway object -/
def absG (g : Gateway) : GW :=
  { resetFut := cell g.futs g.reset_future, startupFut := cell g.futs g.startup_reset_future,
    connDonePending := g.connection_done_future.isSome,
    waitFut := match g.reset_future with
      | some i => absF (fget g.futs i)
      | none => .pending }

theorem rel_absG (g : Gateway) : Rel g (absG g) :=
  ⟨rfl, rfl, rfl, by intro i h; simp [absG, h]⟩

theorem connectionLost_waitFut (s : GW) (e : Bool) :
    (connectionLost s e).1.waitFut = if s.resetFut = some .pending then .exc else s.waitFut := by
  rw [connectionLost_if]
  by_cases h1 : s.startupFut = some .pending <;> by_cases h2 : s.resetFut = some .pending <;> simp [h1, h2]

theorem connectionLost_startupFut (s : GW) (e : Bool) :
    (connectionLost s e).1.startupFut = if s.startupFut = some .pending then some .exc else s.startupFut := by
  rw [connectionLost_if]
  by_cases h1 : s.startupFut = some .pending <;> by_cases h2 : s.resetFut = some .pending <;> simp [h1, h2]

end BV.Proofs.Src.Uart
