/-
Source-level tie for the receiver half of bellows/ash.py: `AshProtocol.frame_received` and the handlers it
dispatches to (`_handle_ack`, `data_frame_received`, `rstack/ack/nak/rst/error_frame_received`,
`_enter_failed_state`, `_cancel_pending_data_frames`, `_write_frame`), as generated from the syntax tree
(BV/Gen/SrcAsh.lean), are proved equal to the hand-written step function `BV.Ash.onFrame` that the C04
(and, through the bridge lemmas, C01/C02) theorems are about.

The generated code works on the object's fields with the ack futures in a heap (Python shares them by reference);
the model keeps each future's state inline.  `absS` is the abstraction, `WFs` the heap invariant.
-/
import BV.Proofs.Src.Ash
import BV.Model.Ash.Receiver
namespace BV.Proofs.Src.AshRx

theorem handleAck_flag (s : BV.Ash.Rx) (a : Nat) : (BV.Ash.handleAck s a).ackTimeoutReset = s.ackTimeoutReset := by
  unfold BV.Ash.handleAck
  generalize List.range BV.Gen.Ash.txK = l
  induction l generalizing s with
  | nil => simp
  | cons i is ih =>
    simp only [List.foldl_cons]
    split
    · have := ih { s with pending := BV.Ash.setFut s.pending ((a + 8 - (BV.Gen.Ash.txK - i)) % 8) .acked }
      simpa using this
    · exact ih s

open BV.Py BV.Gen.Ash BV.Proofs.Src.Ash
open BV.Src.Ash (Frame FrameCls AshProtocol FutState NcpState emit futDone futSet)

abbrev S := AshProtocol

def isOpen (s : S) : Bool := s.transport == some false

/-- `_write_frame` on a well-formed frame: one write of prefix ++ stuffed bytes ++ suffix, or NcpFailure when the
transport is gone or closing -/
theorem write_frame_eq (s : S) (f : BV.Ash.Frame) (hw : f.WF) (pre suf : List UInt8) :
    BV.Src.Ash.AshProtocol.u_write_frame (ofM f) (pre.map UInt8.toNat) (suf.map UInt8.toNat) s =
      if isOpen s then (.ok (), { s with trace := s.trace ++ [.write (pre ++ BV.Ash.stuff (BV.Ash.encode f) ++ suf)] })
      else (.error (.raised "NcpFailure"), s) := by
  simp only [BV.Src.Ash.AshProtocol.u_write_frame, to_bytes_eq f hw, stuff_eq, bytesOf_toNat, isOpen]
  rcases s with ⟨tr, b, d, p, fu, tx, rx, rc, ns, trace⟩
  rcases tr with _ | c
  · simp [bind, PyM.bind, PyM.get, pure, PyM.pure, PyM.throw]
  · cases c <;>
      simp [bind, PyM.bind, PyM.get, pure, PyM.pure, PyM.throw, PyM.lift, BV.Src.Ash.transportIsClosing, emit, PyM.modify]

/-- what the hand model calls an ack future's state -/
def absFut : FutState → BV.Ash.Fut
  | .pending => .waiting
  | .result => .acked
  | .exc .notAcked => .notAcked
  | .exc (.ncpFailure (some c)) => .ncpFailure c
  | .exc (.ncpFailure none) => .closed
  | .exc .runtimeError => .closed
  | .exc .connectionReset => .closed
  | .exc (.other _) => .closed
  | .cancelled => .closed

theorem absFut_done (f : FutState) : (absFut f).done = f.done := by
  cases f with
  | exc e => cases e with
    | ncpFailure c => cases c <;> rfl
    | _ => rfl
  | _ => rfl

/-- the heap invariant: `_pending_data_frames` has one entry per frame number, every entry refers to its own,
existing future -/
structure WFs (s : S) : Prop where
  keys : (s.pending.map (·.1)).Nodup
  ids : (s.pending.map (·.2)).Nodup
  valid : ∀ p ∈ s.pending, p.2 < s.futs.length

theorem lookup_map_snd {β : Type} (l : List (Nat × Nat)) (g : Nat → β) (n : Nat) :
    (l.map fun p => (p.1, g p.2)).lookup n = (l.lookup n).map g := by
  induction l with
  | nil => rfl
  | cons p ps ih =>
    obtain ⟨k, i⟩ := p
    simp only [List.map_cons, List.lookup_cons]
    cases h : (n == k) <;> simp [ih]

theorem lookup_mem (l : List (Nat × Nat)) (n id : Nat) (h : l.lookup n = some id) : (n, id) ∈ l := by
  induction l with
  | nil => simp at h
  | cons p ps ih =>
    obtain ⟨k, i⟩ := p
    simp only [List.lookup_cons] at h
    split at h
    · rename_i hk
      simp only [beq_iff_eq] at hk
      cases h; subst hk; simp
    · exact List.mem_cons_of_mem _ (ih h)

theorem fst_unique (l : List (Nat × Nat)) (h : (l.map (·.1)).Nodup) (k a b : Nat) (ha : (k, a) ∈ l) (hb : (k, b) ∈ l) :
    a = b := by
  induction l with
  | nil => simp at ha
  | cons p ps ih =>
    simp only [List.map_cons, List.nodup_cons] at h
    simp only [List.mem_cons] at ha hb
    rcases ha with ha | ha <;> rcases hb with hb | hb
    · rw [← ha] at hb; cases hb; rfl
    · exact absurd (List.mem_map.mpr ⟨(k, b), hb, by rw [← ha]⟩) h.1
    · exact absurd (List.mem_map.mpr ⟨(k, a), ha, by rw [← hb]⟩) h.1
    · exact ih h.2 ha hb

theorem snd_unique (l : List (Nat × Nat)) (h : (l.map (·.2)).Nodup) (i a b : Nat) (ha : (a, i) ∈ l) (hb : (b, i) ∈ l) :
    a = b := by
  induction l with
  | nil => simp at ha
  | cons p ps ih =>
    simp only [List.map_cons, List.nodup_cons] at h
    simp only [List.mem_cons] at ha hb
    rcases ha with ha | ha <;> rcases hb with hb | hb
    · rw [← ha] at hb; cases hb; rfl
    · exact absurd (List.mem_map.mpr ⟨(b, i), hb, by rw [← ha]⟩) h.1
    · exact absurd (List.mem_map.mpr ⟨(a, i), ha, by rw [← hb]⟩) h.1
    · exact ih h.2 ha hb

def gOf (futs : List FutState) (id : Nat) : BV.Ash.Fut := absFut (futs.getD id .pending)

def absP (pending : List (Nat × Nat)) (futs : List FutState) : List (Nat × BV.Ash.Fut) :=
  pending.map fun p => (p.1, gOf futs p.2)

theorem absP_lookup (pending : List (Nat × Nat)) (futs : List FutState) (n : Nat) :
    (absP pending futs).lookup n = (pending.lookup n).map (gOf futs) := lookup_map_snd pending (gOf futs) n

theorem gOf_set (futs : List FutState) (id : Nat) (v : FutState) (h : id < futs.length) (i : Nat) :
    gOf (futs.set id v) i = if i = id then absFut v else gOf futs i := by
  unfold gOf
  simp only [List.getD_eq_getElem?_getD, List.getElem?_set]
  by_cases hi : i = id
  · subst hi; simp [h]
  · have : ¬ id = i := fun x => hi x.symm
    simp [hi, this]

/-- setting one future in the heap = the model's `setFut` on the key that owns it -/
theorem absP_set (pending : List (Nat × Nat)) (futs : List FutState) (n id : Nat) (v : FutState)
    (hk : (pending.map (·.1)).Nodup) (hi : (pending.map (·.2)).Nodup) (hv : ∀ p ∈ pending, p.2 < futs.length)
    (hl : pending.lookup n = some id) :
    absP pending (futs.set id v) = BV.Ash.setFut (absP pending futs) n (absFut v) := by
  have hmem := lookup_mem pending n id hl
  have hlt : id < futs.length := hv _ hmem
  simp only [absP, BV.Ash.setFut, List.map_map]
  apply List.map_congr_left
  intro q hq
  obtain ⟨k', i'⟩ := q
  simp only [Function.comp, gOf_set futs id v hlt]
  by_cases hkn : k' = n
  · subst hkn
    have : i' = id := fst_unique pending hk k' i' id hq hmem
    simp [this]
  · have : i' ≠ id := fun h => hkn (snd_unique pending hi id k' n (h ▸ hq) hmem)
    simp [hkn, this]

/-- the model state a source-level state stands for (`flag` = the model's `ackTimeoutReset`) -/
def absS (s : S) (flag : Bool) : BV.Ash.Rx :=
  { rxSeq := s.rx_seq, txSeq := s.tx_seq, failed := s.ncp_state == .FAILED, ackTimeoutReset := flag,
    pending := absP s.pending s.futs, open_ := isOpen s }

/-- source-level environment calls read as the model's events -/
def toMEv : BV.Src.Ash.Ev → Option BV.Ash.Ev
  | .write b => some (.write b)
  | .up p => some (.up p)
  | .reset c => some (.reset c)
  | .error (some c) => some (.reset c)
  | _ => none

def outcome (r : Except PyErr Unit) : List BV.Ash.Ev :=
  match r with
  | .ok _ => []
  | .error _ => [.raised]

/-- the events of a run: what was appended to the trace, then `raised` if NcpFailure escaped -/
def evsOf (s s' : S) (r : Except PyErr Unit) : List BV.Ash.Ev :=
  (s'.trace.drop s.trace.length).filterMap toMEv ++ outcome r

theorem ack_wf (a : Nat) (h : a < 8) : (BV.Ash.Frame.ack false false a).WF := h
theorem nak_wf (a : Nat) (h : a < 8) : (BV.Ash.Frame.nak false false a).WF := h

theorem data_frame_received_eq (s : S) (hrx : s.rx_seq < 8) (n r a : Nat) (p : List UInt8) (flag : Bool) :
    let res := BV.Src.Ash.AshProtocol.data_frame_received (.DataFrame n r a p) s
    let m := BV.Ash.onData (absS s flag) n (r != 0) p
    absS res.2 flag = m.1 ∧ evsOf s res.2 res.1 = m.2 ∧ res.2.futs = s.futs ∧ res.2.pending = s.pending ∧
      (∀ e, res.1 = .error e → e = .raised "NcpFailure") ∧ res.2.rx_seq < 8 ∧ s.trace <+: res.2.trace ∧
      res.2.buffer = s.buffer ∧ res.2.discarding = s.discarding := by
  have hack := fun (t : S) (k : Nat) (hk : k < 8) => write_frame_eq t (.ack false false k) (ack_wf k hk) [] [resFlag]
  have hnak := fun (t : S) (k : Nat) (hk : k < 8) => write_frame_eq t (.nak false false k) (nak_wf k hk) [] [resFlag]
  simp only [ofM, b2n, List.map_nil, List.map_cons, Bool.false_eq_true, ↓reduceIte] at hack hnak
  have e126 : resFlag.toNat = 126 := rfl
  rw [e126] at hack hnak
  rcases s with ⟨tr, b, d, pe, fu, tx, rx, rc, ns, trace⟩
  simp only at hrx
  simp only [BV.Src.Ash.AshProtocol.data_frame_received, BV.Src.Ash.Frame.get_frm_num, BV.Src.Ash.Frame.get_re_tx,
    BV.Src.Ash.Frame.get_ezsp_frame, BV.Ash.onData, BV.Ash.writeFrame, BV.Ash.wire]
  by_cases hn : n = rx
  · subst hn
    have h8 : (n + 1) % 8 < 8 := Nat.mod_lt _ (by decide)
    rcases tr with _ | c
    · simp [bind, PyM.bind, PyM.get, pure, PyM.pure, PyM.lift, PyM.modify, hack _ _ h8, isOpen, absS, evsOf, outcome, h8]
    · cases c <;>
        simp [bind, PyM.bind, PyM.get, pure, PyM.pure, PyM.lift, PyM.modify, hack _ _ h8, isOpen, absS, evsOf, outcome,
          emit, toMEv, h8]
  · by_cases hr : r = 0
    · subst hr
      rcases tr with _ | c
      · simp [hn, bind, PyM.bind, PyM.get, pure, PyM.pure, PyM.lift, hnak _ _ hrx, isOpen, absS, evsOf, outcome, hrx]
      · cases c <;>
          simp [hn, bind, PyM.bind, PyM.get, pure, PyM.pure, PyM.lift, hnak _ _ hrx, isOpen, absS, evsOf, outcome, toMEv, hrx]
    · have hr' : (r != 0) = true := by simpa using hr
      rcases tr with _ | c
      · simp [hn, hr, hr', bind, PyM.bind, PyM.get, pure, PyM.pure, PyM.lift, hack _ _ hrx, isOpen, absS, evsOf, outcome, hrx]
      · cases c <;>
          simp [hn, hr, hr', bind, PyM.bind, PyM.get, pure, PyM.pure, PyM.lift, hack _ _ hrx, isOpen, absS, evsOf, outcome, toMEv, hrx]


theorem ack_index (a : Nat) : ((((Int.ofNat a) + (-(Int.ofNat 1))) % (Int.ofNat 8)).toNat) = (a + 8 - 1) % 8 := by
  simp only [Int.ofNat_eq_natCast]
  omega

theorem txK_one : txK = 1 := by decide

/-- what `_handle_ack` does to the object: the pending future of frame number `n` is completed -/
def ackStep (s : S) (n : Nat) : S :=
  match s.pending.lookup n with
  | some id => if s.futs.getD id .pending = .pending then { s with futs := s.futs.set id .result } else s
  | none => s

theorem handle_ack_run (s : S) (hw : WFs s) (fr : Frame) (a : Nat) (ha : BV.Src.Ash.Frame.get_ack_num fr = .ok a) :
    BV.Src.Ash.AshProtocol.u_handle_ack fr s = (.ok (), ackStep s ((a + 8 - 1) % 8)) := by
  rcases s with ⟨tr, b, d, pe, fu, tx, rx, rc, ns, trace⟩
  have hr : rangeI (-(Int.ofNat 1)) (Int.ofNat 0) = [-(Int.ofNat 1)] := by decide
  simp only [BV.Src.Ash.AshProtocol.u_handle_ack, hr, BV.Py.forM, BV.Src.Ash.AshProtocol.u_handle_ack.loop1, ha, ackStep]
  have hidx : (((a : Int) + -1) % 8).toNat = (a + 7) % 8 := by omega
  have h87 : (a + 8 - 1) % 8 = (a + 7) % 8 := by omega
  rw [h87]
  cases hl : pe.lookup ((a + 7) % 8) with
  | none =>
    simp [bind, PyM.bind, PyM.get, pure, PyM.pure, PyM.lift, LoopRes.noRet, hl, dictGet, hidx]
  | some id =>
    have hmem := lookup_mem pe _ id hl
    have hlt : id < fu.length := hw.valid _ hmem
    have hget : fu[id]? = some (fu[id]'hlt) := List.getElem?_eq_getElem hlt
    cases hf : fu[id]'hlt <;>
      simp [bind, PyM.bind, PyM.get, pure, PyM.pure, PyM.lift, LoopRes.noRet, hl, BV.Src.Ash.optFutDone, futDone, hget, hf,
        FutState.done, dictIndex, futSet, dictGet, hidx]

theorem gOf_waiting (futs : List FutState) (id : Nat) (h : id < futs.length) :
    gOf futs id = .waiting ↔ futs.getD id .pending = .pending := by
  unfold gOf
  generalize futs.getD id .pending = f
  cases f with
  | exc e => cases e with
    | ncpFailure c => cases c <;> simp [absFut]
    | _ => simp [absFut]
  | _ => simp [absFut]

theorem ackStep_abs (s : S) (hw : WFs s) (a : Nat) (flag : Bool) :
    absS (ackStep s ((a + 8 - 1) % 8)) flag = BV.Ash.handleAck (absS s flag) a := by
  rcases s with ⟨tr, b, d, pe, fu, tx, rx, rc, ns, trace⟩
  simp only [BV.Ash.handleAck, txK_one, List.range_one, List.foldl_cons, List.foldl_nil, Nat.sub_zero, absS, absP_lookup, ackStep]
  cases hl : pe.lookup ((a + 8 - 1) % 8) with
  | none => simp [isOpen]
  | some id =>
    have hmem := lookup_mem pe _ id hl
    have hlt : id < fu.length := hw.valid _ hmem
    simp only [Option.map_some]
    by_cases hp : fu.getD id .pending = .pending
    · have hg : gOf fu id = .waiting := (gOf_waiting fu id hlt).mpr hp
      simp only [hp, ↓reduceIte, hg, isOpen]
      congr 1
      exact absP_set pe fu _ id .result hw.keys hw.ids hw.valid hl
    · have hg : gOf fu id ≠ .waiting := fun h => hp ((gOf_waiting fu id hlt).mp h)
      simp only [hp, ↓reduceIte, isOpen]
      cases hgg : gOf fu id <;> simp_all

theorem ackStep_wf (s : S) (hw : WFs s) (n : Nat) : WFs (ackStep s n) := by
  unfold ackStep
  cases hl : s.pending.lookup n with
  | none => exact hw
  | some id =>
    simp only
    split
    · exact ⟨hw.keys, hw.ids, by simpa using hw.valid⟩
    · exact hw

theorem ackStep_fields (s : S) (n : Nat) :
    (ackStep s n).rx_seq = s.rx_seq ∧ (ackStep s n).tx_seq = s.tx_seq ∧ (ackStep s n).trace = s.trace ∧
    (ackStep s n).pending = s.pending ∧ (ackStep s n).transport = s.transport ∧ (ackStep s n).ncp_state = s.ncp_state ∧
    (ackStep s n).futs.length = s.futs.length ∧ (ackStep s n).buffer = s.buffer ∧ (ackStep s n).discarding = s.discarding := by
  unfold ackStep
  cases s.pending.lookup n with
  | none => simp
  | some id => simp only; split <;> simp

/-- `_cancel_pending_data_frames` on the heap: every still-pending future among `ids` gets the value -/
def cancelFuts (futs : List FutState) (ids : List Nat) (v : FutState) : List FutState :=
  ids.foldl (fun fs id => if fs.getD id .pending = .pending then fs.set id v else fs) futs

theorem cancelFuts_length (futs : List FutState) (ids : List Nat) (v : FutState) :
    (cancelFuts futs ids v).length = futs.length := by
  induction ids generalizing futs with
  | nil => rfl
  | cons i is ih =>
    simp only [cancelFuts, List.foldl_cons] at ih ⊢
    split
    · rw [ih]; simp
    · exact ih futs

theorem cancel_loop (exc : ExcVal) (ids : List Nat) (s : S) (hv : ∀ id ∈ ids, id < s.futs.length) :
    BV.Py.forM (BV.Src.Ash.AshProtocol.u_cancel_pending_data_frames.loop1 exc) ids () s =
      (.ok (.done () false), { s with futs := cancelFuts s.futs ids (.exc exc) }) := by
  induction ids generalizing s with
  | nil => simp [BV.Py.forM, cancelFuts, PyM.pure]
  | cons i is ih =>
    have hlt : i < s.futs.length := hv i (by simp)
    have hget : s.futs[i]? = some (s.futs[i]'hlt) := List.getElem?_eq_getElem hlt
    simp only [BV.Py.forM, BV.Src.Ash.AshProtocol.u_cancel_pending_data_frames.loop1, cancelFuts, List.foldl_cons]
    cases hf : s.futs[i]'hlt with
    | pending =>
      have hp : s.futs.getD i .pending = .pending := by simp [List.getD_eq_getElem?_getD, hget, hf]
      have := ih { s with futs := s.futs.set i (.exc exc) } (by
        intro id hid; simp; exact hv id (List.mem_cons_of_mem _ hid))
      simp only [cancelFuts] at this
      simp [bind, PyM.bind, pure, PyM.pure, futDone, hget, hf, FutState.done, futSet, hp, this]
    | _ =>
      have hp : s.futs.getD i .pending ≠ .pending := by simp [List.getD_eq_getElem?_getD, hget, hf]
      have := ih s (fun id hid => hv id (List.mem_cons_of_mem _ hid))
      simp only [cancelFuts] at this
      simp [bind, PyM.bind, pure, PyM.pure, futDone, hget, hf, FutState.done, hp, this]

theorem cancel_run (exc : ExcVal) (s : S) (hw : WFs s) :
    BV.Src.Ash.AshProtocol.u_cancel_pending_data_frames exc s =
      (.ok (), { s with futs := cancelFuts s.futs (s.pending.map (·.2)) (.exc exc) }) := by
  have := cancel_loop exc (s.pending.map (·.2)) s (by
    intro id hid
    obtain ⟨p, hp, rfl⟩ := List.mem_map.mp hid
    exact hw.valid p hp)
  simp [BV.Src.Ash.AshProtocol.u_cancel_pending_data_frames, bind, PyM.bind, PyM.get, this, LoopRes.noRet, pure, PyM.pure]

theorem cancelFuts_get (futs : List FutState) (ids : List Nat) (v : FutState) (hv : v ≠ .pending)
    (hn : ids.Nodup) (hvalid : ∀ id ∈ ids, id < futs.length) (i : Nat) :
    (cancelFuts futs ids v).getD i .pending =
      if i ∈ ids ∧ futs.getD i .pending = .pending then v else futs.getD i .pending := by
  induction ids generalizing futs with
  | nil => simp [cancelFuts]
  | cons j js ih =>
    simp only [List.nodup_cons] at hn
    have hj : j < futs.length := hvalid j (by simp)
    simp only [cancelFuts, List.foldl_cons]
    by_cases hp : futs.getD j .pending = .pending
    · simp only [hp, ↓reduceIte]
      have := ih (futs.set j v) hn.2 (by intro id hid; simp; exact hvalid id (List.mem_cons_of_mem _ hid))
      simp only [cancelFuts] at this
      rw [this]
      by_cases hij : i = j
      · subst hij
        have hp' : futs[i]'hj = .pending := by
          simpa [List.getD_eq_getElem?_getD, List.getElem?_eq_getElem hj] using hp
        simp [hn.1, hp', List.getD_eq_getElem?_getD, List.getElem?_set, hj]
      · have hji : ¬ j = i := fun h => hij h.symm
        simp [hij, hji, List.getD_eq_getElem?_getD, List.getElem?_set]
    · simp only [hp, ↓reduceIte]
      have := ih futs hn.2 (fun id hid => hvalid id (List.mem_cons_of_mem _ hid))
      simp only [cancelFuts] at this
      rw [this]
      by_cases hij : i = j
      · subst hij
        simp only [hn.1, false_and, List.mem_cons, true_or, true_and, ↓reduceIte, hp]
      · simp [hij]

theorem cancel_point (k : Nat) (f : FutState) (exc : ExcVal) :
    (k, absFut (if f = .pending then .exc exc else f)) =
      if (absFut f).done = true then (k, absFut f) else (k, absFut (.exc exc)) := by
  by_cases hp : f = .pending
  · subst hp; simp [absFut, BV.Ash.Fut.done]
  · have hd : (absFut f).done = true := by
      rw [absFut_done]; cases f <;> simp_all [FutState.done]
    simp only [hp, ↓reduceIte, hd]

theorem cancel_abs (s : S) (hw : WFs s) (exc : ExcVal) (flag : Bool) :
    absS { s with futs := cancelFuts s.futs (s.pending.map (·.2)) (.exc exc) } flag =
      BV.Ash.cancelPending (absS s flag) (absFut (.exc exc)) := by
  rcases s with ⟨tr, b, d, pe, fu, tx, rx, rc, ns, trace⟩
  simp only [absS, BV.Ash.cancelPending, isOpen]
  congr 1
  simp only [absP, List.map_map]
  apply List.map_congr_left
  intro q hq
  obtain ⟨k, i⟩ := q
  have hi : i ∈ pe.map (·.2) := List.mem_map.mpr ⟨(k, i), hq, rfl⟩
  have hget := cancelFuts_get fu (pe.map (·.2)) (.exc exc) (by simp) hw.ids (by
    intro id hid
    obtain ⟨p, hp, rfl⟩ := List.mem_map.mp hid
    exact hw.valid p hp) i
  simp only [Function.comp, gOf, hget, hi, true_and]
  exact cancel_point k (fu.getD i .pending) exc

theorem b2n_ne (r : Bool) : (b2n r != 0) = r := by cases r <;> rfl

theorem evsOf_same_trace (s t u : S) (r : Except PyErr Unit) (h : t.trace = s.trace) : evsOf s u r = evsOf t u r := by
  simp [evsOf, h]

/-- **`AshProtocol.frame_received` of the source = the model's `onFrame`**: same new state (sequence numbers, failed flag,
ack futures, transport), same environment calls in the same order, NcpFailure escapes exactly when the model says
`raised`; the heap invariant and `rx_seq < 8` are kept -/
theorem frame_received_eq (s : S) (hw : WFs s) (hrx : s.rx_seq < 8) (f : BV.Ash.Frame) (flag0 : Bool) :
    let res := BV.Src.Ash.AshProtocol.frame_received (ofM f) s
    let m := BV.Ash.onFrame (absS s flag0) f
    absS res.2 m.1.ackTimeoutReset = m.1 ∧ evsOf s res.2 res.1 = m.2 ∧ WFs res.2 ∧ res.2.rx_seq < 8 ∧
      s.trace <+: res.2.trace ∧ res.2.buffer = s.buffer ∧ res.2.discarding = s.discarding := by
  cases f with
  | data n r a p =>
    have hrun := handle_ack_run s hw (ofM (.data n r a p)) a rfl
    obtain ⟨f1, f2, f3, f4, f5, f6, f7, f8, f9⟩ := ackStep_fields s ((a + 8 - 1) % 8)
    have hd := data_frame_received_eq (ackStep s ((a + 8 - 1) % 8)) (by rw [f1]; exact hrx) n (b2n r) a p false
    simp only [b2n_ne] at hd
    obtain ⟨d1, d2, d3, d4, d5, d6, d7, d8, d9⟩ := hd
    have hwf := ackStep_wf s hw ((a + 8 - 1) % 8)
    simp only [ofM] at hrun d1 d2 d3 d4 d5 d6 d7 d8 d9
    have habs : absS (ackStep s ((a + 8 - 1) % 8)) false = BV.Ash.handleAck { absS s flag0 with ackTimeoutReset := false } a := by
      rw [ackStep_abs s hw a false]; rfl
    rw [habs] at d1 d2
    simp only [BV.Src.Ash.AshProtocol.frame_received, ofM, BV.Src.Ash.Frame.cls, decide_true, ↓reduceIte, bind, PyM.bind,
      BV.Ash.onFrame, hrun, pure, PyM.pure]
    generalize hres : BV.Src.Ash.AshProtocol.data_frame_received (Frame.DataFrame n (b2n r) a p) (ackStep s ((a + 8 - 1) % 8)) = res at d1 d2 d3 d4 d5 d6 d7 d8 d9
    obtain ⟨r1, s2⟩ := res
    simp only at d1 d2 d3 d4 d5 d6 d7 d8 d9
    have hwf2 : WFs s2 := ⟨by rw [d4]; exact hwf.keys, by rw [d4]; exact hwf.ids, by rw [d4, d3]; exact hwf.valid⟩
    rw [← d1, ← d2]
    cases r1 <;> exact ⟨rfl, evsOf_same_trace _ _ _ _ f3 |>.symm ▸ rfl, hwf2, d6, f3 ▸ d7, d8.trans f8, d9.trans f9⟩
  | ack res nr a =>
    have hrun := handle_ack_run s hw (ofM (.ack res nr a)) a rfl
    obtain ⟨f1, f2, f3, f4, f5, f6, f7, f8, f9⟩ := ackStep_fields s ((a + 8 - 1) % 8)
    have hwf := ackStep_wf s hw ((a + 8 - 1) % 8)
    simp only [ofM] at hrun
    simp only [BV.Src.Ash.AshProtocol.frame_received, ofM, BV.Src.Ash.Frame.cls, reduceCtorEq, decide_true, decide_false, Bool.false_eq_true,
      ↓reduceIte, bind, PyM.bind, BV.Ash.onFrame, hrun, pure, PyM.pure, BV.Src.Ash.AshProtocol.ack_frame_received]
    have hfl : (BV.Ash.handleAck { absS s flag0 with ackTimeoutReset := false } a).ackTimeoutReset = false :=
      handleAck_flag _ a
    refine ⟨?_, ?_, hwf, by rw [f1]; exact hrx, by rw [f3]; exact List.prefix_refl _, f8, f9⟩
    · rw [hfl, ackStep_abs s hw a false]; rfl
    · simp only [evsOf, f3, List.drop_length, List.filterMap_nil, outcome, List.append_nil]
  | nak res nr a =>
    have hrun := handle_ack_run s hw (ofM (.nak res nr a)) a rfl
    obtain ⟨f1, f2, f3, f4, f5, f6, f7, f8, f9⟩ := ackStep_fields s ((a + 8 - 1) % 8)
    have hwf := ackStep_wf s hw ((a + 8 - 1) % 8)
    have hc := cancel_run .notAcked (ackStep s ((a + 8 - 1) % 8)) hwf
    simp only [ofM] at hrun
    simp only [BV.Src.Ash.AshProtocol.frame_received, ofM, BV.Src.Ash.Frame.cls, reduceCtorEq, decide_true, decide_false, Bool.false_eq_true,
      ↓reduceIte, bind, PyM.bind, BV.Ash.onFrame, hrun, pure, PyM.pure, BV.Src.Ash.AshProtocol.nak_frame_received, hc]
    have hfl : (BV.Ash.handleAck { absS s flag0 with ackTimeoutReset := false } a).ackTimeoutReset = false :=
      handleAck_flag _ a
    refine ⟨?_, ?_, ?_, by rw [f1]; exact hrx, by simp only [f3]; exact List.prefix_refl _, f8, f9⟩
    · have hfl2 : (BV.Ash.cancelPending (BV.Ash.handleAck { absS s flag0 with ackTimeoutReset := false } a)
          BV.Ash.Fut.notAcked).ackTimeoutReset = false := hfl
      rw [hfl2, cancel_abs _ hwf .notAcked false, ackStep_abs s hw a false]
      rfl
    · simp only [evsOf, f3, List.drop_length, List.filterMap_nil, outcome, List.append_nil]
    · exact ⟨hwf.keys, hwf.ids, by
        intro q hq; rw [cancelFuts_length]; exact hwf.valid q hq⟩
  | rst =>
    simp only [BV.Src.Ash.AshProtocol.frame_received, ofM, BV.Src.Ash.Frame.cls, reduceCtorEq, decide_true, decide_false, Bool.false_eq_true,
      ↓reduceIte, bind, PyM.bind, BV.Ash.onFrame, pure, PyM.pure, BV.Src.Ash.AshProtocol.rst_frame_received, PyM.modify]
    exact ⟨by simp [absS, isOpen], by simp [evsOf, outcome], ⟨hw.keys, hw.ids, hw.valid⟩, hrx, List.prefix_refl _, trivial, trivial⟩
  | rstack v c =>
    simp only [BV.Src.Ash.AshProtocol.frame_received, ofM, BV.Src.Ash.Frame.cls, reduceCtorEq, decide_true, decide_false, Bool.false_eq_true,
      ↓reduceIte, bind, PyM.bind, BV.Ash.onFrame, pure, PyM.pure, BV.Src.Ash.AshProtocol.rstack_frame_received, PyM.modify,
      emit, PyM.lift, BV.Src.Ash.Frame.get_reset_code]
    exact ⟨by simp [absS, isOpen], by simp [evsOf, outcome, toMEv, List.filterMap], ⟨hw.keys, hw.ids, hw.valid⟩, by simp, by simp, trivial, trivial⟩
  | error v c =>
    have hw1 : WFs { s with ncp_reset_code := some c.toNat, ncp_state := .FAILED } := ⟨hw.keys, hw.ids, hw.valid⟩
    have hc := cancel_run (.ncpFailure (some c.toNat)) { s with ncp_reset_code := some c.toNat, ncp_state := .FAILED } hw1
    simp only [BV.Src.Ash.AshProtocol.frame_received, ofM, BV.Src.Ash.Frame.cls, reduceCtorEq, decide_true, decide_false, Bool.false_eq_true,
      ↓reduceIte, bind, PyM.bind, BV.Ash.onFrame, pure, PyM.pure, BV.Src.Ash.AshProtocol.error_frame_received, PyM.modify,
      emit, PyM.lift, BV.Src.Ash.Frame.get_reset_code, PyM.get, BV.Src.Ash.AshProtocol.u_enter_failed_state, hc]
    refine ⟨?_, ?_, ?_, hrx, by simp, trivial, trivial⟩
    · have := cancel_abs { s with ncp_reset_code := some c.toNat, ncp_state := .FAILED } hw1 (.ncpFailure (some c.toNat)) false
      have hp := congrArg BV.Ash.Rx.pending this
      simp only [absS, BV.Ash.cancelPending, absFut] at hp ⊢
      rw [hp]
      simp [isOpen]
    · simp [evsOf, outcome, toMEv, List.filterMap]
    · exact ⟨hw.keys, hw.ids, by intro q hq; simp only [cancelFuts_length]; exact hw.valid q hq⟩

/-- environment calls made between two states, read as model events -/
def srcEvs (s s' : S) : List BV.Ash.Ev := (s'.trace.drop s.trace.length).filterMap toMEv

theorem srcEvs_trans (s t u : S) (h1 : s.trace <+: t.trace) (h2 : t.trace <+: u.trace) :
    srcEvs s u = srcEvs s t ++ srcEvs t u := by
  obtain ⟨x, hx⟩ := h1
  obtain ⟨y, hy⟩ := h2
  simp only [srcEvs, ← hy, ← hx, List.append_assoc, List.drop_left, List.filterMap_append]
  rw [← List.append_assoc, List.drop_left]

end BV.Proofs.Src.AshRx
