/-
Source-level tie for the reset handshake: `Gateway.reset` / `Gateway.wait_for_startup_reset` (bellows/uart.py) as generated from
the syntax tree (BV/Gen/SrcUartReset.lean), run against a script of what reaches the gateway while they are suspended - every
input goes through the generated synchronous handlers of BV/Gen/SrcUart.lean.
-/
import BV.Gen.SrcUartReset
import BV.Proofs.Src.Uart
namespace BV.Proofs.Src.UartReset
open BV.Py BV.Src.Uart BV.Src.UartReset BV.Proofs.Src.Uart

/-- the state in which a fresh `reset()` starts to wait: RST handed to the transport, a new pending future in `_reset_future`, its
clean-up armed -/
def requested (g : Gateway) : Gateway :=
  { g with trace := g.trace ++ [.transportSendReset], futs := g.futs ++ [.pending], reset_future := some g.futs.length,
           cleanups := g.cleanups ++ [g.futs.length] }

/-- **a fresh request**: no reset in progress and a transport present - one RST goes out, first; then the bounded wait (5 s) on a
new future -/
theorem reset_fresh (g : Gateway) (hr : g.reset_future = none) (ht : g.transport = some ()) :
    Gateway.reset g = gAwait (some g.futs.length) (some 5) (requested g) := by
  simp [Gateway.reset, bind, PyM.bind, PyM.get, hr, gtransport, ht, gNewFut, PyM.modify, gArmCleanup, requested, pure, PyM.pure]

/-- **a request while one is in progress** sends nothing and waits - without a deadline of its own - on the future of the request
in progress -/
theorem reset_in_progress (g : Gateway) (f : Nat) (hr : g.reset_future = some f) :
    Gateway.reset g = gAwait (some f) none g := by
  simp [Gateway.reset, bind, PyM.bind, PyM.get, hr, pure, PyM.pure]

/-- a gateway whose futures are where its attributes say (no attribute points outside the heap) -/
def Sane (g : Gateway) : Prop :=
  (∀ j, g.startup_reset_future = some j → j < g.futs.length) ∧ (∀ j, g.connection_done_future = some j → j < g.futs.length) ∧
  (∀ c ∈ g.cleanups, c < g.futs.length ∧ (g.futs[c]?.map GFut.done) = some false)

/-- **nothing arrives**: the request times out after its deadline; its future is cancelled, the clean-up has run - `_reset_future`
is clear again, so the next `reset()` is a fresh request that sends RST again -/
theorem reset_timeout (g : Gateway) (rest : List GWait) (hr : g.reset_future = none) (ht : g.transport = some ())
    (hs : g.script = ⟨[], .deadline⟩ :: rest) (hc : g.cleanups = []) :
    Gateway.reset g = (.error (.raised "TimeoutError"),
      { requested g with script := rest, futs := g.futs ++ [.cancelled], reset_future := none, cleanups := [] }) := by
  rw [reset_fresh g hr ht]
  simp [gAwait, bind, PyM.bind, PyM.get, PyM.set, requested, hs, hc, gFutDone, gRounds, pure, PyM.pure, GFut.done, gRunCleanups, gEach,
    Gateway.u_reset_cleanup, PyM.modify, PyM.throw]

/-- **the acknowledgement**: RSTACK with the software-reset code in the first iteration of the wait completes the request: it
returns, the application is told nothing, the clean-up has run before the caller goes on -/
theorem reset_ack (g : Gateway) (more : List (List GIn)) (fin : GEnd) (rest : List GWait) (hr : g.reset_future = none)
    (ht : g.transport = some ()) (hs : g.script = ⟨[.rstack 11] :: more, fin⟩ :: rest) (hc : g.cleanups = []) :
    Gateway.reset g = (.ok true,
      { requested g with script := rest, futs := g.futs ++ [.result], reset_future := none, cleanups := [] }) := by
  rw [reset_fresh g hr ht]
  simp [gAwait, bind, PyM.bind, PyM.get, PyM.set, requested, hs, hc, gFutDone, gRounds, gRound, gDeliver, Gateway.reset_received,
    gfutDone, gfutSet, pure, PyM.pure, GFut.done, gRunCleanups, gEach, Gateway.u_reset_cleanup, PyM.modify, PyM.throw]

/-- **any other reset code** is not the acknowledgement: the application is told that the NCP failed with that code, the request
stays pending and times out -/
theorem reset_other_code (g : Gateway) (code : Nat) (rest : List GWait) (hr : g.reset_future = none) (ht : g.transport = some ())
    (hs : g.script = ⟨[[.rstack code]], .deadline⟩ :: rest) (hc : g.cleanups = []) (hcode : code ≠ 11) :
    Gateway.reset g = (.error (.raised "TimeoutError"),
      { requested g with script := rest, futs := g.futs ++ [.cancelled], reset_future := none, cleanups := [],
                         trace := g.trace ++ [.transportSendReset, .appEnterFailed code] }) := by
  rw [reset_fresh g hr ht]
  simp [gAwait, bind, PyM.bind, PyM.get, PyM.set, requested, hs, hc, gFutDone, gRounds, gRound, gDeliver, Gateway.reset_received, hcode,
    gemit, pure, PyM.pure, GFut.done, gRunCleanups, gEach, Gateway.u_reset_cleanup, PyM.modify, PyM.throw]

/-- **the connection is lost while the request waits**: the request fails with the reason, at once -/
theorem reset_lost (g : Gateway) (exc : Option ExcVal) (more : List (List GIn)) (fin : GEnd) (rest : List GWait)
    (hr : g.reset_future = none) (ht : g.transport = some ()) (hsf : g.startup_reset_future = none)
    (hcd : g.connection_done_future = none) (hs : g.script = ⟨[.lost exc] :: more, fin⟩ :: rest) (hc : g.cleanups = []) :
    (Gateway.reset g).1 = .error (.raised (excCls (exc.getD .connectionReset))) ∧ (Gateway.reset g).2.reset_future = none := by
  rw [reset_fresh g hr ht]
  cases exc <;>
  simp [gAwait, bind, PyM.bind, PyM.get, PyM.set, requested, hs, hc, hsf, hcd, gFutDone, gRounds, gRound, gDeliver, Gateway.connection_lost,
    gfutDone, gfutSet, gemit, pure, PyM.pure, GFut.done, gRunCleanups, gEach, Gateway.u_reset_cleanup, PyM.modify, PyM.throw]

/-! ### only the acknowledgement completes a request -/

/-- `set_result` / `set_exception` through an attribute: the heap changes in one cell at most, and only to the value given -/
theorem gfutSet_futs (o : Option Nat) (v : GFut) (s : Gateway) (n : Nat) (hv : v ≠ .result)
    (hn : s.futs[n]? ≠ some .result) : (gfutSet o v s).2.futs[n]? ≠ some .result := by
  cases o with
  | none => exact hn
  | some i =>
    simp only [gfutSet]
    cases hf : s.futs[i]? with
    | none => exact hn
    | some f =>
      cases f <;> try exact hn
      simp only
      rw [List.getElem?_set]
      split
      · split
        · intro h; injection h with h; exact hv h
        · intro h; cases h
      · exact hn

theorem gfutSet_rest (o : Option Nat) (v : GFut) (s : Gateway) :
    (gfutSet o v s).2.reset_future = s.reset_future ∧ (gfutSet o v s).2.startup_reset_future = s.startup_reset_future ∧
    (gfutSet o v s).2.connection_done_future = s.connection_done_future := by
  cases o with
  | none => exact ⟨rfl, rfl, rfl⟩
  | some i =>
    simp only [gfutSet]
    cases hf : s.futs[i]? with
    | none => exact ⟨rfl, rfl, rfl⟩
    | some f => cases f <;> exact ⟨rfl, rfl, rfl⟩

/-- an action never turns cell `n` of the heap into a *result* -/
def Pres {α} (n : Nat) (m : PyM Gateway α) : Prop := ∀ s, s.futs[n]? ≠ some .result → (m s).2.futs[n]? ≠ some .result

theorem pres_pure {α} (n : Nat) (a : α) : Pres n (pure a : PyM Gateway α) := fun _ h => h
theorem pres_throw {α} (n : Nat) (e : PyErr) : Pres n (PyM.throw e : PyM Gateway α) := fun _ h => h
theorem pres_get (n : Nat) : Pres n (PyM.get : PyM Gateway Gateway) := fun _ h => h
theorem pres_bind {α β} (n : Nat) (m : PyM Gateway α) (f : α → PyM Gateway β) (hm : Pres n m) (hf : ∀ a, Pres n (f a)) :
    Pres n (m >>= f) := by
  intro s hs
  have h1 := hm s hs
  show ((PyM.bind m f) s).2.futs[n]? ≠ _
  unfold PyM.bind
  rcases hx : m s with ⟨r, s'⟩
  rw [hx] at h1
  cases r with
  | ok a => exact hf a s' h1
  | error e => exact h1
theorem pres_ite {α} (n : Nat) (c : Prop) [Decidable c] (a b : PyM Gateway α) (ha : Pres n a) (hb : Pres n b) :
    Pres n (if c then a else b) := by split <;> assumption
theorem pres_modify (n : Nat) (f : Gateway → Gateway) (hf : ∀ s, (f s).futs = s.futs) : Pres n (PyM.modify f) := by
  intro s hs; show (f s).futs[n]? ≠ _; rw [hf]; exact hs
theorem pres_gemit (n : Nat) (e : GEv) : Pres n (gemit e) := pres_modify n _ (fun _ => rfl)
theorem pres_gfutDone (n : Nat) (o : Option Nat) : Pres n (gfutDone o) := by
  intro s hs
  cases o with
  | none => exact hs
  | some i => simp only [gfutDone]; cases s.futs[i]? <;> exact hs
theorem pres_gfutSet (n : Nat) (o : Option Nat) (v : GFut) (hv : v ≠ .result) : Pres n (gfutSet o v) :=
  fun s hs => gfutSet_futs o v s n hv hs

macro "pres_step" : tactic => `(tactic| first
  | exact pres_pure _ _
  | exact pres_throw _ _
  | exact pres_get _
  | exact pres_gemit _ _
  | exact pres_gfutDone _ _
  | exact pres_gfutSet _ _ _ (by intro h; cases h)
  | exact pres_modify _ _ (fun _ => rfl)
  | (apply pres_ite)
  | (apply pres_bind)
  | intro _)

/-- losing the connection fails futures, it never resolves one with a result of `True` -/
theorem pres_connection_lost (n : Nat) (exc : Option ExcVal) : Pres n (Gateway.connection_lost exc) := by
  unfold Gateway.connection_lost
  repeat' pres_step

theorem pres_eof (n : Nat) : Pres n Gateway.eof_received := by
  unfold Gateway.eof_received
  apply pres_bind
  · exact pres_connection_lost n _
  · intro _; exact pres_pure _ _

theorem pres_reset_received (n code : Nat) (hc : code ≠ 11) : Pres n (Gateway.reset_received code) := by
  intro s hs
  simp [Gateway.reset_received, hc, bind, PyM.bind, gemit, PyM.modify, pure, PyM.pure]
  exact hs

theorem pres_deliver (n : Nat) (x : GIn) (hx : x ≠ .rstack 11) : Pres n (gDeliver x) := by
  cases x with
  | rstack c => exact pres_reset_received n c (fun h => hx (by rw [h]))
  | error c =>
    intro s hs
    simp [gDeliver, Gateway.error_received, bind, PyM.bind, gemit, PyM.modify, pure, PyM.pure]
    exact hs
  | lost e => exact pres_connection_lost n e
  | eof => exact pres_eof n
  | data d =>
    intro s hs
    simp [gDeliver, Gateway.data_received, bind, PyM.bind, gemit, PyM.modify, pure, PyM.pure]
    exact hs

theorem pres_round (n : Nat) (r : List GIn) (hr : GIn.rstack 11 ∉ r) : Pres n (gRound r) := by
  induction r with
  | nil => exact pres_pure _ _
  | cons x xs ih =>
    unfold gRound
    apply pres_bind
    · exact pres_deliver n x (fun h => hr (by rw [h]; exact List.mem_cons_self))
    · intro _; exact ih (fun h => hr (List.mem_cons_of_mem _ h))

theorem pres_each (n : Nat) (ids : List Nat) : Pres n (gEach ids) := by
  induction ids with
  | nil => exact pres_pure _ _
  | cons i is ih =>
    unfold gEach
    apply pres_bind
    · intro s hs
      simp [Gateway.u_reset_cleanup, bind, PyM.bind, PyM.modify, pure, PyM.pure]
      exact hs
    · intro _; exact ih

theorem pres_cleanups (n : Nat) : Pres n gRunCleanups := by
  intro s hs
  unfold gRunCleanups
  exact pres_each n _ _ hs

theorem pres_rounds (n fid : Nat) (rs : List (List GIn)) (hr : ∀ r ∈ rs, GIn.rstack 11 ∉ r) : Pres n (gRounds fid rs) := by
  induction rs with
  | nil => exact pres_pure _ _
  | cons r rs ih =>
    unfold gRounds
    apply pres_bind
    · exact pres_round n r (hr r List.mem_cons_self)
    · intro _
      apply pres_bind
      · exact pres_cleanups n
      · intro _
        apply pres_bind
        · exact pres_get n
        · intro s
          apply pres_ite
          · exact pres_pure _ _
          · exact ih (fun r' h' => hr r' (List.mem_cons_of_mem _ h'))

/-- **only the software-reset acknowledgement completes a request**: if a fresh `reset()` returns, then one of the inputs that
reached the gateway while it waited was an RSTACK with the software-reset code - whatever else arrived (other reset codes, ERROR
frames, data, a lost connection, EOF), in whatever grouping -/
theorem reset_only_ack (g : Gateway) (b : Bool) (hr : g.reset_future = none) (ht : g.transport = some ())
    (h : (Gateway.reset g).1 = .ok b) :
    ∃ w rest, g.script = w :: rest ∧ ∃ r ∈ w.rounds, GIn.rstack 11 ∈ r := by
  rw [reset_fresh g hr ht] at h
  cases hs : g.script with
  | nil => simp [gAwait, bind, PyM.bind, PyM.get, requested, hs, PyM.throw] at h
  | cons w rest =>
    refine ⟨w, rest, rfl, ?_⟩
    apply Classical.byContradiction
    intro hno
    have hno' : ∀ r ∈ w.rounds, GIn.rstack 11 ∉ r := fun r hr' hm => hno ⟨r, hr', hm⟩
    have hp := pres_rounds g.futs.length g.futs.length w.rounds hno'
      { requested g with script := rest } (by simp [requested])
    have hnd : gFutDone { requested g with script := w :: rest } g.futs.length = false := by simp [gFutDone, requested, GFut.done]
    simp only [gAwait, bind, PyM.bind, PyM.get, PyM.set, requested, hs] at h
    simp only [requested] at hnd hp
    rw [hnd] at h
    simp only [Bool.false_eq_true, ↓reduceIte, bind, PyM.bind, PyM.get] at h
    rcases hx : gRounds g.futs.length w.rounds _ with ⟨r, s'⟩
    rw [hx] at h hp
    cases r with
    | error e => simp at h
    | ok u =>
      simp only at h hp
      cases hf : s'.futs[g.futs.length]? with
      | none => rw [hf] at h; simp [PyM.throw] at h
      | some f =>
        rw [hf] at h hp
        cases f with
        | result => exact hp rfl
        | pending =>
          cases hfin : w.fin <;> rw [hfin] at h <;> simp only [PyM.throw, PyM.set, bind, PyM.bind] at h <;>
            (rcases hy : gRunCleanups _ with ⟨r2, s2⟩; rw [hy] at h; cases r2 <;> simp at h)
        | resultExc e => simp [PyM.throw] at h
        | exc e => simp [PyM.throw] at h
        | cancelled => simp [PyM.throw] at h

end BV.Proofs.Src.UartReset
