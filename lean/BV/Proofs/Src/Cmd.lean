/-
Source-level tie for the EZSP command path: `ProtocolHandler.command`, `_ezsp_frame`, `_get_command_priority`
(bellows/ezsp/protocol.py) as generated from the syntax tree (BV/Gen/SrcCmd.lean), run against an arbitrary script of what the
environment does at its await points (BV/Py/CmdEnv.lean) - the frames received meanwhile go through the generated `__call__`.
-/
import BV.Gen.SrcCmd
import BV.Gen.Priority
import BV.Proofs.Src.ProtoFrame
namespace BV.Proofs.Src.Cmd
open BV.Py BV.Codec BV.Src.Proto BV.Src.Cmd BV.Proofs.Src.Hdr BV.Proofs.Src.Proto

/-! ### dictionaries as association lists -/

theorem lookup_mem {α β} [BEq α] [LawfulBEq α] (l : List (α × β)) (k : α) (v : β) (h : l.lookup k = some v) : (k, v) ∈ l := by
  induction l with
  | nil => simp at h
  | cons x xs ih =>
    obtain ⟨a, b⟩ := x
    by_cases hk : k = a
    · subst hk; simp [List.lookup] at h; subst h; simp
    · have : (k == a) = false := by simpa using hk
      simp [List.lookup, this] at h
      exact List.mem_cons_of_mem _ (ih h)

theorem lookup_none_key {α β} [BEq α] [LawfulBEq α] (l : List (α × β)) (k : α) (h : l.lookup k = none) : ∀ e ∈ l, e.1 ≠ k := by
  induction l with
  | nil => simp
  | cons x xs ih =>
    obtain ⟨a, b⟩ := x
    by_cases hk : k = a
    · subst hk; simp [List.lookup] at h
    · have : (k == a) = false := by simpa using hk
      simp only [List.lookup, this] at h
      intro e he
      rcases List.mem_cons.mp he with rfl | he
      · exact fun h' => hk h'.symm
      · exact ih h e he

/-! ### what one received frame can do -/

/-- no entry of `_awaiting` refers to a future that does not exist -/
def WF (s : Proto) : Prop := ∀ e ∈ s.awaiting, e.2.2 < s.futs.length

/-- one step of the receive path, as far as the command path cares -/
structure Step (s s' : Proto) : Prop where
  version : s'.version = s.version
  cmds : s'.cmds = s.cmds
  seq : s'.seq = s.seq
  script : s'.script = s.script
  protocol : s'.protocol = s.protocol
  futsLen : s'.futs.length = s.futs.length
  awaiting : s'.awaiting = s.awaiting ∨ ∃ sq, s'.awaiting = s.awaiting.filter (·.1 != sq)
  futs : ∀ i, s'.futs[i]? = s.futs[i]? ∨
    (s.futs[i]? = some .pending ∧ ∃ sq eid, s.awaiting.lookup sq = some (eid, i) ∧ s'.awaiting = s.awaiting.filter (·.1 != sq))
  trace : ∃ t, s'.trace = s.trace ++ t ∧ ∀ e ∈ t, ∃ n v, e = .callback n v

theorem Step.refl (s : Proto) : Step s s :=
  ⟨rfl, rfl, rfl, rfl, rfl, rfl, .inl rfl, fun _ => .inl rfl, [], by simp, by simp⟩

theorem Step.wf {s s' : Proto} (h : Step s s') (hw : WF s) : WF s' := by
  intro e he
  rw [h.futsLen]
  rcases h.awaiting with ha | ⟨sq, ha⟩
  · rw [ha] at he; exact hw e he
  · rw [ha] at he; exact hw e (List.mem_filter.mp he).1

/-- **every byte string**: the generated `__call__` makes one `Step` and returns or raises an ordinary exception -/
theorem call_step (s : Proto) (d : List UInt8) (hw : WF s) :
    Step s (handler_call d s).2 ∧
    ((handler_call d s).1 = .ok () ∨ ∃ c, c ∉ baseOnly ∧ (handler_call d s).1 = .error (.raised c)) := by
  cases hc : rxFrame s.version s.cmds d with
  | short =>
    obtain ⟨c, hcl, e⟩ := call_short_cls s d hc
    rw [e]; refine ⟨Step.refl s, .inr ⟨c, ?_, rfl⟩⟩
    simp [shortClasses] at hcl; rcases hcl with rfl | rfl <;> decide
  | unknown id => rw [call_unknown s d id hc]; exact ⟨Step.refl s, .inl rfl⟩
  | undecodable n => rw [call_undecodable s d n hc]; exact ⟨Step.refl s, .inr ⟨_, by decide, rfl⟩⟩
  | ok sq id name vals tr =>
    have hwf : ∀ eid fid, s.awaiting.lookup sq = some (eid, fid) → fid < s.futs.length :=
      fun eid fid hl => hw _ (lookup_mem _ _ _ hl)
    obtain ⟨ha, hv, hcm, hsq, hsc, hpr, hout⟩ := call_ok_frame s d sq id name vals tr hc hwf
    have hf := call_ok_futs s d sq id name vals tr hc
    have ht := call_ok_trace s d sq id name vals tr hc
    refine ⟨⟨hv, hcm, hsq, hsc, hpr, ?_, ?_, ?_, ?_⟩, ?_⟩
    · rw [hf]; split
      · rfl
      · split <;> (try split) <;> simp
    · rw [ha]; split
      · exact .inr ⟨sq, rfl⟩
      · exact .inl rfl
    · intro i
      rw [hf]
      cases hl : s.awaiting.lookup sq with
      | none => exact .inl rfl
      | some e =>
        obtain ⟨eid, fid⟩ := e
        have ha' : (handler_call d s).2.awaiting = s.awaiting.filter (·.1 != sq) := by rw [ha]; simp [hl]
        simp only
        by_cases hi : i = fid
        · subst hi
          by_cases hp : s.futs[i]? = some .pending
          · exact .inr ⟨hp, sq, eid, hl, ha'⟩
          · left
            have : isPending s.futs[i]? = false := by
              cases hx : s.futs[i]? with
              | none => rfl
              | some f => cases f <;> simp_all [isPending]
            simp [this]
        · left
          split <;> (try split) <;> simp [List.getElem?_set, Ne.symm hi]
    · rw [ht]; split
      · exact ⟨[.callback name vals], rfl, by simp⟩
      · exact ⟨[], by simp, by simp⟩
    · rcases hout with h | ⟨c, hcl, h⟩
      · exact .inl h
      · refine .inr ⟨c, ?_, h⟩
        simp [okClasses] at hcl; rcases hcl with rfl | rfl | rfl | rfl <;> decide

/-! ### the guard of `frame_received`, and a run of received frames -/

/-- any number of steps of the receive path -/
structure Steps (s s' : Proto) : Prop where
  version : s'.version = s.version
  cmds : s'.cmds = s.cmds
  seq : s'.seq = s.seq
  script : s'.script = s.script
  protocol : s'.protocol = s.protocol
  futsLen : s'.futs.length = s.futs.length
  sub : ∀ e ∈ s'.awaiting, e ∈ s.awaiting
  stable : ∀ i : Nat, s.futs[i]? ≠ some PFut.pending → s'.futs[i]? = s.futs[i]?
  trace : ∃ t, s'.trace = s.trace ++ t ∧ ∀ e ∈ t, ∃ n v, e = .callback n v

theorem Steps.refl (s : Proto) : Steps s s := ⟨rfl, rfl, rfl, rfl, rfl, rfl, fun _ h => h, fun _ _ => rfl, [], by simp, by simp⟩

theorem Step.steps {s s' : Proto} (h : Step s s') : Steps s s' := by
  refine ⟨h.version, h.cmds, h.seq, h.script, h.protocol, h.futsLen, ?_, ?_, h.trace⟩
  · intro e he
    rcases h.awaiting with ha | ⟨sq, ha⟩
    · rw [ha] at he; exact he
    · rw [ha] at he; exact (List.mem_filter.mp he).1
  · intro i hi
    rcases h.futs i with h1 | ⟨h1, -⟩
    · exact h1
    · exact absurd h1 hi

theorem Steps.trans {a b c : Proto} (h1 : Steps a b) (h2 : Steps b c) : Steps a c := by
  refine ⟨h2.version.trans h1.version, h2.cmds.trans h1.cmds, h2.seq.trans h1.seq, h2.script.trans h1.script,
    h2.protocol.trans h1.protocol, h2.futsLen.trans h1.futsLen, fun e he => h1.sub e (h2.sub e he), ?_, ?_⟩
  · intro i hi
    have hb := h1.stable i hi
    rw [h2.stable i (by rw [hb]; exact hi), hb]
  · obtain ⟨t1, e1, p1⟩ := h1.trace
    obtain ⟨t2, e2, p2⟩ := h2.trace
    refine ⟨t1 ++ t2, by rw [e2, e1, List.append_assoc], ?_⟩
    intro e he
    rcases List.mem_append.mp he with h | h
    · exact p1 e h
    · exact p2 e h

theorem Steps.wf {s s' : Proto} (h : Steps s s') (hw : WF s) : WF s' := by
  intro e he; rw [h.futsLen]; exact hw e (h.sub e he)

/-- a frame the guard does not even hand to the handler: none is configured, or the frame is empty -/
def ignored (s : Proto) (d : List UInt8) : Bool := s.protocol.isNone || d.isEmpty

/-- the generated `EZSP.frame_received` contains whatever the generated `__call__` raises: the frame is processed or ignored, the
caller never sees an exception -/
theorem frameReceived_eq (s : Proto) (d : List UInt8) (hw : WF s) :
    frameReceived d s = (.ok (), if ignored s d then s else (handler_call d s).2) := by
  unfold frameReceived BV.Src.EzspRx.frame_received ignored
  cases hp : s.protocol with
  | none => simp [bind, PyM.bind, PyM.get, hp, pure, PyM.pure]
  | some u =>
    by_cases hd : d.isEmpty = true
    · simp [bind, PyM.bind, PyM.get, hp, hd, pure, PyM.pure]
    · obtain ⟨-, ho⟩ := call_step s d hw
      rcases hx : handler_call d s with ⟨r, s'⟩
      rw [hx] at ho
      rcases ho with h | ⟨c, hc, h⟩
      · simp only at h; subst h
        simp [bind, PyM.bind, PyM.get, hp, hd, PyM.attempt, hx, pure, PyM.pure]
      · simp only at h; subst h
        have : baseOnly.contains c = false := by simpa using hc
        simp [bind, PyM.bind, PyM.get, hp, hd, PyM.attempt, hx, pure, PyM.pure, PyErr.caughtBy, this, hc]

theorem frameReceived_step (s : Proto) (d : List UInt8) (hw : WF s) : Step s (frameReceived d s).2 := by
  rw [frameReceived_eq s d hw]
  by_cases hd : ignored s d = true
  · simp [hd]; exact Step.refl s
  · simp [hd]; exact (call_step s d hw).1

theorem deliverAll_spec (ds : List (List UInt8)) (s : Proto) (hw : WF s) :
    (deliverAll ds s).1 = .ok () ∧ Steps s (deliverAll ds s).2 := by
  induction ds generalizing s with
  | nil => exact ⟨rfl, Steps.refl s⟩
  | cons d ds ih =>
    have h1 := frameReceived_eq s d hw
    have hs := frameReceived_step s d hw
    rcases hx : frameReceived d s with ⟨r, s1⟩
    rw [hx] at h1 hs
    simp only [Prod.mk.injEq] at h1
    obtain ⟨hr, -⟩ := h1
    subst hr
    obtain ⟨i1, i2⟩ := ih s1 (hs.wf hw)
    simp only [deliverAll, bind, PyM.bind, hx]
    exact ⟨i1, hs.steps.trans i2⟩

/-! ### the await points -/

/-- events that are neither an entry into the semaphore nor a release -/
def Quiet (t : List PEv) : Prop := ∀ e ∈ t, e ≠ .release ∧ ∀ p, e ≠ .acquire p

theorem Quiet.nil : Quiet [] := by intro e he; cases he
theorem Quiet.append {a b : List PEv} (ha : Quiet a) (hb : Quiet b) : Quiet (a ++ b) := by
  intro e he
  rcases List.mem_append.mp he with h | h
  · exact ha e h
  · exact hb e h
theorem Quiet.sent (d : List UInt8) : Quiet [.sent d] := by
  intro e he; simp at he; subst he; exact ⟨fun h => (by cases h), fun p h => (by cases h)⟩
theorem Quiet.wait (t : Nat) : Quiet [.wait t] := by
  intro e he; simp at he; subst he; exact ⟨fun h => (by cases h), fun p h => (by cases h)⟩

/-- what the await points leave alone: the table, the counter, the heap's size; entries are only ever removed; the events they add
are not semaphore events -/
structure Keeps (s s' : Proto) : Prop where
  version : s'.version = s.version
  cmds : s'.cmds = s.cmds
  seq : s'.seq = s.seq
  futsLen : s'.futs.length = s.futs.length
  sub : ∀ e ∈ s'.awaiting, e ∈ s.awaiting
  trace : ∃ t, s'.trace = s.trace ++ t ∧ Quiet t

theorem Keeps.refl (s : Proto) : Keeps s s := ⟨rfl, rfl, rfl, rfl, fun _ h => h, [], by simp, Quiet.nil⟩
theorem Keeps.trans {a b c : Proto} (h1 : Keeps a b) (h2 : Keeps b c) : Keeps a c := by
  obtain ⟨t1, e1, q1⟩ := h1.trace
  obtain ⟨t2, e2, q2⟩ := h2.trace
  exact ⟨h2.version.trans h1.version, h2.cmds.trans h1.cmds, h2.seq.trans h1.seq, h2.futsLen.trans h1.futsLen,
   fun e he => h1.sub e (h2.sub e he), t1 ++ t2, by rw [e2, e1, List.append_assoc], q1.append q2⟩
theorem Keeps.wf {s s' : Proto} (h : Keeps s s') (hw : WF s) : WF s' := by
  intro e he; rw [h.futsLen]; exact hw e (h.sub e he)
theorem Steps.keeps {s s' : Proto} (h : Steps s s') : Keeps s s' := by
  obtain ⟨t, e, q⟩ := h.trace
  refine ⟨h.version, h.cmds, h.seq, h.futsLen, h.sub, t, e, ?_⟩
  intro x hx
  obtain ⟨n, v, rfl⟩ := q x hx
  exact ⟨fun h => (by cases h), fun p h => (by cases h)⟩
/-- a change of the script alone -/
theorem Keeps.script (s : Proto) (r : List CResp) : Keeps s { s with script := r } :=
  ⟨rfl, rfl, rfl, rfl, fun _ h => h, [], by simp, Quiet.nil⟩

theorem gwSend_keeps (d : List UInt8) (s : Proto) (hw : WF s) : Keeps s (gwSend d s).2 := by
  unfold gwSend nextResp
  cases hs : s.script with
  | nil => simp [bind, PyM.bind, hs, PyM.throw]; exact Keeps.refl s
  | cons r rest =>
    cases r with
    | acquire g => simp [bind, PyM.bind, hs, PyM.throw]; exact Keeps.script s rest
    | wait f w => simp [bind, PyM.bind, hs, PyM.throw]; exact Keeps.script s rest
    | send frames out =>
      have hw1 : WF { s with script := rest, trace := s.trace ++ [.sent d] } := hw
      obtain ⟨h1, h2⟩ := deliverAll_spec frames _ hw1
      have h0 : Keeps s { s with script := rest, trace := s.trace ++ [.sent d] } :=
        ⟨rfl, rfl, rfl, rfl, fun _ h => h, [.sent d], rfl, Quiet.sent d⟩
      have hk : Keeps s (deliverAll frames { s with script := rest, trace := s.trace ++ [.sent d] }).2 := h0.trans h2.keeps
      rcases hx : deliverAll frames { s with script := rest, trace := s.trace ++ [.sent d] } with ⟨r, s3⟩
      rw [hx] at h1 hk
      simp only at h1; subst h1
      cases out <;> simp [bind, PyM.bind, hs, pemit, PyM.modify, hx, PyM.throw, pure, PyM.pure] <;> exact hk

theorem awaitFuture_keeps (fid t : Nat) (s : Proto) (hw : WF s) : Keeps s (awaitFuture fid t s).2 := by
  unfold awaitFuture nextResp
  cases hs : s.script with
  | nil => simp [bind, PyM.bind, hs, PyM.throw]; exact Keeps.refl s
  | cons r rest =>
    cases r with
    | acquire g => simp [bind, PyM.bind, hs, PyM.throw]; exact Keeps.script s rest
    | send f o => simp [bind, PyM.bind, hs, PyM.throw]; exact Keeps.script s rest
    | wait frames fin =>
      have hw1 : WF { s with script := rest, trace := s.trace ++ [.wait t] } := hw
      obtain ⟨h1, h2⟩ := deliverAll_spec frames _ hw1
      have h0 : Keeps s { s with script := rest, trace := s.trace ++ [.wait t] } :=
        ⟨rfl, rfl, rfl, rfl, fun _ h => h, [.wait t], rfl, Quiet.wait t⟩
      have hk : Keeps s (deliverAll frames { s with script := rest, trace := s.trace ++ [.wait t] }).2 := h0.trans h2.keeps
      rcases hx : deliverAll frames { s with script := rest, trace := s.trace ++ [.wait t] } with ⟨r, s3⟩
      rw [hx] at h1 hk
      simp only at h1; subst h1
      simp only [bind, PyM.bind, hs, pemit, PyM.modify, hx, PyM.get]
      cases hf : s3.futs[fid]? with
      | none => simp [PyM.throw]; exact hk
      | some f =>
        cases f <;> simp [PyM.throw, pure, PyM.pure, PyM.set, bind, PyM.bind] <;> try exact hk
        exact ⟨hk.version, hk.cmds, hk.seq, by simp [hk.futsLen], hk.sub, hk.trace⟩

/-- `send_data` with a fitting script: the bytes are recorded, the frames received meanwhile are processed, the script says how it ends -/
theorem gwSend_run (d : List UInt8) (s : Proto) (frames : List (List UInt8)) (out : Option String) (rest : List CResp)
    (hw : WF s) (hs : s.script = .send frames out :: rest) :
    gwSend d s = ((match out with | none => .ok () | some c => .error (.raised c)),
                  (deliverAll frames { s with script := rest, trace := s.trace ++ [.sent d] }).2) := by
  have hw1 : WF { s with script := rest, trace := s.trace ++ [.sent d] } := hw
  obtain ⟨h1, -⟩ := deliverAll_spec frames _ hw1
  unfold gwSend nextResp
  rcases hx : deliverAll frames { s with script := rest, trace := s.trace ++ [.sent d] } with ⟨r, s3⟩
  rw [hx] at h1
  simp only at h1; subst h1
  cases out <;> simp [bind, PyM.bind, hs, pemit, PyM.modify, hx, PyM.throw, pure, PyM.pure]

/-- how the bounded wait ends, by the state of the call's future after the frames received meanwhile -/
def waitEnd (fid : Nat) (fin : WaitEnd) (s' : Proto) : Except PyErr Vals × Proto :=
  match s'.futs[fid]? with
  | some (.result v) => (.ok v, s')
  | some .invalidCommand => (.error (.raised "InvalidCommandError"), s')
  | some .finished => (.error (.raised "CancelledError"), s')
  | some .pending =>
    (.error (.raised (match fin with | .deadline => "TimeoutError" | .cancelled => "CancelledError")),
     { s' with futs := s'.futs.set fid .finished })
  | none => (.error (.unsupported "dangling future"), s')

theorem awaitFuture_run (fid t : Nat) (s : Proto) (frames : List (List UInt8)) (fin : WaitEnd) (rest : List CResp)
    (hw : WF s) (hs : s.script = .wait frames fin :: rest) :
    awaitFuture fid t s = waitEnd fid fin (deliverAll frames { s with script := rest, trace := s.trace ++ [.wait t] }).2 := by
  have hw1 : WF { s with script := rest, trace := s.trace ++ [.wait t] } := hw
  obtain ⟨h1, -⟩ := deliverAll_spec frames _ hw1
  unfold awaitFuture nextResp waitEnd
  rcases hx : deliverAll frames { s with script := rest, trace := s.trace ++ [.wait t] } with ⟨r, s3⟩
  rw [hx] at h1
  simp only at h1; subst h1
  simp only [bind, PyM.bind, hs, pemit, PyM.modify, hx, PyM.get]
  cases hf : s3.futs[fid]? with
  | none => simp [PyM.throw]
  | some f => cases f <;> cases fin <;> simp [PyM.throw, pure, PyM.pure, PyM.set, bind, PyM.bind]

/-- without a fitting script the awaits end in the model's own error, never in a value -/
theorem gwSend_misfit (d : List UInt8) (s : Proto) (h : ∀ frames out rest, s.script ≠ .send frames out :: rest) :
    ∃ m s', gwSend d s = (.error (.unsupported m), s') := by
  unfold gwSend nextResp
  cases hs : s.script with
  | nil => exact ⟨_, _, by simp [bind, PyM.bind, hs]; exact ⟨rfl, rfl⟩⟩
  | cons r rest =>
    cases r with
    | send f o => exact absurd hs (h f o rest)
    | acquire g => exact ⟨_, _, by simp [bind, PyM.bind, hs, PyM.throw]; exact ⟨rfl, rfl⟩⟩
    | wait f w => exact ⟨_, _, by simp [bind, PyM.bind, hs, PyM.throw]; exact ⟨rfl, rfl⟩⟩

theorem awaitFuture_misfit (fid t : Nat) (s : Proto) (h : ∀ frames fin rest, s.script ≠ .wait frames fin :: rest) :
    ∃ m s', awaitFuture fid t s = (.error (.unsupported m), s') := by
  unfold awaitFuture nextResp
  cases hs : s.script with
  | nil => exact ⟨_, _, by simp [bind, PyM.bind, hs]; exact ⟨rfl, rfl⟩⟩
  | cons r rest =>
    cases r with
    | wait f w => exact absurd hs (h f w rest)
    | acquire g => exact ⟨_, _, by simp [bind, PyM.bind, hs, PyM.throw]; exact ⟨rfl, rfl⟩⟩
    | send f o => exact ⟨_, _, by simp [bind, PyM.bind, hs, PyM.throw]; exact ⟨rfl, rfl⟩⟩

/-! ### which frame resolves a future -/

/-- entries that hold the call's future, or sit under its sequence number, are the call's own entry -/
def Own (s : Proto) (seq cid fid : Nat) : Prop := ∀ e ∈ s.awaiting, (e.2.2 = fid ∨ e.1 = seq) → e = (seq, (cid, fid))

theorem Own.sub {s s' : Proto} {seq cid fid : Nat} (h : Own s seq cid fid) (hs : ∀ e ∈ s'.awaiting, e ∈ s.awaiting) :
    Own s' seq cid fid := fun e he => h e (hs e he)


/-- a pending future survives every frame that does not carry a sequence number it is registered under -/
theorem call_pending_kept (s : Proto) (d : List UInt8) (fid : Nat) (hp : s.futs[fid]? = some .pending)
    (h : ∀ sq id nm v tr, rxFrame s.version s.cmds d = .ok sq id nm v tr → ∀ eid, s.awaiting.lookup sq ≠ some (eid, fid)) :
    (handler_call d s).2.futs[fid]? = some .pending := by
  cases hc : rxFrame s.version s.cmds d with
  | short => obtain ⟨c, e⟩ := call_short s d hc; rw [e]; exact hp
  | unknown id => rw [call_unknown s d id hc]; exact hp
  | undecodable n => rw [call_undecodable s d n hc]; exact hp
  | ok sq id name vals tr =>
    rw [call_ok_futs s d sq id name vals tr hc]
    cases hl : s.awaiting.lookup sq with
    | none => exact hp
    | some e =>
      obtain ⟨eid, fid'⟩ := e
      have hne : fid' ≠ fid := fun hq => h sq id name vals tr hc eid (by rw [hl, hq])
      simp only
      split <;> (try split) <;> simp [List.getElem?_set, hne, hp]

/-- a run of frames none of which decodes with the call's sequence number leaves the call's future pending -/
theorem deliverAll_pending_kept (ds : List (List UInt8)) (s : Proto) (seq cid fid : Nat) (hw : WF s) (ho : Own s seq cid fid)
    (hp : s.futs[fid]? = some .pending)
    (h : ∀ d ∈ ds, ∀ id nm v tr, rxFrame s.version s.cmds d ≠ .ok seq id nm v tr) :
    (deliverAll ds s).2.futs[fid]? = some .pending := by
  induction ds generalizing s with
  | nil => exact hp
  | cons d ds ih =>
    have h1 := frameReceived_eq s d hw
    have hs := frameReceived_step s d hw
    rcases hx : frameReceived d s with ⟨r, s1⟩
    rw [hx] at h1 hs
    simp only [Prod.mk.injEq] at h1
    obtain ⟨hr0, h1⟩ := h1
    subst hr0
    simp only [deliverAll, bind, PyM.bind, hx]
    have hp1 : s1.futs[fid]? = some .pending := by
      rw [h1]
      by_cases hd : ignored s d = true
      · simp [hd]; exact hp
      · simp only [hd, Bool.false_eq_true, ↓reduceIte]
        refine call_pending_kept s d fid hp ?_
        intro sq id nm v tr hc eid hl
        have := ho _ (lookup_mem _ _ _ hl) (.inl rfl)
        simp only [Prod.mk.injEq] at this
        obtain ⟨hsq, -⟩ := this
        subst hsq
        exact h d (List.mem_cons_self) id nm v tr hc
    refine ih s1 (hs.wf hw) (ho.sub hs.steps.sub) hp1 ?_
    intro d' hd' id nm v tr
    rw [hs.version, hs.cmds]
    exact h d' (List.mem_cons_of_mem _ hd') id nm v tr

/-- the frame that resolved it: if a future pending before a run of frames holds values after it, one of the frames decoded - under
the table and version of the run - to exactly these values, with the sequence number and frame ID of the call's own entry -/
theorem deliverAll_flip (ds : List (List UInt8)) (s : Proto) (seq cid fid : Nat) (v : Vals) (hw : WF s) (ho : Own s seq cid fid)
    (hp : s.futs[fid]? = some .pending) (hr : (deliverAll ds s).2.futs[fid]? = some (.result v)) :
    ∃ d ∈ ds, ∃ nm tr, rxFrame s.version s.cmds d = .ok seq cid nm v tr ∧ nm ≠ "invalidCommand" := by
  induction ds generalizing s with
  | nil => simp only [deliverAll, pure, PyM.pure] at hr; rw [hp] at hr; injection hr with h; cases h
  | cons d ds ih =>
    have h1 := frameReceived_eq s d hw
    have hs := frameReceived_step s d hw
    rcases hx : frameReceived d s with ⟨r, s1⟩
    rw [hx] at h1 hs
    simp only [Prod.mk.injEq] at h1
    obtain ⟨hr0, h1⟩ := h1
    subst hr0
    simp only [deliverAll, bind, PyM.bind, hx] at hr
    cases hf1 : s1.futs[fid]? with
    | none =>
      have hfl : s1.futs.length = s.futs.length := hs.futsLen
      have hlt : fid < s.futs.length := by
        rcases Nat.lt_or_ge fid s.futs.length with h | h
        · exact h
        · rw [List.getElem?_eq_none h] at hp; cases hp
      rw [List.getElem?_eq_none_iff] at hf1
      omega
    | some f =>
      cases f with
      | pending =>
        obtain ⟨d', hd', nm, tr, hrx, hnm⟩ := ih s1 (hs.wf hw) (ho.sub hs.steps.sub) hf1 hr
        rw [hs.version, hs.cmds] at hrx
        exact ⟨d', List.mem_cons_of_mem _ hd', nm, tr, hrx, hnm⟩
      | result v' =>
        have hst := (deliverAll_spec ds s1 (hs.wf hw)).2.stable fid (by rw [hf1]; intro h; injection h with h; cases h)
        rw [hst, hf1] at hr
        injection hr with hr; injection hr with hr; subst hr
        by_cases hd : ignored s d = true
        · simp [hd] at h1; subst h1; rw [hp] at hf1; injection hf1 with h; cases h
        · simp only [hd, Bool.false_eq_true, ↓reduceIte] at h1
          subst h1
          obtain ⟨sq, id, nm, tr, hrx, hl, hnm⟩ := result_only_own_reply s d fid v' hp hf1
          have := ho _ (lookup_mem _ _ _ hl) (.inl rfl)
          simp only [Prod.mk.injEq] at this
          obtain ⟨hsq, hid, -⟩ := this
          subst hsq; subst hid
          exact ⟨d, List.mem_cons_self, nm, tr, hrx, hnm⟩
      | invalidCommand =>
        have hst := (deliverAll_spec ds s1 (hs.wf hw)).2.stable fid (by rw [hf1]; intro h; injection h with h; cases h)
        rw [hst, hf1] at hr; injection hr with h; cases h
      | finished =>
        have hst := (deliverAll_spec ds s1 (hs.wf hw)).2.stable fid (by rw [hf1]; intro h; injection h with h; cases h)
        rw [hst, hf1] at hr; injection hr with h; cases h

/-! ### the pieces of `command` -/

@[simp] theorem rethrow_apply {σ α} (r : Except PyErr α) (s : σ) :
    (match r with | .ok rv => (pure rv : PyM σ α) | .error e_ => PyM.throw e_) s = (r, s) := by cases r <;> rfl

/-- the `finally` block of `command`, as generated -/
def cleanup (seq future : Nat) : PyM Proto Unit := (do
  let f13 ← awaitingFutAt seq
  (if (f13 == some future) then (do
      awaitingDel seq
      pure ()
    ) else (do
      pure ()
    ))
  pure ())

theorem cleanup_spec (s : Proto) (seq cid fid : Nat) (ho : Own s seq cid fid) :
    ∃ aw, cleanup seq fid s = (.ok (), { s with awaiting := aw }) ∧ ∀ e ∈ aw, e ∈ s.awaiting ∧ e.1 ≠ seq ∧ e.2.2 ≠ fid := by
  unfold cleanup awaitingFutAt awaitingDel
  cases hl : s.awaiting.lookup seq with
  | none =>
    refine ⟨s.awaiting, by simp [bind, PyM.bind, hl, pure, PyM.pure], ?_⟩
    intro e he
    have hk := lookup_none_key _ _ hl e he
    refine ⟨he, hk, fun hf => hk ?_⟩
    rw [ho e he (.inl hf)]
  | some x =>
    have hm := lookup_mem _ _ _ hl
    have hx := ho _ hm (.inr rfl)
    simp only [Prod.mk.injEq, true_and] at hx
    subst hx
    refine ⟨s.awaiting.filter (·.1 != seq), by simp [bind, PyM.bind, hl, pure, PyM.pure], ?_⟩
    intro e he
    obtain ⟨h1, h2⟩ := List.mem_filter.mp he
    have hk : e.1 ≠ seq := by simpa using h2
    refine ⟨h1, hk, fun hf => hk ?_⟩
    rw [ho e h1 (.inl hf)]

/-- the state after `future = create_future()` and `self._awaiting[seq] = (cmd_id, rx_schema, future)` -/
def registered (s : Proto) (seq cid : Nat) : Proto :=
  { s with futs := s.futs ++ [.pending],
           awaiting := if s.awaiting.any (·.1 == seq)
                       then s.awaiting.map fun e => if e.1 == seq then (seq, (cid, s.futs.length)) else e
                       else s.awaiting ++ [(seq, (cid, s.futs.length))] }

theorem registered_mem (s : Proto) (seq cid : Nat) (e : Nat × Nat × Nat) (he : e ∈ (registered s seq cid).awaiting) :
    e = (seq, (cid, s.futs.length)) ∨ (e ∈ s.awaiting ∧ e.1 ≠ seq) := by
  simp only [registered] at he
  split at he
  · obtain ⟨x, hx, rfl⟩ := List.mem_map.mp he
    by_cases hk : x.1 = seq
    · left; simp [hk]
    · right; simp [hk]; exact hx
  · rename_i hany
    rcases List.mem_append.mp he with h | h
    · right
      refine ⟨h, fun hk => hany (List.any_eq_true.mpr ⟨e, h, by simp [hk]⟩)⟩
    · left; simpa using h

/-- after registering with a fresh future the entry is the call's own -/
theorem registered_own (s : Proto) (seq cid : Nat) (hw : WF s) : Own (registered s seq cid) seq cid s.futs.length := by
  intro e he hor
  rcases registered_mem s seq cid e he with h | ⟨h1, h2⟩
  · exact h
  · rcases hor with h | h
    · exact absurd h (Nat.ne_of_lt (hw e h1))
    · exact absurd h h2

theorem registered_wf (s : Proto) (seq cid : Nat) (hw : WF s) : WF (registered s seq cid) := by
  intro e he
  have hl : (registered s seq cid).futs.length = s.futs.length + 1 := by simp [registered]
  rw [hl]
  rcases registered_mem s seq cid e he with h | ⟨h1, -⟩
  · subst h; simp
  · exact Nat.lt_succ_of_lt (hw e h1)

/-! ### `_ezsp_frame` -/

theorem lookup_names (cs : List Cmd) (name : String) :
    (cs.map fun c => (c.name, c.id)).lookup name = (findByName cs name).map (·.id) := by
  induction cs with
  | nil => rfl
  | cons c cs ih =>
    by_cases h : c.name = name
    · simp [List.lookup, findByName, List.find?, h]
    · have h1 : (name == c.name) = false := by simpa using fun h' => h h'.symm
      have h2 : (c.name == name) = false := by simpa using h
      simp only [List.map_cons, List.lookup, h1, findByName, List.find?, h2]
      exact ih

/-- the header code of the handler's class, on the handler's own counter and table: the model's `txHeader` -/
theorem frameTx_eq (s : Proto) (name : String) (c : Cmd) (hc : findByName s.cmds name = some c) (hs : s.seq < 256)
    (hid : c.id ≤ maxId (hdrOf s.version)) :
    frameTx name s = (.ok (txHeader (hdrOf s.version) s.seq c.id), s) := by
  have hl : ((s.cmds.map fun c => (c.name, c.id)).lookup name) = some c.id := by rw [lookup_names, hc]; rfl
  unfold frameTx
  cases hh : hdrOf s.version with
  | v4 =>
    rw [hh] at hid
    have := v4_tx { seq := s.seq, cmds := s.cmds.map fun c => (c.name, c.id) } name c.id hl (by simp [maxId] at hid; omega)
    simp only [this, Nat.mod_eq_of_lt hs]
  | v5 =>
    rw [hh] at hid
    have := v5_tx { seq := s.seq, cmds := s.cmds.map fun c => (c.name, c.id) } name c.id hl (by simp [maxId] at hid; omega) hs
    simp only [this]
  | v8 =>
    rw [hh] at hid
    have := v8_tx { seq := s.seq, cmds := s.cmds.map fun c => (c.name, c.id) } name c.id hl (by simp [maxId] at hid; omega) hs
    simp only [this]

theorem frameTx_state (s : Proto) (name : String) : (frameTx name s).2 = s := rfl

/-- the payload `_ezsp_frame` appends: by the schema's kind -/
def txBody (c : Cmd) (args : Vals) (kwargs : KwVals) : Except PyErr (List UInt8) :=
  if schemaIsDict c.tx then serDict args kwargs c.tx else serStruct args kwargs c.tx

/-- **`_ezsp_frame`**: the version's header with the handler's current sequence number and the command's frame ID, then the
arguments serialised by the declared schema; it changes nothing -/
theorem ezsp_frame_eq (s : Proto) (name : String) (args : Vals) (kwargs : KwVals) (c : Cmd) (hc : findByName s.cmds name = some c)
    (hs : s.seq < 256) (hid : c.id ≤ maxId (hdrOf s.version)) :
    ezsp_frame name args kwargs s =
      ((txBody c args kwargs).map (txHeader (hdrOf s.version) s.seq c.id ++ ·), s) := by
  have hf := frameTx_eq s name c hc hs hid
  unfold ezsp_frame txBody
  by_cases hd : schemaIsDict c.tx = true
  · cases hb : serDict args kwargs c.tx <;>
      simp [bind, PyM.bind, cmdByName, hc, hf, hd, hb, PyM.lift, pure, PyM.pure, Except.map]
  · cases hb : serStruct args kwargs c.tx <;>
      simp [bind, PyM.bind, cmdByName, hc, hf, hd, hb, PyM.lift, pure, PyM.pure, Except.map]

theorem ezsp_frame_unknown (s : Proto) (name : String) (args : Vals) (kwargs : KwVals) (hc : findByName s.cmds name = none) :
    ezsp_frame name args kwargs s = (.error (.raised "KeyError"), s) := by
  simp [ezsp_frame, bind, PyM.bind, cmdByName, hc]

theorem ezsp_frame_state (s : Proto) (name : String) (args : Vals) (kwargs : KwVals) : (ezsp_frame name args kwargs s).2 = s := by
  unfold ezsp_frame
  cases hc : findByName s.cmds name with
  | none => simp [bind, PyM.bind, cmdByName, hc]
  | some c =>
    simp only [bind, PyM.bind, cmdByName, hc]
    rcases hx : frameTx name s with ⟨r, s'⟩
    have : s' = s := by have := frameTx_state s name; rw [hx] at this; exact this
    subst this
    cases r with
    | error e => rfl
    | ok h =>
      by_cases hd : schemaIsDict c.tx = true
      · cases hb : serDict args kwargs c.tx <;> simp [hd, hb, PyM.lift, bind, PyM.bind, pure, PyM.pure]
      · cases hb : serStruct args kwargs c.tx <;> simp [hd, hb, PyM.lift, bind, PyM.bind, pure, PyM.pure]

/-! ### `_get_command_priority` -/

/-- the priority table the translator's reflection pass extracts (BV/Gen/Priority.lean), as a function -/
def prioOf (name : String) : Int := (BV.Gen.Priority.nonZero.lookup name).getD 0

/-- the generated `_get_command_priority` is that table, for every name -/
theorem get_command_priority_eq (name : String) (s : Proto) : get_command_priority name s = (.ok (prioOf name), s) := by
  unfold get_command_priority prioOf BV.Gen.Priority.nonZero
  by_cases h0 : name = "setSourceRoute"
  · subst h0; rfl
  by_cases h1 : name = "setExtendedTimeout"
  · subst h1; rfl
  by_cases h2 : name = "sendUnicast"
  · subst h2; rfl
  by_cases h3 : name = "sendMulticast"
  · subst h3; rfl
  by_cases h4 : name = "sendBroadcast"
  · subst h4; rfl
  by_cases h5 : name = "nop"
  · subst h5; rfl
  by_cases h6 : name = "readCounters"
  · subst h6; rfl
  by_cases h7 : name = "readAndClearCounters"
  · subst h7; rfl
  by_cases h8 : name = "getValue"
  · subst h8; rfl
  have b0 : (name == "setSourceRoute") = false := by simpa using h0
  have b1 : (name == "setExtendedTimeout") = false := by simpa using h1
  have b2 : (name == "sendUnicast") = false := by simpa using h2
  have b3 : (name == "sendMulticast") = false := by simpa using h3
  have b4 : (name == "sendBroadcast") = false := by simpa using h4
  have b5 : (name == "nop") = false := by simpa using h5
  have b6 : (name == "readCounters") = false := by simpa using h6
  have b7 : (name == "readAndClearCounters") = false := by simpa using h7
  have b8 : (name == "getValue") = false := by simpa using h8
  simp [List.lookup, pure, PyM.pure, b0, b1, b2, b3, b4, b5, b6, b7, b8]

/-! ### `command`, phase by phase -/

def releaseSt (s : Proto) : Proto := { s with trace := s.trace ++ [.release] }

/-- the body of the inner `try`: hand the frame over, then the bounded wait for the reply -/
def waitPhase (data : List UInt8) (fid : Nat) : PyM Proto Vals := fun s =>
  match gwSend data s with
  | (.ok _, s') => awaitFuture fid 10 s'
  | (.error e, s') => (.error e, s')

/-- the caller is cancelled while queued for the semaphore (or the script does not start with an answer to the acquisition):
nothing of the handler is touched -/
theorem command_not_granted (s : Proto) (name : String) (args : Vals) (kwargs : KwVals)
    (hs : ∀ rest, s.script ≠ .acquire true :: rest) :
    ∃ e s', command name args kwargs s = (.error e, s') ∧ s'.awaiting = s.awaiting ∧ s'.futs = s.futs ∧ s'.seq = s.seq ∧
      s'.trace = s.trace ∧ s'.version = s.version ∧ s'.cmds = s.cmds := by
  unfold command
  simp only [bind, PyM.bind, get_command_priority_eq, semAcquire, nextResp]
  cases h : s.script with
  | nil => exact ⟨_, _, rfl, rfl, rfl, rfl, rfl, rfl, rfl⟩
  | cons r rest =>
    cases r with
    | acquire g =>
      cases g with
      | true => exact absurd h (hs rest)
      | false => exact ⟨_, _, rfl, rfl, rfl, rfl, rfl, rfl, rfl⟩
    | send f o => exact ⟨_, _, rfl, rfl, rfl, rfl, rfl, rfl, rfl⟩
    | wait f w => exact ⟨_, _, rfl, rfl, rfl, rfl, rfl, rfl, rfl⟩

/-- the state in which the critical section starts -/
def entered (s : Proto) (name : String) (rest : List CResp) : Proto :=
  { s with script := rest, trace := s.trace ++ [.acquire (prioOf name)] }

/-- **`command` with the semaphore granted**, phase by phase: build the frame (a failure releases the semaphore and changes
nothing else); register under the current sequence number with a fresh future and advance the counter; the two awaits; the
`finally` block; the release -/
theorem command_granted (s : Proto) (name : String) (args : Vals) (kwargs : KwVals) (rest : List CResp)
    (hs : s.script = .acquire true :: rest) :
    command name args kwargs s =
      match ezsp_frame name args kwargs (entered s name rest) with
      | (.error e, _) => (.error e, releaseSt (entered s name rest))
      | (.ok data, _) =>
        match findByName s.cmds name with
        | none => (.error (.raised "KeyError"), releaseSt (entered s name rest))
        | some c =>
          match waitPhase data s.futs.length { registered (entered s name rest) s.seq c.id with seq := (s.seq + 1) % 256 } with
          | (r, s3) =>
            match cleanup s.seq s.futs.length s3 with
            | (.ok _, s4) => (r, releaseSt s4)
            | (.error e, s4) => (.error e, releaseSt s4) := by
  have hst := ezsp_frame_state (entered s name rest) name args kwargs
  unfold command
  simp only [bind, PyM.bind, get_command_priority_eq, semAcquire, nextResp, hs, pemit, PyM.modify, PyM.attempt]
  simp only [entered] at hst ⊢
  rcases hx : ezsp_frame name args kwargs { s with script := rest, trace := s.trace ++ [.acquire (prioOf name)] } with ⟨r, s1⟩
  rw [hx] at hst
  simp only at hst
  subst hst
  cases r with
  | error e => simp [semRelease, pemit, PyM.modify, releaseSt, PyM.throw]
  | ok data =>
    simp only [cmdByName]
    cases hc : findByName s.cmds name with
    | none => simp [hc, semRelease, pemit, PyM.modify, releaseSt, PyM.throw]
    | some c =>
      simp only [hc, newFut, PyM.get, awaitingSet, PyM.modify, registered, waitPhase]
      rcases hg : gwSend data _ with ⟨rg, sg⟩
      cases rg with
      | error e =>
        simp only [cleanup, awaitingFutAt, awaitingDel, bind, PyM.bind]
        cases hl : sg.awaiting.lookup s.seq with
        | none => simp [pure, PyM.pure, semRelease, pemit, PyM.modify, releaseSt, PyM.throw]
        | some x =>
          by_cases hq : x.2 = s.futs.length <;>
            simp [hq, hl, awaitingDel, bind, PyM.bind, pure, PyM.pure, semRelease, pemit, PyM.modify, releaseSt, PyM.throw]
      | ok u =>
        dsimp only
        rcases ha : awaitFuture s.futs.length 10 sg with ⟨ra, sa⟩
        simp only [cleanup, awaitingFutAt, awaitingDel, bind, PyM.bind]
        cases hl : sa.awaiting.lookup s.seq with
        | none => cases ra <;> simp [pure, PyM.pure, semRelease, pemit, PyM.modify, releaseSt, PyM.throw]
        | some x =>
          by_cases hq : x.2 = s.futs.length <;> cases ra <;>
            simp [hq, hl, awaitingDel, bind, PyM.bind, pure, PyM.pure, semRelease, pemit, PyM.modify, releaseSt, PyM.throw]

theorem waitPhase_keeps (data : List UInt8) (fid : Nat) (s : Proto) (hw : WF s) : Keeps s (waitPhase data fid s).2 := by
  unfold waitPhase
  have h1 := gwSend_keeps data s hw
  rcases hg : gwSend data s with ⟨rg, sg⟩
  rw [hg] at h1
  cases rg with
  | error e => exact h1
  | ok u => exact h1.trans (awaitFuture_keeps fid 10 sg (h1.wf hw))

/-- whether the script grants the semaphore -/
theorem script_cases (s : Proto) : (∃ rest, s.script = .acquire true :: rest) ∨ (∀ rest, s.script ≠ .acquire true :: rest) := by
  cases h : s.script with
  | nil => right; intro r h'; cases h'
  | cons r rest =>
    cases r with
    | acquire g =>
      cases g with
      | true => left; exact ⟨rest, rfl⟩
      | false => right; intro r h'; cases h'
    | send f o => right; intro r h'; cases h'
    | wait f w => right; intro r h'; cases h'

/-- **no entry is left behind** - for every script (replies, strays, duplicates, none at all; send failures; the timeout; the
caller's cancellation at any of the three await points; even a script that does not fit the awaits): every entry of `_awaiting`
after the call was there before it, and none of them holds a future of this call.  The heap grows by at most the call's future. -/
theorem command_sub (s : Proto) (name : String) (args : Vals) (kwargs : KwVals) (hw : WF s) :
    (∀ e ∈ (command name args kwargs s).2.awaiting, e ∈ s.awaiting) ∧ WF (command name args kwargs s).2 ∧
    s.futs.length ≤ (command name args kwargs s).2.futs.length ∧ (command name args kwargs s).2.futs.length ≤ s.futs.length + 1 := by
  rcases script_cases s with ⟨rest, hs⟩ | hs
  · rw [command_granted s name args kwargs rest hs]
    have hw1 : WF (entered s name rest) := hw
    rcases hx : ezsp_frame name args kwargs (entered s name rest) with ⟨r, s1⟩
    cases r with
    | error e => exact ⟨fun _ h => h, hw, Nat.le_refl _, Nat.le_succ _⟩
    | ok data =>
      cases hc : findByName s.cmds name with
      | none => exact ⟨fun _ h => h, hw, Nat.le_refl _, Nat.le_succ _⟩
      | some c =>
        have hw2 : WF { registered (entered s name rest) s.seq c.id with seq := (s.seq + 1) % 256 } :=
          registered_wf (entered s name rest) s.seq c.id hw1
        have ho2 : Own { registered (entered s name rest) s.seq c.id with seq := (s.seq + 1) % 256 } s.seq c.id s.futs.length :=
          registered_own (entered s name rest) s.seq c.id hw1
        have hk := waitPhase_keeps data s.futs.length _ hw2
        dsimp only
        rcases hwp : waitPhase data s.futs.length { registered (entered s name rest) s.seq c.id with seq := (s.seq + 1) % 256 }
          with ⟨r, s3⟩
        rw [hwp] at hk
        obtain ⟨aw, hcl, haw⟩ := cleanup_spec s3 s.seq c.id s.futs.length (ho2.sub hk.sub)
        rw [hcl]
        have hlen : s3.futs.length = s.futs.length + 1 := by rw [hk.futsLen]; simp [registered, entered]
        refine ⟨?_, ?_, ?_, ?_⟩
        · intro e he
          obtain ⟨h3, hk3, -⟩ := haw e he
          rcases registered_mem (entered s name rest) s.seq c.id e (hk.sub e h3) with h | ⟨h, -⟩
          · rw [h] at hk3; exact absurd rfl hk3
          · exact h
        · intro e he
          obtain ⟨h3, -, -⟩ := haw e he
          exact hk.wf hw2 e h3
        · show s.futs.length ≤ s3.futs.length
          omega
        · show s3.futs.length ≤ s.futs.length + 1
          omega
  · obtain ⟨e, s', he, ha, hf, -⟩ := command_not_granted s name args kwargs hs
    rw [he]
    refine ⟨fun x hx => by rw [← ha]; exact hx, ?_, by simp [hf], by simp [hf]⟩
    intro x hx
    simp only at hx ⊢
    rw [hf]; rw [ha] at hx; exact hw x hx

/-- **the semaphore is left exactly once, and last**: when it was entered, the events of the call are the entry, then events that are
not semaphore events, then one release - whatever happens in between; when it was not entered there is no event at all -/
theorem command_trace (s : Proto) (name : String) (args : Vals) (kwargs : KwVals) (hw : WF s) :
    ((∀ rest, s.script ≠ .acquire true :: rest) → (command name args kwargs s).2.trace = s.trace) ∧
    (∀ rest, s.script = .acquire true :: rest →
      ∃ t, (command name args kwargs s).2.trace = s.trace ++ [.acquire (prioOf name)] ++ t ++ [.release] ∧ Quiet t) := by
  constructor
  · intro hs
    obtain ⟨e, s', he, -, -, -, ht, -⟩ := command_not_granted s name args kwargs hs
    rw [he]; exact ht
  · intro rest hs
    rw [command_granted s name args kwargs rest hs]
    have hw1 : WF (entered s name rest) := hw
    rcases hx : ezsp_frame name args kwargs (entered s name rest) with ⟨r, s1⟩
    cases r with
    | error e => exact ⟨[], by simp [releaseSt, entered], Quiet.nil⟩
    | ok data =>
      cases hc : findByName s.cmds name with
      | none => exact ⟨[], by simp [releaseSt, entered], Quiet.nil⟩
      | some c =>
        have hw2 : WF { registered (entered s name rest) s.seq c.id with seq := (s.seq + 1) % 256 } :=
          registered_wf (entered s name rest) s.seq c.id hw1
        have ho2 : Own { registered (entered s name rest) s.seq c.id with seq := (s.seq + 1) % 256 } s.seq c.id s.futs.length :=
          registered_own (entered s name rest) s.seq c.id hw1
        have hk := waitPhase_keeps data s.futs.length _ hw2
        dsimp only
        rcases hwp : waitPhase data s.futs.length { registered (entered s name rest) s.seq c.id with seq := (s.seq + 1) % 256 }
          with ⟨r, s3⟩
        rw [hwp] at hk
        obtain ⟨aw, hcl, -⟩ := cleanup_spec s3 s.seq c.id s.futs.length (ho2.sub hk.sub)
        rw [hcl]
        obtain ⟨t, et, qt⟩ := hk.trace
        refine ⟨t, ?_, qt⟩
        simp only [releaseSt]
        rw [et]
        simp [registered, entered]

/-- callbacks and the entry into the bounded wait: the only events after the hand-over of the frame -/
def Calm (t : List PEv) : Prop := ∀ e ∈ t, (∃ n v, e = .callback n v) ∨ ∃ k, e = .wait k

theorem Calm.nil : Calm [] := fun _ h => (by cases h)

theorem Calm.quiet {t : List PEv} (h : Calm t) : Quiet t := by
  intro e he
  rcases h e he with ⟨n, v, rfl⟩ | ⟨k, rfl⟩ <;> exact ⟨fun h => (by cases h), fun p h => (by cases h)⟩

theorem Calm.no_sent {t : List PEv} (h : Calm t) : ∀ e ∈ t, ∀ d, e ≠ .sent d := by
  intro e he d
  rcases h e he with ⟨n, v, rfl⟩ | ⟨k, rfl⟩ <;> exact fun h => (by cases h)

theorem Calm.append {a b : List PEv} (ha : Calm a) (hb : Calm b) : Calm (a ++ b) := by
  intro e he
  rcases List.mem_append.mp he with h | h
  · exact ha e h
  · exact hb e h

theorem Steps.calm {s s' : Proto} (h : Steps s s') : ∃ t, s'.trace = s.trace ++ t ∧ Calm t := by
  obtain ⟨t, e, q⟩ := h.trace
  exact ⟨t, e, fun x hx => .inl (q x hx)⟩

theorem awaitFuture_calm (fid k : Nat) (s : Proto) (hw : WF s) : ∃ t, (awaitFuture fid k s).2.trace = s.trace ++ t ∧ Calm t := by
  unfold awaitFuture nextResp
  cases hs : s.script with
  | nil => simp [bind, PyM.bind, hs, PyM.throw]; exact Calm.nil
  | cons r rest =>
    cases r with
    | acquire g => simp [bind, PyM.bind, hs, PyM.throw]; exact Calm.nil
    | send f o => simp [bind, PyM.bind, hs, PyM.throw]; exact Calm.nil
    | wait frames fin =>
      have hw1 : WF { s with script := rest, trace := s.trace ++ [.wait k] } := hw
      obtain ⟨h1, h2⟩ := deliverAll_spec frames _ hw1
      obtain ⟨t, et, ct⟩ := h2.calm
      have hk : ∃ t, (deliverAll frames { s with script := rest, trace := s.trace ++ [.wait k] }).2.trace = s.trace ++ t ∧ Calm t :=
        ⟨[.wait k] ++ t, by rw [et]; simp, Calm.append (fun e he => .inr ⟨k, by simpa using he⟩) ct⟩
      rcases hx : deliverAll frames { s with script := rest, trace := s.trace ++ [.wait k] } with ⟨r, s3⟩
      rw [hx] at h1 hk
      simp only at h1; subst h1
      simp only [bind, PyM.bind, hs, pemit, PyM.modify, hx, PyM.get]
      cases hf : s3.futs[fid]? with
      | none => simp [PyM.throw]; exact hk
      | some f => cases f <;> simp [PyM.throw, pure, PyM.pure, PyM.set, bind, PyM.bind] <;> exact hk

/-- with the hand-over next in the script: the frame is recorded first; everything after it is calm -/
theorem waitPhase_sent (data : List UInt8) (fid : Nat) (s : Proto) (frames : List (List UInt8)) (out : Option String)
    (rest : List CResp) (hw : WF s) (hs : s.script = .send frames out :: rest) :
    ∃ t, (waitPhase data fid s).2.trace = s.trace ++ [.sent data] ++ t ∧ Calm t := by
  unfold waitPhase
  rw [gwSend_run data s frames out rest hw hs]
  have hw1 : WF { s with script := rest, trace := s.trace ++ [.sent data] } := hw
  obtain ⟨-, hst⟩ := deliverAll_spec frames _ hw1
  obtain ⟨t, et, ct⟩ := hst.calm
  cases out with
  | some c => exact ⟨t, et, ct⟩
  | none =>
    dsimp only
    obtain ⟨t2, et2, ct2⟩ := awaitFuture_calm fid 10 _ (hst.wf hw1)
    exact ⟨t ++ t2, by rw [et2, et]; simp, ct.append ct2⟩

/-- **register, then send, under the next sequence number**: with the semaphore granted, a known command and arguments its schema
takes, the bytes handed to `send_data` are the version's header with the handler's sequence number and the command's frame ID
followed by the serialised arguments; they are handed over once, first thing after the entry; the counter has advanced by one
modulo 256 when the call ends - however it ends -/
theorem command_sends (s : Proto) (name : String) (args : Vals) (kwargs : KwVals) (c : Cmd) (b : List UInt8)
    (frames : List (List UInt8)) (out : Option String) (rest : List CResp) (hw : WF s)
    (hs : s.script = .acquire true :: .send frames out :: rest) (hc : findByName s.cmds name = some c) (hq : s.seq < 256)
    (hid : c.id ≤ maxId (hdrOf s.version)) (hb : txBody c args kwargs = .ok b) :
    (∃ t, (command name args kwargs s).2.trace =
        s.trace ++ [.acquire (prioOf name), .sent (txHeader (hdrOf s.version) s.seq c.id ++ b)] ++ t ++ [.release] ∧
        Calm t) ∧
    (command name args kwargs s).2.seq = (s.seq + 1) % 256 := by
  rw [command_granted s name args kwargs _ hs]
  have hw1 : WF (entered s name (.send frames out :: rest)) := hw
  have hfe := ezsp_frame_eq (entered s name (.send frames out :: rest)) name args kwargs c hc hq hid
  rw [hb] at hfe
  simp only [Except.map] at hfe
  rw [hfe]
  simp only [hc]
  have hw2 : WF { registered (entered s name (.send frames out :: rest)) s.seq c.id with seq := (s.seq + 1) % 256 } :=
    registered_wf _ s.seq c.id hw1
  have ho2 : Own { registered (entered s name (.send frames out :: rest)) s.seq c.id with seq := (s.seq + 1) % 256 }
      s.seq c.id s.futs.length := registered_own _ s.seq c.id hw1
  have hk := waitPhase_keeps (txHeader (hdrOf (entered s name (.send frames out :: rest)).version)
      (entered s name (.send frames out :: rest)).seq c.id ++ b) s.futs.length _ hw2
  obtain ⟨t, et, ct⟩ := waitPhase_sent (txHeader (hdrOf (entered s name (.send frames out :: rest)).version)
      (entered s name (.send frames out :: rest)).seq c.id ++ b) s.futs.length _ frames out rest hw2 rfl
  rcases hwp : waitPhase (txHeader (hdrOf (entered s name (.send frames out :: rest)).version)
      (entered s name (.send frames out :: rest)).seq c.id ++ b) s.futs.length
      { registered (entered s name (.send frames out :: rest)) s.seq c.id with seq := (s.seq + 1) % 256 } with ⟨r, s3⟩
  rw [hwp] at hk et
  obtain ⟨aw, hcl, -⟩ := cleanup_spec s3 s.seq c.id s.futs.length (ho2.sub hk.sub)
  rw [hcl]
  refine ⟨⟨t, ?_, ct⟩, ?_⟩
  · simp only [releaseSt]
    simp only at et
    rw [et]
    simp [registered, entered]
  · simp only [releaseSt]
    exact hk.seq

/-- the fresh future is pending when the wait starts -/
theorem registered_pending (s : Proto) (seq cid : Nat) : (registered s seq cid).futs[s.futs.length]? = some .pending := by
  simp [registered]

/-- **a value comes only from the own reply**: if `command` returns values, the script granted the semaphore, the hand-over
returned, and among the frames received during the hand-over or the wait there is one that - under the handler's version and
table - decodes to exactly these values, carries the sequence number the handler had when the call started (the one placed in the
request) and the frame ID of the command called, and is not the invalid-command answer -/
theorem command_result (s : Proto) (name : String) (args : Vals) (kwargs : KwVals) (v : Vals) (sf : Proto) (hw : WF s)
    (h : command name args kwargs s = (.ok v, sf)) :
    ∃ c f1 f2 fin rest, s.script = .acquire true :: .send f1 none :: .wait f2 fin :: rest ∧ findByName s.cmds name = some c ∧
      ∃ d ∈ f1 ++ f2, ∃ nm tr, rxFrame s.version s.cmds d = .ok s.seq c.id nm v tr ∧ nm ≠ "invalidCommand" := by
  rcases script_cases s with ⟨rest, hs⟩ | hs
  rotate_left
  · obtain ⟨e, s', he, -⟩ := command_not_granted s name args kwargs hs
    rw [he] at h; cases h
  rw [command_granted s name args kwargs rest hs] at h
  have hw1 : WF (entered s name rest) := hw
  rcases hx : ezsp_frame name args kwargs (entered s name rest) with ⟨r, s1⟩
  rw [hx] at h
  cases r with
  | error e => cases h
  | ok data =>
    cases hc : findByName s.cmds name with
    | none => rw [hc] at h; cases h
    | some c =>
      rw [hc] at h
      have hw2 : WF { registered (entered s name rest) s.seq c.id with seq := (s.seq + 1) % 256 } :=
        registered_wf (entered s name rest) s.seq c.id hw1
      have ho2 : Own { registered (entered s name rest) s.seq c.id with seq := (s.seq + 1) % 256 } s.seq c.id s.futs.length :=
        registered_own (entered s name rest) s.seq c.id hw1
      have hp2 : ({ registered (entered s name rest) s.seq c.id with seq := (s.seq + 1) % 256 } : Proto).futs[s.futs.length]? =
          some .pending := registered_pending (entered s name rest) s.seq c.id
      have hk := waitPhase_keeps data s.futs.length _ hw2
      dsimp only at h
      rcases hwp : waitPhase data s.futs.length { registered (entered s name rest) s.seq c.id with seq := (s.seq + 1) % 256 }
        with ⟨r, s3⟩
      rw [hwp] at hk h
      obtain ⟨aw, hcl, -⟩ := cleanup_spec s3 s.seq c.id s.futs.length (ho2.sub hk.sub)
      rw [hcl] at h
      simp only [Prod.mk.injEq] at h
      obtain ⟨hr, -⟩ := h
      subst hr
      -- the hand-over
      unfold waitPhase at hwp
      by_cases hsend : ∃ f1 out rest2, rest = .send f1 out :: rest2
      rotate_left
      · obtain ⟨m, s', hm⟩ := gwSend_misfit data { registered (entered s name rest) s.seq c.id with seq := (s.seq + 1) % 256 }
          (fun f o r hq => hsend ⟨f, o, r, hq⟩)
        rw [hm] at hwp; cases hwp
      obtain ⟨f1, out, rest2, rfl⟩ := hsend
      rw [gwSend_run data _ f1 out rest2 hw2 rfl] at hwp
      cases out with
      | some cl => cases hwp
      | none =>
        dsimp only at hwp
        have hw3 : WF { registered (entered s name (.send f1 none :: rest2)) s.seq c.id with
            seq := (s.seq + 1) % 256, script := rest2,
            trace := (registered (entered s name (.send f1 none :: rest2)) s.seq c.id).trace ++ [.sent data] } := hw2
        obtain ⟨-, hst1⟩ := deliverAll_spec f1 _ hw3
        by_cases hwait : ∃ f2 fin rest3, rest2 = .wait f2 fin :: rest3
        rotate_left
        · obtain ⟨m, s', hm⟩ := awaitFuture_misfit s.futs.length 10 _
            (fun f w r hq => hwait ⟨f, w, r, by rw [hst1.script] at hq; exact hq⟩)
          rw [hm] at hwp; cases hwp
        obtain ⟨f2, fin, rest3, rfl⟩ := hwait
        rw [awaitFuture_run s.futs.length 10 _ f2 fin rest3 (hst1.wf hw3) (by rw [hst1.script])] at hwp
        refine ⟨c, f1, f2, fin, rest3, hs, rfl, ?_⟩
        -- the state after the first run, and after the second
        generalize hsa : (deliverAll f1 { registered (entered s name (.send f1 none :: .wait f2 fin :: rest3)) s.seq c.id with
            seq := (s.seq + 1) % 256, script := .wait f2 fin :: rest3,
            trace := (registered (entered s name (.send f1 none :: .wait f2 fin :: rest3)) s.seq c.id).trace ++ [.sent data] }).2
          = sa at hwp hst1
        have hwa : WF sa := hst1.wf hw3
        have hoa : Own sa s.seq c.id s.futs.length := ho2.sub hst1.sub
        have hwb : WF { sa with script := rest3, trace := sa.trace ++ [.wait 10] } := hwa
        have hob : Own { sa with script := rest3, trace := sa.trace ++ [.wait 10] } s.seq c.id s.futs.length := hoa
        generalize hsb : (deliverAll f2 { sa with script := rest3, trace := sa.trace ++ [.wait 10] }).2 = sb at hwp
        -- the wait ended with values: the future holds them
        have hres : sb.futs[s.futs.length]? = some (.result v) := by
          unfold waitEnd at hwp
          cases hf : sb.futs[s.futs.length]? with
          | none => rw [hf] at hwp; cases hwp
          | some f =>
            rw [hf] at hwp
            cases f with
            | result v' => simp only [Prod.mk.injEq] at hwp; obtain ⟨h1, -⟩ := hwp; injection h1 with h1; rw [h1]
            | pending => cases hwp
            | invalidCommand => cases hwp
            | finished => cases hwp
        -- where was it resolved?
        cases hfa : sa.futs[s.futs.length]? with
        | none =>
          have : sa.futs.length = s.futs.length + 1 := by rw [hst1.futsLen]; simp [registered, entered]
          rw [List.getElem?_eq_none_iff] at hfa; omega
        | some f =>
          cases f with
          | pending =>
            rw [← hsb] at hres
            obtain ⟨d, hd, nm, tr, hrx, hnm⟩ := deliverAll_flip f2 _ s.seq c.id s.futs.length v hwb hob hfa hres
            have hv : sa.version = s.version := hst1.version
            have hcm : sa.cmds = s.cmds := hst1.cmds
            simp only [hv, hcm] at hrx
            exact ⟨d, List.mem_append_right _ hd, nm, tr, hrx, hnm⟩
          | result v' =>
            have hstb := (deliverAll_spec f2 _ hwb).2.stable s.futs.length (by
              show sa.futs[s.futs.length]? ≠ some .pending
              rw [hfa]; intro h; injection h with h; cases h)
            rw [hsb] at hstb
            have : sa.futs[s.futs.length]? = some (.result v) := by rw [← hres, hstb]
            rw [← hsa] at this
            obtain ⟨d, hd, nm, tr, hrx, hnm⟩ := deliverAll_flip f1 _ s.seq c.id s.futs.length v hw3 ho2 hp2 this
            exact ⟨d, List.mem_append_left _ hd, nm, tr, hrx, hnm⟩
          | invalidCommand =>
            have hstb := (deliverAll_spec f2 _ hwb).2.stable s.futs.length (by
              show sa.futs[s.futs.length]? ≠ some .pending
              rw [hfa]; intro h; injection h with h; cases h)
            rw [hsb] at hstb
            rw [hstb] at hres
            have : (some PFut.invalidCommand : Option PFut) = some (.result v) := by rw [← hfa]; exact hres
            injection this with h; cases h
          | finished =>
            have hstb := (deliverAll_spec f2 _ hwb).2.stable s.futs.length (by
              show sa.futs[s.futs.length]? ≠ some .pending
              rw [hfa]; intro h; injection h with h; cases h)
            rw [hsb] at hstb
            rw [hstb] at hres
            have : (some PFut.finished : Option PFut) = some (.result v) := by rw [← hfa]; exact hres
            injection this with h; cases h

/-- **the timeout**: the frame was built and handed over, and none of the frames received during the hand-over or the wait decodes
with the call's sequence number - replies under other numbers, undecodable bytes, callbacks, nothing at all -: the call raises
`TimeoutError` when the deadline ends the wait (`CancelledError` when the caller's cancellation does), and its future is dead -/
theorem command_timeout (s : Proto) (name : String) (args : Vals) (kwargs : KwVals) (c : Cmd) (data : List UInt8)
    (f1 f2 : List (List UInt8)) (fin : WaitEnd) (rest : List CResp) (hw : WF s)
    (hs : s.script = .acquire true :: .send f1 none :: .wait f2 fin :: rest) (hc : findByName s.cmds name = some c)
    (hfr : (ezsp_frame name args kwargs (entered s name (.send f1 none :: .wait f2 fin :: rest))).1 = .ok data)
    (hno : ∀ d ∈ f1 ++ f2, ∀ id nm v tr, rxFrame s.version s.cmds d ≠ .ok s.seq id nm v tr) :
    (command name args kwargs s).1 = .error (.raised (match fin with | .deadline => "TimeoutError" | .cancelled => "CancelledError")) ∧
    (command name args kwargs s).2.futs[s.futs.length]? = some .finished := by
  rw [command_granted s name args kwargs _ hs]
  have hw1 : WF (entered s name (.send f1 none :: .wait f2 fin :: rest)) := hw
  rcases hx : ezsp_frame name args kwargs (entered s name (.send f1 none :: .wait f2 fin :: rest)) with ⟨r, s1⟩
  rw [hx] at hfr
  simp only at hfr
  subst hfr
  simp only [hc]
  have hw2 : WF { registered (entered s name (.send f1 none :: .wait f2 fin :: rest)) s.seq c.id with seq := (s.seq + 1) % 256 } :=
    registered_wf _ s.seq c.id hw1
  have ho2 : Own { registered (entered s name (.send f1 none :: .wait f2 fin :: rest)) s.seq c.id with seq := (s.seq + 1) % 256 }
      s.seq c.id s.futs.length := registered_own _ s.seq c.id hw1
  have hp2 : ({ registered (entered s name (.send f1 none :: .wait f2 fin :: rest)) s.seq c.id with
      seq := (s.seq + 1) % 256 } : Proto).futs[s.futs.length]? = some .pending := registered_pending _ s.seq c.id
  have hk := waitPhase_keeps data s.futs.length _ hw2
  have hwp : waitPhase data s.futs.length
      { registered (entered s name (.send f1 none :: .wait f2 fin :: rest)) s.seq c.id with seq := (s.seq + 1) % 256 } = _ := rfl
  conv at hwp => lhs; unfold waitPhase
  rw [gwSend_run data _ f1 none (.wait f2 fin :: rest) hw2 rfl] at hwp
  dsimp only at hwp
  have hw3 : WF { registered (entered s name (.send f1 none :: .wait f2 fin :: rest)) s.seq c.id with
      seq := (s.seq + 1) % 256, script := .wait f2 fin :: rest,
      trace := (registered (entered s name (.send f1 none :: .wait f2 fin :: rest)) s.seq c.id).trace ++ [.sent data] } := hw2
  obtain ⟨-, hst1⟩ := deliverAll_spec f1 _ hw3
  have hpa := deliverAll_pending_kept f1 _ s.seq c.id s.futs.length hw3 ho2 hp2
    (fun d hd id nm v tr => hno d (List.mem_append_left _ hd) id nm v tr)
  rw [awaitFuture_run s.futs.length 10 _ f2 fin rest (hst1.wf hw3) (by rw [hst1.script])] at hwp
  generalize hsa : (deliverAll f1 { registered (entered s name (.send f1 none :: .wait f2 fin :: rest)) s.seq c.id with
      seq := (s.seq + 1) % 256, script := .wait f2 fin :: rest,
      trace := (registered (entered s name (.send f1 none :: .wait f2 fin :: rest)) s.seq c.id).trace ++ [.sent data] }).2
    = sa at hwp hst1 hpa
  have hwa : WF sa := hst1.wf hw3
  have hoa : Own sa s.seq c.id s.futs.length := ho2.sub hst1.sub
  have hwb : WF { sa with script := rest, trace := sa.trace ++ [.wait 10] } := hwa
  have hob : Own { sa with script := rest, trace := sa.trace ++ [.wait 10] } s.seq c.id s.futs.length := hoa
  have hpb := deliverAll_pending_kept f2 { sa with script := rest, trace := sa.trace ++ [.wait 10] } s.seq c.id s.futs.length hwb hob hpa
    (fun d hd id nm v tr => by
      show rxFrame sa.version sa.cmds d ≠ _
      rw [hst1.version, hst1.cmds]
      exact hno d (List.mem_append_right _ hd) id nm v tr)
  generalize hsb : (deliverAll f2 { sa with script := rest, trace := sa.trace ++ [.wait 10] }).2 = sb at hwp hpb
  unfold waitEnd at hwp
  rw [hpb] at hwp
  dsimp only at hwp
  rw [← hwp] at hk ⊢
  dsimp only
  obtain ⟨aw, hcl, -⟩ := cleanup_spec { sb with futs := sb.futs.set s.futs.length .finished } s.seq c.id s.futs.length (ho2.sub hk.sub)
  rw [hcl]
  refine ⟨by cases fin <;> rfl, ?_⟩
  simp only [releaseSt]
  have hlt : s.futs.length < sb.futs.length := by
    rcases Nat.lt_or_ge s.futs.length sb.futs.length with h | h
    · exact h
    · rw [List.getElem?_eq_none h] at hpb; cases hpb
  simp [List.getElem?_set, hlt]

/-! ### completeness: the own reply is returned -/

theorem rxFrame_nonempty (v : Nat) (cs : List Cmd) (d : List UInt8) (sq id : Nat) (nm : String) (vals : Vals) (tr : List UInt8)
    (h : rxFrame v cs d = .ok sq id nm vals tr) : d.isEmpty = false := by
  cases d with
  | nil => unfold rxFrame rxHeader at h; cases hdrOf v <;> simp at h
  | cons a r => rfl

/-- an entry survives every frame that does not decode with its sequence number -/
theorem call_entry_kept (s : Proto) (d : List UInt8) (seq : Nat) (hw : WF s)
    (h : ∀ id nm v tr, rxFrame s.version s.cmds d ≠ .ok seq id nm v tr) :
    ∀ e ∈ s.awaiting, e.1 = seq → e ∈ (handler_call d s).2.awaiting := by
  intro e he hk
  cases hc : rxFrame s.version s.cmds d with
  | short => obtain ⟨c, ec⟩ := call_short s d hc; rw [ec]; exact he
  | unknown id => rw [call_unknown s d id hc]; exact he
  | undecodable n => rw [call_undecodable s d n hc]; exact he
  | ok sq id name vals tr =>
    have hne : sq ≠ seq := fun hq => h id name vals tr (by rw [hc, hq])
    obtain ⟨ha, -⟩ := call_ok_frame s d sq id name vals tr hc (fun eid fid hl => hw _ (lookup_mem _ _ _ hl))
    rw [ha]
    split
    · exact List.mem_filter.mpr ⟨he, by simp [hk, Ne.symm hne]⟩
    · exact he

theorem lookup_of_own (s : Proto) (seq cid fid : Nat) (ho : Own s seq cid fid) (hm : (seq, (cid, fid)) ∈ s.awaiting) :
    s.awaiting.lookup seq = some (cid, fid) := by
  cases hl : s.awaiting.lookup seq with
  | none => exact absurd rfl (lookup_none_key _ _ hl _ hm)
  | some x =>
    have := ho _ (lookup_mem _ _ _ hl) (.inr rfl)
    simp only [Prod.mk.injEq, true_and] at this
    rw [this]

/-- frames that do not carry the call's number leave its entry, its future and its ownership as they are -/
theorem deliverAll_kept (ds : List (List UInt8)) (s : Proto) (seq cid fid : Nat) (hw : WF s) (ho : Own s seq cid fid)
    (hm : (seq, (cid, fid)) ∈ s.awaiting) (hp : s.futs[fid]? = some .pending)
    (h : ∀ d ∈ ds, ∀ id nm v tr, rxFrame s.version s.cmds d ≠ .ok seq id nm v tr) :
    (seq, (cid, fid)) ∈ (deliverAll ds s).2.awaiting ∧ (deliverAll ds s).2.futs[fid]? = some .pending := by
  refine ⟨?_, deliverAll_pending_kept ds s seq cid fid hw ho hp h⟩
  induction ds generalizing s with
  | nil => exact hm
  | cons d ds ih =>
    have h1 := frameReceived_eq s d hw
    have hs := frameReceived_step s d hw
    have hpk := deliverAll_pending_kept [d] s seq cid fid hw ho hp (fun x hx => h x (by simp at hx; subst hx; exact List.mem_cons_self))
    rcases hx : frameReceived d s with ⟨r, s1⟩
    rw [hx] at h1 hs
    simp only [Prod.mk.injEq] at h1
    obtain ⟨hr0, h1⟩ := h1
    subst hr0
    simp only [deliverAll, bind, PyM.bind, hx, pure, PyM.pure] at hpk ⊢
    have hm1 : (seq, (cid, fid)) ∈ s1.awaiting := by
      rw [h1]
      by_cases hd : ignored s d = true
      · simp [hd]; exact hm
      · simp only [hd, Bool.false_eq_true, ↓reduceIte]
        exact call_entry_kept s d seq hw (h d List.mem_cons_self) _ hm rfl
    refine ih s1 (hs.wf hw) (ho.sub hs.steps.sub) hm1 hpk ?_
    intro d' hd' id nm v tr
    rw [hs.version, hs.cmds]
    exact h d' (List.mem_cons_of_mem _ hd') id nm v tr

/-- ... and then the own reply resolves the future with its decoded values, whatever follows it -/
theorem deliverAll_reply (pre post : List (List UInt8)) (d : List UInt8) (s : Proto) (seq cid fid : Nat) (nm : String) (v : Vals)
    (tr : List UInt8) (hw : WF s) (ho : Own s seq cid fid) (hm : (seq, (cid, fid)) ∈ s.awaiting) (hp : s.futs[fid]? = some .pending)
    (hno : ∀ x ∈ pre, ∀ id nm v tr, rxFrame s.version s.cmds x ≠ .ok seq id nm v tr)
    (hd : rxFrame s.version s.cmds d = .ok seq cid nm v tr) (hnm : nm ≠ "invalidCommand") (hpr : s.protocol = some ()) :
    (deliverAll (pre ++ d :: post) s).2.futs[fid]? = some (.result v) := by
  induction pre generalizing s with
  | nil =>
    have hl := lookup_of_own s seq cid fid ho hm
    have hcr := call_reply s d seq cid fid nm v tr hd hl hnm hp
    have hne : ignored s d = false := by simp [ignored, hpr, rxFrame_nonempty _ _ _ _ _ _ _ _ hd]
    have h1 := frameReceived_eq s d hw
    have hs := frameReceived_step s d hw
    rcases hx : frameReceived d s with ⟨r, s1⟩
    rw [hx] at h1 hs
    simp only [Prod.mk.injEq] at h1
    obtain ⟨hr0, h1⟩ := h1
    subst hr0
    simp only [hne, Bool.false_eq_true, ↓reduceIte, hcr] at h1
    simp only [List.nil_append, deliverAll, bind, PyM.bind, hx]
    have hlt : fid < s.futs.length := by
      rcases Nat.lt_or_ge fid s.futs.length with h | h
      · exact h
      · rw [List.getElem?_eq_none h] at hp; cases hp
    have hf1 : s1.futs[fid]? = some (.result v) := by rw [h1]; simp [popped, List.getElem?_set, hlt]
    have hst := (deliverAll_spec post s1 (hs.wf hw)).2.stable fid (by rw [hf1]; intro h; injection h with h; cases h)
    rw [hst, hf1]
  | cons x pre ih =>
    have h1 := frameReceived_eq s x hw
    have hs := frameReceived_step s x hw
    obtain ⟨hmk, hpk⟩ := deliverAll_kept [x] s seq cid fid hw ho hm hp (fun y hy => hno y (by simp at hy; subst hy; exact List.mem_cons_self))
    rcases hx : frameReceived x s with ⟨r, s1⟩
    rw [hx] at h1 hs
    simp only [Prod.mk.injEq] at h1
    obtain ⟨hr0, -⟩ := h1
    subst hr0
    simp only [deliverAll, bind, PyM.bind, hx, pure, PyM.pure] at hmk hpk
    simp only [List.cons_append, deliverAll, bind, PyM.bind, hx]
    refine ih s1 (hs.wf hw) (ho.sub hs.steps.sub) hmk hpk ?_ ?_ (hs.protocol.trans hpr)
    · intro y hy id nm v tr
      rw [hs.version, hs.cmds]
      exact hno y (List.mem_cons_of_mem _ hy) id nm v tr
    · rw [hs.version, hs.cmds]; exact hd

theorem registered_has (s : Proto) (seq cid : Nat) : (seq, (cid, s.futs.length)) ∈ (registered s seq cid).awaiting := by
  simp only [registered]
  split
  · rename_i hany
    obtain ⟨x, hx, hk⟩ := List.any_eq_true.mp hany
    exact List.mem_map.mpr ⟨x, hx, by simp at hk; simp [hk]⟩
  · simp

/-- **the own reply is returned**: the frame was built and handed over; no frame received before it (during the hand-over, or
earlier in the wait) decodes with the call's sequence number; then a frame that decodes - under the handler's version and table -
with the sequence number placed in the request and the frame ID of the command completes the call with exactly its decoded
values, whatever arrives after it and whatever would have ended the wait -/
theorem command_reply (s : Proto) (name : String) (args : Vals) (kwargs : KwVals) (c : Cmd) (data : List UInt8)
    (f1 pre post : List (List UInt8)) (d : List UInt8) (fin : WaitEnd) (rest : List CResp) (nm : String) (v : Vals) (tr : List UInt8)
    (hw : WF s) (hs : s.script = .acquire true :: .send f1 none :: .wait (pre ++ d :: post) fin :: rest)
    (hc : findByName s.cmds name = some c)
    (hfr : (ezsp_frame name args kwargs (entered s name (.send f1 none :: .wait (pre ++ d :: post) fin :: rest))).1 = .ok data)
    (hno : ∀ x ∈ f1 ++ pre, ∀ id nm v tr, rxFrame s.version s.cmds x ≠ .ok s.seq id nm v tr)
    (hd : rxFrame s.version s.cmds d = .ok s.seq c.id nm v tr) (hnm : nm ≠ "invalidCommand") (hpr : s.protocol = some ()) :
    (command name args kwargs s).1 = .ok v := by
  rw [command_granted s name args kwargs _ hs]
  have hw1 : WF (entered s name (.send f1 none :: .wait (pre ++ d :: post) fin :: rest)) := hw
  rcases hx : ezsp_frame name args kwargs (entered s name (.send f1 none :: .wait (pre ++ d :: post) fin :: rest)) with ⟨r, s1⟩
  rw [hx] at hfr
  simp only at hfr
  subst hfr
  simp only [hc]
  have hw2 : WF { registered (entered s name (.send f1 none :: .wait (pre ++ d :: post) fin :: rest)) s.seq c.id with
      seq := (s.seq + 1) % 256 } := registered_wf _ s.seq c.id hw1
  have ho2 : Own { registered (entered s name (.send f1 none :: .wait (pre ++ d :: post) fin :: rest)) s.seq c.id with
      seq := (s.seq + 1) % 256 } s.seq c.id s.futs.length := registered_own _ s.seq c.id hw1
  have hp2 : ({ registered (entered s name (.send f1 none :: .wait (pre ++ d :: post) fin :: rest)) s.seq c.id with
      seq := (s.seq + 1) % 256 } : Proto).futs[s.futs.length]? = some .pending := registered_pending _ s.seq c.id
  have hm2 : (s.seq, (c.id, s.futs.length)) ∈ ({ registered (entered s name (.send f1 none :: .wait (pre ++ d :: post) fin :: rest))
      s.seq c.id with seq := (s.seq + 1) % 256 } : Proto).awaiting := registered_has _ s.seq c.id
  have hk := waitPhase_keeps data s.futs.length _ hw2
  have hwp : waitPhase data s.futs.length
      { registered (entered s name (.send f1 none :: .wait (pre ++ d :: post) fin :: rest)) s.seq c.id with
        seq := (s.seq + 1) % 256 } = _ := rfl
  conv at hwp => lhs; unfold waitPhase
  rw [gwSend_run data _ f1 none (.wait (pre ++ d :: post) fin :: rest) hw2 rfl] at hwp
  dsimp only at hwp
  have hw3 : WF { registered (entered s name (.send f1 none :: .wait (pre ++ d :: post) fin :: rest)) s.seq c.id with
      seq := (s.seq + 1) % 256, script := .wait (pre ++ d :: post) fin :: rest,
      trace := (registered (entered s name (.send f1 none :: .wait (pre ++ d :: post) fin :: rest)) s.seq c.id).trace ++
        [.sent data] } := hw2
  obtain ⟨-, hst1⟩ := deliverAll_spec f1 _ hw3
  obtain ⟨hma, hpa⟩ := deliverAll_kept f1 _ s.seq c.id s.futs.length hw3 ho2 hm2 hp2
    (fun x hx' id nm v tr => hno x (List.mem_append_left _ hx') id nm v tr)
  rw [awaitFuture_run s.futs.length 10 _ (pre ++ d :: post) fin rest (hst1.wf hw3) (by rw [hst1.script])] at hwp
  generalize hsa : (deliverAll f1 { registered (entered s name (.send f1 none :: .wait (pre ++ d :: post) fin :: rest)) s.seq c.id with
      seq := (s.seq + 1) % 256, script := .wait (pre ++ d :: post) fin :: rest,
      trace := (registered (entered s name (.send f1 none :: .wait (pre ++ d :: post) fin :: rest)) s.seq c.id).trace ++
        [.sent data] }).2 = sa at hwp hst1 hma hpa
  have hwa : WF sa := hst1.wf hw3
  have hoa : Own sa s.seq c.id s.futs.length := ho2.sub hst1.sub
  have hres := deliverAll_reply pre post d { sa with script := rest, trace := sa.trace ++ [.wait 10] } s.seq c.id s.futs.length nm v tr
    hwa hoa hma hpa
    (fun x hx' id nm v tr => by
      show rxFrame sa.version sa.cmds x ≠ _
      rw [hst1.version, hst1.cmds]
      exact hno x (List.mem_append_right _ hx') id nm v tr)
    (by show rxFrame sa.version sa.cmds d = _
        rw [hst1.version, hst1.cmds]; exact hd) hnm (by show sa.protocol = _; rw [hst1.protocol]; exact hpr)
  generalize hsb : (deliverAll (pre ++ d :: post) { sa with script := rest, trace := sa.trace ++ [.wait 10] }).2 = sb at hwp hres
  unfold waitEnd at hwp
  rw [hres] at hwp
  dsimp only at hwp
  rw [← hwp] at hk ⊢
  dsimp only
  obtain ⟨aw, hcl, -⟩ := cleanup_spec sb s.seq c.id s.futs.length (ho2.sub hk.sub)
  rw [hcl]

end BV.Proofs.Src.Cmd
