/-
Source-level tie for bellows/multicast.py: the coroutines `Multicast.subscribe`, `Multicast.unsubscribe` and
`Multicast._initialize`, as generated from the syntax tree (BV/Gen/SrcMcast.lean; every `await` is a call on the scripted
command layer, `set.pop()` takes its element from a scripted choice), are proved to be the steps of the hand-written model
`BV.Mcast` that the C15 theorems are about.

`absH` forgets the stored entry objects (the model keeps group -> index only); `WF` says the dict's keys are distinct and
every stored entry carries its key as its multicast id (true after `_initialize` and preserved by `subscribe`).
-/
import BV.Gen.SrcMcast
import BV.Model.Multicast
namespace BV.Proofs.Src.Mcast
open BV.Py BV.Src.Mcast BV.Mcast

abbrev M := BV.Src.Mcast.Multicast

def absMc (l : List (Nat × (McEntry × Nat))) : List (Nat × Nat) := l.map fun p => (p.1, p.2.2)

def absH (m : M) : Host := { mc := absMc m.multicast, avail := m.available }

structure WF (m : M) : Prop where
  keys : (m.multicast.map (·.1)).Nodup
  ids : ∀ p ∈ m.multicast, p.2.1.multicastId = p.1

/-- the model's answer for a scripted outcome of the table write -/
def ansOf : Resp → Option Ans
  | .one st => some (if statusIsOk st then .ok else .reject (BV.Status.conv st))
  | .raises c => if baseOnly.contains c then none else some .timeout
  | _ => none

/-- the coroutine's outcome against the model's -/
def resRel (res : Except PyErr StatusV) : Res → Prop
  | .ok => ∃ st, res = .ok st ∧ statusIsOk st = true
  | .invalidIndex => res = .ok (.sl 39)
  | .status n => ∃ st, res = .ok st ∧ statusIsOk st = false ∧ BV.Status.conv st = n
  | .raised => ∃ c, res = .error (.raised c)

/-- the table write the model reports against the command the coroutine issued -/
def writeRel (evs : List MEv) : Option (Nat × Nat × Nat) → Prop
  | none => evs = []
  | some (i, g, ep) => ∃ e, evs = [.setEntry i e] ∧ e.multicastId = g ∧ e.endpoint = ep

theorem lookup_isSome (l : List (Nat × (McEntry × Nat))) (g : Nat) :
    (dictGet l g).isSome = (lookupIdx (absMc l) g).isSome := by
  induction l with
  | nil => rfl
  | cons p ps ih =>
    obtain ⟨k, e, i⟩ := p
    simp only [dictGet, List.lookup_cons, absMc, List.map_cons, lookupIdx, List.find?_cons] at ih ⊢
    by_cases h : g = k
    · subst h; simp
    · have h1 : (g == k) = false := by simpa using h
      have h2 : (k == g) = false := by simpa using fun x : k = g => h x.symm
      simp only [h1, h2]
      exact ih

theorem lookup_val (l : List (Nat × (McEntry × Nat))) (g : Nat) :
    (dictGet l g).map (·.2) = lookupIdx (absMc l) g := by
  induction l with
  | nil => rfl
  | cons p ps ih =>
    obtain ⟨k, e, i⟩ := p
    simp only [dictGet, List.lookup_cons, absMc, List.map_cons, lookupIdx, List.find?_cons] at ih ⊢
    by_cases h : g = k
    · subst h; simp
    · have h1 : (g == k) = false := by simpa using h
      have h2 : (k == g) = false := by simpa using fun x : k = g => h x.symm
      simp only [h1, h2]
      exact ih

theorem any_key (l : List (Nat × (McEntry × Nat))) (g : Nat) :
    l.any (fun kv => kv.1 == g) = true ↔ g ∈ l.map (·.1) := by
  induction l with
  | nil => simp
  | cons p ps ih =>
    simp only [List.any_cons, Bool.or_eq_true, beq_iff_eq, List.map_cons, List.mem_cons, ih]
    constructor
    · rintro (h | h)
      · exact Or.inl h.symm
      · exact Or.inr h
    · rintro (h | h)
      · exact Or.inl h.symm
      · exact Or.inr h

theorem map_id_of_not_mem (l : List (Nat × (McEntry × Nat))) (g : Nat) (v : McEntry × Nat) (h : g ∉ l.map (·.1)) :
    l.map (fun kv => if kv.1 == g then (g, v) else kv) = l := by
  induction l with
  | nil => rfl
  | cons p ps ih =>
    simp only [List.map_cons, List.mem_cons, not_or] at h ⊢
    have : (p.1 == g) = false := by simpa using fun x : p.1 = g => h.1 x.symm
    rw [this, ih h.2]; rfl

/-- `d[k] = (entry, i)` on a dict with distinct keys is the model's `mcSet` -/
theorem absMc_dictSet (l : List (Nat × (McEntry × Nat))) (g i : Nat) (e : McEntry) (hk : (l.map (·.1)).Nodup) :
    absMc (dictSet l g (e, i)) = mcSet (absMc l) g i := by
  induction l with
  | nil => simp [dictSet, absMc, mcSet]
  | cons p ps ih =>
    obtain ⟨k, e', i'⟩ := p
    simp only [List.map_cons, List.nodup_cons] at hk
    by_cases h : k = g
    · subst h
      have hid := map_id_of_not_mem ps k (e, i) hk.1
      simp only [dictSet, List.any_cons, beq_self_eq_true, Bool.true_or, ↓reduceIte, List.map_cons, absMc, mcSet] at hid ⊢
      simp only [hid]
    · have h1 : (k == g) = false := by simpa using h
      have ih' := ih hk.2
      unfold dictSet at ih' ⊢
      simp only [List.any_cons, h1, Bool.false_or, absMc, List.map_cons, mcSet, h, ↓reduceIte] at ih' ⊢
      by_cases ha : ps.any (fun kv => kv.1 == g) = true
      · simp only [ha, ↓reduceIte, List.map_cons, h1, Bool.false_eq_true] at ih' ⊢
        simp only [List.map_map] at ih' ⊢
        rw [← ih']
      · simp only [ha, Bool.false_eq_true, ↓reduceIte, List.cons_append, List.map_cons] at ih' ⊢
        rw [← ih']

theorem keys_dictSet (l : List (Nat × (McEntry × Nat))) (g : Nat) (v : McEntry × Nat) (hk : (l.map (·.1)).Nodup) :
    ((dictSet l g v).map (·.1)).Nodup := by
  unfold dictSet
  by_cases ha : l.any (fun kv => kv.1 == g) = true
  · simp only [ha, ↓reduceIte, List.map_map]
    have : (l.map ((fun x => x.1) ∘ fun kv => if (kv.1 == g) = true then (g, v) else kv)) = l.map (·.1) := by
      apply List.map_congr_left
      intro a _
      by_cases hx : a.1 = g <;> simp [hx]
    rw [this]; exact hk
  · simp only [ha, Bool.false_eq_true, ↓reduceIte, List.map_append, List.map_cons, List.map_nil]
    have hn : g ∉ l.map (·.1) := fun hm => ha ((any_key l g).mpr hm)
    exact List.nodup_append.mpr ⟨hk, by simp, by intro a ha' b hb; simp at hb; subst hb; exact fun h => hn (h ▸ ha')⟩

theorem mem_dictSet (l : List (Nat × (McEntry × Nat))) (g : Nat) (v : McEntry × Nat) (p : Nat × (McEntry × Nat))
    (hp : p ∈ dictSet l g v) : p ∈ l ∨ p = (g, v) := by
  unfold dictSet at hp
  by_cases ha : l.any (fun kv => kv.1 == g) = true
  · simp only [ha, ↓reduceIte, List.mem_map] at hp
    obtain ⟨a, ha1, ha2⟩ := hp
    by_cases hx : (a.1 == g) = true
    · simp only [hx, ↓reduceIte] at ha2; exact Or.inr ha2.symm
    · simp only [hx, Bool.false_eq_true, ↓reduceIte] at ha2; exact Or.inl (ha2 ▸ ha1)
  · simp only [ha, Bool.false_eq_true, ↓reduceIte, List.mem_append, List.mem_singleton] at hp
    exact hp

theorem absMc_filter (l : List (Nat × (McEntry × Nat))) (g : Nat) :
    absMc (l.filter (fun kv => kv.1 != g)) = (absMc l).filter (fun kv => kv.1 != g) := by
  induction l with
  | nil => rfl
  | cons p ps ih =>
    simp only [List.filter_cons, absMc, List.map_cons] at ih ⊢
    by_cases h : (p.1 != g) = true <;> simp [h, ih]

theorem addAvail_eq (a : List Nat) (i : Nat) :
    (if i ∈ a then a else a ++ [i]) = addAvail a i := rfl

theorem checkU2 (g : Nat) (hg : g < 65536) : checkU 2 g = .ok g := by
  unfold checkU; simp [hg]

/-- **`Multicast.subscribe` is the model's subscribe step** (already subscribed / no free index / table write accepted,
rejected or raising): same outcome, same bookkeeping afterwards, same table write; a step that issues no command leaves the
script untouched -/
theorem subscribe_eq (m : M) (tab : Tab) (g c : Nat) (cs : List Nat) (r : Resp) (rest : List Resp) (a : Ans)
    (hw : WF m) (hg : g < 65536) (hs : m.script = r :: rest) (hc : m.choices = c :: cs)
    (hca : m.available ≠ [] → c ∈ m.available) (ha : ansOf r = some a) :
    absH (Multicast.subscribe g m).2 = (step (absH m) tab (.subscribe g c a)).1 ∧
    WF (Multicast.subscribe g m).2 ∧
    resRel (Multicast.subscribe g m).1 (step (absH m) tab (.subscribe g c a)).2.2.res ∧
    writeRel ((Multicast.subscribe g m).2.trace.drop m.trace.length) (step (absH m) tab (.subscribe g c a)).2.2.write := by
  obtain ⟨mc, av, script, choices, trace⟩ := m
  simp only at hs hc hca
  subst hs hc
  obtain ⟨hk, hi⟩ := hw
  simp only at hk hi
  have hL := lookup_isSome mc g
  by_cases h1 : (dictGet mc g).isSome = true
  · -- already subscribed
    have h1' : (lookupIdx (absMc mc) g).isSome = true := hL ▸ h1
    simp [Multicast.subscribe, bind, PyM.bind, PyM.get, h1, checkU2 g hg, PyM.lift, pure, PyM.pure, step, absH, h1',
      resRel, writeRel, statusIsOk, BV.Status.conv]
    exact ⟨hk, hi⟩
  · have h1' : (lookupIdx (absMc mc) g).isSome = false := by rw [← hL]; simpa using h1
    by_cases h2 : av = []
    · -- no free index
      subst h2
      simp [Multicast.subscribe, bind, PyM.bind, PyM.get, h1, PyM.attempt, availPop, PyErr.caughtBy, pure, PyM.pure, step, absH,
        h1', resRel, writeRel]
      exact ⟨hk, hi⟩
    · have hcm : c ∈ av := hca h2
      have hne : av.isEmpty = false := by cases av <;> simp_all
      have hcon : av.contains c = true := by simpa using hcm
      have hu1 : checkU 1 1 = .ok 1 := by decide
      have hu0 : checkU 1 0 = .ok 0 := by decide
      cases r with
      | cfg st v => simp [ansOf] at ha
      | entry st e => simp [ansOf] at ha
      | raises cl =>
        by_cases hb : baseOnly.contains cl = true
        · have hb2 : cl ∈ baseOnly := by simpa using hb
          simp [ansOf, hb2] at ha
        · simp only [ansOf, hb, Bool.false_eq_true, ↓reduceIte, Option.some.injEq] at ha
          subst ha
          have hb' : ¬ cl ∈ baseOnly := by simpa using hb
          simp [Multicast.subscribe, bind, PyM.bind, PyM.get, h1, PyM.attempt, availPop, hne, hcon, PyErr.caughtBy, pure, PyM.pure,
            PyM.lift, hu1, hu0, checkU2 g hg, mcall, hb', availAdd, PyM.modify, PyM.throw, step, absH, h1', h2, hcm, resRel, writeRel,
            addAvail_eq]
          exact ⟨hk, hi⟩
      | one st =>
        by_cases hok : statusIsOk st = true
        · simp only [ansOf, hok, ↓reduceIte, Option.some.injEq] at ha
          subst ha
          have hok' : BV.Status.conv st = BV.Gen.Status.slOK := by simpa [statusIsOk] using hok
          simp [Multicast.subscribe, bind, PyM.bind, PyM.get, h1, PyM.attempt, availPop, hne, hcon, PyErr.caughtBy, pure, PyM.pure,
            PyM.lift, hu1, hu0, checkU2 g hg, mcall, Resp.asSt, listAt, hok', PyM.modify, step, absH, h1', h2, hcm, resRel, writeRel,
            absMc_dictSet mc g c _ hk, hok]
          refine ⟨keys_dictSet mc g _ hk, ?_⟩
          intro p hp
          rcases mem_dictSet mc g _ p hp with hp | hp
          · exact hi p hp
          · subst hp; rfl
        · have hok2 : statusIsOk st = false := by simpa using hok
          simp only [ansOf, hok2, Bool.false_eq_true, ↓reduceIte, Option.some.injEq] at ha
          subst ha
          have hok' : ¬ BV.Status.conv st = BV.Gen.Status.slOK := by simpa [statusIsOk] using hok2
          simp [Multicast.subscribe, bind, PyM.bind, PyM.get, h1, PyM.attempt, availPop, hne, hcon, PyErr.caughtBy, pure, PyM.pure,
            PyM.lift, hu1, hu0, checkU2 g hg, mcall, Resp.asSt, listAt, hok', availAdd, PyM.modify, step, absH, h1', h2, hcm, resRel,
            writeRel, addAvail_eq, hok2]
          exact ⟨hk, hi⟩

theorem lookup_mem (l : List (Nat × (McEntry × Nat))) (g : Nat) (v : McEntry × Nat) (h : l.lookup g = some v) : (g, v) ∈ l := by
  induction l with
  | nil => simp at h
  | cons p ps ih =>
    obtain ⟨k, w⟩ := p
    simp only [List.lookup_cons] at h
    by_cases hk : g = k
    · subst hk; simp at h; subst h; simp
    · have : (g == k) = false := by simpa using hk
      rw [this] at h
      exact List.mem_cons_of_mem _ (ih h)

/-- **`Multicast.unsubscribe` is the model's unsubscribe step** -/
theorem unsubscribe_eq (m : M) (tab : Tab) (g : Nat) (r : Resp) (rest : List Resp) (a : Ans)
    (hw : WF m) (hs : m.script = r :: rest) (ha : ansOf r = some a) :
    absH (Multicast.unsubscribe g m).2 = (step (absH m) tab (.unsubscribe g a)).1 ∧
    WF (Multicast.unsubscribe g m).2 ∧
    resRel (Multicast.unsubscribe g m).1 (step (absH m) tab (.unsubscribe g a)).2.2.res ∧
    writeRel ((Multicast.unsubscribe g m).2.trace.drop m.trace.length) (step (absH m) tab (.unsubscribe g a)).2.2.write := by
  obtain ⟨mc, av, script, choices, trace⟩ := m
  simp only at hs
  subst hs
  obtain ⟨hk, hi⟩ := hw
  simp only at hk hi
  have hV := lookup_val mc g
  have hu0 : checkU 1 0 = .ok 0 := by decide
  cases hl : mc.lookup g with
  | none =>
    have h1 : lookupIdx (absMc mc) g = none := by rw [← hV]; simp [dictGet, hl]
    simp [Multicast.unsubscribe, bind, PyM.bind, PyM.get, PyM.attempt, PyM.lift, dictIndex, hl, PyErr.caughtBy, pure, PyM.pure,
      step, absH, h1, resRel, writeRel]
    exact ⟨hk, hi⟩
  | some v =>
    obtain ⟨e, idx⟩ := v
    have h1 : lookupIdx (absMc mc) g = some idx := by rw [← hV]; simp [dictGet, hl]
    have hid : e.multicastId = g := hi (g, (e, idx)) (lookup_mem mc g _ hl)
    cases r with
    | cfg st v => simp [ansOf] at ha
    | entry st e => simp [ansOf] at ha
    | raises cl =>
      by_cases hb : baseOnly.contains cl = true
      · have hb2 : cl ∈ baseOnly := by simpa using hb
        simp [ansOf, hb2] at ha
      · simp only [ansOf, hb, Bool.false_eq_true, ↓reduceIte, Option.some.injEq] at ha
        subst ha
        simp [Multicast.unsubscribe, bind, PyM.bind, PyM.get, PyM.attempt, PyM.lift, dictIndex, hl, pure, PyM.pure, hu0, mcall,
          step, absH, h1, resRel, writeRel, hid]
        exact ⟨hk, hi⟩
    | one st =>
      by_cases hok : statusIsOk st = true
      · simp only [ansOf, hok, ↓reduceIte, Option.some.injEq] at ha
        subst ha
        have hok' : BV.Status.conv st = BV.Gen.Status.slOK := by simpa [statusIsOk] using hok
        simp [Multicast.unsubscribe, bind, PyM.bind, PyM.get, PyM.attempt, PyM.lift, dictIndex, dictPop, hl, pure, PyM.pure, hu0,
          mcall, Resp.asSt, listAt, hok', PyM.modify, availAdd, step, absH, h1, resRel, writeRel, hid, hok, absMc_filter,
          addAvail_eq]
        refine ⟨?_, ?_⟩
        · have : (mc.filter (fun kv => kv.1 != g)).map (·.1) = (mc.map (·.1)).filter (fun k => k != g) := by
            rw [List.filter_map]; rfl
          rw [this]
          exact hk.filter _
        · intro p hp
          exact hi p (List.mem_filter.mp hp).1
      · have hok2 : statusIsOk st = false := by simpa using hok
        simp only [ansOf, hok2, Bool.false_eq_true, ↓reduceIte, Option.some.injEq] at ha
        subst ha
        have hok' : ¬ BV.Status.conv st = BV.Gen.Status.slOK := by simpa [statusIsOk] using hok2
        simp [Multicast.unsubscribe, bind, PyM.bind, PyM.get, PyM.attempt, PyM.lift, dictIndex, hl, pure, PyM.pure, hu0,
          mcall, Resp.asSt, listAt, hok', step, absH, h1, resRel, writeRel, hid, hok2]
        exact ⟨hk, hi⟩

/-- one table entry as the NCP reports it: (status, entry) -/
abbrev Row := StatusV × McEntry

def tabOf (rows : List Row) : Tab := rows.map fun r => (r.2.multicastId, r.2.endpoint)

/-- the table scan of `_initialize` over rows that are all read successfully is the model's `scanFrom` -/
theorem scan_loop_eq (rows : List Row) (rest : List Resp) (i : Nat) (m : M) (stv : StatusV) (hw : WF m)
    (hall : ∀ r ∈ rows, statusIsOk r.1 = true)
    (hs : m.script = rows.map (fun r => Resp.entry r.1 r.2) ++ rest) :
    ∃ st' m', BV.Py.forM Multicast.u_initialize.loop1 (List.range' i rows.length) stv m = (.ok (.done st' false), m') ∧
      absH m' = scanFrom i (tabOf rows) (absH m) ∧ m'.script = rest ∧ WF m' ∧ m'.choices = m.choices ∧
      m'.trace = m.trace ++ (List.range' i rows.length).map MEv.getEntry := by
  induction rows generalizing i m stv with
  | nil =>
    refine ⟨stv, m, ?_, ?_, ?_, hw, rfl, ?_⟩
    · simp [BV.Py.forM, PyM.pure]
    · simp [tabOf, scanFrom]
    · simpa using hs
    · simp
  | cons r rows ih =>
    obtain ⟨st, e⟩ := r
    obtain ⟨mc, av, script, choices, trace⟩ := m
    simp only [List.map_cons, List.cons_append] at hs
    subst hs
    have hok : statusIsOk st = true := hall (st, e) (by simp)
    have hok' : BV.Status.conv st = BV.Gen.Status.slOK := by simpa [statusIsOk] using hok
    obtain ⟨hk, hi⟩ := hw
    simp only at hk hi
    by_cases hep : e.endpoint = 0
    · -- a free slot
      let m1 : M := { multicast := mc, available := if i ∈ av then av else av ++ [i],
                      script := rows.map (fun r => Resp.entry r.1 r.2) ++ rest, choices := choices,
                      trace := trace ++ [.getEntry i] }
      obtain ⟨st', m', h1, h2, h3, h4, h5, h6⟩ := ih (i + 1) m1 st ⟨hk, hi⟩ (fun r hr => hall r (by simp [hr])) rfl
      refine ⟨st', m', ?_, ?_, h3, h4, h5, ?_⟩
      · simp only [List.length_cons, List.range'_succ, BV.Py.forM]
        simp [Multicast.u_initialize.loop1, bind, PyM.bind, mcall, PyM.lift, Resp.asEntry, hok', hep, availAdd, PyM.modify, pure,
          PyM.pure]
        exact h1
      · rw [h2]
        simp [tabOf, scanFrom, hep, absH, m1, addAvail]
      · rw [h6]; simp [m1, List.range'_succ]
    · -- a programmed entry
      let m1 : M := { multicast := dictSet mc e.multicastId (e, i), available := av,
                      script := rows.map (fun r => Resp.entry r.1 r.2) ++ rest, choices := choices,
                      trace := trace ++ [.getEntry i] }
      have hw1 : WF m1 := by
        refine ⟨keys_dictSet mc _ _ hk, ?_⟩
        intro p hp
        rcases mem_dictSet mc _ _ p hp with hp | hp
        · exact hi p hp
        · subst hp; rfl
      obtain ⟨st', m', h1, h2, h3, h4, h5, h6⟩ := ih (i + 1) m1 st hw1 (fun r hr => hall r (by simp [hr])) rfl
      refine ⟨st', m', ?_, ?_, h3, h4, h5, ?_⟩
      · simp only [List.length_cons, List.range'_succ, BV.Py.forM]
        simp [Multicast.u_initialize.loop1, bind, PyM.bind, mcall, PyM.lift, Resp.asEntry, hok', hep, PyM.modify, pure, PyM.pure]
        exact h1
      · rw [h2]
        simp [tabOf, scanFrom, hep, absH, m1, absMc_dictSet mc _ i e hk]
      · rw [h6]; simp [m1, List.range'_succ]

/-- **`Multicast._initialize` is the model's `scan`** when the size read and every entry read succeed: the host's view is
rebuilt from the NCP's table alone (whatever it held before), one read per index in order -/
theorem initialize_eq (m : M) (rows : List Row) (rest : List Resp) (stc : StatusV) (hc : statusIsOk stc = true)
    (hall : ∀ r ∈ rows, statusIsOk r.1 = true)
    (hs : m.script = Resp.cfg stc rows.length :: (rows.map (fun r => Resp.entry r.1 r.2) ++ rest)) :
    ∃ m', Multicast.u_initialize m = (.ok (), m') ∧ absH m' = scan (tabOf rows) ∧ m'.script = rest ∧ WF m' ∧
      m'.trace = m.trace ++ .getConfig 6 :: (List.range rows.length).map MEv.getEntry := by
  obtain ⟨mc, av, script, choices, trace⟩ := m
  simp only at hs
  subst hs
  have hc' : BV.Status.conv stc = BV.Gen.Status.slOK := by simpa [statusIsOk] using hc
  have hw0 : WF ({ multicast := [], available := [], script := rows.map (fun r => Resp.entry r.1 r.2) ++ rest,
                   choices := choices, trace := trace ++ [.getConfig 6] } : M) :=
    ⟨by simp, by intro p hp; simp at hp⟩
  obtain ⟨st', m', h1, h2, h3, h4, -, h6⟩ := scan_loop_eq rows rest 0 _ stc hw0 hall rfl
  refine ⟨m', ?_, ?_, h3, h4, ?_⟩
  · simp only [Multicast.u_initialize, bind, PyM.bind, PyM.modify, mcall, PyM.lift, Resp.asCfg, rangeN, List.range_eq_range']
    simp only [hc', ne_eq, not_true_eq_false, decide_false, Bool.false_eq_true, ↓reduceIte, h1]
    simp [PyM.bind, h1, LoopRes.noRet, pure, PyM.pure]
  · rw [h2]; simp [scan, absH, absMc]
  · rw [h6]; simp [List.range_eq_range']

end BV.Proofs.Src.Mcast
