/-
Source-level proof for `AshProtocol.data_received` (bellows/ash.py): the definition that `harness/pytrans.py`
generates from the Python source (BV/Gen/SrcAsh.lean, regenerated on every run) computes what the hand-written
decoder model `BV.Ash.feedChunk` computes.  One round of the generated loop body (`data_received.loop1`) is one
`roundOf` step of the model's `scan`; the FLAG branch on a non-empty segment is `onSegment`; the `while` loop with
its fuel is `scan` followed by `onSegments`; the whole call (extend, loop, keep the last 1024 bytes) is `feedChunk`.
-/
import BV.Proofs.Src.AshRx
import BV.Model.Ash.Decoder
import BV.Proofs.Ash.DecLemmas
import BV.Props.C04
namespace BV.Proofs.Src.AshDec
open BV.Py BV.Gen.Ash BV.Proofs.Src.Ash BV.Proofs.Src.AshRx
open BV.Src.Ash (Frame FrameCls AshProtocol FutState NcpState emit)
open BV.Ash (splitRwe afterFlag scan scanBody onSegment onSegments)

theorem rwe_contains : ∀ b : UInt8,
    (BV.Src.Ash.C_RESERVED_WITHOUT_ESCAPE : List Nat).contains b.toNat = BV.Ash.isReservedNoEsc b := by
  intro b; byte_cases b

/-- the `next(...)` generator of the source finds what `splitRwe` finds -/
theorem firstIdx_split (l : List UInt8) (k : Nat) :
    firstIdx (fun byte => (BV.Src.Ash.C_RESERVED_WITHOUT_ESCAPE : List Nat).contains byte) l k =
      (splitRwe l).map fun (pre, b, _) => (k + pre.length, b.toNat) := by
  induction l generalizing k with
  | nil => simp [firstIdx, splitRwe]
  | cons x xs ih =>
    simp only [firstIdx, splitRwe, rwe_contains]
    by_cases hx : BV.Ash.isReservedNoEsc x = true
    · simp [hx]
    · simp only [hx, Bool.false_eq_true, ↓reduceIte, ih (k + 1)]
      cases splitRwe xs with
      | none => simp
      | some p => obtain ⟨pre, b, rest⟩ := p; simp; omega

theorem split_slices {l pre rest : List UInt8} {b : UInt8} (h : splitRwe l = some (pre, b, rest)) :
    sliceTo l pre.length = pre ∧ sliceFrom l (pre.length + 1) = rest ∧ popAt l pre.length = .ok (pre ++ rest) := by
  obtain ⟨hl, -, -⟩ := BV.Ash.splitRwe_some h
  subst hl
  refine ⟨by simp [sliceTo], by simp [sliceFrom], ?_⟩
  simp [popAt, List.eraseIdx_append_of_length_le]

theorem contains_flag (l : List UInt8) : bytesContains1 [126] l = (afterFlag l).isSome := by
  induction l with
  | nil => simp [bytesContains1, afterFlag]
  | cons x xs ih =>
    simp only [bytesContains1, afterFlag] at ih ⊢
    by_cases hx : x = resFlag
    · subst hx; simp [resFlag]
    · have : (x == resFlag) = false := by simpa using hx
      have h126 : ¬ (x = 126) := hx
      simp [this, ← ih, List.contains_cons, h126]
      intro h; exact absurd h.symm h126

theorem partition_flag (l : List UInt8) (q : List UInt8) (h : afterFlag l = some q) :
    (partition1 (UInt8.ofNat 126) l).2.2 = q := by
  induction l with
  | nil => simp [afterFlag] at h
  | cons x xs ih =>
    simp only [afterFlag] at h
    unfold partition1
    by_cases hx : x = 126
    · subst hx
      have : ((126 : UInt8) == resFlag) = true := by decide
      simp only [this, ↓reduceIte, Option.some.injEq] at h
      simp [h]
    · have h1 : (x == resFlag) = false := by simpa [resFlag] using hx
      have h2 : (x == UInt8.ofNat 126) = false := by simpa using hx
      simp only [h1, Bool.false_eq_true, ↓reduceIte] at h
      simp only [h2, Bool.false_eq_true, ↓reduceIte]
      exact ih h

/-- results of the source-level parser are "canonical" dataclass values (flags are 0/1, bytes are bytes), and its failures are
Python exceptions (never an artefact of the translation) -/
def Good (r : Except PyErr Frame) : Prop :=
  match r with
  | .ok f => ofM (toM f) = f
  | .error e => ∃ c, e = .raised c ∧ c ∉ baseOnly

theorem good_data (d : List UInt8) : Good (BV.Src.Ash.DataFrame.from_bytes d) := by
  simp only [BV.Src.Ash.DataFrame.from_bytes, unwrap_eq, randomize_eq]
  cases BV.Ash.unwrap d with
  | error e => simp [unwrapRes, bind, Except.bind, Good, baseOnly, baseOnly]
  | ok p =>
    obtain ⟨c, rest⟩ := p
    by_cases h : rest.length ≤ pseudoRandom.length
    · simp [unwrapRes, bind, Except.bind, Good, baseOnly, h, pure, Except.pure, ofM, toM, b2n] <;> byte_cases c
    · simp [unwrapRes, bind, Except.bind, Good, baseOnly, h]

theorem good_ack (d : List UInt8) : Good (BV.Src.Ash.AckFrame.from_bytes d) := by
  simp only [BV.Src.Ash.AckFrame.from_bytes, unwrap_eq]
  cases BV.Ash.unwrap d with
  | error e => simp [unwrapRes, bind, Except.bind, Good, baseOnly, baseOnly]
  | ok p =>
    obtain ⟨c, rest⟩ := p
    simp [unwrapRes, bind, Except.bind, Good, baseOnly, pure, Except.pure, ofM, toM, b2n] <;> byte_cases c

theorem good_nak (d : List UInt8) : Good (BV.Src.Ash.NakFrame.from_bytes d) := by
  simp only [BV.Src.Ash.NakFrame.from_bytes, unwrap_eq]
  cases BV.Ash.unwrap d with
  | error e => simp [unwrapRes, bind, Except.bind, Good, baseOnly, baseOnly]
  | ok p =>
    obtain ⟨c, rest⟩ := p
    simp [unwrapRes, bind, Except.bind, Good, baseOnly, pure, Except.pure, ofM, toM, b2n] <;> byte_cases c

theorem good_rst (d : List UInt8) : Good (BV.Src.Ash.RstFrame.from_bytes d) := by
  simp only [BV.Src.Ash.RstFrame.from_bytes, unwrap_eq]
  cases BV.Ash.unwrap d with
  | error e => simp [unwrapRes, bind, Except.bind, Good, baseOnly, baseOnly]
  | ok p =>
    obtain ⟨c, rest⟩ := p
    cases rest <;> simp [unwrapRes, bind, Except.bind, Good, baseOnly, pure, Except.pure, ofM, toM, throw, throwThe, MonadExceptOf.throw]

theorem good_rstack_like (rest : List UInt8) (mk : Nat → Nat → Frame)
    (hmk : ∀ v c : UInt8, ofM (toM (mk v.toNat c.toNat)) = mk v.toNat c.toNat) :
    Good (do
        if (decide (rest.length ≠ 2)) then throw (PyErr.raised "ParsingError")
        else do
          let b23 ← byteAt rest 0
          if (decide (b23 ≠ 2)) then throw (PyErr.raised "ParsingError")
          else do
            let b24 ← byteAt rest 1
            pure (mk b23 b24) : Except PyErr Frame) := by
  match rest with
  | [] => simp [Good, baseOnly, throw, throwThe, MonadExceptOf.throw]
  | [_] => simp [Good, baseOnly, throw, throwThe, MonadExceptOf.throw]
  | _ :: _ :: _ :: _ => simp [Good, baseOnly, throw, throwThe, MonadExceptOf.throw]
  | [v, c] =>
    by_cases hv : v.toNat = 2
    · have := hmk v c
      simp [Good, baseOnly, byteAt, bind, Except.bind, pure, Except.pure, hv] at this ⊢
      exact this
    · simp [Good, baseOnly, byteAt, bind, Except.bind, hv, throw, throwThe, MonadExceptOf.throw]

theorem good_rstack (d : List UInt8) : Good (BV.Src.Ash.RStackFrame.from_bytes d) := by
  simp only [BV.Src.Ash.RStackFrame.from_bytes, unwrap_eq]
  cases BV.Ash.unwrap d with
  | error e => simp [unwrapRes, bind, Except.bind, Good, baseOnly, baseOnly]
  | ok p =>
    obtain ⟨c, rest⟩ := p
    have := good_rstack_like rest Frame.RStackFrame (by intro v c; simp [ofM, toM])
    simpa [unwrapRes, bind, Except.bind] using this

theorem good_error (d : List UInt8) : Good (BV.Src.Ash.ErrorFrame.from_bytes d) := by
  simp only [BV.Src.Ash.ErrorFrame.from_bytes, unwrap_eq]
  cases BV.Ash.unwrap d with
  | error e => simp [unwrapRes, bind, Except.bind, Good, baseOnly, baseOnly]
  | ok p =>
    obtain ⟨c, rest⟩ := p
    have := good_rstack_like rest Frame.ErrorFrame (by intro v c; simp [ofM, toM])
    simpa [unwrapRes, bind, Except.bind] using this

theorem good_parse (d : List UInt8) : Good (BV.Src.Ash.parse_frame d) := by
  cases d with
  | nil => simp [BV.Src.Ash.parse_frame, byteAt, bind, Except.bind, Good, baseOnly, baseOnly]
  | cons c0 rest =>
    rw [parse_unroll]
    split
    · exact good_data _
    split
    · exact good_ack _
    split
    · exact good_nak _
    split
    · exact good_rst _
    split
    · exact good_rstack _
    split
    · exact good_error _
    · simp [Good, baseOnly, baseOnly]

theorem onFrame_no_raised (s : BV.Ash.Rx) (ho : s.open_ = true) (f : BV.Ash.Frame) : BV.Ash.Ev.raised ∉ (BV.Ash.onFrame s f).2 := by
  cases f with
  | data n r a q =>
    obtain ⟨t, ht, h1, h3, -, -⟩ := BV.Props.C04.onFrame_data s n r a q
    rw [ht, BV.Props.C04.onData_open t (by rw [h3]; exact ho)]
    split
    · simp
    · split <;> simp
  | ack x y a => simp [BV.Ash.onFrame]
  | nak x y a => simp [BV.Ash.onFrame]
  | rst => simp [BV.Ash.onFrame]
  | rstack v c => simp [BV.Ash.onFrame]
  | error v c => simp [BV.Ash.onFrame]

/-- with the transport open `frame_received` of the source returns normally, and the step is the model's -/
theorem frame_received_open (s : S) (hw : WFs s) (hrx : s.rx_seq < 8) (ho : isOpen s = true) (f : BV.Ash.Frame) (flag0 : Bool) :
    ∃ s', BV.Src.Ash.AshProtocol.frame_received (ofM f) s = (.ok (), s') ∧
      absS s' (BV.Ash.onFrame (absS s flag0) f).1.ackTimeoutReset = (BV.Ash.onFrame (absS s flag0) f).1 ∧
      (s'.trace.drop s.trace.length).filterMap toMEv = (BV.Ash.onFrame (absS s flag0) f).2 ∧
      WFs s' ∧ s'.rx_seq < 8 ∧ s.trace <+: s'.trace ∧ isOpen s' = true ∧ s'.buffer = s.buffer ∧ s'.discarding = s.discarding := by
  obtain ⟨h1, h2, h3, h4, h5, h6, h7⟩ := frame_received_eq s hw hrx f flag0
  generalize hres : BV.Src.Ash.AshProtocol.frame_received (ofM f) s = res at h1 h2 h3 h4 h5 h6 h7
  obtain ⟨r, s'⟩ := res
  simp only at h1 h2 h3 h4 h5 h6 h7
  have hno := onFrame_no_raised (absS s flag0) ho f
  have hopen : isOpen s' = true := by
    have := congrArg BV.Ash.Rx.open_ h1
    simp only [absS] at this
    rw [this, BV.Props.C04.onFrame_open]; exact ho
  cases r with
  | error e =>
    exfalso; apply hno; rw [← h2]; simp [evsOf, outcome]
  | ok u =>
    refine ⟨s', rfl, h1, ?_, h3, h4, h5, hopen, h6, h7⟩
    simpa [evsOf, outcome] using h2

/-- one round of the scanning loop, model side: stop with this remainder, or go on (possibly with one extracted segment) -/
inductive Round
  | stop (buf : List UInt8) (disc : Bool)
  | go (buf : List UInt8) (disc : Bool) (seg : Option (List UInt8))

def roundOf (b : List UInt8) (d : Bool) : Round :=
  if b.isEmpty then .stop b d else
  match (if d then afterFlag b else some b) with
  | none => .stop [] true
  | some b' =>
    match splitRwe b' with
    | none => .stop b' false
    | some (pre, x, rest) =>
      if x == resFlag then .go rest false (if pre.isEmpty then none else some pre)
      else if x == resCancel then .go rest false none
      else if x == resSubstitute then .go rest true none
      else .go (pre ++ rest) false none

theorem scan_round (n : Nat) (b : List UInt8) (d : Bool) :
    scan (n + 1) b d = match roundOf b d with
      | .stop b' d' => (b', d', [])
      | .go b' d' seg => ((scan n b' d').1, (scan n b' d').2.1, seg.toList ++ (scan n b' d').2.2) := by
  rw [scan]
  unfold roundOf
  by_cases hb : b.isEmpty = true
  · simp [hb]
  · simp only [hb, Bool.false_eq_true, ↓reduceIte]
    cases d with
    | true =>
      simp only [↓reduceIte]
      cases haf : afterFlag b with
      | none => simp
      | some q =>
        simp only
        rw [scanBody]
        cases hs : splitRwe q with
        | none => simp
        | some p =>
          obtain ⟨pre, x, rest⟩ := p
          simp only
          split
          · split <;> simp
          · split
            · simp
            · split <;> simp
    | false =>
      simp only [Bool.false_eq_true, ↓reduceIte]
      rw [scanBody]
      cases hs : splitRwe b with
      | none => simp
      | some p =>
        obtain ⟨pre, x, rest⟩ := p
        simp only
        split
        · split <;> simp
        · split
          · simp
          · split <;> simp


/-- what one round of the source's loop has to establish when it extracts the segment `seg` -/
def SegOk (s : S) (flag0 : Bool) (seg b' : List UInt8) (d' : Bool) (s' : S) : Prop :=
  s'.buffer = b' ∧ s'.discarding = d' ∧
  absS s' (onSegment (absS s flag0) seg).1.ackTimeoutReset = (onSegment (absS s flag0) seg).1 ∧
  srcEvs s s' = (onSegment (absS s flag0) seg).2 ∧
  WFs s' ∧ s'.rx_seq < 8 ∧ s.trace <+: s'.trace ∧ isOpen s' = true

theorem nak_write (s : S) (ho : isOpen s = true) (hrx : s.rx_seq < 8) :
    BV.Src.Ash.AshProtocol.u_write_frame (Frame.NakFrame 0 0 s.rx_seq) [26] [126] s =
      (.ok (), { s with trace := s.trace ++ [.write (BV.Ash.wire [resCancel] (.nak false false s.rx_seq))] }) := by
  have := write_frame_eq s (.nak false false s.rx_seq) hrx [resCancel] [resFlag]
  simp only [ofM, b2n, List.map_cons, List.map_nil, Bool.false_eq_true, ↓reduceIte, ho] at this
  have e1 : resCancel.toNat = 26 := rfl
  have e2 : resFlag.toNat = 126 := rfl
  rw [e1, e2] at this
  rw [this]; simp [BV.Ash.wire]

/-- the FLAG branch of the source for a non-empty segment = the model's `onSegment` -/
theorem segment_eq (s : S) (ho : isOpen s = true) (hw : WFs s) (hrx : s.rx_seq < 8) (flag0 : Bool)
    (seg : List UInt8) (data : List UInt8) :
    ∃ data' s', (do
        let r103 ← PyM.attempt (do
            let r101 ← PyM.lift (BV.Src.Ash.unstuff_bytes seg)
            let data_ := r101
            let r102 ← PyM.lift (BV.Src.Ash.parse_frame data_)
            let frame_ := r102
            pure (data_, frame_))
        match r103 with
        | .ok (data_, frame_) => do
          let r104 ← BV.Src.Ash.AshProtocol.frame_received frame_
          pure (Ctl.next data_)
        | .error e_ =>
          if PyErr.caughtBy e_ [] then do
            PyM.tryCatch (do
                let s105 ← PyM.get
                let r106 ← BV.Src.Ash.AshProtocol.u_write_frame (Frame.NakFrame 0 0 s105.rx_seq) [26] [126]
                pure ()) ["NcpFailure"] (pure ())
            pure (Ctl.next data)
          else PyM.throw e_ : PyM S (Ctl (List UInt8) Empty)) s = (.ok (.next data'), s') ∧
      SegOk s flag0 seg s.buffer s.discarding s' := by
  simp only [unstuff_eq, onSegment, SegOk]
  cases hu : BV.Ash.unstuff seg with
  | none =>
    refine ⟨data, { s with trace := s.trace ++ [.write (BV.Ash.wire [resCancel] (.nak false false s.rx_seq))] }, ?_, ?_⟩
    · simp [unstuffRes, baseOnly, bind, PyM.bind, PyM.attempt, PyM.lift, PyErr.caughtBy, PyM.tryCatch, PyM.get, nak_write s ho hrx, pure, PyM.pure]
    · have : isOpen s = true := ho
      simp [BV.Ash.writeFrame, absS, isOpen, srcEvs, toMEv] at this ⊢
      simp [this, hrx]
      exact ⟨hw.keys, hw.ids, hw.valid⟩
  | some d =>
    have hgood := good_parse d
    have hpe := parse_frame_eq d
    unfold parsed at hpe
    cases hp : BV.Src.Ash.parse_frame d with
    | error e =>
      rw [hp] at hgood hpe
      obtain ⟨c, rfl, hcb⟩ := hgood
      have hm : ∃ x, BV.Ash.parse d = .error x := by
        cases hq : BV.Ash.parse d with
        | error x => exact ⟨x, rfl⟩
        | ok g => rw [hq] at hpe; simp [Except.toOption] at hpe
      obtain ⟨x, hx⟩ := hm
      refine ⟨data, { s with trace := s.trace ++ [.write (BV.Ash.wire [resCancel] (.nak false false s.rx_seq))] }, ?_, ?_⟩
      · simp [unstuffRes, hp, hcb, bind, PyM.bind, PyM.attempt, PyM.lift, PyErr.caughtBy, PyM.tryCatch, PyM.get, nak_write s ho hrx, pure, PyM.pure]
      · have : isOpen s = true := ho
        simp [hx, BV.Ash.writeFrame, absS, isOpen, srcEvs, toMEv] at this ⊢
        simp [this, hrx]
        exact ⟨hw.keys, hw.ids, hw.valid⟩
    | ok f =>
      rw [hp] at hgood hpe
      have hm : BV.Ash.parse d = .ok (toM f) := by
        cases hq : BV.Ash.parse d with
        | error x => rw [hq] at hpe; simp [Except.toOption] at hpe
        | ok g => rw [hq] at hpe; simp [Except.toOption] at hpe; rw [hpe]
      obtain ⟨s', h1, h2, h3, h4, h5, h6, h7, h8, h9⟩ := frame_received_open s hw hrx ho (toM f) flag0
      have hg : ofM (toM f) = f := hgood
      rw [hg] at h1
      refine ⟨d, s', ?_, ?_⟩
      · simp [unstuffRes, hp, bind, PyM.bind, PyM.attempt, PyM.lift, h1, pure, PyM.pure]
      · simp only [hm]
        exact ⟨h8, h9, h2, h3, h4, h5, h6, h7⟩

theorem round_src_false (s : S) (data : List UInt8) (ho : isOpen s = true) (hw : WFs s) (hrx : s.rx_seq < 8) (flag0 : Bool)
    (hd : s.discarding = false) :
    match roundOf s.buffer s.discarding with
    | .stop b' d' => BV.Src.Ash.AshProtocol.data_received.loop1 data s = (.ok (.brk data), { s with buffer := b', discarding := d' })
    | .go b' d' none => BV.Src.Ash.AshProtocol.data_received.loop1 data s = (.ok (.next data), { s with buffer := b', discarding := d' })
    | .go b' d' (some seg) => ∃ data' s', BV.Src.Ash.AshProtocol.data_received.loop1 data s = (.ok (.next data'), s') ∧
        SegOk { s with buffer := b', discarding := d' } flag0 seg b' d' s' := by
  rcases s with ⟨tr, b, d, pe, fu, tx, rx, rc, ns, trace⟩
  simp only at hd
  subst hd
  unfold roundOf
  simp only
  by_cases hb : b.isEmpty = true
  · have : b = [] := by simpa using hb
    subst this
    simp [BV.Src.Ash.AshProtocol.data_received.loop1, bind, PyM.bind, PyM.get, pure, PyM.pure]
  · simp only [hb, Bool.false_eq_true, ↓reduceIte]
    have hne : b ≠ [] := by simpa using hb
    · have hemp : b.isEmpty = false := by simpa using hb
      cases hs : splitRwe b with
      | none =>
        simp only [BV.Src.Ash.AshProtocol.data_received.loop1, bind, PyM.bind, PyM.get, pure, PyM.pure, hemp, Bool.not_false,
          Bool.not_true, Bool.false_eq_true, ↓reduceIte, firstIdx_split, hs, Option.map_none]
      | some p =>
        obtain ⟨pre, x, rest⟩ := p
        obtain ⟨sl1, sl2, sl3⟩ := split_slices hs
        obtain ⟨-, -, hx⟩ := BV.Ash.splitRwe_some hs
        simp only
        simp only [BV.Src.Ash.AshProtocol.data_received.loop1, bind, PyM.bind, PyM.get, pure, PyM.pure, hemp, Bool.not_false,
          Bool.not_true, Bool.false_eq_true, ↓reduceIte, firstIdx_split, hs, Option.map_some, Nat.zero_add, PyM.modify, sl1, sl2, sl3,
          PyM.lift]
        rcases (BV.Ash.rwe_iff x).mp hx with rfl | rfl | rfl | rfl | rfl
        · simp [resFlag, resCancel, resSubstitute, PyM.bind, PyM.get, PyM.modify, PyM.pure, PyM.lift, sl3]
        · simp [resFlag, resCancel, resSubstitute, PyM.bind, PyM.get, PyM.modify, PyM.pure, PyM.lift, sl3]
        · simp [resFlag, resCancel, resSubstitute, PyM.bind, PyM.get, PyM.modify, PyM.pure, PyM.lift, sl2]
        · simp [resFlag, resCancel, resSubstitute, PyM.bind, PyM.get, PyM.modify, PyM.pure, PyM.lift, sl2]
        · by_cases hpre : pre = []
          · subst hpre
            simp only [List.length_nil, Nat.zero_add] at sl1 sl2
            simp [resFlag, PyM.bind, PyM.get, PyM.modify, PyM.pure, sl1, sl2]
          · have hpe : pre.isEmpty = false := by simpa using hpre
            have hseg := segment_eq (⟨tr, rest, false, pe, fu, tx, rx, rc, ns, trace⟩ : S) ho ⟨hw.keys, hw.ids, hw.valid⟩ hrx flag0 pre data
            obtain ⟨data', s', h1, h2⟩ := hseg
            have e1 : ((126 : UInt8) == resFlag) = true := by decide
            have e2 : decide (UInt8.toNat 126 = 126) = true := by decide
            simp only [e1, e2, hpe, ↓reduceIte, Bool.false_eq_true]
            refine ⟨data', s', ?_, h2⟩
            simp only [PyM.bind, PyM.get, PyM.modify, PyM.pure, sl1, sl2, bind, pure, hpe, Bool.false_eq_true, Bool.not_false,
              Bool.not_true, ↓reduceIte] at h1 ⊢
            exact h1

theorem roundOf_disc (b q : List UInt8) (hb : b ≠ []) (h : afterFlag b = some q) : roundOf b true = roundOf q false := by
  have hbe : b.isEmpty = false := by simpa using hb
  unfold roundOf
  simp only [hbe, Bool.false_eq_true, ↓reduceIte, h]
  by_cases hq : q.isEmpty = true
  · have : q = [] := by simpa using hq
    subst this
    simp [splitRwe]
  · simp [hq]

theorem loop1_disc (tr : Option Bool) (b : List UInt8) (pe : List (Nat × Nat)) (fu : List FutState) (tx rx : Nat) (rc : Option Nat)
    (ns : NcpState) (trace : List BV.Src.Ash.Ev) (data : List UInt8) (hb : b ≠ []) :
    BV.Src.Ash.AshProtocol.data_received.loop1 data ⟨tr, b, true, pe, fu, tx, rx, rc, ns, trace⟩ =
      match afterFlag b with
      | none => (.ok (.brk data), ⟨tr, [], true, pe, fu, tx, rx, rc, ns, trace⟩)
      | some q => BV.Src.Ash.AshProtocol.data_received.loop1 data ⟨tr, q, false, pe, fu, tx, rx, rc, ns, trace⟩ := by
  have hbe : b.isEmpty = false := by simpa using hb
  have h126 : bytesOf [126] = .ok [126] := by decide
  cases haf : afterFlag b with
  | none =>
    have hc : bytesContains1 [126] b = false := by rw [contains_flag, haf]; rfl
    simp [BV.Src.Ash.AshProtocol.data_received.loop1, bind, PyM.bind, PyM.get, pure, PyM.pure, PyM.lift, PyM.modify, hbe, hb, h126, hc]
  | some q =>
    have hc : bytesContains1 [126] b = true := by rw [contains_flag, haf]; rfl
    have hp : (partition1 (126 : UInt8) b).2.2 = q := partition_flag b q haf
    by_cases hq : q = []
    · subst hq
      simp [BV.Src.Ash.AshProtocol.data_received.loop1, bind, PyM.bind, PyM.get, pure, PyM.pure, PyM.lift, PyM.modify, hbe, hb, h126, hc, hp, firstIdx]
    · have hqe : q.isEmpty = false := by simpa using hq
      simp [BV.Src.Ash.AshProtocol.data_received.loop1, bind, PyM.bind, PyM.get, pure, PyM.pure, PyM.lift, PyM.modify, hbe, hb, h126, hc, hp, hqe, hq]

/-- one round of the source's loop = one round of the model's scan, for every state -/
theorem round_src (s : S) (data : List UInt8) (ho : isOpen s = true) (hw : WFs s) (hrx : s.rx_seq < 8) (flag0 : Bool) :
    match roundOf s.buffer s.discarding with
    | .stop b' d' => BV.Src.Ash.AshProtocol.data_received.loop1 data s = (.ok (.brk data), { s with buffer := b', discarding := d' })
    | .go b' d' none => BV.Src.Ash.AshProtocol.data_received.loop1 data s = (.ok (.next data), { s with buffer := b', discarding := d' })
    | .go b' d' (some seg) => ∃ data' s', BV.Src.Ash.AshProtocol.data_received.loop1 data s = (.ok (.next data'), s') ∧
        SegOk { s with buffer := b', discarding := d' } flag0 seg b' d' s' := by
  rcases s with ⟨tr, b, d, pe, fu, tx, rx, rc, ns, trace⟩
  cases d with
  | false => exact round_src_false ⟨tr, b, false, pe, fu, tx, rx, rc, ns, trace⟩ data ho hw hrx flag0 rfl
  | true =>
    by_cases hb : b = []
    · subst hb
      simp [roundOf, BV.Src.Ash.AshProtocol.data_received.loop1, bind, PyM.bind, PyM.get, pure, PyM.pure]
    · simp only
      rw [loop1_disc tr b pe fu tx rx rc ns trace data hb]
      cases haf : afterFlag b with
      | none =>
        have hbe : b.isEmpty = false := by simpa using hb
        simp [roundOf, hbe, haf]
      | some q =>
        rw [roundOf_disc b q hb haf]
        exact round_src_false ⟨tr, q, false, pe, fu, tx, rx, rc, ns, trace⟩ data ho ⟨hw.keys, hw.ids, hw.valid⟩ hrx flag0 rfl

theorem roundOf_go_lt {b b' : List UInt8} {d d' : Bool} {seg : Option (List UInt8)} (h : roundOf b d = .go b' d' seg) :
    b'.length < b.length := by
  unfold roundOf at h
  split at h
  · cases h
  · have key : ∀ q : List UInt8, q.length ≤ b.length →
        (match splitRwe q with
          | none => Round.stop q false
          | some (pre, x, rest) =>
            if x == resFlag then .go rest false (if pre.isEmpty then none else some pre)
            else if x == resCancel then .go rest false none
            else if x == resSubstitute then .go rest true none
            else .go (pre ++ rest) false none) = .go b' d' seg → b'.length < b.length := by
      intro q hq hm
      cases hs : splitRwe q with
      | none => rw [hs] at hm; cases hm
      | some p =>
        obtain ⟨pre, x, rest⟩ := p
        obtain ⟨hqe, -, -⟩ := BV.Ash.splitRwe_some hs
        have hl : pre.length + rest.length + 1 = q.length := by rw [hqe]; simp; omega
        rw [hs] at hm
        simp only at hm
        split at hm
        · cases hm; omega
        · split at hm
          · cases hm; omega
          · split at hm
            · cases hm; omega
            · cases hm; simp; omega
    cases d with
    | false => exact key b (Nat.le_refl _) (by simpa using h)
    | true =>
      simp only [↓reduceIte] at h
      cases haf : afterFlag b with
      | none => rw [haf] at h; cases h
      | some q =>
        rw [haf] at h
        exact key q (Nat.le_of_lt (BV.Ash.afterFlag_length haf)) h

/-- what a run of the source's loop has to establish -/
def RunOk (s : S) (flag0 : Bool) (segs : List (List UInt8)) (b' : List UInt8) (d' : Bool) (s' : S) : Prop :=
  s'.buffer = b' ∧ s'.discarding = d' ∧
  absS s' (onSegments (absS s flag0) segs).1.ackTimeoutReset = (onSegments (absS s flag0) segs).1 ∧
  srcEvs s s' = (onSegments (absS s flag0) segs).2 ∧
  WFs s' ∧ s'.rx_seq < 8 ∧ s.trace <+: s'.trace ∧ isOpen s' = true

/-- the `while self._buffer:` loop of the source = the model's `scan` followed by `onSegments` -/
theorem loop_eq (n : Nat) : ∀ (s : S) (data : List UInt8), s.buffer.length < n → isOpen s = true → WFs s → s.rx_seq < 8 →
    ∀ flag0 : Bool, ∃ data' s' brk,
      whileM BV.Src.Ash.AshProtocol.data_received.loop1 n data s = (.ok (.done data' brk), s') ∧
      RunOk s flag0 (scan n s.buffer s.discarding).2.2 (scan n s.buffer s.discarding).1 (scan n s.buffer s.discarding).2.1 s' := by
  induction n with
  | zero => intro s data h; omega
  | succ n ih =>
    intro s data hlen ho hw hrx flag0
    have hr := round_src s data ho hw hrx flag0
    cases hro : roundOf s.buffer s.discarding with
    | stop b' d' =>
      rw [hro] at hr
      rw [scan_round, hro]
      simp only at hr ⊢
      refine ⟨data, { s with buffer := b', discarding := d' }, true, by simp [whileM, hr], rfl, rfl, ?_, ?_,
        ⟨hw.keys, hw.ids, hw.valid⟩, hrx, List.prefix_refl _, ho⟩
      · simp [onSegments, absS, isOpen]
      · simp [onSegments, srcEvs]
    | go b' d' seg =>
      have hlt := roundOf_go_lt hro
      rw [hro] at hr
      rw [scan_round, hro]
      simp only
      cases seg with
      | none =>
        simp only at hr
        obtain ⟨data', s', brk, h1, h2, h3, h4, h5, h6, h7, h8, h9⟩ :=
          ih { s with buffer := b', discarding := d' } data (by simp only; omega) ho ⟨hw.keys, hw.ids, hw.valid⟩ hrx flag0
        refine ⟨data', s', brk, by simp only [whileM, hr]; exact h1, ?_⟩
        simp only [Option.toList, List.nil_append]
        exact ⟨h2, h3, h4, h5, h6, h7, h8, h9⟩
      | some sg =>
        simp only at hr
        obtain ⟨data1, s1, hl, g1, g2, g3, g4, g5, g6, g7, g8⟩ := hr
        obtain ⟨data', s', brk, h1, h2, h3, h4, h5, h6, h7, h8, h9⟩ :=
          ih s1 data1 (by rw [g1]; omega) g8 g5 g6 (onSegment (absS s flag0) sg).1.ackTimeoutReset
        have ea : absS ({ s with buffer := b', discarding := d' } : S) flag0 = absS s flag0 := rfl
        rw [ea] at g3 g4
        rw [g3, g1, g2] at h4 h5
        rw [g1, g2] at h2 h3
        refine ⟨data', s', brk, by simp only [whileM, hl]; exact h1, ?_⟩
        simp only [Option.toList, List.cons_append, List.nil_append, onSegments]
        refine ⟨h2, h3, h4, ?_, h6, h7, List.IsPrefix.trans g7 h8, h9⟩
        rw [srcEvs_trans s s1 s' g7 h8, h5]
        exact congrArg (· ++ _) g4

theorem scan_fuel (n m : Nat) (b : List UInt8) (d : Bool) (hn : b.length < n) (hm : b.length < m) :
    scan n b d = scan m b d := by
  have h1 := (BV.Ash.scan_main n).1 [] b d (by intro x hx; cases hx) (fun _ => rfl) (by simpa using hn)
  have h2 := (BV.Ash.scan_main m).1 [] b d (by intro x hx; cases hx) (fun _ => rfl) (by simpa using hm)
  simp only [List.nil_append] at h1 h2
  rw [h1, h2]

/-- `AshProtocol.data_received(chunk)` of the source, transport open: returns normally, and buffer, discarding flag,
receiver state and environment calls are those of the model's `feedChunk` -/
theorem data_received_eq (s : S) (chunk : List UInt8) (ho : isOpen s = true) (hw : WFs s) (hrx : s.rx_seq < 8) (flag0 : Bool) :
    ∃ s', BV.Src.Ash.AshProtocol.data_received chunk s = (.ok (), s') ∧
      s'.buffer = (BV.Ash.feedChunk ⟨s.buffer, s.discarding, absS s flag0⟩ chunk).1.buf ∧
      s'.discarding = (BV.Ash.feedChunk ⟨s.buffer, s.discarding, absS s flag0⟩ chunk).1.disc ∧
      absS s' (BV.Ash.feedChunk ⟨s.buffer, s.discarding, absS s flag0⟩ chunk).1.rx.ackTimeoutReset =
        (BV.Ash.feedChunk ⟨s.buffer, s.discarding, absS s flag0⟩ chunk).1.rx ∧
      srcEvs s s' = (BV.Ash.feedChunk ⟨s.buffer, s.discarding, absS s flag0⟩ chunk).2 ∧
      WFs s' ∧ s'.rx_seq < 8 ∧ s.trace <+: s'.trace ∧ isOpen s' = true := by
  obtain ⟨data', s1, brk, h1, h2, h3, h4, h5, h6, h7, h8, h9⟩ :=
    loop_eq (2 * (s.buffer.length + chunk.length + chunk.length) + 2) { s with buffer := s.buffer ++ chunk } chunk
      (by simp only [List.length_append]; omega) ho ⟨hw.keys, hw.ids, hw.valid⟩ hrx flag0
  have hf := scan_fuel (2 * (s.buffer.length + chunk.length + chunk.length) + 2) ((s.buffer ++ chunk).length + 1)
    (s.buffer ++ chunk) s.discarding (by simp only [List.length_append]; omega) (by omega)
  simp only at h2 h3 h4 h5 h8
  rw [hf] at h2 h3 h4 h5
  have ea : absS ({ s with buffer := s.buffer ++ chunk } : S) flag0 = absS s flag0 := rfl
  have ee : ∀ t : S, srcEvs ({ s with buffer := s.buffer ++ chunk } : S) t = srcEvs s t := fun _ => rfl
  rw [ea] at h4 h5
  rw [ee] at h5
  simp only [BV.Ash.feedChunk]
  by_cases hlen : s1.buffer.length > 1024
  · have hl' : (scan ((s.buffer ++ chunk).length + 1) (s.buffer ++ chunk) s.discarding).1.length > maxBufferSize := by
      rw [← h2]; exact hlen
    have gen : ∀ nb : List UInt8, ∀ t : S, t = { s1 with buffer := nb } →
        t.discarding = (scan ((s.buffer ++ chunk).length + 1) (s.buffer ++ chunk) s.discarding).2.1 ∧
        absS t (onSegments (absS s flag0) (scan ((s.buffer ++ chunk).length + 1) (s.buffer ++ chunk) s.discarding).2.2).1.ackTimeoutReset =
          (onSegments (absS s flag0) (scan ((s.buffer ++ chunk).length + 1) (s.buffer ++ chunk) s.discarding).2.2).1 ∧
        srcEvs s t = (onSegments (absS s flag0) (scan ((s.buffer ++ chunk).length + 1) (s.buffer ++ chunk) s.discarding).2.2).2 ∧
        WFs t ∧ t.rx_seq < 8 ∧ s.trace <+: t.trace ∧ isOpen t = true := by
      intro nb t ht
      subst ht
      exact ⟨h3, h4, h5, ⟨h6.keys, h6.ids, h6.valid⟩, h7, h8, h9⟩
    refine ⟨{ s1 with buffer := sliceFromNeg s1.buffer 1024 }, ?_, ?_, gen _ _ rfl⟩
    · simp [BV.Src.Ash.AshProtocol.data_received, bind, PyM.bind, PyM.modify, PyM.get, pure, PyM.pure, h1, LoopRes.noRet, hlen]
    · simp only [BV.Ash.truncate]
      rw [if_pos hl', ← h2]; rfl
  · have hl' : ¬ (scan ((s.buffer ++ chunk).length + 1) (s.buffer ++ chunk) s.discarding).1.length > maxBufferSize := by
      rw [← h2]; exact hlen
    refine ⟨s1, ?_, ?_, h3, h4, h5, h6, h7, h8, h9⟩
    · simp [BV.Src.Ash.AshProtocol.data_received, bind, PyM.bind, PyM.modify, PyM.get, pure, PyM.pure, h1, LoopRes.noRet, hlen]
    · simp only [BV.Ash.truncate]
      rw [if_neg hl', ← h2]

/-- the decoder state a source state stands for -/
def decOf (s : S) (flag : Bool) : BV.Ash.Dec := ⟨s.buffer, s.discarding, absS s flag⟩

/-- `data_received` over a list of reads; stops at the first call that raises -/
def srcFeed (s : S) : List (List UInt8) → Except PyErr Unit × S
  | [] => (.ok (), s)
  | c :: cs =>
    match BV.Src.Ash.AshProtocol.data_received c s with
    | (.ok _, s') => srcFeed s' cs
    | (.error e, s') => (.error e, s')

/-- any sequence of reads through the source's `data_received` = the model's `feedChunks` -/
theorem srcFeed_eq (chunks : List (List UInt8)) : ∀ (s : S), isOpen s = true → WFs s → s.rx_seq < 8 → ∀ flag0 : Bool,
    ∃ s', srcFeed s chunks = (.ok (), s') ∧
      decOf s' (BV.Ash.feedChunks (decOf s flag0) chunks).1.rx.ackTimeoutReset = (BV.Ash.feedChunks (decOf s flag0) chunks).1 ∧
      srcEvs s s' = (BV.Ash.feedChunks (decOf s flag0) chunks).2 ∧
      WFs s' ∧ s'.rx_seq < 8 ∧ s.trace <+: s'.trace ∧ isOpen s' = true := by
  induction chunks with
  | nil =>
    intro s ho hw hrx flag0
    exact ⟨s, rfl, rfl, by simp [srcEvs, BV.Ash.feedChunks], hw, hrx, List.prefix_refl _, ho⟩
  | cons c cs ih =>
    intro s ho hw hrx flag0
    obtain ⟨s1, h1, h2, h3, h4, h5, h6, h7, h8, h9⟩ := data_received_eq s c ho hw hrx flag0
    have hd : decOf s1 (BV.Ash.feedChunk (decOf s flag0) c).1.rx.ackTimeoutReset = (BV.Ash.feedChunk (decOf s flag0) c).1 := by
      simp only [decOf] at h2 h3 h4 ⊢
      rw [h2, h3, h4]
    obtain ⟨s', g1, g2, g3, g4, g5, g6, g7⟩ := ih s1 h9 h6 h7 (BV.Ash.feedChunk (decOf s flag0) c).1.rx.ackTimeoutReset
    rw [hd] at g2 g3
    refine ⟨s', by simp only [srcFeed, h1]; exact g1, ?_, ?_, g4, g5, List.IsPrefix.trans h8 g6, g7⟩
    · simp only [BV.Ash.feedChunks]; exact g2
    · simp only [BV.Ash.feedChunks]
      rw [srcEvs_trans s s1 s' h8 g6, g3]
      exact congrArg (· ++ _) h5
end BV.Proofs.Src.AshDec
