/-
Source-level tie for `ControllerApplication._watchdog_feed` (bellows/zigbee/application.py), as generated from the syntax tree
(BV/Gen/SrcWd.lean: the awaited keep-alive calls are calls on a scripted command layer, the statements that only touch zigpy's
counter objects are pinned by their text and recorded as events): one feed is one step `BV.Watchdog.feed` of the hand-written model
the C19 theorems are about - which keep-alive is issued, how the failure count moves, and exactly when the feed raises.
-/
import BV.Gen.SrcWd
import BV.Model.Watchdog
namespace BV.Proofs.Src.Wd
open BV.Py BV.Src.Wd BV.Watchdog BV.Gen.App

def absW (a : WdApp) : Wd := { failures := a.failures, feedCounter := a.feed_counter }

/-- the exception classes the feed counts as a failed keep-alive (`except (asyncio.TimeoutError, EzspError)` with the subclasses
bellows defines) -/
def counted : List String := ["TimeoutError", "EzspError", "InvalidCommandError", "StackAlreadyRunning"]

def kaEv : KeepAlive → WEv
  | .nop => .nop
  | .readCounters => .readCounters
  | .readAndClearCounters => .readAndClearCounters

/-- what one feed of the source did, against the model's step for outcome `o` -/
def FeedRel (a : WdApp) (r : Except PyErr Unit × WdApp) (o : Outcome) (cls : String) : Prop :=
  absW r.2 = (feed a.version (absW a) o).1 ∧
  r.1 = (if (feed a.version (absW a) o).2.1 then .error (.raised cls) else .ok ()) ∧
  (r.2.trace.drop a.trace.length).head? = some (kaEv (feed a.version (absW a) o).2.2) ∧
  r.2.version = a.version

theorem consts : countersClearPeriods = 180 ∧ maxWatchdogFailures = 4 := by decide

/-- protocol version 4: the keep-alive is `nop`; answered -/
theorem feed_v4_ok (a : WdApp) (rest : List WResp) (hv : a.version = 4) (hs : a.script = .ok :: rest) :
    FeedRel a (watchdog_feed a) .ok "" ∧ (watchdog_feed a).2.script = rest := by
  obtain ⟨v, fc, f, sc, tr⟩ := a
  simp only at hv hs; subst hv hs
  simp [FeedRel, watchdog_feed, bind, PyM.bind, PyM.attempt, PyM.get, wcall, PyM.lift, WResp.asUnit, PyM.modify, pure, PyM.pure,
    absW, feed, keepAlive, Outcome.failed, kaEv]

/-- protocol version 4: the keep-alive raises a counted class -/
theorem feed_v4_fail (a : WdApp) (rest : List WResp) (c : String) (hc : c ∈ counted) (hv : a.version = 4)
    (hs : a.script = .raises c :: rest) :
    FeedRel a (watchdog_feed a) .timeout c ∧ (watchdog_feed a).2.script = rest := by
  obtain ⟨v, fc, f, sc, tr⟩ := a
  simp only at hv hs; subst hv hs
  have h4 := consts.2
  simp only [counted, List.mem_cons, List.mem_nil_iff, or_false] at hc
  by_cases hf : f + 1 > 4
  · rcases hc with rfl | rfl | rfl | rfl <;>
      simp [FeedRel, watchdog_feed, bind, PyM.bind, PyM.attempt, PyM.get, wcall, PyM.modify, pure, PyM.pure, PyErr.caughtBy, baseOnly,
        wemit, PyM.throw, absW, feed, keepAlive, Outcome.failed, kaEv, h4, hf]
  · rcases hc with rfl | rfl | rfl | rfl <;>
      simp [FeedRel, watchdog_feed, bind, PyM.bind, PyM.attempt, PyM.get, wcall, PyM.modify, pure, PyM.pure, PyErr.caughtBy, baseOnly,
        wemit, PyM.throw, absW, feed, keepAlive, Outcome.failed, kaEv, h4, hf]

macro "wd_simp" : tactic => `(tactic|
  simp [FeedRel, watchdog_feed, bind, PyM.bind, PyM.attempt, PyM.get, wcall, PyM.lift, WResp.asUnit, WResp.asBuffers, PyM.modify, pure,
    PyM.pure, PyErr.caughtBy, baseOnly, wemit, PyM.throw, absW, feed, keepAlive, Outcome.failed, kaEv, *])

/-- later versions: the counter read (or the periodic read-and-clear) and the free-buffer read are both answered -/
theorem feed_ok (a : WdApp) (rest : List WResp) (b : Option Nat) (hv : a.version ≠ 4)
    (hs : a.script = .ok :: .buffers b :: rest) :
    FeedRel a (watchdog_feed a) .ok "" ∧ (watchdog_feed a).2.script = rest := by
  obtain ⟨v, fc, f, sc, tr⟩ := a
  simp only at hv hs; subst hs
  have h180 := consts.1
  by_cases hr : (fc + 1) % 180 > 0
  · have hr' : ¬ (fc + 1) % 180 = 0 := by omega
    cases b <;> wd_simp
  · have hr' : (fc + 1) % 180 = 0 := by omega
    cases b <;> wd_simp

/-- later versions: the keep-alive itself raises a counted class -/
theorem feed_fail_first (a : WdApp) (rest : List WResp) (c : String) (hc : c ∈ counted) (hv : a.version ≠ 4)
    (hs : a.script = .raises c :: rest) :
    FeedRel a (watchdog_feed a) .timeout c ∧ (watchdog_feed a).2.script = rest := by
  obtain ⟨v, fc, f, sc, tr⟩ := a
  simp only at hv hs; subst hs
  have h180 := consts.1
  have h4 := consts.2
  simp only [counted, List.mem_cons, List.mem_nil_iff, or_false] at hc
  by_cases hr : (fc + 1) % 180 > 0 <;> by_cases hf : f + 1 > 4 <;> rcases hc with rfl | rfl | rfl | rfl <;> wd_simp

/-- later versions: the keep-alive is answered, the free-buffer read that follows raises a counted class: a failed feed all the same -/
theorem feed_fail_second (a : WdApp) (rest : List WResp) (c : String) (hc : c ∈ counted) (hv : a.version ≠ 4)
    (hs : a.script = .ok :: .raises c :: rest) :
    FeedRel a (watchdog_feed a) .timeout c ∧ (watchdog_feed a).2.script = rest := by
  obtain ⟨v, fc, f, sc, tr⟩ := a
  simp only at hv hs; subst hs
  have h180 := consts.1
  have h4 := consts.2
  simp only [counted, List.mem_cons, List.mem_nil_iff, or_false] at hc
  by_cases hr : (fc + 1) % 180 > 0
  · have hr' : ¬ (fc + 1) % 180 = 0 := by omega
    by_cases hf : f + 1 > 4 <;> rcases hc with rfl | rfl | rfl | rfl <;> wd_simp
  · have hr' : (fc + 1) % 180 = 0 := by omega
    by_cases hf : f + 1 > 4 <;> rcases hc with rfl | rfl | rfl | rfl <;> wd_simp

/-- an exception class the handler does not name goes straight through: the feed raises it and counts nothing -/
theorem feed_uncounted (a : WdApp) (rest : List WResp) (c : String) (hc : c ∉ counted) (hs : a.script = .raises c :: rest) :
    (watchdog_feed a).1 = .error (.raised c) ∧ (watchdog_feed a).2.failures = a.failures := by
  obtain ⟨v, fc, f, sc, tr⟩ := a
  simp only at hs; subst hs
  simp only [counted, List.mem_cons, List.mem_nil_iff, or_false, not_or] at hc
  obtain ⟨h1, h2, h3, h5⟩ := hc
  by_cases hv : v = 4 <;> by_cases hr : (fc + 1) % 180 > 0 <;>
    simp [watchdog_feed, bind, PyM.bind, PyM.attempt, PyM.get, wcall, PyM.modify, pure, PyM.pure, PyErr.caughtBy, PyM.throw, hv, hr, h1, h2,
      h3, h5]

end BV.Proofs.Src.Wd
