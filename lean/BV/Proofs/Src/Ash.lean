/-
Source-level tie for bellows/ash.py: the definitions generated from the *syntax tree* of the
repository under test (BV/Gen/SrcAsh.lean, written by harness/pytrans.py on every run) are proved
equal to the hand-written models that the C02/C03/C04 theorems are about.  A change to the source
regenerates SrcAsh.lean; these theorems are then re-checked against what the code says now.

  generate_random_sequence(256)  = the generated table          (kernel evaluation)
  _stuff_bytes / _unstuff_bytes  = Ash.stuff / Ash.unstuff      (induction over the byte string)
  AshFrame._unwrap / append_crc  = Ash.unwrap / Ash.appendCrc
  <Class>.to_bytes               = Ash.encode on well-formed frames
  parse_frame                    = Ash.parse on every byte string

`binascii.crc_hqx` is the bitwise CRC of BV.Model.Ash.Crc on both sides (BV/Py/AshEnv.lean).
-/
import BV.Gen.SrcAsh
import BV.Model.Ash.Frame
import Mathlib.Tactic.IntervalCases
namespace BV.Proofs.Src.Ash
open BV.Py BV.Gen.Ash
open BV.Src.Ash (Frame FrameCls)

/-- split a goal about a byte into its 256 values (each closed by evaluation): keeps the proofs below independent of
how the source spells a per-byte computation (masks, shifts, operand order, branch order, local names) -/
macro "byte_cases " c:ident : tactic =>
  `(tactic| (obtain ⟨n, hn, hb⟩ : ∃ n, n < 256 ∧ $c = UInt8.ofNat n := ⟨($c).toNat, ($c).toNat_lt, by simp⟩
             subst hb
             interval_cases n <;> first | rfl | decide | simp))

/-- the same, for a loop body that also carries the output built so far: evaluation alone cannot reassociate
`(out ++ a) ++ b`, so the listed definitions are unfolded and the result normalised -/
macro "byte_cases " c:ident " unfolding " "[" ds:Lean.Parser.Tactic.simpLemma,* "]" : tactic =>
  `(tactic| (obtain ⟨n, hn, hb⟩ : ∃ n, n < 256 ∧ $c = UInt8.ofNat n := ⟨($c).toNat, ($c).toNat_lt, by simp⟩
             subst hb
             interval_cases n <;> first | rfl | decide |
               (simp [$ds,*, bytesOf, bind, Except.bind, pure, Except.pure, throw, throwThe, MonadExceptOf.throw,
                 BV.Ash.isReserved, reservedBytes, resEscape] <;> decide)))

theorem reserved_bytes_eq : BV.Src.Ash.C_RESERVED_BYTES = reservedBytes.map UInt8.toNat := by decide

/-- the table used by the code is what `generate_random_sequence(256)` in the source computes -/
theorem generate_random_sequence_256 :
    BV.Src.Ash.generate_random_sequence 256 = .ok pseudoRandom := by decide +kernel

theorem forall_u8 (p : UInt8 → Prop) (h : ∀ i : Fin 256, p (UInt8.ofNat i.val)) : ∀ b, p b := by
  intro b
  have := h ⟨b.toNat, b.toNat_lt⟩
  simpa using this

theorem t1 : ∀ b : UInt8, BV.Src.Ash.C_RESERVED_BYTES.contains b.toNat = BV.Ash.isReserved b := by
  apply forall_u8; decide +kernel
theorem t2 : ∀ b : UInt8, bytesOf [125, b.toNat ^^^ 32] = .ok [resEscape, b ^^^ 0x20] := by
  apply forall_u8; decide +kernel
theorem t3 : ∀ b : UInt8, bytesOf [b.toNat] = .ok [b] := by
  apply forall_u8; decide +kernel

theorem stuff_body (b : UInt8) (out : List UInt8) :
    BV.Src.Ash.stuff_bytes.loop1 out b.toNat =
      .ok (.next (out ++ (if BV.Ash.isReserved b then [resEscape, b ^^^ 0x20] else [b]))) := by
  byte_cases b unfolding [BV.Src.Ash.stuff_bytes.loop1, BV.Src.Ash.C_RESERVED_BYTES]

theorem stuff_loop (bs : List UInt8) (out : List UInt8) :
    forE BV.Src.Ash.stuff_bytes.loop1 (ints bs) out = .ok (.done (out ++ BV.Ash.stuff bs) false) := by
  induction bs generalizing out with
  | nil => simp [ints, forE, BV.Ash.stuff]
  | cons b bs ih =>
    have := ih
    simp only [ints, List.map_cons] at this ⊢
    simp only [forE, stuff_body, this, BV.Ash.stuff]
    split <;> simp

theorem stuff_eq (bs : List UInt8) : BV.Src.Ash.stuff_bytes bs = .ok (BV.Ash.stuff bs) := by
  simp [BV.Src.Ash.stuff_bytes, stuff_loop, LoopRes.noRet, bind, Except.bind, pure, Except.pure]

theorem t4 : ∀ b : UInt8, BV.Src.Ash.C_RESERVED_BYTES.contains (b.toNat ^^^ 32) = BV.Ash.isReserved (b ^^^ 0x20) := by
  apply forall_u8; decide +kernel
theorem t5 : ∀ b : UInt8, bytesOf [b.toNat ^^^ 32] = .ok [b ^^^ 0x20] := by
  apply forall_u8; decide +kernel
theorem t6 : ∀ b : UInt8, decide (b.toNat = 125) = (b == resEscape) := by
  apply forall_u8; decide +kernel

def unstuffRes (out : List UInt8) : Option (List UInt8) → Except PyErr (List UInt8)
  | some r => .ok (out ++ r)
  | none => .error (.raised "ParsingError")

theorem unstuff_body (b : UInt8) (out : List UInt8) (esc : Bool) :
    BV.Src.Ash.unstuff_bytes.loop1 (out, esc) b.toNat =
      if esc then
        (if BV.Ash.isReserved (b ^^^ 0x20) then .ok (.next (out ++ [b ^^^ 0x20], false)) else .error (.raised "ParsingError"))
      else if b == resEscape then .ok (.next (out, true)) else .ok (.next (out ++ [b], false)) := by
  cases esc <;> byte_cases b unfolding [BV.Src.Ash.unstuff_bytes.loop1, BV.Src.Ash.C_RESERVED_BYTES]

theorem unstuff_loop (bs : List UInt8) (out : List UInt8) (esc : Bool) :
    (forE BV.Src.Ash.unstuff_bytes.loop1 (ints bs) (out, esc)).map (fun r => (LoopRes.noRet r).1.1) =
      unstuffRes out (BV.Ash.unstuffAux esc bs) := by
  induction bs generalizing out esc with
  | nil => cases esc <;> simp [ints, forE, BV.Ash.unstuffAux, unstuffRes, LoopRes.noRet, Except.map]
  | cons b bs ih =>
    have ih' := ih
    simp only [ints, List.map_cons] at ih' ⊢
    simp only [forE, unstuff_body]
    cases esc
    · cases h2 : (b == resEscape)
      · simp only [BV.Ash.unstuffAux, h2]
        have := ih' (out ++ [b]) false
        simp at this ⊢
        rw [this]
        cases BV.Ash.unstuffAux false bs <;> simp [unstuffRes]
      · simp only [BV.Ash.unstuffAux, h2]
        simpa using ih' out true
    · cases h : BV.Ash.isReserved (b ^^^ 0x20)
      · simp [BV.Ash.unstuffAux, h, unstuffRes, Except.map]
      · simp only [BV.Ash.unstuffAux, h]
        have := ih' (out ++ [b ^^^ 0x20]) false
        simp at this ⊢
        rw [this]
        cases BV.Ash.unstuffAux false bs <;> simp [unstuffRes]

theorem unstuff_eq (bs : List UInt8) :
    BV.Src.Ash.unstuff_bytes bs = unstuffRes [] (BV.Ash.unstuff bs) := by
  have := unstuff_loop bs [] false
  simp only [BV.Src.Ash.unstuff_bytes, BV.Ash.unstuff]
  rw [← this]
  cases forE BV.Src.Ash.unstuff_bytes.loop1 (ints bs) ([], false) <;>
    simp [bind, Except.bind, pure, Except.pure, Except.map, LoopRes.noRet]

theorem crcHqx_eq (bs : List UInt8) : crcHqx bs 65535 = (BV.Ash.crc bs).toNat := rfl

theorem crc_bytes (bs : List UInt8) : toBytes2Big (crcHqx bs 65535) = .ok (BV.Ash.crcBytes (BV.Ash.crc bs)) := by
  have h : (BV.Ash.crc bs).toNat < 65536 := (BV.Ash.crc bs).isLt
  rw [crcHqx_eq]
  simp [toBytes2Big, h, BV.Ash.crcBytes]

theorem append_crc_eq (bs : List UInt8) : BV.Src.Ash.AshFrame.append_crc bs = .ok (BV.Ash.appendCrc bs) := by
  simp [BV.Src.Ash.AshFrame.append_crc, crc_bytes, BV.Ash.appendCrc, bind, Except.bind, pure, Except.pure]

def unwrapRes : Except BV.Ash.PErr (UInt8 × List UInt8) → Except PyErr (Nat × List UInt8)
  | .ok (c, rest) => .ok (c.toNat, rest)
  | .error _ => .error (.raised "ParsingError")

theorem unwrap_eq (d : List UInt8) : BV.Src.Ash.AshFrame.unwrap d = unwrapRes (BV.Ash.unwrap d) := by
  simp only [BV.Src.Ash.AshFrame.unwrap, BV.Ash.unwrap, crc_bytes, sliceToNeg, sliceFromNeg, sliceMid]
  by_cases h3 : d.length < 3
  · simp [h3, unwrapRes, throw, throwThe, MonadExceptOf.throw]
  · simp only [h3, decide_false, Bool.false_eq_true, ↓reduceIte]
    by_cases hc : BV.Ash.crcBytes (BV.Ash.crc (List.take (d.length - 2) d)) = List.drop (d.length - 2) d
    · cases d with
      | nil => simp at h3
      | cons c d' =>
        have hl : 2 ≤ d'.length := by simp at h3; omega
        have ht : List.take ((c :: d').length - 2) (c :: d') = c :: List.take (d'.length - 2) d' := by
          have : (c :: d').length - 2 = (d'.length - 2) + 1 := by simp; omega
          rw [this, List.take_succ_cons]
        rw [ht] at hc ⊢
        simp [hc, bind, Except.bind, pure, Except.pure, unwrapRes, byteAt]
    · simp [hc, bind, Except.bind, unwrapRes, throw, throwThe, MonadExceptOf.throw]

theorem prs_eq : BV.Src.Ash.C_PSEUDO_RANDOM_DATA_SEQUENCE = pseudoRandom := by decide +kernel

theorem bytesOf_toNat (bs : List UInt8) : bytesOf (bs.map UInt8.toNat) = .ok bs := by
  have h : (bs.map UInt8.toNat).all (· < 256) = true := by
    simp only [List.all_map, List.all_eq_true]
    intro x _
    simpa using x.toNat_lt
  simp only [bytesOf, h, ↓reduceIte, List.map_map]
  congr 1
  conv => rhs; rw [← List.map_id bs]
  apply List.map_congr_left
  intro x _
  simp

theorem zip_xor (a b : List UInt8) :
    zipWithL (fun x y => x ^^^ y) (ints a) (ints b) = (BV.Ash.xorSeq a b).map UInt8.toNat := by
  induction a generalizing b with
  | nil => simp [ints, zipWithL, BV.Ash.xorSeq]
  | cons x xs ih =>
    cases b with
    | nil => simp [ints, zipWithL, BV.Ash.xorSeq]
    | cons y ys =>
      have := ih ys
      simp only [ints] at this ⊢
      simp [zipWithL, BV.Ash.xorSeq, this, UInt8.toNat_xor]

theorem randomize_eq (d : List UInt8) :
    BV.Src.Ash.DataFrame.randomize d =
      if d.length ≤ pseudoRandom.length then .ok (BV.Ash.randomize d) else .error (.raised "AssertionError") := by
  simp only [BV.Src.Ash.DataFrame.randomize, prs_eq, zip_xor, bytesOf_toNat, BV.Ash.randomize]
  by_cases h : d.length ≤ pseudoRandom.length <;>
    simp [h, bind, Except.bind, pure, Except.pure, throw, throwThe, MonadExceptOf.throw]

/-- generated dataclass value -> model frame -/
def toM : Frame → BV.Ash.Frame
  | .DataFrame f r a p => .data f (r != 0) a p
  | .AckFrame res n a => .ack (res != 0) (n != 0) a
  | .NakFrame res n a => .nak (res != 0) (n != 0) a
  | .RstFrame => .rst
  | .RStackFrame v c => .rstack (UInt8.ofNat v) (UInt8.ofNat c)
  | .ErrorFrame v c => .error (UInt8.ofNat v) (UInt8.ofNat c)

/-- model frame -> the dataclass value the code holds for it (bools are the ints 0 / 1) -/
def ofM : BV.Ash.Frame → Frame
  | .data f r a p => .DataFrame f (b2n r) a p
  | .ack res n a => .AckFrame (b2n res) (b2n n) a
  | .nak res n a => .NakFrame (b2n res) (b2n n) a
  | .rst => .RstFrame
  | .rstack v c => .RStackFrame v.toNat c.toNat
  | .error v c => .ErrorFrame v.toNat c.toNat

theorem toM_ofM (f : BV.Ash.Frame) : toM (ofM f) = f := by
  cases f <;> simp [toM, ofM, b2n] <;> (try constructor) <;> (try split) <;> simp_all

theorem ctl_data : ∀ f : Fin 8, ∀ r : Bool, ∀ a : Fin 8,
    bytesOf [(((0 ||| (f.val <<< 4)) ||| (b2n r <<< 3)) ||| (a.val <<< 0))] = .ok [BV.Ash.ctlData f.val r a.val] := by
  decide +kernel
theorem ctl_ack : ∀ f : Bool, ∀ r : Bool, ∀ a : Fin 8,
    bytesOf [(((128 ||| (b2n f <<< 4)) ||| (b2n r <<< 3)) ||| (a.val <<< 0))] = .ok [BV.Ash.ctlAck f r a.val] := by
  decide +kernel
theorem ctl_nak : ∀ f : Bool, ∀ r : Bool, ∀ a : Fin 8,
    bytesOf [(((160 ||| (b2n f <<< 4)) ||| (b2n r <<< 3)) ||| (a.val <<< 0))] = .ok [BV.Ash.ctlNak f r a.val] := by
  decide +kernel
theorem rstack_bytes : ∀ k : Nat, ∀ c : UInt8, bytesOf [k, 2, c.toNat] = if k < 256 then .ok [UInt8.ofNat k, 2, c] else .error (.raised "ValueError") := by
  intro k c
  have := c.toNat_lt
  by_cases hk : k < 256 <;> simp [bytesOf, hk] <;> omega

/-- **every well-formed frame is written exactly as the model's `encode` says** (`frame.to_bytes()` of the source) -/
theorem to_bytes_eq (f : BV.Ash.Frame) (hw : f.WF) : Frame.to_bytes (ofM f) = .ok (BV.Ash.encode f) := by
  cases f with
  | data f r a p =>
    obtain ⟨hf, ha, hp⟩ := hw
    simp only [Frame.to_bytes, ofM, BV.Src.Ash.DataFrame.to_bytes, randomize_eq, hp, append_crc_eq, ↓reduceIte, bind,
      Except.bind, BV.Ash.encode]
    -- the control byte: whatever expression the source builds it with, compared for every (frmNum, reTx, ackNum)
    generalize hx : bytesOf _ = x
    have : x = .ok [BV.Ash.ctlData f r a] := by
      rw [← hx]; clear hx hp
      obtain ⟨f, rfl⟩ : ∃ f' : Fin 8, f'.val = f := ⟨⟨f, hf⟩, rfl⟩
      obtain ⟨a, rfl⟩ : ∃ a' : Fin 8, a'.val = a := ⟨⟨a, ha⟩, rfl⟩
      clear hf ha
      revert f a r; decide +kernel
    subst this; simp
  | ack res n a =>
    have ha : a < 8 := hw
    simp only [Frame.to_bytes, ofM, BV.Src.Ash.AckFrame.to_bytes, append_crc_eq, bind, Except.bind, BV.Ash.encode]
    generalize hx : bytesOf _ = x
    have : x = .ok [BV.Ash.ctlAck res n a] := by
      rw [← hx]; clear hx
      obtain ⟨a, rfl⟩ : ∃ a' : Fin 8, a'.val = a := ⟨⟨a, ha⟩, rfl⟩
      clear ha hw
      revert res n a; decide +kernel
    subst this; simp
  | nak res n a =>
    have ha : a < 8 := hw
    simp only [Frame.to_bytes, ofM, BV.Src.Ash.NakFrame.to_bytes, append_crc_eq, bind, Except.bind, BV.Ash.encode]
    generalize hx : bytesOf _ = x
    have : x = .ok [BV.Ash.ctlNak res n a] := by
      rw [← hx]; clear hx
      obtain ⟨a, rfl⟩ : ∃ a' : Fin 8, a'.val = a := ⟨⟨a, ha⟩, rfl⟩
      clear ha hw
      revert res n a; decide +kernel
    subst this; simp
  | rst =>
    have : bytesOf [192] = .ok [rstMaskValue] := by decide
    simp [Frame.to_bytes, ofM, BV.Src.Ash.RstFrame.to_bytes, this, append_crc_eq, BV.Ash.encode, bind, Except.bind]
  | rstack v c =>
    have hv : v = 2 := hw
    subst hv
    have := rstack_bytes 193 c
    simp at this
    simp [Frame.to_bytes, ofM, BV.Src.Ash.RStackFrame.to_bytes, this, append_crc_eq, BV.Ash.encode, bind, Except.bind,
      rstackMaskValue]
  | error v c =>
    have hv : v = 2 := hw
    subst hv
    have := rstack_bytes 194 c
    simp at this
    simp [Frame.to_bytes, ofM, BV.Src.Ash.ErrorFrame.to_bytes, this, append_crc_eq, BV.Ash.encode, bind, Except.bind,
      errorMaskValue]

/-! ### parse_frame -/

theorem masks : ∀ c : UInt8,
    ((c.toNat &&& 128 = 0) ↔ (c &&& dataMask == dataMaskValue) = true) ∧
    ((c.toNat &&& 224 = 128) ↔ (c &&& ackMask == ackMaskValue) = true) ∧
    ((c.toNat &&& 224 = 160) ↔ (c &&& nakMask == nakMaskValue) = true) ∧
    ((c.toNat &&& 255 = 192) ↔ (c &&& rstMask == rstMaskValue) = true) ∧
    ((c.toNat &&& 255 = 193) ↔ (c &&& rstackMask == rstackMaskValue) = true) ∧
    ((c.toNat &&& 255 = 194) ↔ (c &&& errorMask == errorMaskValue) = true) := by
  apply forall_u8; decide +kernel

theorem bits : ∀ c : UInt8,
    (c.toNat &&& 112) >>> 4 = BV.Ash.bit c 0x70 4 ∧ (c.toNat &&& 8) >>> 3 = BV.Ash.bit c 0x08 3 ∧
    (c.toNat &&& 7) >>> 0 = BV.Ash.bit c 0x07 0 ∧ (c.toNat &&& 16) >>> 4 = BV.Ash.bit c 0x10 4 := by
  apply forall_u8; decide +kernel

/-- what `parse_frame` of the source yields, read as a model frame -/
def parsed (d : List UInt8) : Option BV.Ash.Frame := (BV.Src.Ash.parse_frame d).toOption.map toM

theorem from_bytes_data (d : List UInt8) :
    (BV.Src.Ash.DataFrame.from_bytes d).toOption.map toM =
      match BV.Ash.unwrap d with
      | .error _ => none
      | .ok (c, rest) => if rest.length > pseudoRandom.length then none
          else some (.data (BV.Ash.bit c 0x70 4) (BV.Ash.bit c 0x08 3 != 0) (BV.Ash.bit c 0x07 0) (BV.Ash.randomize rest)) := by
  simp only [BV.Src.Ash.DataFrame.from_bytes, unwrap_eq, randomize_eq]
  cases BV.Ash.unwrap d with
  | error e => simp [unwrapRes, bind, Except.bind, Except.toOption]
  | ok p =>
    obtain ⟨c, rest⟩ := p
    by_cases h : rest.length ≤ pseudoRandom.length
    · have h' : ¬ rest.length > pseudoRandom.length := by omega
      -- the bit fields: whatever masks and shifts the source uses, they are compared on all 256 control bytes
      simp [unwrapRes, bind, Except.bind, Except.toOption, h, h', toM, pure, Except.pure] <;> byte_cases c
    · have h' : rest.length > pseudoRandom.length := by omega
      simp [unwrapRes, bind, Except.bind, Except.toOption, h, h']

theorem from_bytes_ack (d : List UInt8) :
    (BV.Src.Ash.AckFrame.from_bytes d).toOption.map toM =
      match BV.Ash.unwrap d with
      | .error _ => none
      | .ok (c, _) => some (.ack (BV.Ash.bit c 0x10 4 != 0) (BV.Ash.bit c 0x08 3 != 0) (BV.Ash.bit c 0x07 0)) := by
  simp only [BV.Src.Ash.AckFrame.from_bytes, unwrap_eq]
  cases BV.Ash.unwrap d with
  | error e => simp [unwrapRes, bind, Except.bind, Except.toOption]
  | ok p =>
    obtain ⟨c, rest⟩ := p
    simp [unwrapRes, bind, Except.bind, Except.toOption, toM, pure, Except.pure] <;> byte_cases c

theorem from_bytes_nak (d : List UInt8) :
    (BV.Src.Ash.NakFrame.from_bytes d).toOption.map toM =
      match BV.Ash.unwrap d with
      | .error _ => none
      | .ok (c, _) => some (.nak (BV.Ash.bit c 0x10 4 != 0) (BV.Ash.bit c 0x08 3 != 0) (BV.Ash.bit c 0x07 0)) := by
  simp only [BV.Src.Ash.NakFrame.from_bytes, unwrap_eq]
  cases BV.Ash.unwrap d with
  | error e => simp [unwrapRes, bind, Except.bind, Except.toOption]
  | ok p =>
    obtain ⟨c, rest⟩ := p
    simp [unwrapRes, bind, Except.bind, Except.toOption, toM, pure, Except.pure] <;> byte_cases c

theorem from_bytes_rst (d : List UInt8) :
    (BV.Src.Ash.RstFrame.from_bytes d).toOption.map toM =
      match BV.Ash.unwrap d with
      | .error _ => none
      | .ok (_, rest) => if rest.isEmpty then some .rst else none := by
  simp only [BV.Src.Ash.RstFrame.from_bytes, unwrap_eq]
  cases BV.Ash.unwrap d with
  | error e => simp [unwrapRes, bind, Except.bind, Except.toOption]
  | ok p =>
    obtain ⟨c, rest⟩ := p
    cases rest <;> simp [unwrapRes, bind, Except.bind, Except.toOption, toM, pure, Except.pure, throw, throwThe, MonadExceptOf.throw]

theorem rstack_fields (rest : List UInt8) (mk : Nat → Nat → Frame) (mk' : UInt8 → UInt8 → BV.Ash.Frame)
    (hmk : ∀ v c : UInt8, toM (mk v.toNat c.toNat) = mk' v c) :
    ((do
        if (decide (rest.length ≠ 2)) then throw (PyErr.raised "ParsingError")
        else do
          let b23 ← byteAt rest 0
          if (decide (b23 ≠ 2)) then throw (PyErr.raised "ParsingError")
          else do
            let b24 ← byteAt rest 1
            pure (mk b23 b24) : Except PyErr Frame).toOption.map toM) =
      ((BV.Ash.rstackFields rest).map fun (v, code) => mk' v code).toOption := by
  match rest with
  | [] => simp [BV.Ash.rstackFields, Except.toOption, throw, throwThe, MonadExceptOf.throw, Except.map]
  | [_] => simp [BV.Ash.rstackFields, Except.toOption, throw, throwThe, MonadExceptOf.throw, Except.map]
  | _ :: _ :: _ :: _ => simp [BV.Ash.rstackFields, Except.toOption, throw, throwThe, MonadExceptOf.throw, Except.map]
  | [v, c] =>
    by_cases hv : v = 2
    · subst hv
      have := hmk 2 c
      simp at this
      simp [BV.Ash.rstackFields, Except.toOption, byteAt, bind, Except.bind, pure, Except.pure, Except.map, this]
    · have : v.toNat ≠ 2 := fun h => hv (by
        have := congrArg UInt8.ofNat h; simpa using this)
      simp [BV.Ash.rstackFields, Except.toOption, byteAt, bind, Except.bind, hv, this, throw, throwThe, MonadExceptOf.throw, Except.map]

theorem from_bytes_rstack (d : List UInt8) :
    (BV.Src.Ash.RStackFrame.from_bytes d).toOption.map toM =
      match BV.Ash.unwrap d with
      | .error _ => none
      | .ok (_, rest) => ((BV.Ash.rstackFields rest).map fun (v, code) => BV.Ash.Frame.rstack v code).toOption := by
  simp only [BV.Src.Ash.RStackFrame.from_bytes, unwrap_eq]
  cases BV.Ash.unwrap d with
  | error e => simp [unwrapRes, bind, Except.bind, Except.toOption]
  | ok p =>
    obtain ⟨c, rest⟩ := p
    have := rstack_fields rest Frame.RStackFrame BV.Ash.Frame.rstack (by intro v c; simp [toM])
    simpa [unwrapRes, bind, Except.bind] using this

theorem from_bytes_error (d : List UInt8) :
    (BV.Src.Ash.ErrorFrame.from_bytes d).toOption.map toM =
      match BV.Ash.unwrap d with
      | .error _ => none
      | .ok (_, rest) => ((BV.Ash.rstackFields rest).map fun (v, code) => BV.Ash.Frame.error v code).toOption := by
  simp only [BV.Src.Ash.ErrorFrame.from_bytes, unwrap_eq]
  cases BV.Ash.unwrap d with
  | error e => simp [unwrapRes, bind, Except.bind, Except.toOption]
  | ok p =>
    obtain ⟨c, rest⟩ := p
    have := rstack_fields rest Frame.ErrorFrame BV.Ash.Frame.error (by intro v c; simp [toM])
    simpa [unwrapRes, bind, Except.bind] using this

theorem parse_unroll (c0 : UInt8) (rest : List UInt8) :
    BV.Src.Ash.parse_frame (c0 :: rest) =
      if c0.toNat &&& 128 = 0 then BV.Src.Ash.DataFrame.from_bytes (c0 :: rest)
      else if c0.toNat &&& 224 = 128 then BV.Src.Ash.AckFrame.from_bytes (c0 :: rest)
      else if c0.toNat &&& 224 = 160 then BV.Src.Ash.NakFrame.from_bytes (c0 :: rest)
      else if c0.toNat &&& 255 = 192 then BV.Src.Ash.RstFrame.from_bytes (c0 :: rest)
      else if c0.toNat &&& 255 = 193 then BV.Src.Ash.RStackFrame.from_bytes (c0 :: rest)
      else if c0.toNat &&& 255 = 194 then BV.Src.Ash.ErrorFrame.from_bytes (c0 :: rest)
      else .error (.raised "ParsingError") := by
  simp only [BV.Src.Ash.parse_frame, byteAt, List.getElem?_cons_zero, bind, Except.bind, forE,
      BV.Src.Ash.parse_frame.loop1, FrameCls.MASK, FrameCls.MASK_VALUE, FrameCls.from_bytes, decide_eq_true_eq]
  by_cases h1 : c0.toNat &&& 128 = 0
  · simp only [h1, ↓reduceIte]; cases BV.Src.Ash.DataFrame.from_bytes (c0 :: rest) <;> rfl
  by_cases h2 : c0.toNat &&& 224 = 128
  · simp only [h1, h2, ↓reduceIte]; cases BV.Src.Ash.AckFrame.from_bytes (c0 :: rest) <;> rfl
  by_cases h3 : c0.toNat &&& 224 = 160
  · simp only [h1, h2, h3, ↓reduceIte]; cases BV.Src.Ash.NakFrame.from_bytes (c0 :: rest) <;> rfl
  by_cases h4 : c0.toNat &&& 255 = 192
  · simp only [h1, h2, h3, h4, ↓reduceIte]; cases BV.Src.Ash.RstFrame.from_bytes (c0 :: rest) <;> rfl
  by_cases h5 : c0.toNat &&& 255 = 193
  · simp only [h1, h2, h3, h4, h5, ↓reduceIte]; cases BV.Src.Ash.RStackFrame.from_bytes (c0 :: rest) <;> rfl
  by_cases h6 : c0.toNat &&& 255 = 194
  · simp only [h1, h2, h3, h4, h5, h6, ↓reduceIte]; cases BV.Src.Ash.ErrorFrame.from_bytes (c0 :: rest) <;> rfl
  simp only [h1, h2, h3, h4, h5, h6, ↓reduceIte]
  rfl

/-- **`parse_frame` of the source = the model's `parse`** on every byte string: same frames accepted, same
fields read, same frames rejected -/
theorem parse_frame_eq (d : List UInt8) : parsed d = (BV.Ash.parse d).toOption := by
  unfold parsed
  cases d with
  | nil => simp [BV.Src.Ash.parse_frame, BV.Ash.parse, byteAt, bind, Except.bind, Except.toOption]
  | cons c0 rest =>
    obtain ⟨m1, m2, m3, m4, m5, m6⟩ := masks c0
    rw [parse_unroll]
    simp only [BV.Ash.parse, BV.Ash.classify, m1, m2, m3, m4, m5, m6]
    by_cases h1 : (c0 &&& dataMask == dataMaskValue) = true
    · simp only [h1, Bool.false_eq_true, ↓reduceIte, from_bytes_data]
      cases BV.Ash.unwrap (c0 :: rest) with
      | error e => rfl
      | ok p => obtain ⟨c, r⟩ := p; simp only []; split <;> simp [Except.toOption]
    by_cases h2 : (c0 &&& ackMask == ackMaskValue) = true
    · simp only [h1, h2, Bool.false_eq_true, ↓reduceIte, from_bytes_ack]
      cases BV.Ash.unwrap (c0 :: rest) with
      | error e => rfl
      | ok p => obtain ⟨c, r⟩ := p; simp [Except.toOption]
    by_cases h3 : (c0 &&& nakMask == nakMaskValue) = true
    · simp only [h1, h2, h3, Bool.false_eq_true, ↓reduceIte, from_bytes_nak]
      cases BV.Ash.unwrap (c0 :: rest) with
      | error e => rfl
      | ok p => obtain ⟨c, r⟩ := p; simp [Except.toOption]
    by_cases h4 : (c0 &&& rstMask == rstMaskValue) = true
    · simp only [h1, h2, h3, h4, Bool.false_eq_true, ↓reduceIte, from_bytes_rst]
      cases BV.Ash.unwrap (c0 :: rest) with
      | error e => rfl
      | ok p => obtain ⟨c, r⟩ := p; simp only []; split <;> simp [Except.toOption]
    by_cases h5 : (c0 &&& rstackMask == rstackMaskValue) = true
    · simp only [h1, h2, h3, h4, h5, Bool.false_eq_true, ↓reduceIte, from_bytes_rstack]
      cases BV.Ash.unwrap (c0 :: rest) with
      | error e => rfl
      | ok p => obtain ⟨c, r⟩ := p; rfl
    by_cases h6 : (c0 &&& errorMask == errorMaskValue) = true
    · simp only [h1, h2, h3, h4, h5, h6, Bool.false_eq_true, ↓reduceIte, from_bytes_error]
      cases BV.Ash.unwrap (c0 :: rest) with
      | error e => rfl
      | ok p => obtain ⟨c, r⟩ := p; rfl
    simp [h1, h2, h3, h4, h5, h6, Except.toOption]

end BV.Proofs.Src.Ash
