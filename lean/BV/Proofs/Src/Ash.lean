/-
Source-level tie for bellows/ash.py: the definitions generated from the *syntax tree* of the
repository under test (BV/Gen/SrcAsh.lean, by harness/pytrans.py) are proved equal to the
hand-written models that every C02/C03/C04 theorem is about.  A change to the source
regenerates SrcAsh.lean; these theorems are then re-checked against what the code says now.
-/
import BV.Gen.SrcAsh
import BV.Model.Ash.Frame
namespace BV.Proofs.Src.Ash
open BV.Py BV.Gen.Ash
open BV.Src.Ash (Frame FrameCls)

/-! ### constants -/

theorem reserved_bytes_eq : BV.Src.Ash.C_RESERVED_BYTES = reservedBytes.map UInt8.toNat := by decide

theorem prs_eq : BV.Src.Ash.C_PSEUDO_RANDOM_DATA_SEQUENCE = pseudoRandom := by decide +kernel

/-- the table used by the code is what `generate_random_sequence(256)` in the source computes -/
theorem generate_random_sequence_256 :
    BV.Src.Ash.generate_random_sequence 256 = .ok pseudoRandom := by decide +kernel

end BV.Proofs.Src.Ash
