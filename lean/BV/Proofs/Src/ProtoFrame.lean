/-
Frame facts about the generated `ProtocolHandler.__call__` for *every* byte string: what one call can change (at most the entry
under one sequence number is removed; at most that entry's pending future is resolved; callbacks are appended), and that, with no
dangling future in `_awaiting`, what it raises is an ordinary exception - so the guard of `EZSP.frame_received` contains it.
-/
import BV.Proofs.Src.Proto
namespace BV.Proofs.Src.Proto
open BV.Py BV.Codec BV.Src.Proto BV.Proofs.Src.Hdr

theorem frameRx_cls (s : Proto) (d : List UInt8) (hn : rxHeader (hdrOf s.version) d = none) :
    ∃ c, c ∈ shortClasses ∧ frameRx d s = (.error (.raised c), s) := by
  unfold frameRx
  cases hh : hdrOf s.version with
  | v4 => rw [hh] at hn; obtain ⟨c, hc, he⟩ := v4_rx_cls {} d hn; exact ⟨c, hc, by simp [he]⟩
  | v5 => rw [hh] at hn; obtain ⟨c, hc, he⟩ := v5_rx_cls {} d hn; exact ⟨c, hc, by simp [he]⟩
  | v8 => rw [hh] at hn; obtain ⟨c, hc, he⟩ := v8_rx_cls {} d hn; exact ⟨c, hc, by simp [he]⟩

theorem call_short_cls (s : Proto) (d : List UInt8) (h : rxFrame s.version s.cmds d = .short) :
    ∃ c, c ∈ shortClasses ∧ handler_call d s = (.error (.raised c), s) := by
  unfold rxFrame at h
  cases hr : rxHeader (hdrOf s.version) d with
  | some r => rw [hr] at h; obtain ⟨sq, id, pl⟩ := r; simp only at h; split at h <;> (try split at h) <;> simp at h
  | none =>
    obtain ⟨c, hc, he⟩ := frameRx_cls s d hr
    exact ⟨c, hc, by simp [handler_call, bind, PyM.bind, he]⟩

/-- classes raised on a decodable frame -/
def okClasses : List String := ["AssertionError", "KeyError", "IndexError", "InvalidStateError"]

/-- everything but futures and callbacks after a decodable frame, and the outcome of the call: the entry under the frame's
sequence number is removed, nothing else changes; the call returns or raises an ordinary exception, provided the entry's future
exists -/
theorem call_ok_frame (s : Proto) (d : List UInt8) (sq id : Nat) (name : String) (vals : List Val) (tr : List UInt8)
    (h : rxFrame s.version s.cmds d = .ok sq id name vals tr)
    (hwf : ∀ eid fid, s.awaiting.lookup sq = some (eid, fid) → fid < s.futs.length) :
    (handler_call d s).2.awaiting = (if (s.awaiting.lookup sq).isSome then s.awaiting.filter (·.1 != sq) else s.awaiting) ∧
    (handler_call d s).2.version = s.version ∧ (handler_call d s).2.cmds = s.cmds ∧ (handler_call d s).2.seq = s.seq ∧
    (handler_call d s).2.script = s.script ∧ (handler_call d s).2.protocol = s.protocol ∧
    ((handler_call d s).1 = .ok () ∨ ∃ c, c ∈ okClasses ∧ (handler_call d s).1 = .error (.raised c)) := by
  obtain ⟨pl, c, hr, hf, hnm, hd⟩ := rx_ok_parts _ _ _ _ _ _ _ _ h
  rcases frameRx_eq s d with ⟨r, hr', he⟩ | ⟨hr', -⟩
  · rw [hr] at hr'; cases hr'
    have hd' : deFields (pl.length + 1) (List.map (fun x => x.2) c.rx) pl = some (vals, tr) := hd
    subst hnm
    cases hl : s.awaiting.lookup sq with
    | none => rw [call_callback s d sq id c.name vals tr h hl]; simp
    | some e =>
      obtain ⟨eid, fid⟩ := e
      have hlt := hwf eid fid hl
      have hsome : ∃ f, s.futs[fid]? = some f := ⟨s.futs[fid], by simp [hlt]⟩
      obtain ⟨f, hfu⟩ := hsome
      clear hlt hwf
      simp only [Option.isSome_some, ↓reduceIte]
      by_cases hname : c.name = "invalidCommand"
      · cases hce : findById s.cmds eid with
        | none => by_cases hs : schemaIsDict c.rx = true <;> by_cases ht : tr.isEmpty = true <;> call_simp <;> simp [okClasses]
        | some ce =>
          cases vals with
          | nil => by_cases hs : schemaIsDict c.rx = true <;> by_cases ht : tr.isEmpty = true <;> call_simp <;> simp [okClasses]
          | cons v0 vs =>
            cases f <;> by_cases hs : schemaIsDict c.rx = true <;> by_cases ht : tr.isEmpty = true <;> call_simp <;> simp [okClasses]
      · by_cases hid : eid = id
        · subst hid
          cases f <;> by_cases hs : schemaIsDict c.rx = true <;> by_cases ht : tr.isEmpty = true <;> call_simp <;> simp [okClasses]
        · rw [call_wrong_id s d sq id eid fid c.name vals tr h hl hname hid]
          simp [popped, okClasses]
  · rw [hr] at hr'; cases hr'

/-- whatever bytes arrive, a pending future is resolved with values only by a frame that decodes under the active version, carries
the sequence number the future is registered under and the frame ID registered with it - and then with exactly the decoded values -/
theorem result_only_own_reply (s : Proto) (d : List UInt8) (fid : Nat) (v : Vals)
    (hp : s.futs[fid]? = some .pending) (hr : (handler_call d s).2.futs[fid]? = some (.result v)) :
    ∃ sq id name tr, rxFrame s.version s.cmds d = .ok sq id name v tr ∧ s.awaiting.lookup sq = some (id, fid) ∧
      name ≠ "invalidCommand" := by
  have hne : ∀ {a : Vals}, (some PFut.pending : Option PFut) = some (PFut.result a) → False := by
    intro a h; injection h with h; cases h
  cases hc : rxFrame s.version s.cmds d with
  | short =>
    obtain ⟨c, e⟩ := call_short s d hc
    rw [e, hp] at hr; exact (hne hr).elim
  | unknown id => rw [call_unknown s d id hc, hp] at hr; exact (hne hr).elim
  | undecodable n => rw [call_undecodable s d n hc, hp] at hr; exact (hne hr).elim
  | ok sq id name vals tr =>
    have hf := call_ok_futs s d sq id name vals tr hc
    rw [hf] at hr
    cases hl : s.awaiting.lookup sq with
    | none => simp only [hl] at hr; rw [hp] at hr; exact (hne hr).elim
    | some e =>
      obtain ⟨eid, fid'⟩ := e
      simp only [hl] at hr
      by_cases hname : name = "invalidCommand"
      · simp only [hname, ↓reduceIte] at hr
        split at hr
        · by_cases hq : fid' = fid
          · subst hq
            rw [List.getElem?_set] at hr
            simp only [↓reduceIte] at hr
            split at hr
            · injection hr with h; cases h
            · simp at hr
          · rw [List.getElem?_set] at hr
            simp only [hq, ↓reduceIte] at hr
            rw [hp] at hr; exact (hne hr).elim
        · rw [hp] at hr; exact (hne hr).elim
      · simp only [hname, ↓reduceIte] at hr
        split at hr
        · rename_i hcond
          simp only [Bool.and_eq_true, beq_iff_eq] at hcond
          by_cases hq : fid' = fid
          · subst hq
            rw [List.getElem?_set] at hr
            simp only [↓reduceIte] at hr
            split at hr
            · injection hr with h; injection h with h
              subst h
              exact ⟨sq, id, name, tr, rfl, by rw [hl, hcond.1], hname⟩
            · simp at hr
          · rw [List.getElem?_set] at hr
            simp only [hq, ↓reduceIte] at hr
            rw [hp] at hr; exact (hne hr).elim
        · rw [hp] at hr; exact (hne hr).elim

end BV.Proofs.Src.Proto
