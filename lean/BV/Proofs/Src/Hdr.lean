/-
Source-level tie for the EZSP frame headers: `_ezsp_frame_tx` / `_ezsp_frame_rx` of EZSPv4, EZSPv5 and EZSPv8, as generated from
the syntax trees (BV/Gen/SrcHdrV4/5/8.lean), are the header layouts `txHeader` / `rxHeader` of the codec model that C07, C08 and C09
are about; which class supplies the two methods for each protocol version is read off the handler classes by reflection
(`BV.Gen.Accessors.definedBy`) and agrees with the model's `hdrOf`.
-/
import BV.Gen.SrcHdrV4
import BV.Gen.SrcHdrV5
import BV.Gen.SrcHdrV8
import BV.Gen.Accessors
import BV.Model.Ezsp.Codec
namespace BV.Proofs.Src.Hdr
open BV.Py BV.Codec

theorem ofNat_toNat_eq (n : Nat) (h : n < 256) : (UInt8.ofNat n).toNat = n := by
  simp [UInt8.toNat_ofNat, Nat.mod_eq_of_lt h]

/-- legacy header, transmit: `[seq & 0xFF, 0, id]` (ValueError for a frame ID beyond one byte) -/
theorem v4_tx (h : Handler) (name : String) (id : Nat) (hl : h.cmds.lookup name = some id) (hid : id < 256) :
    BV.Src.HdrV4.frame_tx name h = (.ok (txHeader .v4 (h.seq % 256) id), h) := by
  have hm : h.seq &&& 255 = h.seq % 256 := Nat.and_two_pow_sub_one_eq_mod h.seq 8
  have hlt : h.seq % 256 < 256 := Nat.mod_lt _ (by decide)
  have hb : bytesOf [h.seq &&& 255, 0, id] = .ok [UInt8.ofNat (h.seq % 256), 0, UInt8.ofNat id] := by
    rw [hm]; simp [bytesOf, hlt, hid]
  simp only [BV.Src.HdrV4.frame_tx, bind, PyM.bind, cmdLookup, hl, PyM.get, PyM.lift, hb, pure, PyM.pure, txHeader]

/-- extended header of versions 5..7, transmit: `[seq, 0, 0xFF, 0, id]` -/
theorem v5_tx (h : Handler) (name : String) (id : Nat) (hl : h.cmds.lookup name = some id) (hid : id < 256) (hs : h.seq < 256) :
    BV.Src.HdrV5.frame_tx name h = (.ok (txHeader .v5 h.seq id), h) := by
  simp [BV.Src.HdrV5.frame_tx, bind, PyM.bind, cmdLookup, hl, PyM.get, PyM.lift, bytesOf, hs, hid, pure, PyM.pure, txHeader]

/-- header of versions 8 and later, transmit: `[seq, 0, 1, id low, id high]` -/
theorem v8_tx (h : Handler) (name : String) (id : Nat) (hl : h.cmds.lookup name = some id) (hid : id < 65536) (hs : h.seq < 256) :
    BV.Src.HdrV8.frame_tx name h = (.ok (txHeader .v8 h.seq id), h) := by
  simp [BV.Src.HdrV8.frame_tx, bind, PyM.bind, cmdLookup, hl, PyM.get, PyM.lift, bytesOf, hs, u16ser, hid, pure, PyM.pure, txHeader]

/-- receive: what the three parsers return is the model's `rxHeader`; on frames too short for the header they raise
(IndexError / ValueError), where the model answers `none` -/
theorem v4_rx (h : Handler) (d : List UInt8) :
    ((BV.Src.HdrV4.frame_rx d h).1.toOption = rxHeader .v4 d) ∧ (BV.Src.HdrV4.frame_rx d h).2 = h ∧
    (rxHeader .v4 d = none → ∃ c, (BV.Src.HdrV4.frame_rx d h).1 = .error (.raised c)) := by
  rcases d with _ | ⟨a, _ | ⟨b, _ | ⟨c, r⟩⟩⟩ <;>
    simp [BV.Src.HdrV4.frame_rx, bind, PyM.bind, PyM.lift, byteAt, pure, PyM.pure, rxHeader, Except.toOption, sliceFrom]

theorem v5_rx (h : Handler) (d : List UInt8) :
    ((BV.Src.HdrV5.frame_rx d h).1.toOption = rxHeader .v5 d) ∧ (BV.Src.HdrV5.frame_rx d h).2 = h ∧
    (rxHeader .v5 d = none → ∃ c, (BV.Src.HdrV5.frame_rx d h).1 = .error (.raised c)) := by
  rcases d with _ | ⟨a, _ | ⟨b, _ | ⟨c, _ | ⟨e, _ | ⟨f, r⟩⟩⟩⟩⟩ <;>
    simp [BV.Src.HdrV5.frame_rx, bind, PyM.bind, PyM.lift, byteAt, pure, PyM.pure, rxHeader, Except.toOption, sliceFrom]

theorem v8_rx (h : Handler) (d : List UInt8) :
    ((BV.Src.HdrV8.frame_rx d h).1.toOption = rxHeader .v8 d) ∧ (BV.Src.HdrV8.frame_rx d h).2 = h ∧
    (rxHeader .v8 d = none → ∃ c, (BV.Src.HdrV8.frame_rx d h).1 = .error (.raised c)) := by
  rcases d with _ | ⟨a, _ | ⟨b, _ | ⟨c, _ | ⟨e, _ | ⟨f, r⟩⟩⟩⟩⟩ <;>
    simp [BV.Src.HdrV8.frame_rx, bind, PyM.bind, PyM.lift, byteAt, pure, PyM.pure, rxHeader, Except.toOption, sliceFrom, u16de]

/-- the classes a parser raises on a frame too short for its header: none of them escapes an `except Exception` -/
def shortClasses : List String := ["IndexError", "ValueError"]

theorem v4_rx_cls (h : Handler) (d : List UInt8) (hn : rxHeader .v4 d = none) :
    ∃ c, c ∈ shortClasses ∧ (BV.Src.HdrV4.frame_rx d h).1 = .error (.raised c) := by
  rcases d with _ | ⟨a, _ | ⟨b, _ | ⟨c, r⟩⟩⟩ <;>
    simp [BV.Src.HdrV4.frame_rx, bind, PyM.bind, PyM.lift, byteAt, pure, PyM.pure, rxHeader, sliceFrom, shortClasses] at hn ⊢

theorem v5_rx_cls (h : Handler) (d : List UInt8) (hn : rxHeader .v5 d = none) :
    ∃ c, c ∈ shortClasses ∧ (BV.Src.HdrV5.frame_rx d h).1 = .error (.raised c) := by
  rcases d with _ | ⟨a, _ | ⟨b, _ | ⟨c, _ | ⟨e, _ | ⟨f, r⟩⟩⟩⟩⟩ <;>
    simp [BV.Src.HdrV5.frame_rx, bind, PyM.bind, PyM.lift, byteAt, pure, PyM.pure, rxHeader, sliceFrom, shortClasses] at hn ⊢

theorem v8_rx_cls (h : Handler) (d : List UInt8) (hn : rxHeader .v8 d = none) :
    ∃ c, c ∈ shortClasses ∧ (BV.Src.HdrV8.frame_rx d h).1 = .error (.raised c) := by
  rcases d with _ | ⟨a, _ | ⟨b, _ | ⟨c, _ | ⟨e, _ | ⟨f, r⟩⟩⟩⟩⟩ <;>
    simp [BV.Src.HdrV8.frame_rx, bind, PyM.bind, PyM.lift, byteAt, pure, PyM.pure, rxHeader, sliceFrom, u16de, shortClasses] at hn ⊢

/-- version of the class that `hdrOf` stands for -/
def hdrClass : Hdr → Nat
  | .v4 => 4
  | .v5 => 5
  | .v8 => 8

/-- for every protocol version with a handler, the class that supplies `_ezsp_frame_tx` and `_ezsp_frame_rx` (reflection over the
handler classes' MROs) is the one whose translation the model's `hdrOf` selects -/
theorem header_classes :
    ∀ r ∈ BV.Gen.Accessors.definedBy, (r.2.1 = "_ezsp_frame_tx" ∨ r.2.1 = "_ezsp_frame_rx") → r.2.2 = hdrClass (hdrOf r.1) := by
  decide +kernel

end BV.Proofs.Src.Hdr
