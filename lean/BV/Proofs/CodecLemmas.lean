import BV.Model.Ezsp.Codec
namespace BV.Codec

theorem leVal_leBytes (k n : Nat) (h : n < 256 ^ k) : leVal (leBytes k n) = n := by
  induction k generalizing n with
  | zero => simp [leBytes, leVal] at *; omega
  | succ k ih =>
    simp only [leBytes, leVal]
    have : n / 256 < 256 ^ k := by
      rw [Nat.pow_succ] at h; omega
    rw [ih _ this]
    simp [UInt8.toNat_ofNat']
    omega

theorem leBytes_length (k n : Nat) : (leBytes k n).length = k := by
  induction k generalizing n with
  | zero => rfl
  | succ k ih => simp [leBytes, ih]

theorem take_append_len {α} (a b : List α) (k : Nat) (h : a.length = k) : (a ++ b).take k = a := by
  subst h; simp
theorem drop_append_len {α} (a b : List α) (k : Nat) (h : a.length = k) : (a ++ b).drop k = b := by
  subst h; simp

mutual
/-- prefix-free fragment: the encoding determines its own end -/
def TDesc.pf : TDesc → Bool
  | .uint _ => true
  | .sint _ => true
  | .lvbytes _ => true
  | .fixedlist _ e => e.pf
  | .lvlist _ e => e.pf
  | .struct fs => pfAll fs
  | _ => false
def pfAll : List TDesc → Bool
  | [] => true
  | f :: fs => f.pf && pfAll fs
end

mutual
theorem de_ser (fuel : Nat) (d : TDesc) (v : Val) (out rest : List UInt8) (hp : d.pf = true)
    (h : ser d v = some out) : de fuel d (out ++ rest) = some (v, rest) := by
  cases d with
  | uint k =>
    cases v <;> simp [ser] at h
    rename_i n
    obtain ⟨hn, rfl⟩ := h
    simp [de, leBytes_length, take_append_len _ _ k (leBytes_length k n),
      drop_append_len _ _ k (leBytes_length k n), leVal_leBytes k n hn]
  | sint k =>
    cases v <;> simp [ser] at h
    rename_i n
    obtain ⟨hn, rfl⟩ := h
    simp [de, leBytes_length, take_append_len _ _ k (leBytes_length k n),
      drop_append_len _ _ k (leBytes_length k n), leVal_leBytes k n hn]
  | lvbytes p =>
    cases v <;> simp [ser] at h
    rename_i bs
    obtain ⟨hn, rfl⟩ := h
    simp [de, leBytes_length, List.append_assoc, take_append_len _ _ p (leBytes_length p _),
      drop_append_len _ _ p (leBytes_length p _), leVal_leBytes p _ hn]
  | fixedlist n e =>
    cases v <;> simp [ser] at h
    rename_i vs
    obtain ⟨hn, h⟩ := h
    have he : e.pf = true := by simpa [TDesc.pf] using hp
    simp [de, deN_serAll fuel e vs out rest he h, ← hn]
  | lvlist p e =>
    cases v <;> simp [ser] at h
    rename_i vs
    obtain ⟨hn, o, h, rfl⟩ := h
    have he : e.pf = true := by simpa [TDesc.pf] using hp
    simp [de, leBytes_length, List.append_assoc, take_append_len _ _ p (leBytes_length p _),
      drop_append_len _ _ p (leBytes_length p _), leVal_leBytes p _ hn, deN_serAll fuel e vs o rest he h]
  | struct fs =>
    cases v <;> simp [ser] at h
    rename_i vs
    have hf : pfAll fs = true := by simpa [TDesc.pf] using hp
    simp [de, deFields_serFields fuel fs vs out rest hf h]
  | greedy e => simp [TDesc.pf] at hp
  | padstruct a b c fs => simp [TDesc.pf] at hp
  | rest => simp [TDesc.pf] at hp
  | opt t => simp [TDesc.pf] at hp
  | cond t => simp [TDesc.pf] at hp
  | invalid => simp [TDesc.pf] at hp
theorem deN_serAll (fuel : Nat) (e : TDesc) (vs : List Val) (out rest : List UInt8) (hp : e.pf = true)
    (h : serAll e vs = some out) : deN fuel e vs.length (out ++ rest) = some (vs, rest) := by
  cases vs with
  | nil => simp [serAll] at h; subst h; simp [deN]
  | cons v vs =>
    simp [serAll, Option.bind_eq_some_iff] at h
    obtain ⟨a, ha, b, hb, rfl⟩ := h
    simp [deN, List.append_assoc, de_ser fuel e v a (b ++ rest) hp ha, deN_serAll fuel e vs b rest hp hb]
theorem deFields_serFields (fuel : Nat) (fs : List TDesc) (vs : List Val) (out rest : List UInt8)
    (hp : pfAll fs = true) (h : serFields fs vs = some out) :
    deFields fuel fs (out ++ rest) = some (vs, rest) := by
  cases fs with
  | nil => cases vs <;> simp [serFields] at h; subst h; simp [deFields]
  | cons f fs =>
    cases vs with
    | nil => simp [serFields] at h
    | cons v vs =>
      simp [serFields, Option.bind_eq_some_iff] at h
      obtain ⟨a, ha, b, hb, rfl⟩ := h
      simp only [pfAll, Bool.and_eq_true] at hp
      simp [deFields, List.append_assoc, de_ser fuel f v a (b ++ rest) hp.1 ha,
        deFields_serFields fuel fs vs b rest hp.2 hb]
end

/-- what may stand in last position of a schema: a prefix-free field, raw bytes, or an optional
prefix-free field -/
def tailOk : TDesc → Bool
  | .rest => true
  | .opt t => t.pf
  | d => d.pf

/-- schemas covered by the round-trip theorem: prefix-free fields, then at most one tail field -/
def rtOk : List TDesc → Bool
  | [] => true
  | [d] => tailOk d
  | d :: ds => d.pf && rtOk ds

/-- a present optional value is not the `absent` marker and has a non-empty encoding -/
def tailVal (d : TDesc) (v : Val) (out : List UInt8) : Prop :=
  match d with
  | .opt _ => v = .absent ∨ (v ≠ .absent ∧ out ≠ [])
  | _ => True

theorem de_tail (fuel : Nat) (d : TDesc) (v : Val) (out : List UInt8) (hd : tailOk d = true)
    (h : ser d v = some out) (hv : tailVal d v out) : de fuel d out = some (v, []) := by
  cases d with
  | rest => cases v <;> simp [ser] at h; subst h; simp [de]
  | opt t =>
    have ht : t.pf = true := by simpa [tailOk] using hd
    rcases hv with rfl | ⟨hne, hout⟩
    · simp [ser] at h; subst h; simp [de]
    · have h' : ser t v = some out := by
        cases v <;> simp_all [ser]
      have := de_ser fuel t v out [] ht h'
      simp only [List.append_nil] at this
      have he : out.isEmpty = false := by cases out <;> simp_all
      simp [de, he, this]
  | uint k => have := de_ser fuel (.uint k) v out [] (by simpa [tailOk] using hd) h; simpa using this
  | sint k => have := de_ser fuel (.sint k) v out [] (by simpa [tailOk] using hd) h; simpa using this
  | lvbytes k => have := de_ser fuel (.lvbytes k) v out [] (by simpa [tailOk] using hd) h; simpa using this
  | fixedlist n e => have := de_ser fuel (.fixedlist n e) v out [] (by simpa [tailOk] using hd) h; simpa using this
  | lvlist n e => have := de_ser fuel (.lvlist n e) v out [] (by simpa [tailOk] using hd) h; simpa using this
  | struct fs => have := de_ser fuel (.struct fs) v out [] (by simpa [tailOk] using hd) h; simpa using this
  | greedy e => simp [tailOk, TDesc.pf] at hd
  | padstruct a b c fs => simp [tailOk, TDesc.pf] at hd
  | cond t => simp [tailOk, TDesc.pf] at hd
  | invalid => simp [tailOk, TDesc.pf] at hd

/-- side condition on the value of the tail field, lifted to a value tuple -/
def tailVals : List TDesc → List Val → Prop
  | [d], [v] => ∀ out, ser d v = some out → tailVal d v out
  | _ :: ds, _ :: vs => tailVals ds vs
  | _, _ => True

theorem schema_roundtrip (fuel : Nat) (fs : List TDesc) (vs : List Val) (out : List UInt8)
    (hok : rtOk fs = true) (h : serFields fs vs = some out) (hv : tailVals fs vs) :
    deFields fuel fs out = some (vs, []) := by
  induction fs generalizing vs out with
  | nil => cases vs <;> simp [serFields] at h; subst h; simp [deFields]
  | cons f fs ih =>
    cases vs with
    | nil => simp [serFields] at h
    | cons v vs =>
      simp [serFields, Option.bind_eq_some_iff] at h
      obtain ⟨a, ha, b, hb, rfl⟩ := h
      cases fs with
      | nil =>
        cases vs with
        | nil =>
          simp [serFields] at hb; subst hb
          have := de_tail fuel f v a (by simpa [rtOk] using hok) ha (hv a ha)
          simp [deFields, this]
        | cons _ _ => simp [serFields] at hb
      | cons g gs =>
        have hok' : f.pf = true ∧ rtOk (g :: gs) = true := by simpa [rtOk] using hok
        have hv' : tailVals (g :: gs) vs := by
          cases vs with
          | nil => simp [serFields] at hb
          | cons w ws => simpa [tailVals] using hv
        have h2 := ih vs b hok'.2 hb hv'
        rw [deFields, de_ser fuel f v a b hok'.1 ha]
        simp [h2]

/-! ### table lookup -/

theorem find_by_id (cs : List Cmd) (c : Cmd) (hmem : c ∈ cs) (hnd : nodupNat (cs.map (·.id)) = true) :
    findById cs c.id = some c := by
  induction cs with
  | nil => simp at hmem
  | cons x xs ih =>
    simp only [List.map_cons, nodupNat, Bool.and_eq_true, Bool.not_eq_true'] at hnd
    unfold findById at *
    rcases List.mem_cons.mp hmem with rfl | hm
    · simp [List.find?]
    · have hne : (x.id == c.id) = false := by
        cases hx : (x.id == c.id) with
        | false => rfl
        | true =>
          have : x.id = c.id := by simpa using hx
          have hin : c.id ∈ xs.map (·.id) := List.mem_map.mpr ⟨c, hm, rfl⟩
          rw [← this] at hin
          have := hnd.1
          simp [List.contains_iff_mem] at this
          exact absurd hin (by simpa using this)
      simp [List.find?, hne]
      exact ih hm hnd.2

theorem rx_tx_header (h : Hdr) (seq id : Nat) (payload : List UInt8) (hs : seq < 256) (hi : id ≤ maxId h) :
    rxHeader h (txHeader h seq id ++ payload) = some (seq, id, payload) := by
  cases h <;> simp [maxId] at hi <;> simp [txHeader, rxHeader, UInt8.toNat_ofNat'] <;> omega

end BV.Codec
