import BV.Model.Multicast
namespace BV.Mcast

def groups (h : Host) : List Nat := h.mc.map (·.1)

structure Inv (h : Host) (tab : Tab) : Prop where
  gNodup : (groups h).Nodup
  used : ∀ g i, (g, i) ∈ h.mc → ∃ ep, tab[i]? = some (g, ep) ∧ ep ≠ 0
  aNodup : h.avail.Nodup
  free : ∀ i ∈ h.avail, ∃ g, tab[i]? = some (g, 0)
  cover : ∀ i, i < tab.length → i ∈ h.avail ∨ ∃ g, (g, i) ∈ h.mc

/-- each group is programmed (non-zero endpoint) at most once -/
def NodupGroups (tab : Tab) : Prop :=
  ∀ (i j g e1 e2 : Nat), tab[i]? = some (g, e1) → tab[j]? = some (g, e2) → e1 ≠ 0 → e2 ≠ 0 → i = j

theorem lookupIdx_some {mc : List (Nat × Nat)} {g i : Nat} (h : lookupIdx mc g = some i) : (g, i) ∈ mc := by
  unfold lookupIdx at h
  simp only [Option.map_eq_some_iff] at h
  obtain ⟨⟨g', i'⟩, hf, rfl⟩ := h
  have hm := List.mem_of_find?_eq_some hf
  have hp := List.find?_some hf
  simp at hp; subst hp; exact hm

theorem lookupIdx_isSome {mc : List (Nat × Nat)} {g : Nat} : (lookupIdx mc g).isSome ↔ g ∈ mc.map (·.1) := by
  unfold lookupIdx
  simp only [Option.isSome_map, List.find?_isSome, List.mem_map]
  constructor
  · rintro ⟨x, hx, hg⟩; exact ⟨x, hx, by simpa using hg⟩
  · rintro ⟨x, hx, hg⟩; exact ⟨x, hx, by simpa using hg⟩

theorem lookupIdx_none {mc : List (Nat × Nat)} {g : Nat} : lookupIdx mc g = none ↔ g ∉ mc.map (·.1) := by
  rw [← lookupIdx_isSome]; cases lookupIdx mc g <;> simp

theorem mcSet_absent {mc : List (Nat × Nat)} {g i : Nat} (h : g ∉ mc.map (·.1)) : mcSet mc g i = mc ++ [(g, i)] := by
  induction mc with
  | nil => rfl
  | cons x xs ih =>
    obtain ⟨g', i'⟩ := x
    simp only [List.map_cons, List.mem_cons, not_or] at h
    have : g' ≠ g := fun e => h.1 e.symm
    simp [mcSet, this, ih h.2]

theorem mem_addAvail {a : List Nat} {i j : Nat} : j ∈ addAvail a i ↔ j ∈ a ∨ j = i := by
  unfold addAvail; split
  · constructor
    · exact Or.inl
    · rintro (h | h); exact h; subst h; assumption
  · simp

theorem addAvail_nodup {a : List Nat} (h : a.Nodup) (i : Nat) : (addAvail a i).Nodup := by
  unfold addAvail; split
  · exact h
  · rename_i hn
    rw [List.nodup_append]
    refine ⟨h, by simp, ?_⟩
    intro x hx y hy; simp at hy; subst hy; intro e; subst e; exact hn hx

theorem same_group_idx {h : Host} (hn : (groups h).Nodup) {g i j : Nat} (h1 : (g, i) ∈ h.mc) (h2 : (g, j) ∈ h.mc) :
    i = j := by
  unfold groups at hn
  generalize h.mc = mc at *
  induction mc with
  | nil => simp at h1
  | cons x xs ih =>
    simp only [List.map_cons, List.nodup_cons, List.mem_map, not_exists, not_and] at hn
    rcases List.mem_cons.mp h1 with h1 | h1 <;> rcases List.mem_cons.mp h2 with h2 | h2
    · rw [← h1] at h2; simpa using h2.symm
    · exact absurd (by rw [← h1]) (hn.1 _ h2)
    · exact absurd (by rw [← h2]) (hn.1 _ h1)
    · exact ih hn.2 h1 h2

theorem Inv.nodupGroups {h : Host} {tab : Tab} (inv : Inv h tab) : NodupGroups tab := by
  intro i j g e1 e2 h1 h2 n1 n2
  have hi : i < tab.length := by
    rcases Nat.lt_or_ge i tab.length with h | h
    · exact h
    · rw [List.getElem?_eq_none h] at h1; cases h1
  have hj : j < tab.length := by
    rcases Nat.lt_or_ge j tab.length with h | h
    · exact h
    · rw [List.getElem?_eq_none h] at h2; cases h2
  have key : ∀ k e, tab[k]? = some (g, e) → e ≠ 0 → k < tab.length → (g, k) ∈ h.mc := by
    intro k e hk ne hlt
    rcases inv.cover k hlt with ha | ⟨g', hg'⟩
    · obtain ⟨g0, h0⟩ := inv.free k ha
      rw [hk] at h0; simp at h0; exact absurd h0.2 ne
    · obtain ⟨ep, hep, _⟩ := inv.used g' k hg'
      rw [hk] at hep; simp at hep; rw [hep.1]; exact hg'
  exact same_group_idx inv.gNodup (key i e1 h1 n1 hi) (key j e2 h2 n2 hj)

/-! ### the scan establishes the invariant -/

structure ScanInv (h : Host) (pre suf : Tab) : Prop where
  gNodup : (groups h).Nodup
  used : ∀ g i, (g, i) ∈ h.mc → i < pre.length ∧ ∃ ep, (pre ++ suf)[i]? = some (g, ep) ∧ ep ≠ 0
  aNodup : h.avail.Nodup
  free : ∀ i ∈ h.avail, i < pre.length ∧ ∃ g, (pre ++ suf)[i]? = some (g, 0)
  cover : ∀ i, i < pre.length → i ∈ h.avail ∨ ∃ g, (g, i) ∈ h.mc

theorem scanFrom_inv (pre suf : Tab) (h : Host) (hng : NodupGroups (pre ++ suf))
    (hs : ScanInv h pre suf) : Inv (scanFrom pre.length suf h) (pre ++ suf) := by
  induction suf generalizing pre h with
  | nil =>
    simp only [scanFrom]
    exact ⟨hs.gNodup, fun g i hm => (hs.used g i hm).2, hs.aNodup, fun i hi => (hs.free i hi).2,
      fun i hi => hs.cover i (by simpa using hi)⟩
  | cons x rest ih =>
    obtain ⟨g, ep⟩ := x
    have happ : pre ++ (g, ep) :: rest = (pre ++ [(g, ep)]) ++ rest := by simp
    have hlen : (pre ++ [(g, ep)]).length = pre.length + 1 := by simp
    have hcur : (pre ++ (g, ep) :: rest)[pre.length]? = some (g, ep) := by simp
    unfold scanFrom
    by_cases hep : ep ≠ 0
    · simp only [hep, ne_eq, not_false_eq_true, if_true]
      have hgn : g ∉ h.mc.map (·.1) := by
        intro hmem
        obtain ⟨⟨g', i'⟩, hm, hg⟩ := List.mem_map.mp hmem
        simp at hg; subst hg
        obtain ⟨hlt, e', he', hne'⟩ := hs.used _ _ hm
        have := hng i' pre.length g' e' ep he' hcur hne' hep
        omega
      rw [mcSet_absent hgn, happ, ← hlen]
      apply ih (pre ++ [(g, ep)]) _ (by rw [← happ]; exact hng)
      refine ⟨?_, ?_, hs.aNodup, ?_, ?_⟩
      · simp only [groups, List.map_append, List.map_cons, List.map_nil]
        rw [List.nodup_append]
        refine ⟨hs.gNodup, by simp, ?_⟩
        intro a ha b hb; simp at hb; subst hb; intro e; subst e; exact hgn ha
      · intro g' i hm
        rcases List.mem_append.mp hm with hm | hm
        · obtain ⟨hlt, hx⟩ := hs.used g' i hm
          exact ⟨by rw [hlen]; omega, by rw [← happ]; exact hx⟩
        · simp at hm; obtain ⟨rfl, rfl⟩ := hm
          exact ⟨by rw [hlen]; omega, ep, by rw [← happ]; exact hcur, hep⟩
      · intro i hi
        obtain ⟨hlt, hx⟩ := hs.free i hi
        exact ⟨by rw [hlen]; omega, by rw [← happ]; exact hx⟩
      · intro i hi
        rw [hlen] at hi
        rcases Nat.lt_or_ge i pre.length with hlt | hge
        · rcases hs.cover i hlt with h1 | ⟨g', h1⟩
          · exact Or.inl h1
          · exact Or.inr ⟨g', List.mem_append_left _ h1⟩
        · have : i = pre.length := by omega
          subst this
          exact Or.inr ⟨g, by simp⟩
    · simp only [hep, if_false]
      have hep0 : ep = 0 := by simpa using hep
      subst hep0
      rw [happ, ← hlen]
      apply ih (pre ++ [(g, 0)]) _ (by rw [← happ]; exact hng)
      refine ⟨hs.gNodup, ?_, addAvail_nodup hs.aNodup _, ?_, ?_⟩
      · intro g' i hm
        obtain ⟨hlt, hx⟩ := hs.used g' i hm
        exact ⟨by rw [hlen]; omega, by rw [← happ]; exact hx⟩
      · intro i hi
        rcases mem_addAvail.mp hi with hi | hi
        · obtain ⟨hlt, hx⟩ := hs.free i hi
          exact ⟨by rw [hlen]; omega, by rw [← happ]; exact hx⟩
        · subst hi
          exact ⟨by rw [hlen]; omega, g, by rw [← happ]; exact hcur⟩
      · intro i hi
        rw [hlen] at hi
        rcases Nat.lt_or_ge i pre.length with hlt | hge
        · rcases hs.cover i hlt with h1 | h1
          · exact Or.inl (mem_addAvail.mpr (Or.inl h1))
          · exact Or.inr h1
        · have : i = pre.length := by omega
          subst this
          exact Or.inl (mem_addAvail.mpr (Or.inr rfl))

theorem scan_inv (tab : Tab) (hng : NodupGroups tab) : Inv (scan tab) tab := by
  have := scanFrom_inv [] tab {} (by simpa using hng)
    ⟨by simp [groups], by simp, by simp, by simp, by simp⟩
  simpa [scan] using this

end BV.Mcast
