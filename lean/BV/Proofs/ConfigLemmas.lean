/- Lemmas about applyOverrides / writeCfgs (BV.Model.Config) used by Props/C16 -/
import BV.Proofs.Dict
namespace BV.Config

def ovNames (ov : Overrides) : List String := ov.map (·.1)

theorem mem_names_iff {d : Dict} {n : String} : n ∈ names d ↔ ∃ x ∈ d, x.name = n := by
  simp [names]

theorem foldl_set_nodup (rows : List BV.Gen.Config.Row) (d : Dict) (hd : (names d).Nodup) :
    (names (rows.foldl (fun d r => d.set (rowCfg r)) d)).Nodup := by
  induction rows generalizing d with
  | nil => simpa using hd
  | cons r rs ih => simpa using ih _ (set_nodup hd _)

theorem defaultCfgs_nodup (rows) : (names (defaultCfgs rows)).Nodup :=
  foldl_set_nodup _ [] (by simp)

theorem defaultVals_nodup (rows) : (names (defaultVals rows)).Nodup :=
  foldl_set_nodup _ [] (by simp)

theorem get?_set_ne (d : Dict) (c : Cfg) (n : String) (h : c.name ≠ n) : (d.set c).get? n = d.get? n := by
  induction d with
  | nil =>
    simp only [Dict.set, Dict.get?, List.find?_cons, List.find?_nil]
    have : (c.name == n) = false := by simpa using h
    simp [this]
  | cons x xs ih =>
    simp only [Dict.set]
    split
    · rename_i hx
      simp only [Dict.get?, List.find?_cons]
      have h1 : (c.name == n) = false := by simpa using h
      have h2 : (x.name == n) = false := by rw [hx]; exact h1
      simp [h1, h2]
    · simp only [Dict.get?, List.find?_cons] at ih ⊢
      rw [ih]

theorem get?_pop_ne {d d' : Dict} {k : String} (n : String) (h : k ≠ n) (hp : d.pop k = some d') :
    d'.get? n = d.get? n := by
  induction d generalizing d' with
  | nil => simp [Dict.pop] at hp
  | cons x xs ih =>
    simp only [Dict.pop] at hp
    split at hp
    · rename_i hx
      cases hp
      have : (x.name == n) = false := by rw [hx]; simpa using h
      simp [Dict.get?, List.find?_cons, this]
    · cases hq : Dict.pop xs k with
      | none => simp [hq] at hp
      | some q =>
        simp only [hq, Option.map_some, Option.some.injEq] at hp
        subst hp
        have := ih hq
        simp only [Dict.get?, List.find?_cons] at this ⊢
        rw [this]

theorem minOf_set_ne (d : Dict) (c : Cfg) (n : String) (h : c.name ≠ n) : minOf (d.set c) n = minOf d n := by
  simp [minOf, get?_set_ne d c n h]

theorem minOf_popD_ne (d : Dict) (k n : String) (h : k ≠ n) : minOf (d.popD k) n = minOf d n := by
  unfold Dict.popD
  cases hp : d.pop k with
  | none => rfl
  | some d' => simp [minOf, get?_pop_ne n h hp]

theorem minOf_of_mem {d : Dict} (hd : (names d).Nodup) {c : Cfg} (hc : c ∈ d) : minOf d c.name = c.minimum := by
  simp [minOf, (get?_eq_some hd c.name c).mpr ⟨hc, rfl⟩]

/-- what the merged dict contains, for item lists without repeated keys (a dict): every item with a value, with
the grow-only flag only for schema-filled items whose default was grow-only, plus the defaults that were neither
replaced nor disabled -/
theorem applyOverrides_spec (sup : String → Bool) {ov : Overrides} {d : Dict} (hd : (names d).Nodup)
    (hov : (ovNames ov).Nodup) :
    (names (applyOverrides sup d ov)).Nodup ∧ ∀ x, x ∈ applyOverrides sup d ov ↔
      (∃ id v, (x.name, id, some v) ∈ ov ∧ x = ⟨x.name, id, v, !sup x.name && minOf d x.name⟩) ∨
        (x ∈ d ∧ x.name ∉ ovNames ov) := by
  induction ov generalizing d with
  | nil => exact ⟨hd, by simp [ovNames, applyOverrides]⟩
  | cons o rest ih =>
    obtain ⟨name, id, val⟩ := o
    simp only [ovNames, List.map_cons, List.nodup_cons] at hov
    have hne : ∀ x : Cfg, ∀ i w, (x.name, i, w) ∈ rest → name ≠ x.name := by
      intro x i w hm e
      exact hov.1 (e ▸ List.mem_map_of_mem (f := (·.1)) hm)
    cases val with
    | none =>
      simp only [applyOverrides]
      obtain ⟨hn, hx⟩ := ih (popD_nodup hd name) hov.2
      refine ⟨hn, fun x => ?_⟩
      rw [hx x, popD_mem hd]
      simp only [ovNames, List.map_cons, List.mem_cons, not_or]
      constructor
      · rintro (⟨i, v, hm, he⟩ | ⟨⟨h1, h2⟩, h3⟩)
        · rw [minOf_popD_ne d name x.name (hne x i _ hm)] at he
          exact Or.inl ⟨i, v, Or.inr hm, he⟩
        · exact Or.inr ⟨h1, h2, h3⟩
      · rintro (⟨i, v, hm | hm, he⟩ | ⟨h1, h2, h3⟩)
        · simp at hm
        · rw [← minOf_popD_ne d name x.name (hne x i _ hm)] at he
          exact Or.inl ⟨i, v, hm, he⟩
        · exact Or.inr ⟨⟨h1, h2⟩, h3⟩
    | some v =>
      simp only [applyOverrides]
      obtain ⟨hn, hx⟩ := ih (set_nodup hd ⟨name, id, v, !sup name && minOf d name⟩) hov.2
      refine ⟨hn, fun x => ?_⟩
      rw [hx x, mem_set hd]
      simp only [ovNames, List.map_cons, List.mem_cons, not_or]
      constructor
      · rintro (⟨i, w, hm, he⟩ | ⟨h1 | ⟨h1, h2⟩, h3⟩)
        · rw [minOf_set_ne d _ x.name (hne x i _ hm)] at he
          exact Or.inl ⟨i, w, Or.inr hm, he⟩
        · subst h1; exact Or.inl ⟨id, v, Or.inl rfl, rfl⟩
        · exact Or.inr ⟨h1, h2, h3⟩
      · rintro (⟨i, w, hm | hm, he⟩ | ⟨h1, h2, h3⟩)
        · simp only [Prod.mk.injEq, Option.some.injEq] at hm
          obtain ⟨e1, e2, e3⟩ := hm
          refine Or.inr ⟨Or.inl ?_, ?_⟩
          · rw [he]; simp [e1, e2, e3]
          · rw [e1]; exact hov.1
        · rw [← minOf_set_ne d ⟨name, id, v, !sup name && minOf d name⟩ x.name (hne x i _ hm)] at he
          exact Or.inl ⟨i, w, hm, he⟩
        · exact Or.inr ⟨Or.inr ⟨h1, h2⟩, h3⟩

/-! ### the write loop -/

def setNames : List Op → List String
  | [] => []
  | .setCfg n _ _ :: ops => n :: setNames ops
  | _ :: ops => setNames ops

theorem setNames_append (a b : List Op) : setNames (a ++ b) = setNames a ++ setNames b := by
  induction a with
  | nil => rfl
  | cons x xs ih => cases x <;> simp [setNames, ih]

theorem writeCfgs_append (ncp : Ncp) (a b : Dict) :
    writeCfgs ncp (a ++ b) = writeCfgs ncp a ++ writeCfgs ncp b := by
  induction a with
  | nil => rfl
  | cons x xs ih => simp only [List.cons_append, writeCfgs, ih]; split <;> simp

theorem setNames_writeValues (ncp : Ncp) (d : Dict) : setNames (writeValues ncp d) = [] := by
  induction d with
  | nil => rfl
  | cons x xs ih => simp [writeValues, setNames, ih]

theorem setNames_writeCfgs_sublist (ncp : Ncp) (d : Dict) :
    (setNames (writeCfgs ncp d)).Sublist (names d) := by
  induction d with
  | nil => simp [writeCfgs, setNames]
  | cons x xs ih =>
    simp only [writeCfgs]
    split
    · simpa [setNames] using ih.cons x.name
    · simpa [setNames] using ih.cons₂ x.name

theorem mem_writeCfgs_set {ncp : Ncp} {d : Dict} {n : String} {i v : Nat} :
    Op.setCfg n i v ∈ writeCfgs ncp d ↔
      ∃ c ∈ d, c.name = n ∧ c.id = i ∧ c.value = v ∧ skip ncp c = false := by
  induction d with
  | nil => simp [writeCfgs]
  | cons x xs ih =>
    simp only [writeCfgs]
    by_cases hs : skip ncp x = true
    · simp only [hs, if_true, List.mem_cons, reduceCtorEq, false_or, ih, exists_eq_or_imp]
      simp [hs]
    · simp only [hs, Bool.false_eq_true, if_false, ite_self, List.mem_cons, reduceCtorEq, false_or,
        Op.setCfg.injEq, ih, exists_eq_or_imp]
      have : skip ncp x = false := by simpa using hs
      simp only [this, and_true]
      constructor
      · rintro (⟨a, b, c⟩ | h)
        · exact Or.inl ⟨a.symm, b.symm, c.symm⟩
        · exact Or.inr h
      · rintro (⟨a, b, c⟩ | h)
        · exact Or.inl ⟨a.symm, b.symm, c.symm⟩
        · exact Or.inr h

theorem mem_writeValues_no_setCfg {ncp : Ncp} {d : Dict} {n : String} {i v : Nat} :
    Op.setCfg n i v ∉ writeValues ncp d := by
  induction d with
  | nil => simp [writeValues]
  | cons x xs ih => simp [writeValues, ih]

/-- the sequence of reads and writes does not depend on which sets the NCP accepts -/
theorem writeCfgs_accept_indep (cur : Nat → Option Nat) (a1 a2 v1 v2 : Nat → Bool) (d : Dict) :
    writeCfgs ⟨cur, a1, v1⟩ d = writeCfgs ⟨cur, a2, v2⟩ d := by
  induction d with
  | nil => rfl
  | cons x xs ih => simp only [writeCfgs, skip, ite_self, ih]

theorem writeValues_accept_indep (cur : Nat → Option Nat) (a1 a2 v1 v2 : Nat → Bool) (d : Dict) :
    writeValues ⟨cur, a1, v1⟩ d = writeValues ⟨cur, a2, v2⟩ d := by
  induction d with
  | nil => rfl
  | cons x xs ih => simp only [writeValues, ite_self, ih]

end BV.Config
