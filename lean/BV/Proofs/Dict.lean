/- Helper lemmas about the insertion-ordered dict of BV.Model.Config -/
import BV.Model.Config
namespace BV.Config

def names (d : Dict) : List String := d.map (·.name)

@[simp] theorem names_nil : names [] = [] := rfl
@[simp] theorem names_cons (x : Cfg) (xs : Dict) : names (x :: xs) = x.name :: names xs := rfl

theorem mem_names_of_mem {d : Dict} {x : Cfg} (h : x ∈ d) : x.name ∈ names d :=
  List.mem_map_of_mem h

theorem set_names (d : Dict) (c : Cfg) :
    names (d.set c) = if c.name ∈ names d then names d else names d ++ [c.name] := by
  induction d with
  | nil => simp [Dict.set]
  | cons x xs ih =>
    unfold Dict.set
    by_cases h : x.name = c.name
    · simp [h]
    · have hne : ¬ (c.name = x.name) := fun e => h e.symm
      by_cases h2 : c.name ∈ names xs <;> simp [h, h2, ih, hne]

theorem mem_set {d : Dict} (hd : (names d).Nodup) (c x : Cfg) :
    x ∈ d.set c ↔ x = c ∨ (x ∈ d ∧ x.name ≠ c.name) := by
  induction d with
  | nil => simp [Dict.set]
  | cons y ys ih =>
    simp only [names_cons, List.nodup_cons] at hd
    unfold Dict.set
    by_cases hy : y.name = c.name
    · simp only [hy, if_true, List.mem_cons]
      constructor
      · rintro (h | h)
        · exact Or.inl h
        · refine Or.inr ⟨Or.inr h, ?_⟩
          intro e; exact hd.1 (by rw [hy, ← e]; exact mem_names_of_mem h)
      · rintro (h | ⟨h | h, hne⟩)
        · exact Or.inl h
        · subst h; exact absurd hy hne
        · exact Or.inr h
    · simp only [hy, if_false, List.mem_cons, ih hd.2]
      constructor
      · rintro (h | h | ⟨h1, h2⟩)
        · subst h; exact Or.inr ⟨Or.inl rfl, hy⟩
        · exact Or.inl h
        · exact Or.inr ⟨Or.inr h1, h2⟩
      · rintro (h | ⟨h | h, hne⟩)
        · exact Or.inr (Or.inl h)
        · exact Or.inl h
        · exact Or.inr (Or.inr ⟨h, hne⟩)

theorem set_nodup {d : Dict} (hd : (names d).Nodup) (c : Cfg) : (names (d.set c)).Nodup := by
  rw [set_names]
  split
  · exact hd
  · rename_i h
    rw [List.nodup_append]
    refine ⟨hd, by simp, ?_⟩
    intro a ha b hb
    simp at hb; subst hb
    intro e; subst e; exact h ha

theorem pop_none {d : Dict} {k : String} : d.pop k = none ↔ k ∉ names d := by
  induction d with
  | nil => simp [Dict.pop]
  | cons y ys ih =>
    unfold Dict.pop
    by_cases hy : y.name = k
    · simp [hy]
    · have : ¬ k = y.name := fun e => hy e.symm
      simp [hy, ih, this]

theorem pop_some {d d' : Dict} {k : String} (hd : (names d).Nodup) (h : d.pop k = some d') :
    k ∈ names d ∧ (names d').Sublist (names d) ∧ (∀ x, x ∈ d' ↔ x ∈ d ∧ x.name ≠ k) := by
  induction d generalizing d' with
  | nil => simp [Dict.pop] at h
  | cons y ys ih =>
    simp only [names_cons, List.nodup_cons] at hd
    unfold Dict.pop at h
    by_cases hy : y.name = k
    · simp only [hy, if_true, Option.some.injEq] at h
      subst h
      refine ⟨by simp [hy], by simp, ?_⟩
      intro x
      constructor
      · intro hx
        refine ⟨List.mem_cons_of_mem _ hx, ?_⟩
        intro e; exact hd.1 (by rw [hy, ← e]; exact mem_names_of_mem hx)
      · rintro ⟨hx, hne⟩
        rcases List.mem_cons.mp hx with h | h
        · subst h; exact absurd hy hne
        · exact h
    · simp only [hy, if_false, Option.map_eq_some_iff] at h
      obtain ⟨d'', h1, rfl⟩ := h
      obtain ⟨a, b, c⟩ := ih hd.2 h1
      refine ⟨by simp [a], by simpa using b.cons₂ y.name, ?_⟩
      intro x
      simp only [List.mem_cons, c]
      constructor
      · rintro (h | ⟨h, h2⟩)
        · subst h; exact ⟨Or.inl rfl, hy⟩
        · exact ⟨Or.inr h, h2⟩
      · rintro ⟨h | h, h2⟩
        · exact Or.inl h
        · exact Or.inr ⟨h, h2⟩

theorem pop_nodup {d d' : Dict} {k : String} (hd : (names d).Nodup) (h : d.pop k = some d') :
    (names d').Nodup := (pop_some hd h).2.1.nodup hd

theorem get?_eq_some {d : Dict} (hd : (names d).Nodup) (k : String) (c : Cfg) :
    d.get? k = some c ↔ c ∈ d ∧ c.name = k := by
  induction d with
  | nil => simp [Dict.get?]
  | cons y ys ih =>
    simp only [names_cons, List.nodup_cons] at hd
    unfold Dict.get? at ih ⊢
    by_cases hy : y.name = k
    · simp only [List.find?, hy, beq_self_eq_true, Option.some.injEq, List.mem_cons]
      constructor
      · intro h; subst h; exact ⟨Or.inl rfl, hy⟩
      · rintro ⟨h | h, hk⟩
        · exact h.symm
        · exact absurd (mem_names_of_mem h) (by rw [hk, ← hy]; exact hd.1)
    · have : (y.name == k) = false := by simpa using hy
      simp only [List.find?, this, ih hd.2, List.mem_cons]
      constructor
      · rintro ⟨h1, h2⟩; exact ⟨Or.inr h1, h2⟩
      · rintro ⟨h | h, hk⟩
        · subst h; exact absurd hk hy
        · exact ⟨h, hk⟩

theorem same_name_eq {d : Dict} (hd : (names d).Nodup) {a b : Cfg} (ha : a ∈ d) (hb : b ∈ d)
    (h : a.name = b.name) : a = b := by
  induction d with
  | nil => simp at ha
  | cons x xs ih =>
    simp only [names_cons, List.nodup_cons] at hd
    rcases List.mem_cons.mp ha with ha | ha <;> rcases List.mem_cons.mp hb with hb | hb
    · rw [ha, hb]
    · have := mem_names_of_mem hb; rw [← h, ha] at this; exact absurd this hd.1
    · have := mem_names_of_mem ha; rw [h, hb] at this; exact absurd this hd.1
    · exact ih hd.2 ha hb

theorem popD_mem {d : Dict} (hd : (names d).Nodup) (k : String) (x : Cfg) :
    x ∈ d.popD k ↔ x ∈ d ∧ x.name ≠ k := by
  unfold Dict.popD
  cases h : d.pop k with
  | none =>
    have hk := pop_none.mp h
    simp only [Option.getD_none]
    constructor
    · intro hx; exact ⟨hx, fun e => hk (e ▸ mem_names_of_mem hx)⟩
    · exact fun hx => hx.1
  | some d' => simpa using (pop_some hd h).2.2 x

theorem popD_nodup {d : Dict} (hd : (names d).Nodup) (k : String) : (names (d.popD k)).Nodup := by
  unfold Dict.popD
  cases h : d.pop k with
  | none => simpa using hd
  | some d' => simpa using pop_nodup hd h

theorem popD_sublist {d : Dict} (hd : (names d).Nodup) (k : String) :
    (names (d.popD k)).Sublist (names d) := by
  unfold Dict.popD
  cases h : d.pop k with
  | none => simp
  | some d' => simpa using (pop_some hd h).2.1

theorem popD_not_mem {d : Dict} (hd : (names d).Nodup) (k : String) : k ∉ names (d.popD k) := by
  intro h
  obtain ⟨x, hx, hn⟩ : ∃ x ∈ d.popD k, x.name = k := by simpa [names] using h
  exact ((popD_mem hd k x).mp hx).2 hn

/-- appending behind: setting a key that is absent -/
theorem set_absent {d : Dict} (c : Cfg) (h : c.name ∉ names d) : d.set c = d ++ [c] := by
  induction d with
  | nil => rfl
  | cons y ys ih =>
    simp only [names_cons, List.mem_cons, not_or] at h
    unfold Dict.set
    have : y.name ≠ c.name := fun e => h.1 e.symm
    simp [this, ih h.2]

/-- `d[k] = d.pop(k)`: the entry is moved to the end -/
theorem moveLast_eq {d : Dict} (hd : (names d).Nodup) (k : String) (c : Cfg) (h : d.get? k = some c) :
    moveLast d k = d.popD k ++ [c] := by
  unfold moveLast
  rw [h]
  have hc := (get?_eq_some hd k c).mp h
  exact set_absent c (hc.2 ▸ popD_not_mem hd k)

theorem moveLast_none {d : Dict} (k : String) (h : d.get? k = none) : moveLast d k = d := by
  unfold moveLast; rw [h]

theorem moveLast_mem {d : Dict} (hd : (names d).Nodup) (k : String) (x : Cfg) :
    x ∈ moveLast d k ↔ x ∈ d := by
  cases h : d.get? k with
  | none => rw [moveLast_none k h]
  | some c =>
    rw [moveLast_eq hd k c h]
    have hc := (get?_eq_some hd k c).mp h
    simp only [List.mem_append, popD_mem hd, List.mem_singleton]
    constructor
    · rintro (⟨h1, _⟩ | h1)
      · exact h1
      · exact h1 ▸ hc.1
    · intro hx
      by_cases hn : x.name = k
      · exact Or.inr (same_name_eq hd hx hc.1 (hn.trans hc.2.symm))
      · exact Or.inl ⟨hx, hn⟩

theorem moveLast_nodup {d : Dict} (hd : (names d).Nodup) (k : String) : (names (moveLast d k)).Nodup := by
  cases h : d.get? k with
  | none => rw [moveLast_none k h]; exact hd
  | some c =>
    rw [moveLast_eq hd k c h]
    have hc := (get?_eq_some hd k c).mp h
    simp only [names, List.map_append, List.map_cons, List.map_nil]
    rw [List.nodup_append]
    refine ⟨popD_nodup hd k, by simp, ?_⟩
    intro a ha b hb
    simp at hb; subst hb
    intro e; subst e
    exact popD_not_mem hd k (hc.2 ▸ ha)

end BV.Config
