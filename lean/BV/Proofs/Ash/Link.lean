/-
Host → NCP direction of the ASH link as a labelled transition system with ghost absolute indices.
Sender = the host (window TX_K = 1: frame `base` is outstanding iff `pending`; it may be retransmitted
at any time — NAK, timeout or stall — and the sender may also stop for good: failure, cancellation of
callers).  Receiver = the NCP of the specification (accepts iff frmNum = expected, i.e. idx % 8 = r % 8;
every reply carries the number expected next).  Channels are FIFO lists; faults: drop and duplication
anywhere, corruption of the frame being delivered (discarded and answered with a NAK), and the receiver
may emit its current expected number at any time (piggy-backed acks, NAKs, ACKs to retransmissions).
The wire carries only idx % 8 and ackNum % 8; all tests below are on those residues.
-/
namespace BV.Link.H2N

structure St where
  base : Nat          -- frames acknowledged so far = index of the current frame
  pending : Bool      -- frame `base` transmitted, not yet acknowledged
  r : Nat             -- receiver: next expected (absolute)
  d : List Nat        -- data channel (absolute index; wire carries idx % 8)
  a : List Nat        -- ack channel (absolute ackNum; wire carries A % 8)
  up : List Nat       -- delivered upward (absolute indices)

def init : St := ⟨0, false, 0, [], [], []⟩

inductive Step : St → St → Prop
  | sendNew (s) (h : s.pending = false) :
      Step s { s with pending := true, d := s.d ++ [s.base] }
  | retx (s) (h : s.pending = true) :
      Step s { s with d := s.d ++ [s.base] }
  | rxAccept (s j ds) (hd : s.d = j :: ds) (h : j % 8 = s.r % 8) :
      Step s { s with d := ds, r := s.r + 1, up := s.up ++ [j], a := s.a ++ [s.r + 1] }
  | rxReject (s j ds) (hd : s.d = j :: ds) (h : j % 8 ≠ s.r % 8) :
      Step s { s with d := ds, a := s.a ++ [s.r] }
  | garbleD (s j ds) (hd : s.d = j :: ds) : Step s { s with d := ds, a := s.a ++ [s.r] }
  | spontAck (s) : Step s { s with a := s.a ++ [s.r] }
  | dropD (s xs j ys) (hd : s.d = xs ++ j :: ys) : Step s { s with d := xs ++ ys }
  | dupD (s xs j ys) (hd : s.d = xs ++ j :: ys) : Step s { s with d := xs ++ j :: j :: ys }
  | ackHit (s A as) (ha : s.a = A :: as) (hp : s.pending = true) (h : (A + 7) % 8 = s.base % 8) :
      Step s { s with a := as, pending := false, base := s.base + 1 }
  | ackMiss (s A as) (ha : s.a = A :: as) (h : ¬ (s.pending = true ∧ (A + 7) % 8 = s.base % 8)) :
      Step s { s with a := as }
  | dropA (s xs A ys) (ha : s.a = xs ++ A :: ys) : Step s { s with a := xs ++ ys }
  | dupA (s xs A ys) (ha : s.a = xs ++ A :: ys) : Step s { s with a := xs ++ A :: A :: ys }

inductive Reach : St → Prop
  | init : Reach init
  | step {s t} : Reach s → Step s t → Reach t

def Sorted (l : List Nat) : Prop := l.Pairwise (· ≤ ·)

structure Inv (s : St) : Prop where
  dSorted : Sorted s.d
  dHi : ∀ j ∈ s.d, j ≤ s.base ∧ (s.pending = false → j < s.base)
  dLo : ∀ j ∈ s.d, s.r ≤ j + 1
  rLo : s.base ≤ s.r
  rHi : s.r ≤ s.base + 1
  rIdle : s.pending = false → s.r = s.base
  aSorted : Sorted s.a
  aRange : ∀ A ∈ s.a, s.base ≤ A ∧ A ≤ s.r
  upEq : s.up = List.range s.r

theorem sorted_drop {xs ys : List Nat} {j} (h : Sorted (xs ++ j :: ys)) : Sorted (xs ++ ys) := by
  unfold Sorted at *
  rw [List.pairwise_append] at *
  obtain ⟨h1, h2, h3⟩ := h
  refine ⟨h1, (List.pairwise_cons.mp h2).2, ?_⟩
  intro a ha b hb; exact h3 a ha b (List.mem_cons_of_mem _ hb)

theorem sorted_dup {xs ys : List Nat} {j} (h : Sorted (xs ++ j :: ys)) : Sorted (xs ++ j :: j :: ys) := by
  unfold Sorted at *
  rw [List.pairwise_append] at *
  obtain ⟨h1, h2, h3⟩ := h
  refine ⟨h1, ?_, ?_⟩
  · rw [List.pairwise_cons]
    refine ⟨?_, h2⟩
    intro b hb
    rcases List.mem_cons.mp hb with rfl | hb
    · exact Nat.le_refl _
    · exact (List.pairwise_cons.mp h2).1 b hb
  · intro a ha b hb
    apply h3 a ha
    rcases List.mem_cons.mp hb with rfl | hb
    · exact List.mem_cons_self
    · exact hb

theorem sorted_snoc {l : List Nat} {x} (h : Sorted l) (hx : ∀ y ∈ l, y ≤ x) : Sorted (l ++ [x]) := by
  unfold Sorted at *
  rw [List.pairwise_append]
  refine ⟨h, List.pairwise_singleton _ _, ?_⟩
  intro a ha b hb; simp at hb; subst hb; exact hx a ha

theorem mem_drop {xs ys : List Nat} {j x} (h : x ∈ xs ++ ys) : x ∈ xs ++ j :: ys := by
  simp at *; rcases h with h | h <;> simp [h]

theorem mem_dup {xs ys : List Nat} {j x} (h : x ∈ xs ++ j :: j :: ys) : x ∈ xs ++ j :: ys := by
  simp only [List.mem_append, List.mem_cons] at *
  rcases h with h | h | h | h
  · exact Or.inl h
  · exact Or.inr (Or.inl h)
  · exact Or.inr (Or.inl h)
  · exact Or.inr (Or.inr h)

theorem inv_init : Inv init := by
  constructor <;> simp [init, Sorted]

theorem inv_step {s t} (hi : Inv s) (hs : Step s t) : Inv t := by
  obtain ⟨dS, dHi, dLo, rLo, rHi, rIdle, aS, aR, upE⟩ := hi
  cases hs with
  | sendNew h =>
    have hr := rIdle h
    constructor <;> simp only []
    · exact sorted_snoc dS (fun y hy => (dHi y hy).1)
    · intro j hj; simp at hj; rcases hj with hj | rfl
      · exact ⟨(dHi j hj).1, by simp⟩
      · exact ⟨Nat.le_refl _, by simp⟩
    · intro j hj; simp at hj; rcases hj with hj | rfl
      · exact dLo j hj
      · omega
    · exact rLo
    · exact rHi
    · simp
    · exact aS
    · exact aR
    · exact upE
  | retx h =>
    constructor <;> simp only []
    · exact sorted_snoc dS (fun y hy => (dHi y hy).1)
    · intro j hj; simp at hj; rcases hj with hj | rfl
      · exact dHi j hj
      · exact ⟨Nat.le_refl _, by simp [h]⟩
    · intro j hj; simp at hj; rcases hj with hj | rfl
      · exact dLo j hj
      · omega
    · exact rLo
    · exact rHi
    · exact rIdle
    · exact aS
    · exact aR
    · exact upE
  | rxAccept j ds hd h =>
    have hj : j ∈ s.d := by rw [hd]; simp
    have hjr : j = s.r := by
      have h1 := (dHi j hj).1; have h2 := dLo j hj; omega
    have hpend : s.pending = true := by
      cases hp : s.pending with
      | true => rfl
      | false => have := (dHi j hj).2 hp; have := rIdle hp; omega
    rw [hd] at dS dHi dLo
    constructor <;> simp only []
    · exact (List.pairwise_cons.mp dS).2
    · intro x hx; exact dHi x (List.mem_cons_of_mem _ hx)
    · intro x hx
      have := (List.pairwise_cons.mp dS).1 x hx; omega
    · omega
    · have := (dHi j (by simp)).1; omega
    · intro hp; simp [hpend] at hp
    · exact sorted_snoc aS (fun y hy => by have := (aR y hy).2; omega)
    · intro A hA; simp at hA; rcases hA with hA | rfl
      · have := aR A hA; omega
      · omega
    · rw [upE, hjr, List.range_succ]
  | rxReject j ds hd h =>
    rw [hd] at dS dHi dLo
    constructor <;> simp only []
    · exact (List.pairwise_cons.mp dS).2
    · intro x hx; exact dHi x (List.mem_cons_of_mem _ hx)
    · intro x hx; exact dLo x (List.mem_cons_of_mem _ hx)
    · exact rLo
    · exact rHi
    · exact rIdle
    · exact sorted_snoc aS (fun y hy => (aR y hy).2)
    · intro A hA; simp at hA; rcases hA with hA | rfl
      · exact aR A hA
      · omega
    · exact upE
  | garbleD j ds hd =>
    rw [hd] at dS dHi dLo
    constructor <;> simp only []
    · exact (List.pairwise_cons.mp dS).2
    · intro x hx; exact dHi x (List.mem_cons_of_mem _ hx)
    · intro x hx; exact dLo x (List.mem_cons_of_mem _ hx)
    · exact rLo
    · exact rHi
    · exact rIdle
    · exact sorted_snoc aS (fun y hy => (aR y hy).2)
    · intro A hA; simp at hA; rcases hA with hA | rfl
      · exact aR A hA
      · omega
    · exact upE
  | spontAck =>
    constructor <;> simp only []
    · exact dS
    · exact dHi
    · exact dLo
    · exact rLo
    · exact rHi
    · exact rIdle
    · exact sorted_snoc aS (fun y hy => (aR y hy).2)
    · intro A hA; simp at hA; rcases hA with hA | rfl
      · exact aR A hA
      · omega
    · exact upE
  | dropD xs j ys hd =>
    rw [hd] at dS dHi dLo
    constructor <;> simp only []
    · exact sorted_drop dS
    · intro x hx; exact dHi x (mem_drop hx)
    · intro x hx; exact dLo x (mem_drop hx)
    all_goals assumption
  | dupD xs j ys hd =>
    rw [hd] at dS dHi dLo
    constructor <;> simp only []
    · exact sorted_dup dS
    · intro x hx; exact dHi x (mem_dup hx)
    · intro x hx; exact dLo x (mem_dup hx)
    all_goals assumption
  | ackHit A as ha hp h =>
    have hA : A ∈ s.a := by rw [ha]; simp
    have hAeq : A = s.base + 1 := by
      have := aR A hA; omega
    rw [ha] at aS aR
    constructor <;> simp only []
    · exact dS
    · intro j hj; have := dHi j hj; omega
    · exact dLo
    · have := (aR A (by simp)).2; omega
    · omega
    · intro _; have := (aR A (by simp)).2; omega
    · exact (List.pairwise_cons.mp aS).2
    · intro B hB
      have h1 := (List.pairwise_cons.mp aS).1 B hB
      have := aR B (List.mem_cons_of_mem _ hB); omega
    · exact upE
  | ackMiss A as ha h =>
    rw [ha] at aS aR
    constructor <;> simp only []
    · exact dS
    · exact dHi
    · exact dLo
    · exact rLo
    · exact rHi
    · exact rIdle
    · exact (List.pairwise_cons.mp aS).2
    · intro B hB; exact aR B (List.mem_cons_of_mem _ hB)
    · exact upE
  | dropA xs A ys ha =>
    rw [ha] at aS aR
    constructor <;> simp only []
    · exact dS
    · exact dHi
    · exact dLo
    · exact rLo
    · exact rHi
    · exact rIdle
    · exact sorted_drop aS
    · intro x hx; exact aR x (mem_drop hx)
    · exact upE
  | dupA xs A ys ha =>
    rw [ha] at aS aR
    constructor <;> simp only []
    · exact dS
    · exact dHi
    · exact dLo
    · exact rLo
    · exact rHi
    · exact rIdle
    · exact sorted_dup aS
    · intro x hx; exact aR x (mem_dup hx)
    · exact upE

/-- every reachable state: delivered = 0,1,…,r-1 exactly once in order, and everything the
    sender believes acknowledged has been delivered -/
theorem exactly_once {s} (h : Reach s) : s.up = List.range s.r ∧ s.base ≤ s.r := by
  have : Inv s := by
    induction h with
    | init => exact inv_init
    | step _ hs ih => exact inv_step ih hs
  exact ⟨this.upEq, this.rLo⟩

end BV.Link.H2N

/-
NCP → host direction.  Sender = the NCP of the specification with window W ≤ 3: frames a..n-1 are
unacknowledged, n ≤ a + W; any of them may be retransmitted at any time (go-back-N is a special case);
an ackNum advances `a` by its 3-bit distance when that lies inside the window.  Receiver = the host
(`data_frame_received`: accepts iff frmNum = rx_seq, i.e. idx % 8 = r % 8; every ACK/NAK carries the new
rx_seq).  Wire frames are tagged (ghost) with the sender's `n` at transmission.  Same faults as H2N.
-/
namespace BV.Link.N2H

structure St where
  a : Nat
  n : Nat
  r : Nat
  d : List (Nat × Nat)   -- (absolute index, sender's `n` when transmitted)
  k : List Nat           -- ack channel, absolute ackNum
  up : List Nat

def init : St := ⟨0, 0, 0, [], [], []⟩

def ackDelta (A a : Nat) : Nat := (A % 8 + 8 - a % 8) % 8

inductive Step (W : Nat) : St → St → Prop
  | sendNew (s) (h : s.n < s.a + W) : Step W s { s with d := s.d ++ [(s.n, s.n + 1)], n := s.n + 1 }
  | retx (s j) (h1 : s.a ≤ j) (h2 : j < s.n) : Step W s { s with d := s.d ++ [(j, s.n)] }
  | rxAccept (s j hi ds) (hd : s.d = (j, hi) :: ds) (h : j % 8 = s.r % 8) :
      Step W s { s with d := ds, r := s.r + 1, up := s.up ++ [j], k := s.k ++ [s.r + 1] }
  | rxReject (s j hi ds) (hd : s.d = (j, hi) :: ds) (h : j % 8 ≠ s.r % 8) :
      Step W s { s with d := ds, k := s.k ++ [s.r] }
  | garbleD (s x ds) (hd : s.d = x :: ds) : Step W s { s with d := ds, k := s.k ++ [s.r] }
  | spontAck (s) : Step W s { s with k := s.k ++ [s.r] }
  | dropD (s xs x ys) (hd : s.d = xs ++ x :: ys) : Step W s { s with d := xs ++ ys }
  | dupD (s xs x ys) (hd : s.d = xs ++ x :: ys) : Step W s { s with d := xs ++ x :: x :: ys }
  | ackIn (s A ks) (hk : s.k = A :: ks) (h : ackDelta A s.a ≤ s.n - s.a) :
      Step W s { s with k := ks, a := s.a + ackDelta A s.a }
  | ackOut (s A ks) (hk : s.k = A :: ks) (h : ¬ ackDelta A s.a ≤ s.n - s.a) :
      Step W s { s with k := ks }
  | dropA (s xs A ys) (hk : s.k = xs ++ A :: ys) : Step W s { s with k := xs ++ ys }
  | dupA (s xs A ys) (hk : s.k = xs ++ A :: ys) : Step W s { s with k := xs ++ A :: A :: ys }

inductive Reach (W : Nat) : St → Prop
  | init : Reach W init
  | step {s t} : Reach W s → Step W s t → Reach W t

section lists
variable {α : Type} {R : α → α → Prop}
theorem pw_drop {xs ys : List α} {x} (h : (xs ++ x :: ys).Pairwise R) : (xs ++ ys).Pairwise R := by
  rw [List.pairwise_append] at *
  obtain ⟨h1, h2, h3⟩ := h
  exact ⟨h1, (List.pairwise_cons.mp h2).2, fun a ha b hb => h3 a ha b (List.mem_cons_of_mem _ hb)⟩
theorem pw_dup (hr : ∀ x, R x x) {xs ys : List α} {x} (h : (xs ++ x :: ys).Pairwise R) :
    (xs ++ x :: x :: ys).Pairwise R := by
  rw [List.pairwise_append] at *
  obtain ⟨h1, h2, h3⟩ := h
  refine ⟨h1, ?_, ?_⟩
  · rw [List.pairwise_cons]
    refine ⟨?_, h2⟩
    intro b hb
    rcases List.mem_cons.mp hb with rfl | hb
    · exact hr _
    · exact (List.pairwise_cons.mp h2).1 b hb
  · intro a ha b hb
    apply h3 a ha
    rcases List.mem_cons.mp hb with rfl | hb
    · exact List.mem_cons_self
    · exact hb
theorem pw_snoc {l : List α} {x} (h : l.Pairwise R) (hx : ∀ y ∈ l, R y x) : (l ++ [x]).Pairwise R := by
  rw [List.pairwise_append]
  refine ⟨h, List.pairwise_singleton _ _, ?_⟩
  intro a ha b hb; simp at hb; subst hb; exact hx a ha
theorem mem_drop {xs ys : List α} {j x} (h : x ∈ xs ++ ys) : x ∈ xs ++ j :: ys := by
  simp only [List.mem_append, List.mem_cons] at *
  rcases h with h | h
  · exact Or.inl h
  · exact Or.inr (Or.inr h)
theorem mem_dup {xs ys : List α} {j x} (h : x ∈ xs ++ j :: j :: ys) : x ∈ xs ++ j :: ys := by
  simp only [List.mem_append, List.mem_cons] at *
  rcases h with h | h | h | h
  · exact Or.inl h
  · exact Or.inr (Or.inl h)
  · exact Or.inr (Or.inl h)
  · exact Or.inr (Or.inr h)
end lists

structure Inv (W : Nat) (s : St) : Prop where
  an1 : s.a ≤ s.n
  an2 : s.n ≤ s.a + W
  ar : s.a ≤ s.r
  rn : s.r ≤ s.n
  dSorted : s.d.Pairwise (fun x y => x.2 ≤ y.2)
  dEnt : ∀ x ∈ s.d, x.2 ≤ s.n ∧ x.1 < x.2 ∧ x.2 ≤ x.1 + W ∧ s.r ≤ x.2
  kSorted : s.k.Pairwise (· ≤ ·)
  kRange : ∀ A ∈ s.k, s.a ≤ A ∧ A ≤ s.r
  upEq : s.up = List.range s.r

theorem inv_init (W) : Inv W init := by
  constructor <;> simp [init]

theorem inv_step {W s t} (hW : W ≤ 3) (hi : Inv W s) (hs : Step W s t) : Inv W t := by
  obtain ⟨an1, an2, ar, rn, dS, dE, kS, kR, upE⟩ := hi
  cases hs with
  | sendNew h =>
    constructor <;> simp only []
    · omega
    · omega
    · exact ar
    · omega
    · exact pw_snoc dS (fun y hy => by have := (dE y hy).1; simp; omega)
    · intro x hx; simp at hx; rcases hx with hx | rfl
      · have := dE x hx; omega
      · simp; omega
    · exact kS
    · exact kR
    · exact upE
  | retx j h1 h2 =>
    constructor <;> simp only []
    · exact an1
    · exact an2
    · exact ar
    · exact rn
    · exact pw_snoc dS (fun y hy => by have := (dE y hy).1; simpa using this)
    · intro x hx; simp at hx; rcases hx with hx | rfl
      · exact dE x hx
      · simp; omega
    · exact kS
    · exact kR
    · exact upE
  | rxAccept j hi ds hd h =>
    have hx := dE (j, hi) (by rw [hd]; simp)
    simp at hx
    have hjr : j = s.r := by omega
    rw [hd] at dS dE
    constructor <;> simp only []
    · exact an1
    · exact an2
    · omega
    · omega
    · exact (List.pairwise_cons.mp dS).2
    · intro x hx'
      have h1 := dE x (List.mem_cons_of_mem _ hx')
      have h2 := (List.pairwise_cons.mp dS).1 x hx'
      simp at h2; omega
    · exact pw_snoc kS (fun y hy => by have := (kR y hy).2; omega)
    · intro A hA; simp at hA; rcases hA with hA | rfl
      · have := kR A hA; omega
      · omega
    · rw [upE, hjr, List.range_succ]
  | rxReject j hi ds hd h =>
    rw [hd] at dS dE
    constructor <;> simp only []
    · exact an1
    · exact an2
    · exact ar
    · exact rn
    · exact (List.pairwise_cons.mp dS).2
    · intro x hx; exact dE x (List.mem_cons_of_mem _ hx)
    · exact pw_snoc kS (fun y hy => (kR y hy).2)
    · intro A hA; simp at hA; rcases hA with hA | rfl
      · exact kR A hA
      · omega
    · exact upE
  | garbleD x ds hd =>
    rw [hd] at dS dE
    constructor <;> simp only []
    · exact an1
    · exact an2
    · exact ar
    · exact rn
    · exact (List.pairwise_cons.mp dS).2
    · intro y hy; exact dE y (List.mem_cons_of_mem _ hy)
    · exact pw_snoc kS (fun y hy => (kR y hy).2)
    · intro A hA; simp at hA; rcases hA with hA | rfl
      · exact kR A hA
      · omega
    · exact upE
  | spontAck =>
    constructor <;> simp only []
    · exact an1
    · exact an2
    · exact ar
    · exact rn
    · exact dS
    · exact dE
    · exact pw_snoc kS (fun y hy => (kR y hy).2)
    · intro A hA; simp at hA; rcases hA with hA | rfl
      · exact kR A hA
      · omega
    · exact upE
  | dropD xs x ys hd =>
    rw [hd] at dS dE
    constructor <;> simp only []
    · exact an1
    · exact an2
    · exact ar
    · exact rn
    · exact pw_drop dS
    · intro y hy; exact dE y (mem_drop hy)
    · exact kS
    · exact kR
    · exact upE
  | dupD xs x ys hd =>
    rw [hd] at dS dE
    constructor <;> simp only []
    · exact an1
    · exact an2
    · exact ar
    · exact rn
    · exact pw_dup (R := fun x y : Nat × Nat => x.2 ≤ y.2) (fun _ => Nat.le_refl _) dS
    · intro y hy; exact dE y (mem_dup hy)
    · exact kS
    · exact kR
    · exact upE
  | ackIn A ks hk h =>
    have hA := kR A (by rw [hk]; simp)
    have hδ : ackDelta A s.a = A - s.a := by unfold ackDelta; omega
    rw [hk] at kS kR
    constructor <;> simp only [hδ]
    · omega
    · omega
    · omega
    · exact rn
    · exact dS
    · exact dE
    · exact (List.pairwise_cons.mp kS).2
    · intro B hB
      have h1 := (List.pairwise_cons.mp kS).1 B hB
      have := kR B (List.mem_cons_of_mem _ hB); omega
    · exact upE
  | ackOut A ks hk h =>
    rw [hk] at kS kR
    constructor <;> simp only []
    · exact an1
    · exact an2
    · exact ar
    · exact rn
    · exact dS
    · exact dE
    · exact (List.pairwise_cons.mp kS).2
    · intro B hB; exact kR B (List.mem_cons_of_mem _ hB)
    · exact upE
  | dropA xs A ys hk =>
    rw [hk] at kS kR
    constructor <;> simp only []
    · exact an1
    · exact an2
    · exact ar
    · exact rn
    · exact dS
    · exact dE
    · exact pw_drop kS
    · intro y hy; exact kR y (mem_drop hy)
    · exact upE
  | dupA xs A ys hk =>
    rw [hk] at kS kR
    constructor <;> simp only []
    · exact an1
    · exact an2
    · exact ar
    · exact rn
    · exact dS
    · exact dE
    · exact pw_dup (fun _ => Nat.le_refl _) kS
    · intro y hy; exact kR y (mem_dup hy)
    · exact upE

theorem exactly_once_W {W s} (hW : W ≤ 3) (h : Reach W s) :
    s.up = List.range s.r ∧ s.a ≤ s.r ∧ s.r ≤ s.n := by
  have : Inv W s := by
    induction h with
    | init => exact inv_init W
    | step _ hs ih => exact inv_step hW ih hs
  exact ⟨this.upEq, this.ar, this.rn⟩

end BV.Link.N2H
