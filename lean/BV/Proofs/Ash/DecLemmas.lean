/-
The buffer-scanning loop of `data_received` computes exactly the per-byte reference automaton.
-/
import BV.Model.Ash.Decoder
import BV.Spec.AshDecoder
namespace BV.Ash
open BV.Gen.Ash BV.Spec.Ash

def NoRwe (l : List UInt8) : Prop := ∀ b ∈ l, isReservedNoEsc b = false

theorem rwe_iff (b : UInt8) : isReservedNoEsc b = true ↔ (b = 17 ∨ b = 19 ∨ b = 24 ∨ b = 26 ∨ b = 126) := by
  simp [isReservedNoEsc, reservedWithoutEscape]

theorem stepByte_norwe (acc : List UInt8) (b : UInt8) (h : isReservedNoEsc b = false) :
    stepByte ⟨acc, false⟩ b = (⟨acc ++ [b], false⟩, []) := by
  have h' : ¬ (b = 17 ∨ b = 19 ∨ b = 24 ∨ b = 26 ∨ b = 126) := by
    rw [← rwe_iff]; simp [h]
  simp only [not_or] at h'
  obtain ⟨h1, h2, h3, h4, h5⟩ := h'
  simp [stepByte, h1, h2, h3, h4, h5]

theorem run_norwe (acc bs : List UInt8) (h : NoRwe bs) :
    runBytes ⟨acc, false⟩ bs = (⟨acc ++ bs, false⟩, []) := by
  induction bs generalizing acc with
  | nil => simp [runBytes]
  | cons b bs ih =>
    have hb : isReservedNoEsc b = false := h b (by simp)
    have hbs : NoRwe bs := fun x hx => h x (by simp [hx])
    simp [runBytes, stepByte_norwe acc b hb, ih (acc ++ [b]) hbs]

theorem run_append (s : Acc) (a b : List UInt8) :
    runBytes s (a ++ b) = ((runBytes (runBytes s a).1 b).1, (runBytes s a).2 ++ (runBytes (runBytes s a).1 b).2) := by
  induction a generalizing s with
  | nil => simp [runBytes]
  | cons x xs ih =>
    simp only [List.cons_append, runBytes]
    rw [ih]
    simp [List.append_assoc]

theorem splitRwe_none {l : List UInt8} (h : splitRwe l = none) : NoRwe l := by
  induction l with
  | nil => intro b hb; simp at hb
  | cons x xs ih =>
    unfold splitRwe at h
    split at h
    · simp at h
    · rename_i hx
      split at h
      · rename_i hs
        intro b hb
        rcases List.mem_cons.mp hb with rfl | hb
        · simpa using hx
        · exact ih hs b hb
      · simp at h

theorem splitRwe_some {l pre rest : List UInt8} {b : UInt8} (h : splitRwe l = some (pre, b, rest)) :
    l = pre ++ b :: rest ∧ NoRwe pre ∧ isReservedNoEsc b = true := by
  induction l generalizing pre with
  | nil => simp [splitRwe] at h
  | cons x xs ih =>
    unfold splitRwe at h
    split at h
    · rename_i hx
      simp at h
      obtain ⟨rfl, rfl, rfl⟩ := h
      exact ⟨by simp, by intro b hb; simp at hb, hx⟩
    · rename_i hx
      split at h
      · simp at h
      · rename_i p y r hs
        simp at h
        obtain ⟨rfl, rfl, rfl⟩ := h
        obtain ⟨h1, h2, h3⟩ := ih hs
        refine ⟨by simp [h1], ?_, h3⟩
        intro b hb
        rcases List.mem_cons.mp hb with rfl | hb
        · simpa using hx
        · exact h2 b hb

theorem splitRwe_append {acc : List UInt8} (l : List UInt8) (h : NoRwe acc) :
    splitRwe (acc ++ l) = (splitRwe l).map (fun t => (acc ++ t.1, t.2.1, t.2.2)) := by
  induction acc with
  | nil => cases hs : splitRwe l <;> simp [hs]
  | cons x xs ih =>
    have hx : isReservedNoEsc x = false := h x (by simp)
    have hxs : NoRwe xs := fun b hb => h b (by simp [hb])
    simp only [List.cons_append]
    rw [splitRwe]
    simp only [hx, Bool.false_eq_true, ↓reduceIte]
    rw [ih hxs]
    cases hs : splitRwe l <;> simp

theorem afterFlag_none {l : List UInt8} (h : afterFlag l = none) :
    runBytes ⟨[], true⟩ l = (⟨[], true⟩, []) := by
  induction l with
  | nil => simp [runBytes]
  | cons x xs ih =>
    unfold afterFlag at h
    split at h
    · simp at h
    · rename_i hx
      have : ¬ x = 0x7E := by simpa [resFlag] using hx
      simp [runBytes, stepByte, this, ih h]

theorem afterFlag_some {l q : List UInt8} (h : afterFlag l = some q) :
    runBytes ⟨[], true⟩ l = runBytes ⟨[], false⟩ q := by
  induction l with
  | nil => simp [afterFlag] at h
  | cons x xs ih =>
    unfold afterFlag at h
    split at h
    · rename_i hx
      have : x = 0x7E := by simpa [resFlag] using hx
      simp at h; subst h
      simp [runBytes, stepByte, this]
    · rename_i hx
      have : ¬ x = 0x7E := by simpa [resFlag] using hx
      simp [runBytes, stepByte, this, ih h]

theorem afterFlag_length {l q : List UInt8} (h : afterFlag l = some q) : q.length < l.length := by
  induction l with
  | nil => simp [afterFlag] at h
  | cons x xs ih =>
    unfold afterFlag at h
    split at h
    · simp at h; subst h; simp
    · have := ih h; simp; omega

def out (r : Acc × List (List UInt8)) : List UInt8 × Bool × List (List UInt8) := (r.1.acc, r.1.disc, r.2)

theorem scan_main (n : Nat) :
    (∀ acc bytes d, NoRwe acc → (d = true → acc = []) → acc.length + bytes.length < n →
        scan n (acc ++ bytes) d = out (runBytes ⟨acc, d⟩ bytes)) ∧
    (∀ acc bytes, NoRwe acc → acc.length + bytes.length ≤ n →
        scanBody n (acc ++ bytes) = out (runBytes ⟨acc, false⟩ bytes)) := by
  induction n with
  | zero =>
    refine ⟨fun acc bytes d _ _ h => by omega, ?_⟩
    intro acc bytes hacc hlen
    have ha : acc = [] := by cases acc <;> simp at hlen ⊢
    have hb : bytes = [] := by cases bytes <;> simp at hlen ⊢
    subst ha; subst hb
    simp [scanBody, splitRwe, out, runBytes]
  | succ n ih =>
    obtain ⟨ihL, ihB⟩ := ih
    have L : ∀ acc bytes d, NoRwe acc → (d = true → acc = []) → acc.length + bytes.length < n + 1 →
        scan (n+1) (acc ++ bytes) d = out (runBytes ⟨acc, d⟩ bytes) := by
      intro acc bytes d hacc hd hlen
      rw [scan]
      by_cases he : (acc ++ bytes).isEmpty = true
      · have ha : acc = [] := by
          cases acc with | nil => rfl | cons _ _ => simp at he
        subst ha
        have hb : bytes = [] := by
          cases bytes with | nil => rfl | cons _ _ => simp at he
        subst hb
        simp [out, runBytes]
      · simp only [he, Bool.false_eq_true, ↓reduceIte]
        cases d with
        | true =>
          have ha := hd rfl
          subst ha
          simp only [List.nil_append, ↓reduceIte]
          cases haf : afterFlag bytes with
          | none => simp [afterFlag_none haf, out]
          | some q =>
            have hq := afterFlag_length haf
            have := ihB [] q (by intro b hb; simp at hb) (by simp at hlen ⊢; omega)
            simp only [List.nil_append] at this
            simp [this, afterFlag_some haf]
        | false =>
          simp only [Bool.false_eq_true, ↓reduceIte]
          exact ihB acc bytes hacc (by omega)
    refine ⟨L, ?_⟩
    intro acc bytes hacc hlen
    rw [scanBody, splitRwe_append bytes hacc]
    cases hs : splitRwe bytes with
    | none =>
      simp [run_norwe acc bytes (splitRwe_none hs), out]
    | some t =>
      obtain ⟨pre, b, rest⟩ := t
      obtain ⟨hb, hpre, hrwe⟩ := splitRwe_some hs
      have hrun : runBytes ⟨acc, false⟩ bytes =
          ((runBytes (stepByte ⟨acc ++ pre, false⟩ b).1 rest).1,
           (stepByte ⟨acc ++ pre, false⟩ b).2 ++ (runBytes (stepByte ⟨acc ++ pre, false⟩ b).1 rest).2) := by
        rw [hb, run_append, run_norwe acc pre hpre]
        simp [runBytes]
      have hl : acc.length + pre.length + rest.length < n + 1 := by
        rw [hb] at hlen; simp at hlen; omega
      simp only [Option.map_some]
      have hcases := (rwe_iff b).mp hrwe
      have hnil : NoRwe ([] : List UInt8) := by intro x hx; simp at hx
      rcases hcases with h | h | h | h | h
      · -- XON
        subst h
        have hL := L (acc ++ pre) rest false
          (by intro x hx; rcases List.mem_append.mp hx with hx | hx
              · exact hacc x hx
              · exact hpre x hx)
          (by simp) (by simp; omega)
        rw [List.append_assoc] at hL
        simp [resFlag, resCancel, resSubstitute, hL, hrun, stepByte, out]
      · subst h
        have hL := L (acc ++ pre) rest false
          (by intro x hx; rcases List.mem_append.mp hx with hx | hx
              · exact hacc x hx
              · exact hpre x hx)
          (by simp) (by simp; omega)
        rw [List.append_assoc] at hL
        simp [resFlag, resCancel, resSubstitute, hL, hrun, stepByte, out]
      · -- SUBSTITUTE
        subst h
        have hL := L [] rest true hnil (by simp) (by simp; omega)
        simp only [List.nil_append] at hL
        simp [resFlag, resCancel, resSubstitute, hL, hrun, stepByte, out]
      · -- CANCEL
        subst h
        have hL := L [] rest false hnil (by simp) (by simp; omega)
        simp only [List.nil_append] at hL
        simp [resFlag, resCancel, resSubstitute, hL, hrun, stepByte, out]
      · -- FLAG
        subst h
        have hL := L [] rest false hnil (by simp) (by simp; omega)
        simp only [List.nil_append] at hL
        simp [resFlag, hL, hrun, stepByte, out]

/-- the buffer-scanning loop computes exactly the per-byte reference automaton -/
theorem scan_refines (acc bytes : List UInt8) (d : Bool) (hacc : NoRwe acc) (hd : d = true → acc = []) :
    scan ((acc ++ bytes).length + 1) (acc ++ bytes) d = out (runBytes ⟨acc, d⟩ bytes) :=
  (scan_main _).1 acc bytes d hacc hd (by simp)

/-- the automaton's residue never contains a boundary byte, and is empty while discarding -/
theorem run_residue (a : Acc) (bs : List UInt8) (h1 : NoRwe a.acc) (h2 : a.disc = true → a.acc = []) :
    NoRwe (runBytes a bs).1.acc ∧ ((runBytes a bs).1.disc = true → (runBytes a bs).1.acc = []) := by
  induction bs generalizing a with
  | nil => exact ⟨h1, h2⟩
  | cons b bs ih =>
    simp only [runBytes]
    apply ih
    · unfold stepByte
      split
      · split <;> (intro x hx; simp at hx)
      · split
        · intro x hx; simp at hx
        · split
          · intro x hx; simp at hx
          · split
            · intro x hx; simp at hx
            · split
              · exact h1
              · rename_i hd hf hc hs hx
                intro x hx'
                rcases List.mem_append.mp hx' with hx' | hx'
                · exact h1 x hx'
                · simp at hx'; subst hx'
                  cases hr : isReservedNoEsc x with
                  | false => rfl
                  | true =>
                    rcases (rwe_iff x).mp hr with h | h | h | h | h <;> simp_all
    · unfold stepByte
      split
      · split <;> simp
      · split
        · simp
        · split
          · simp
          · split
            · simp
            · split
              · exact h2
              · simp

end BV.Ash
