/-
Algebra of the CRC model: `mulx` is XOR-linear and injective; shifting bits in is affine;
the orbit of the generator under `mulx` does not return within 32 766 steps (kernel-checked).
-/
import BV.Model.Ash.Crc
namespace BV.Ash

theorem mulx_xor (a b : W) : mulx (a ^^^ b) = mulx a ^^^ mulx b := by
  unfold mulx poly
  rw [BitVec.msb_xor]
  cases ha : a.msb <;> cases hb : b.msb <;> simp [BitVec.shiftLeft_xor_distrib]
  · ac_rfl
  · ac_rfl
  · have : ∀ x y p : W, x ^^^ p ^^^ (y ^^^ p) = x ^^^ y := by
      intro x y p
      calc x ^^^ p ^^^ (y ^^^ p) = x ^^^ y ^^^ (p ^^^ p) := by ac_rfl
        _ = x ^^^ y := by simp
    rw [this]

theorem mulx_zero : mulx 0 = 0 := by decide

theorem mulx_eq_zero (t : W) (h : mulx t = 0) : t = 0 := by
  unfold mulx poly at h
  cases hm : t.msb
  · simp [hm] at h
    have : t.toNat < 32768 := by
      have := BitVec.msb_eq_false_iff_two_mul_lt.mp hm; omega
    bv_omega
  · simp [hm] at h
    have h0 : (t <<< 1 ^^^ 4129#16).getLsbD 0 = true := by
      simp [BitVec.getLsbD_xor, BitVec.getLsbD_shiftLeft]
    rw [h] at h0
    simp at h0

theorem mulx_inj (a b : W) (h : mulx a = mulx b) : a = b := by
  have : mulx (a ^^^ b) = 0 := by rw [mulx_xor, h]; simp
  have := mulx_eq_zero _ this
  have h2 : a ^^^ b ^^^ b = 0 ^^^ b := by rw [this]
  rw [BitVec.xor_assoc] at h2; simpa using h2

/-- `mulx` applied `n` times -/
def mulxN : Nat → W → W
  | 0, t => t
  | n + 1, t => mulxN n (mulx t)

theorem mulxN_xor (n : Nat) (a b : W) : mulxN n (a ^^^ b) = mulxN n a ^^^ mulxN n b := by
  induction n generalizing a b with
  | zero => rfl
  | succ n ih => simp [mulxN, mulx_xor, ih]

theorem mulxN_zero (n : Nat) : mulxN n 0 = 0 := by
  induction n with
  | zero => rfl
  | succ n ih => simp only [mulxN]; rw [show mulx (0 : W) = 0 from mulx_zero]; exact ih

theorem mulxN_inj (n : Nat) (a b : W) (h : mulxN n a = mulxN n b) : a = b := by
  induction n generalizing a b with
  | zero => exact h
  | succ n ih => exact mulx_inj _ _ (ih _ _ h)

theorem mulxN_add (m n : Nat) (t : W) : mulxN (m + n) t = mulxN n (mulxN m t) := by
  induction m generalizing t with
  | zero => simp [mulxN]
  | succ m ih => rw [Nat.succ_add]; simp [mulxN, ih]

theorem mulxN_succ' (n : Nat) (t : W) : mulxN (n + 1) t = mulx (mulxN n t) := by
  rw [mulxN_add]; rfl

/-- shifting in a list of bits is affine in the state -/
theorem crcBits_xor (bs : List Bool) (a b : W) :
    crcBits (a ^^^ b) bs = crcBits a bs ^^^ mulxN bs.length b := by
  induction bs generalizing a b with
  | nil => simp [crcBits, mulxN]
  | cons x xs ih =>
    have : crcBit (a ^^^ b) x = crcBit a x ^^^ mulx b := by
      unfold crcBit
      rw [← mulx_xor]; congr 1; ac_rfl
    simp only [crcBits, List.foldl_cons, List.length_cons] at ih ⊢
    rw [this, ih]; rfl

theorem crcBits_append (s : W) (a b : List Bool) : crcBits s (a ++ b) = crcBits (crcBits s a) b := by
  simp [crcBits, List.foldl_append]

/-- bitwise xor of two equally long bit lists -/
def xorBits : List Bool → List Bool → List Bool
  | a :: as, b :: bs => (a != b) :: xorBits as bs
  | _, _ => []

theorem crcBits_xorBits (s : W) (xs es : List Bool) (h : xs.length = es.length) :
    crcBits s (xorBits xs es) = crcBits s xs ^^^ crcBits 0 es := by
  induction xs generalizing s es with
  | nil => cases es <;> simp_all [xorBits, crcBits]
  | cons x xs ih =>
    cases es with
    | nil => simp at h
    | cons e es =>
      simp only [List.length_cons, Nat.add_right_cancel_iff] at h
      simp only [xorBits, crcBits, List.foldl_cons] at ih ⊢
      have hb : crcBit s (x != e) = crcBit s x ^^^ crcBit 0 e := by
        unfold crcBit
        rw [← mulx_xor]; congr 1
        cases x <;> cases e <;> simp
        rw [BitVec.xor_assoc]; simp
      rw [hb]
      have := crcBits_xor (xorBits xs es) (crcBit s x) (crcBit 0 e)
      simp only [crcBits] at this
      rw [this, ih _ _ h]
      have h2 := crcBits_xor es 0 (crcBit 0 e)
      simp only [crcBits] at h2
      rw [show (0 : W) ^^^ crcBit 0 e = crcBit 0 e by simp] at h2
      have hl : (xorBits xs es).length = es.length := by
        clear ih this h2 hb
        induction xs generalizing es with
        | nil => cases es <;> simp_all [xorBits]
        | cons y ys ihy =>
          cases es with
          | nil => simp at h
          | cons e' es' => simp [xorBits]; exact ihy _ (by simpa using h)
      rw [hl, h2]
      ac_rfl

theorem crcBits_zeros (k : Nat) (rest : List Bool) :
    crcBits 0 (List.replicate k false ++ rest) = crcBits 0 rest := by
  induction k with
  | zero => simp
  | succ k ih =>
    simp only [List.replicate_succ, List.cons_append, crcBits, List.foldl_cons] at ih ⊢
    have : crcBit 0 false = 0 := by decide
    rw [this]; exact ih

theorem crcBits_state_zeros (s : W) (k : Nat) : crcBits s (List.replicate k false) = mulxN k s := by
  induction k generalizing s with
  | zero => simp [crcBits, mulxN]
  | succ k ih =>
    simp only [List.replicate_succ, crcBits, List.foldl_cons, mulxN] at ih ⊢
    have : crcBit s false = mulx s := by simp [crcBit]
    rw [this]; exact ih _

theorem crcBit_zero_true : crcBit 0 true = poly := by decide

/-- orbit check: `mulx^d poly ≠ poly` for `1 ≤ d ≤ n` -/
def orbitOk : Nat → W → Bool
  | 0, _ => true
  | n+1, t => let t' := mulx t; (t' != poly) && orbitOk n t'

theorem orbit_32766 : orbitOk 32766 poly = true := by decide +kernel
/-- sanity: the period of x modulo the polynomial is 32 767, so the check fails one step later -/
theorem orbit_32767 : orbitOk 32767 poly = false := by decide +kernel

theorem orbitOk_spec (n : Nat) (t : W) (h : orbitOk n t = true) :
    ∀ d, 1 ≤ d → d ≤ n → mulxN d t ≠ poly := by
  induction n generalizing t with
  | zero => intro d h1 h2; omega
  | succ n ih =>
    intro d h1 h2
    simp only [orbitOk, Bool.and_eq_true, bne_iff_ne, ne_eq] at h
    obtain ⟨hne, hrest⟩ := h
    cases d with
    | zero => omega
    | succ d =>
      cases d with
      | zero => simpa [mulxN] using hne
      | succ d =>
        have := ih (mulx t) hrest (d + 1) (by omega) (by omega)
        simpa [mulxN] using this

theorem poly_orbit (d : Nat) (h1 : 1 ≤ d) (h2 : d ≤ 32766) : mulxN d poly ≠ poly :=
  orbitOk_spec 32766 poly orbit_32766 d h1 h2

theorem poly_ne_zero : poly ≠ 0 := by decide

/-- a single wrong bit never cancels -/
theorem crc_one_bit (a b : Nat) :
    crcBits 0 (List.replicate a false ++ true :: List.replicate b false) ≠ 0 := by
  rw [crcBits_zeros]
  simp only [crcBits, List.foldl_cons]
  rw [crcBit_zero_true]
  have := crcBits_state_zeros poly b
  simp only [crcBits] at this
  rw [this]
  intro h
  have : mulxN b poly = mulxN b 0 := by rw [h, mulxN_zero]
  exact poly_ne_zero (mulxN_inj _ _ _ this)

/-- two wrong bits less than 32 767 positions apart never cancel -/
theorem crc_two_bits (a d b : Nat) (hd : d + 1 ≤ 32766) :
    crcBits 0 (List.replicate a false ++ true :: (List.replicate d false ++ true :: List.replicate b false)) ≠ 0 := by
  rw [crcBits_zeros]
  have e1 : crcBits 0 (true :: (List.replicate d false ++ true :: List.replicate b false))
      = crcBits (mulxN d poly) (true :: List.replicate b false) := by
    have : (true :: (List.replicate d false ++ true :: List.replicate b false))
        = (true :: List.replicate d false) ++ (true :: List.replicate b false) := by simp
    rw [this, crcBits_append]
    congr 1
    simp only [crcBits, List.foldl_cons]
    rw [crcBit_zero_true]
    exact crcBits_state_zeros poly d
  rw [e1]
  simp only [crcBits, List.foldl_cons]
  have e2 : crcBit (mulxN d poly) true = mulxN (d + 1) poly ^^^ poly := by
    unfold crcBit
    rw [mulx_xor, mulxN_succ']
    congr 1
  rw [e2]
  have := crcBits_state_zeros (mulxN (d + 1) poly ^^^ poly) b
  simp only [crcBits] at this
  rw [this]
  intro h
  have h0 : mulxN b (mulxN (d + 1) poly ^^^ poly) = mulxN b 0 := by rw [h, mulxN_zero]
  have h1 := mulxN_inj _ _ _ h0
  have h2 : mulxN (d + 1) poly = poly := by
    have : mulxN (d + 1) poly ^^^ poly ^^^ poly = 0 ^^^ poly := by rw [h1]
    rw [BitVec.xor_assoc] at this; simpa using this
  exact poly_orbit (d + 1) (by omega) hd h2

end BV.Ash
