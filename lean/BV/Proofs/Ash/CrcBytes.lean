/-
Byte-level consequences: a frame that passes the CRC check no longer passes it after one or
two bit errors anywhere in it (frames up to 4 095 bytes).
-/
import BV.Proofs.Ash.Crc
namespace BV.Ash

theorem forall_uint8 {P : UInt8 → Prop} (h : ∀ n, n < 256 → P (UInt8.ofNat n)) : ∀ c, P c := by
  intro c
  have := h c.toNat (by have := c.toNat_lt; omega)
  simpa using this

def hiByte (b : UInt8) : W := BitVec.ofNat 16 (b.toNat * 256)

theorem byteBits_length (b : UInt8) : (byteBits b).length = 8 := rfl

theorem crcBits_byte_zero : ∀ b : UInt8, crcBits 0 (byteBits b) = mulxN 8 (hiByte b) := by
  apply forall_uint8
  decide +kernel

theorem crcByte_eq (s : W) (b : UInt8) : crcByte s b = mulxN 8 (s ^^^ hiByte b) := by
  unfold crcByte
  have := crcBits_xor (byteBits b) 0 s
  rw [show (0 : W) ^^^ s = s by simp] at this
  rw [this, byteBits_length, crcBits_byte_zero, mulxN_xor]
  ac_rfl

theorem crcFrom_bits (s : W) (bs : List UInt8) : crcFrom s bs = crcBits s (bitsOf bs) := by
  induction bs generalizing s with
  | nil => rfl
  | cons b bs ih =>
    simp only [crcFrom, List.foldl_cons, bitsOf, List.flatMap_cons] at ih ⊢
    rw [ih, crcBits_append]; rfl

theorem crcFrom_append (s : W) (a b : List UInt8) : crcFrom s (a ++ b) = crcFrom (crcFrom s a) b := by
  simp [crcFrom, List.foldl_append]

theorem hl_xor : ∀ h, h < 256 → ∀ l, l < 256 →
    (BitVec.ofNat 16 (h * 256 + l)) ^^^ BitVec.ofNat 16 (h * 256) = BitVec.ofNat 16 l := by
  decide +kernel

theorem mulx8_low : ∀ l, l < 256 → mulxN 8 (BitVec.ofNat 16 l) = BitVec.ofNat 16 (l * 256) := by
  decide +kernel

/-- feeding a state its own value, high byte first, clears it -/
theorem crcFrom_self (t : W) : crcFrom t (crcBytes t) = 0 := by
  have hlt := t.isLt
  have hh : t.toNat / 256 < 256 := by omega
  have hl : t.toNat % 256 < 256 := by omega
  simp only [crcFrom, crcBytes, List.foldl_cons, List.foldl_nil, crcByte_eq, hiByte]
  have e1 : (UInt8.ofNat (t.toNat / 256)).toNat = t.toNat / 256 := by
    simp [UInt8.toNat_ofNat']; omega
  have e2 : (UInt8.ofNat (t.toNat % 256)).toNat = t.toNat % 256 := by
    simp [UInt8.toNat_ofNat']
  rw [e1, e2]
  have ht : t = BitVec.ofNat 16 (t.toNat / 256 * 256 + t.toNat % 256) := by
    apply BitVec.eq_of_toNat_eq
    simp; omega
  have := hl_xor _ hh _ hl
  rw [← ht] at this
  rw [this, mulx8_low _ hl]
  simp only [BitVec.xor_self]
  exact mulxN_zero 8

/-- the acceptance test of `_unwrap` -/
def crcValid (d : List UInt8) : Prop :=
  3 ≤ d.length ∧ crcBytes (crc (d.take (d.length - 2))) = d.drop (d.length - 2)

theorem crcValid_zero {d : List UInt8} (h : crcValid d) : crcBits 0xFFFF (bitsOf d) = 0 := by
  obtain ⟨_, h2⟩ := h
  have hd : d = d.take (d.length - 2) ++ d.drop (d.length - 2) := (List.take_append_drop _ _).symm
  rw [← crcFrom_bits, hd, crcFrom_append, ← h2]
  exact crcFrom_self _

def xorBytes (d e : List UInt8) : List UInt8 := List.zipWith (· ^^^ ·) d e

theorem byteBits_xor : ∀ a b : UInt8, byteBits (a ^^^ b) = xorBits (byteBits a) (byteBits b) := by
  intro a b
  simp only [byteBits, xorBits, UInt8.toNat_xor, Nat.testBit_xor]

theorem xorBits_append (a b c d : List Bool) (h : a.length = c.length) :
    xorBits (a ++ b) (c ++ d) = xorBits a c ++ xorBits b d := by
  induction a generalizing c with
  | nil => cases c <;> simp_all [xorBits]
  | cons x xs ih =>
    cases c with
    | nil => simp at h
    | cons y ys => simp [xorBits]; exact ih _ (by simpa using h)

theorem bitsOf_xor (d e : List UInt8) (h : d.length = e.length) :
    bitsOf (xorBytes d e) = xorBits (bitsOf d) (bitsOf e) := by
  induction d generalizing e with
  | nil => cases e <;> simp_all [xorBytes, bitsOf, xorBits]
  | cons x xs ih =>
    cases e with
    | nil => simp at h
    | cons y ys =>
      simp only [xorBytes, List.zipWith_cons_cons, bitsOf, List.flatMap_cons] at ih ⊢
      rw [xorBits_append _ _ _ _ (by simp [byteBits_length]), byteBits_xor, ih _ (by simpa using h)]

theorem bitsOf_length (d : List UInt8) : (bitsOf d).length = 8 * d.length := by
  induction d with
  | nil => rfl
  | cons x xs ih => simp [bitsOf, byteBits_length] at ih ⊢; omega

/-- number of wrong bits in an error pattern -/
def weight (e : List UInt8) : Nat := (bitsOf e).count true

theorem count0 (l : List Bool) (h : l.count true = 0) : l = List.replicate l.length false := by
  induction l with
  | nil => rfl
  | cons x xs ih =>
    cases x with
    | true => simp at h
    | false => simp at h; simp [List.replicate_succ]; exact ih h

theorem count1 (l : List Bool) (h : l.count true = 1) :
    ∃ a b, l = List.replicate a false ++ true :: List.replicate b false := by
  induction l with
  | nil => simp at h
  | cons x xs ih =>
    cases x with
    | true =>
      simp at h
      exact ⟨0, xs.length, by simp; exact count0 xs h⟩
    | false =>
      simp at h
      obtain ⟨a, b, hab⟩ := ih h
      exact ⟨a + 1, b, by simp [List.replicate_succ, hab]⟩

theorem count2 (l : List Bool) (h : l.count true = 2) :
    ∃ a d b, l = List.replicate a false ++ true :: (List.replicate d false ++ true :: List.replicate b false) := by
  induction l with
  | nil => simp at h
  | cons x xs ih =>
    cases x with
    | true =>
      simp at h
      obtain ⟨d, b, hdb⟩ := count1 xs h
      exact ⟨0, d, b, by simp [hdb]⟩
    | false =>
      simp at h
      obtain ⟨a, d, b, hab⟩ := ih h
      exact ⟨a + 1, d, b, by simp [List.replicate_succ, hab]⟩

/-- one or two bit errors in a frame of at most 4 095 bytes leave a non-zero syndrome -/
theorem syndrome_ne_zero (e : List UInt8) (hlen : e.length ≤ 4095)
    (hw : weight e = 1 ∨ weight e = 2) : crcBits 0 (bitsOf e) ≠ 0 := by
  have hbl := bitsOf_length e
  rcases hw with hw | hw
  · obtain ⟨a, b, hab⟩ := count1 _ hw
    rw [hab]; exact crc_one_bit a b
  · obtain ⟨a, d, b, hab⟩ := count2 _ hw
    rw [hab]
    apply crc_two_bits
    have : (bitsOf e).length = a + (1 + (d + (1 + b))) := by rw [hab]; simp; omega
    omega

/-- **CRC-CCITT detects every 1- and 2-bit error** in every frame of at most 4 095 bytes -/
theorem crc_detects (d e : List UInt8) (hl : d.length = e.length) (hlen : d.length ≤ 4095)
    (hw : weight e = 1 ∨ weight e = 2) (hv : crcValid d) : ¬ crcValid (xorBytes d e) := by
  intro hv'
  have h1 := crcValid_zero hv
  have h2 := crcValid_zero hv'
  rw [bitsOf_xor d e hl, crcBits_xorBits _ _ _ (by simp [bitsOf_length, hl]), h1] at h2
  exact syndrome_ne_zero e (by omega) hw (by simpa using h2)

end BV.Ash
