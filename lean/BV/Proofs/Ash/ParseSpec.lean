/-
The implementation-shaped parser and unstuffer agree with the specification's on every byte string.
-/
import BV.Proofs.Ash.FrameLemmas
import BV.Spec.AshDecoder
namespace BV.Ash
open BV.Gen.Ash BV.Spec.Ash

theorem crcBytes_spec (body : List UInt8) :
    crcBytes (crc body) = [UInt8.ofNat (crc16 body / 256), UInt8.ofNat (crc16 body % 256)] := by
  simp [crcBytes, crc_toNat]

theorem randomize_spec (l : List UInt8) : randomize l = specRandomize l := by
  simp [randomize, specRandomize, pseudoRandom_eq]

theorem parse_short (d : List UInt8) (h : d.length < 3) : (parse d).toOption = none := by
  unfold parse
  split
  · rfl
  · split
    · rfl
    · simp only [unwrap, h, ↓reduceIte]; rfl

/-- `parse_frame` accepts exactly what the specification's decoder accepts, with the same result -/
theorem parse_spec (d : List UInt8) : (parse d).toOption = specParse d := by
  by_cases hlen : d.length < 3
  · rw [parse_short d hlen]; simp [specParse, hlen]
  · cases d with
    | nil => simp at hlen
    | cons c0 tl =>
      have htl : 2 ≤ tl.length := by simp at hlen; omega
      obtain ⟨k, hk⟩ : ∃ k, tl.length = k + 2 := ⟨tl.length - 2, by omega⟩
      have hl2 : (c0 :: tl).length - 2 = k + 1 := by simp [hk]
      have hbody : (c0 :: tl).take (k + 1) = c0 :: tl.take k := by simp
      unfold parse specParse
      simp only [hlen, ↓reduceIte, unwrap, hl2, hbody, crcBytes_spec, classify_spec c0]
      generalize [UInt8.ofNat (crc16 (c0 :: List.take k tl) / 256), UInt8.ofNat (crc16 (c0 :: List.take k tl) % 256)] = cv
      generalize List.drop (k + 1) (c0 :: tl) = dv
      obtain ⟨f1, f2, f3, f4⟩ := fields_spec c0
      by_cases hcrc : dv = cv
      · subst hcrc
        simp only [bne_self_eq_false, Bool.false_eq_true, ↓reduceIte, ne_eq, not_true_eq_false]
        cases hc : specClass c0.toNat with
        | none => rfl
        | some cls =>
          cases cls with
          | data =>
            simp only [pseudoRandom_length, f1, f2, f3, randomize_spec, List.length_take, gt_iff_lt]
            by_cases hl : 256 < min k tl.length <;> simp only [hl, ↓reduceIte, Except.toOption]
          | ack => simp [Except.toOption, f2, f3, f4]
          | nak => simp [Except.toOption, f2, f3, f4]
          | rst =>
            simp only []
            cases List.take k tl <;> simp [Except.toOption]
          | rstack =>
            simp only [rstackFields]
            generalize List.take k tl = r
            match r with
            | [] => simp [Except.toOption, Except.map]
            | [_] => simp [Except.toOption, Except.map]
            | [v, code] => by_cases hv : v = 2 <;> simp [hv, Except.toOption, Except.map]
            | _ :: _ :: _ :: _ => simp [Except.toOption, Except.map]
          | error =>
            simp only [rstackFields]
            generalize List.take k tl = r
            match r with
            | [] => simp [Except.toOption, Except.map]
            | [_] => simp [Except.toOption, Except.map]
            | [v, code] => by_cases hv : v = 2 <;> simp [hv, Except.toOption, Except.map]
            | _ :: _ :: _ :: _ => simp [Except.toOption, Except.map]
      · have hne : (cv != dv) = true := by
          simp only [bne_iff_ne, ne_eq]; intro h; exact hcrc h.symm
        simp only [hne, hcrc, ↓reduceIte, ne_eq, not_false_eq_true]
        cases specClass c0.toNat <;> rfl

theorem specUnstuff_ne (c : UInt8) (rest : List UInt8) (hc : c ≠ 0x7D) :
    specUnstuff (c :: rest) = (specUnstuff rest).map (c :: ·) := by
  rw [specUnstuff]
  · intro h; exact absurd h hc
  · intro c' rest' h; exact absurd h hc

theorem unstuff_spec_aux : ∀ n (l : List UInt8), l.length ≤ n → unstuffAux false l = specUnstuff l := by
  intro n
  induction n with
  | zero =>
    intro l hl
    have : l = [] := by cases l <;> simp at hl ⊢
    subst this; simp [unstuffAux, specUnstuff]
  | succ n ih =>
    intro l hl
    match l with
    | [] => simp [unstuffAux, specUnstuff]
    | c :: rest =>
      by_cases hc : c = 0x7D
      · subst hc
        match rest with
        | [] => simp [unstuffAux, specUnstuff, resEscape]
        | c2 :: rest2 =>
          have ih2 := ih rest2 (by simp at hl; omega)
          simp only [unstuffAux, specUnstuff, resEscape, beq_self_eq_true, ↓reduceIte]
          rw [flip5_eq, specReserved_eq, ih2]
      · have ih1 := ih rest (by simp at hl; omega)
        have hne : (c == resEscape) = false := by simp [resEscape, hc]
        rw [specUnstuff_ne c rest hc, unstuffAux, hne, ih1]
        simp

theorem unstuff_spec (l : List UInt8) : unstuff l = specUnstuff l :=
  unstuff_spec_aux l.length l (Nat.le_refl _)

end BV.Ash
