import BV.Proofs.Ash.CrcBytes
import BV.Spec.AshFrame
namespace BV.Ash
open BV.Gen.Ash BV.Spec.Ash

/-! ### stuffing -/

theorem xor20_xor20 (c : UInt8) : (c ^^^ 0x20) ^^^ 0x20 = c := by
  rw [UInt8.xor_assoc]; simp

theorem isReserved_cases {c : UInt8} (h : isReserved c = true) :
    c = 17 ∨ c = 19 ∨ c = 24 ∨ c = 26 ∨ c = 125 ∨ c = 126 := by
  simpa [isReserved, reservedBytes] using h

theorem reserved_xor_not_reserved (c : UInt8) (h : isReserved c = true) : isReserved (c ^^^ 0x20) = false := by
  rcases isReserved_cases h with h | h | h | h | h | h <;> subst h <;> decide

theorem reserved_xor_ne_escape (c : UInt8) (h : isReserved c = true) : (c ^^^ 0x20 == resEscape) = false := by
  rcases isReserved_cases h with h | h | h | h | h | h <;> subst h <;> decide

theorem escape_reserved : isReserved resEscape = true := by decide

theorem unstuff_stuff (bs : List UInt8) : unstuff (stuff bs) = some bs := by
  unfold unstuff
  induction bs with
  | nil => simp [stuff, unstuffAux]
  | cons c cs ih =>
    unfold stuff
    split
    · rename_i h
      simp [unstuffAux, xor20_xor20, h, ih]
    · rename_i h
      have hne : (c == resEscape) = false := by
        cases hc : (c == resEscape) with
        | false => rfl
        | true =>
          have : c = resEscape := by simpa using hc
          subst this; simp [escape_reserved] at h
      simp [unstuffAux, hne, ih]

theorem stuff_clean (bs : List UInt8) : ∀ b ∈ stuff bs, isReserved b = true → b = resEscape := by
  induction bs with
  | nil => simp [stuff]
  | cons c cs ih =>
    unfold stuff
    split
    · rename_i h
      intro b hb hr
      simp at hb
      rcases hb with rfl | rfl | hb
      · rfl
      · have := reserved_xor_not_reserved c h; simp [this] at hr
      · exact ih b hb hr
    · rename_i h
      intro b hb hr
      simp at hb
      rcases hb with rfl | hb
      · simp [hr] at h
      · exact ih b hb hr

theorem specReserved_eq : ∀ c : UInt8, specReserved c = isReserved c := by
  apply forall_uint8; decide +kernel

theorem flip5_eq : ∀ c : UInt8, UInt8.ofNat ((c.toNat + 32) % 64 + c.toNat / 64 * 64) = c ^^^ 0x20 := by
  apply forall_uint8; decide +kernel

theorem specStuff_eq (bs : List UInt8) : specStuff bs = stuff bs := by
  induction bs with
  | nil => rfl
  | cons c cs ih =>
    simp only [specStuff, List.flatMap_cons] at ih ⊢
    rw [ih, stuff, specReserved_eq, flip5_eq]
    split <;> simp [resEscape]

/-! ### randomisation -/

theorem pseudoRandom_eq : pseudoRandom = randSeq := by decide +kernel

theorem pseudoRandom_length : pseudoRandom.length = 256 := by decide +kernel

theorem xorSeq_length (p s : List UInt8) (h : p.length ≤ s.length) : (xorSeq p s).length = p.length := by
  induction p generalizing s with
  | nil => cases s <;> simp [xorSeq]
  | cons x xs ih =>
    cases s with
    | nil => simp at h
    | cons y ys => simp [xorSeq]; exact ih _ (by simpa using h)

theorem xorSeq_invol (p s : List UInt8) (h : p.length ≤ s.length) : xorSeq (xorSeq p s) s = p := by
  induction p generalizing s with
  | nil => cases s <;> simp [xorSeq]
  | cons x xs ih =>
    cases s with
    | nil => simp at h
    | cons y ys =>
      simp only [xorSeq, List.cons.injEq]
      refine ⟨?_, ih _ (by simpa using h)⟩
      rw [UInt8.xor_assoc]; simp

theorem randomize_invol (p : List UInt8) (h : p.length ≤ pseudoRandom.length) :
    randomize (randomize p) = p := xorSeq_invol p _ h

theorem randomize_length (p : List UInt8) (h : p.length ≤ pseudoRandom.length) :
    (randomize p).length = p.length := xorSeq_length p _ h

/-! ### CRC: the bit-serial model equals the byte-wise arithmetic of the specification -/

theorem mulx_toNat (t : W) : (mulx t).toNat = crcShift t.toNat := by
  unfold mulx crcShift poly
  have hlt := t.isLt
  rw [BitVec.msb_eq_decide]
  by_cases h : 2 ^ (16 - 1) ≤ t.toNat
  · have h' : t.toNat ≥ 0x8000 := by simpa using h
    simp only [h, decide_true, ↓reduceIte, h', BitVec.toNat_xor, BitVec.toNat_shiftLeft]
    simp [Nat.shiftLeft_eq, Nat.mul_comm]
  · have h' : ¬ t.toNat ≥ 0x8000 := by simpa using h
    simp only [h, decide_false, Bool.false_eq_true, ↓reduceIte, h', BitVec.toNat_shiftLeft]
    simp [Nat.shiftLeft_eq]; omega

theorem crcByte_toNat (s : W) (b : UInt8) : (crcByte s b).toNat = crcByteN s.toNat b := by
  rw [crcByte_eq]
  have hb := b.toNat_lt
  have hx : (s ^^^ hiByte b).toNat = s.toNat ^^^ (b.toNat * 256) := by
    have : b.toNat * 256 % 65536 = b.toNat * 256 := by omega
    simp [hiByte, BitVec.toNat_xor, this]
  simp only [mulxN, mulx_toNat, crcByteN, hx]

theorem crcFrom_toNat (s : W) (bs : List UInt8) : (crcFrom s bs).toNat = bs.foldl crcByteN s.toNat := by
  induction bs generalizing s with
  | nil => rfl
  | cons b bs ih => simp only [crcFrom, List.foldl_cons] at ih ⊢; rw [ih, crcByte_toNat]

theorem crc_toNat (bs : List UInt8) : (crc bs).toNat = crc16 bs := by
  simpa [crc, crc16] using crcFrom_toNat 0xFFFF bs

theorem specAppendCrc_eq (bs : List UInt8) : specAppendCrc bs = appendCrc bs := by
  simp [specAppendCrc, appendCrc, crcBytes, crc_toNat]

/-! ### control bytes -/

theorem ctl_data : ∀ f, f < 8 → ∀ r : Bool, ∀ a, a < 8 →
    ctlData f r a = UInt8.ofNat (16 * f + 8 * b2n r + a) ∧
    classify (ctlData f r a) = some .data ∧ bit (ctlData f r a) 0x70 4 = f ∧
    (bit (ctlData f r a) 0x08 3 != 0) = r ∧ bit (ctlData f r a) 0x07 0 = a := by decide +kernel

theorem ctl_ack : ∀ s n : Bool, ∀ a, a < 8 →
    ctlAck s n a = UInt8.ofNat (0x80 + 16 * b2n s + 8 * b2n n + a) ∧
    classify (ctlAck s n a) = some .ack ∧ (bit (ctlAck s n a) 0x10 4 != 0) = s ∧
    (bit (ctlAck s n a) 0x08 3 != 0) = n ∧ bit (ctlAck s n a) 0x07 0 = a := by decide +kernel

theorem ctl_nak : ∀ s n : Bool, ∀ a, a < 8 →
    ctlNak s n a = UInt8.ofNat (0xA0 + 16 * b2n s + 8 * b2n n + a) ∧
    classify (ctlNak s n a) = some .nak ∧ (bit (ctlNak s n a) 0x10 4 != 0) = s ∧
    (bit (ctlNak s n a) 0x08 3 != 0) = n ∧ bit (ctlNak s n a) 0x07 0 = a := by decide +kernel

theorem classify_spec : ∀ c : UInt8, classify c = specClass c.toNat := by
  apply forall_uint8; decide +kernel

theorem fields_spec : ∀ c : UInt8,
    bit c 0x70 4 = c.toNat / 16 % 8 ∧ (bit c 0x08 3 != 0) = decide (c.toNat / 8 % 2 = 1) ∧
    bit c 0x07 0 = c.toNat % 8 ∧ (bit c 0x10 4 != 0) = decide (c.toNat / 16 % 2 = 1) := by
  apply forall_uint8; decide +kernel

/-! ### unwrap -/

theorem unwrap_appendCrc (c : UInt8) (rest : List UInt8) :
    unwrap (appendCrc (c :: rest)) = .ok (c, rest) := by
  have hl : (appendCrc (c :: rest)).length = (c :: rest).length + 2 := by simp [appendCrc, crcBytes]
  have ht : (appendCrc (c :: rest)).take ((c :: rest).length) = c :: rest := by
    unfold appendCrc; exact List.take_left' rfl
  have hd : (appendCrc (c :: rest)).drop ((c :: rest).length) = crcBytes (crc (c :: rest)) := by
    unfold appendCrc; exact List.drop_left' rfl
  unfold unwrap
  rw [hl]
  simp only [Nat.add_sub_cancel, ht, hd]
  simp

end BV.Ash
