-- Root of the library: every property module (each imports its model and generated tables).
import BV.Props.C18
