-- Root of the library: every property module (each imports its model and generated tables).
import BV.Props.C01
import BV.Props.C02
import BV.Props.C03
import BV.Props.C04
import BV.Props.C05
import BV.Props.C06
import BV.Props.C07
import BV.Props.C08
import BV.Props.C09
import BV.Props.C10
import BV.Props.C11
import BV.Props.C12
import BV.Props.C13
import BV.Props.C15
import BV.Props.C16
import BV.Props.C18
import BV.Props.C19
