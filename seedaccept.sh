#!/bin/bash
# dev aid: ./seedaccept.sh <pid> [<pid>...]  -- takes round-3 deliveries /tmp/s4_<pid>/_out/{A,B}, confirms them independently
# (suite unchanged, demo fails with / passes without the change) in a scratch worktree, stores them as seeded/<pid>-4 / -5,
# and runs the property's quick check against each in scratch copies. Appends to seeded/ACCEPT.txt
for pid in "$@"; do
 n=${SEEDN:-6}
 for ab in A B; do
  src=${SRCROOT:-/tmp/s4_}$pid/_out/$ab
  [ -f $src/patch.diff ] || { echo "$pid $ab: no delivery" | tee -a /verif/seeded/ACCEPT.txt; n=$((n+1)); continue; }
  id=$pid-$n; dst=/verif/seeded/$id; n=$((n+1))
  W=/tmp/acc_$id; rm -rf $W; mkdir -p $W
  git -C /repo worktree add -f --detach $W/repo HEAD >/dev/null 2>&1
  R=$W/repo
  cp $src/demo.py $W/demo.py
  (cd $W && PYTHONWARNINGS=ignore PYTHONPATH=$R timeout 300 /venv/bin/python demo.py >/dev/null 2>&1); pristine=$?
  if ! git -C $R apply $src/patch.diff; then echo "$id: patch does not apply" | tee -a /verif/seeded/ACCEPT.txt; git -C /repo worktree remove --force $R; rm -rf $W; continue; fi
  (cd $W && PYTHONWARNINGS=ignore PYTHONPATH=$R timeout 300 /venv/bin/python demo.py >/dev/null 2>&1); patched=$?
  suite=$(cd $R && PYTHONPATH=$R /venv/bin/python -m pytest -q -p no:cacheprovider --timeout=900 --continue-on-collection-errors --tb=no tests/ --ignore=tests/test_application.py 2>&1 | tail -1)
  rsync -a --exclude .git --exclude replays /verif/ $W/verif/
  out=$(cd $W/verif && BELLOWS_REPO=$R ./check $pid 2>$W/err | grep -E "VIOLATION|KNOWN" | grep -v "^KNOWN-FINDING: property=C14 a trust" | head -2 | tr '\n' ' ')
  what=""
  rp=$(echo "$out" | sed -n 's/.*replay=\([^ ]*\).*/\1/p' | head -1)
  [ -n "$rp" ] && [ -f "$W/verif/$rp" ] && what=$(python3 -c "import json,sys; d=json.load(open('$W/verif/$rp')); print((d.get('what') or '')[:200].replace('\n',' '), '| breaks:', sorted(set(b.get('kind') for b in d.get('breaks',[]))))")
  [ -z "$out" ] && tail -3 $W/err > /tmp/acc_err_$id.txt
  ok=REJECT
  if [ $pristine -eq 0 ] && [ $patched -ne 0 ] && echo "$suite" | grep -q "254 passed" && echo "$suite" | grep -q "4 failed"; then ok=ACCEPT; mkdir -p $dst; cp $src/patch.diff $src/demo.py $src/meta.json $dst/; fi
  echo "$id $ok demo(pristine=$pristine patched=$patched) suite[$suite] check: ${out:-QUIET} :: $what" | tee -a /verif/seeded/ACCEPT.txt
  git -C /repo worktree remove --force $R; rm -rf $W
 done
done
