#!/usr/bin/env python3
"""dev aid: ./seedround.py <root dir under /tmp>  -- writes <root>/<Cxx>/prompt.txt for a new round of seeded changes (one fresh
sub-agent per property, given only the property text, its own scratch worktree and the one-line summaries of earlier ideas) and
creates the scratch worktrees <root>/<Cxx>/repo.  Nothing of /verif is shown to the agents."""
import glob
import json
import os
import subprocess
import sys

root = sys.argv[1].rstrip("/")
props = {}
for l in open('/verif/properties.jsonl'):
    p = json.loads(l)
    props[p['id']] = p
for pid, p in props.items():
    prev = []
    for d in sorted(glob.glob(f'/verif/seeded/{pid}-*/meta.json')):
        m = json.load(open(d))
        prev.append('- ' + (m.get('summary') or m.get('change') or '')[:280].replace('\n', ' '))
    os.makedirs(f'{root}/{pid}', exist_ok=True)
    txt = f"""You are helping calibrate a verification effort for the Python project zigpy/bellows (host side of the Silicon Labs EZSP/ASH serial protocol). Your job: write TWO independent small source changes ("A" and "B") to bellows, each of which BREAKS the property below while the project still imports fine and its existing test suite still gives exactly the same results as before. Each change should look like something a well-meaning maintainer could plausibly commit (a refactor, an optimisation, a 'fix', a clean-up), and must need something SPECIFIC to manifest: a particular interleaving, a fault at a particular moment, a multi-step sequence of operations, an unusual input or value, a particular protocol version, or two cooperating sites that each look fine alone. Changes that ordinary use would expose at once are not wanted. Many obvious ideas have been used already (list below): look for what is LEFT - code paths of the anchored files (and of the helpers they call in other files of bellows) that none of the earlier ideas touched, boundary values, a state that only arises after a particular history on the same object, an exception class or status value that is handled by a different branch, an argument form or caller that is rare but legitimate.

PROPERTY {pid}: {p['title']}
Statement: {p['statement']}
Quantified over: {p['quantifier']['text']}
Code anchors: {json.dumps(p['anchors'])}

Ideas that were ALREADY used in earlier rounds (do NOT repeat these or close variants; pick a different mechanism, site or trigger):
{chr(10).join(prev)}

WORKSPACE RULES (strict):
- Your private git worktree of the repository is {root}/{pid}/repo (already created, detached HEAD). Work ONLY there and in {root}/{pid}/. Never touch /repo, never look at or touch /verif, never use `git stash` (stashes are shared between worktrees), never commit.
- Python: /venv/bin/python. Always run with PYTHONPATH={root}/{pid}/repo so that YOUR copy of bellows is imported (verify once with `python -c 'import bellows; print(bellows.__file__)'`). The installed zigpy is 2.2.0, so tests/test_application.py fails at import-time fixtures on the pristine tree too: ignore that file.
- Baseline suite command (run from {root}/{pid}/repo): PYTHONPATH={root}/{pid}/repo /venv/bin/python -m pytest -q -p no:cacheprovider --timeout=900 --continue-on-collection-errors --tb=no tests/ --ignore=tests/test_application.py  -> on the pristine tree this gives "4 failed, 254 passed" (the 4 failures are tests/test_uart.py::test_connect[software], test_connect[hardware], test_connect_threaded, test_connection_lost_reset_error_propagation). With each of your changes applied it must give exactly the same: 254 passed, the same 4 failed. (tests/test_thread.py and tests/test_ash.py::test_ash_end_to_end are occasionally flaky under load; re-run if only that differs.)
- For each change X in (A, B) deliver in {root}/{pid}/_out/X/ :
    patch.diff  - `git diff` of the change against pristine HEAD (only files under bellows/; must apply with `git apply` on pristine HEAD)
    demo.py     - a self-contained demonstration program (no pytest needed; may use asyncio, unittest.mock, fake transports, etc.; must not need network or hardware; should finish in under 60 s) that exits 0 on the pristine tree and exits non-zero (printing what went wrong) with the change applied. It imports bellows via PYTHONPATH. The demo must check the PROPERTY as stated (observable behaviour), not the presence of your edit.
    meta.json   - {{"property": "{pid}", "summary": "<what was changed, 1-3 sentences>", "needs": "<what specific circumstances are needed for the breakage to manifest>", "files": [...], "ran": ["<commands you ran and their outcomes>"]}}
- Changes A and B must be independent of each other (each patch is against pristine HEAD) and should use different mechanisms.
- Before finishing: `git -C {root}/{pid}/repo checkout -- .` so the worktree is pristine, and confirm for each X: apply patch -> suite unchanged -> demo fails; revert -> demo passes.
Report briefly what A and B are when done.
"""
    open(f'{root}/{pid}/prompt.txt', 'w').write(txt)
    subprocess.run(["git", "-C", "/repo", "worktree", "add", "-f", "--detach", f"{root}/{pid}/repo", "HEAD"], capture_output=True)
print(subprocess.run(["git", "-C", "/repo", "worktree", "list"], capture_output=True, text=True).stdout.count("\n"), "worktrees")
