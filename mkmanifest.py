#!/usr/bin/env python3
"""Regenerate MANIFEST.json from the table below (kept as code so it is always valid)."""
import json
import os

HERE = os.path.dirname(os.path.abspath(__file__))

BASE_NOTE = (
    "Trusted: Lean 4.33 kernel (axioms audited per theorem ⊆ {propext, Classical.choice, Quot.sound}; no native_decide/bv_decide/sorry), "
    "the translator harness/gen_lean.py, the correspondence harness and line-protocol driver, the hand-written specs. "
    "Modelled, not verified: CPython/asyncio, zigpy, voluptuous. "
)

CLAIMED = {
    "C01": dict(
        text="Two labelled transition systems with ghost absolute frame indices (wire carries 3-bit numbers only): host→NCP with the host's window 1, NCP→host with any NCP window W ≤ 3; FIFO channels with drop/duplication anywhere, corruption of the delivered frame (discarded, NAK), stalls and "
        "retransmission at any time, spontaneous ack emission (piggy-backed acks), senders that stop. Inductive invariants (channel tags sorted; every data frame within one window of the receiver's expectation; every ack within [base, r]) proved for every reachable state: deliveries = frames 0..r-1 exactly once in order, "
        "acknowledged ⇒ delivered exactly once, any frame at most once. Bridging lemmas tie the host's residue tests in the C04/C05 models (frmNum = rx_seq; (ackNum−1) mod 8 = outstanding frmNum with generated TX_K) to the abstract steps; cancellation changes no protocol field. "
        "Tie: C04/C05 correspondences for the host halves + end-to-end runs of the real AshProtocol against an independent specification NCP simulator over fault-injecting channels on a virtual-time loop (all fault assignments to the first 5 (7 thorough) wire frames × windows 1..3, random long runs with cancellations and timeouts); oracle = exactly-once in-order on both sides, success ⇒ delivered once.",
        ref="6 C01",
        technique="Lean 4 proof (inductive invariant with ghost indices over all fault/schedule sequences, both directions, W ≤ 3) + end-to-end differential vs independent NCP simulator",
        note="The NCP end is my specification (harness/ncpsim.py, BV.Link); resets in mid-stream, XON/XOFF flow control and CRC-passing corruption are outside this property's model (C11, C02, C03). ",
    ),
    "C02": dict(
        text="Refinement theorem: the buffer-scanning loop of data_received (discarding mode, first non-escape reserved byte, FLAG/CANCEL/SUBSTITUTE/XON/XOFF branches, fuel = buffer length) equals a per-byte reference automaton for every "
        "accumulated prefix and every stream; hence for every stream whose unterminated remainders fit MAX_BUFFER_SIZE and every split into reads the events (payloads up, reset notifications, ACK/NAK bytes) equal those of the "
        "specification decoder (spec unstuffing, spec frame decoding proved equal to parse_frame on every byte string, receiver rules of C04); chunking independence as corollary; buffer ≤ MAX after every read for any input; an upward delivery "
        "implies a correctly unstuffed CRC-valid in-sequence DATA frame; no raise while the transport is open. Tie: per-read differential of the real AshProtocol.data_received vs the model and whole-stream oracle vs the reference decoder: "
        "all streams ≤ 4 bytes over a 10-letter reserved/escape alphabet × partitions, mutated valid conversations × random partitions, long streams in read sizes 1..2·MAX, megabyte-scale garbage.",
        ref="6 C02",
        technique="Lean 4 proof (refinement of the scanning loop to a per-byte automaton by induction; parser = spec decoder) + exhaustive/random differential vs real data_received",
        note="Streams containing an unterminated run longer than MAX_BUFFER_SIZE are covered by the buffer-bound and no-bad-delivery theorems and by the differential, not by the equivalence theorem. tracemalloc-style memory observation is not part of the proof. ",
    ),
    "C03": dict(
        text="Theorems: parse(encode f) = f for every well-formed frame of all six classes (all field values, payload ≤ 256, all 256 reset codes); encode = independent specification encoder (arithmetic control-byte layout, LFSR sequence, byte-wise CRC on naturals); "
        "every control byte classified as the specification's value ranges say, masks never overlap (all 256 by kernel evaluation); generated PSEUDO_RANDOM_DATA_SEQUENCE = LFSR(0x42, 0xB8) for all 256 bytes; unstuff∘stuff = id and stuffed output has no reserved byte but ESCAPE; "
        "bytes written = prefix ++ stuffed spec bytes ++ FLAG; CRC-CCITT rejects every 1- and 2-bit error in every accepted frame up to 4095 bytes (XOR-linearity and injectivity of the shift register + kernel-checked 32766-step orbit of the generator); CRC check value 0x29B1. "
        "Tie: generated masks/reserved set/LFSR table + exhaustive differential (every byte stuffed, every byte pair unstuffed, every control byte × 5 bodies, every control-field value × payload kinds/lengths, all reset codes) and random mutated frames against to_bytes/parse_frame/_stuff_bytes/_unstuff_bytes/_write_frame/crc_hqx; "
        "every 1-/2-bit corruption of nine short frames on the real parser; sequences of writes through one protocol object. "
        "Source level (DESIGN 11.7): generate_random_sequence, _stuff_bytes, _unstuff_bytes, _unwrap, append_crc, _randomize, every from_bytes/to_bytes and parse_frame are translated from the syntax tree of bellows/ash.py on every run "
        "(BV/Gen/SrcAsh.lean) and proved equal to the models (c03_src_lfsr, c03_src_stuff, c03_src_unstuff, c03_src_to_bytes, c03_src_parse_encode, c03_src_parse, c03_src_crc_detects).",
        ref="6 C03",
        technique="Lean 4 proof (induction, kernel evaluation over all 256 control bytes, CRC algebra with decide +kernel orbit) + exhaustive differential vs real encoder/parser",
        note="binascii.crc_hqx is modelled (bit-serial CRC) and compared by the differential. ",
    ),
    "C04": dict(
        text="Theorems about the model of frame_received for every state and frame: a DATA payload goes up iff frmNum = rx_seq (exactly once); every DATA frame gets exactly one reply carrying the new rx_seq, ACK iff accepted or reTx, NAK otherwise, ACK written before the payload is handed up; "
        "ACK/NAK/RST cause no delivery or write; RSTACK zeroes both counters, restores the ACK timeout and reports its code once; ERROR reports its code once; for every frame sequence the deliveries and rx_seq equal those of an abstract in-order acceptor (rx_seq = accepted count since last RSTACK mod 8). "
        "Tie: generated TX_K + differential of the real AshProtocol.frame_received vs the model after every frame (events, counters, ack-future states): every sequence of length ≤ 2 (quick; ≤ 3 thorough) over a 44-letter frame alphabet from each rx_seq, random sequences with futures installed, 200-frame runs; oracle = the statements above on the implementation trace.",
        ref="6 C04",
        technique="Lean 4 proof (case analysis + induction over frame sequences against an abstract acceptor; frame_received translated from the source text and proved equal to the model) + exhaustive differential vs real frame_received",
        note="Transport assumed open (a closed transport makes _write_frame raise; modelled as an explicit `raised` event). Source level (DESIGN 11.7): frame_received, _handle_ack, data_frame_received, the five other handlers, "
        "_enter_failed_state, _cancel_pending_data_frames and _write_frame are regenerated from the syntax tree of bellows/ash.py on every run (state monad over the object's fields, ack futures in a heap) and proved equal to the model step under the heap invariant "
        "(c04_src_frame_received), with the accept-iff and any-sequence theorems restated over the generated definitions (c04_src_accept_iff, c04_src_sequence). ",
    ),
    "C05": dict(
        text="Model of send_data/_send_data_frame at settled loop states (semaphore of TX_K, attempt loop with FAILED gate, frmNum taken once, fresh ackNum, ack future with asyncio.timeout, NotAcked/NcpFailure/TimeoutError/success branches with the t_rx_ack updates, finally-pop, _enter_failed_state) on top of the C04 receiver model, "
        "with events {send, frame, timer expiry, frame racing the timer in one loop iteration, two frames in one read, clock advance, caller cancellation}. Theorems: clamp bound T_MIN ≤ t ≤ T_MAX for every argument; an inductive invariant over every event list "
        "(timeout within bounds, attempts < ACK_TIMEOUTS, armed deadline = clamped timeout after the last transmission); shape of every (re)transmission (same frmNum/payload, reTx exactly on repeats, current rx_seq); budget exhaustion ⇒ exactly one upward notification with the ack-timeout code, link FAILED, the send and all queued sends fail; "
        "while FAILED a new send fails at once and writes nothing; a second send waits while the slot is held; first transmissions take consecutive tx_seq mod 8. Tie: generated ACK_TIMEOUTS/T_RX_ACK_*/TX_K + the real AshProtocol on a deterministic virtual-time loop: every reaction word ≤ 4 (6 thorough) over seven peer reactions, all pairs of frames batched in one read, random long words with queued sends and cancellations; "
        "model compared at every settled state (bytes, outcomes, counters, timeout value, outstanding frame), oracle on an independently decoded wire trace.",
        ref="6 C05",
        technique="Lean 4 proof (inductive invariant over event lists, per-branch specifications) + exhaustive/random differential vs real send_data on a virtual-time loop",
        note="Granularity is settled loop states plus two batched cases (ACK-vs-timeout race, two frames in one read); wall-clock drift is not modelled. ",
    ),
    "C07": dict(
        text="Generic codec over the generated type descriptors (uint/sint/LVBytes/FixedList/LVList/greedy List/raw Bytes/Struct/optional tail) with mutual ser/de: round trip de(ser v ++ rest) = (v, rest) for every prefix-free descriptor and every value (mutual induction); "
        "schema round trip with no bytes left for prefix-free fields followed by at most one raw/optional tail; header round trip for the three layouts and their literal bytes; decide +kernel over all 11 generated tables: frame IDs unique, names unique, IDs fit the header, schemas valid, greedy/optional last, argument names unique; "
        "corollary for every version, every command with a covered rx schema and every value tuple: the receive path (header parse → table lookup → decode) returns that command with exactly those values and nothing left; serialize_dict argument resolution: positional ≡ keyword. "
        "Tie: tables regenerated from the imported command modules every run + differential for every (version, command) pair (2 751): payloads from an independent descriptor-driven encoder through the real handler __call__ and _ezsp_frame (positional / keyword / reversed-keyword / mixed), compared with model and specification layout. Source-level: _ezsp_frame_tx / _ezsp_frame_rx of EZSPv4, EZSPv5 and EZSPv8 are translated from the syntax trees on every run (BV/Gen/SrcHdrV4/5/8.lean) and proved equal to the header model (BV/Proofs/Src/Hdr.lean; c07_src_tx_headers, c07_src_rx_headers, c07_src_header_roundtrip); which class serves which protocol version is reflection data checked against the model (c07_src_header_classes).",
        ref="6 C07",
        technique="Lean 4 proof (mutual structural induction for the codec, decide +kernel over generated command tables) + exhaustive-over-commands differential vs real _ezsp_frame / __call__",
        note="Rows whose rx schema ends in a greedy list, nests an optional field in a trailing struct, or has the requires-conditioned field (4 commands) are outside the round-trip theorem (counted by c07_rx_coverage) and covered by the differential only. zigpy's type classes are modelled via the descriptor lowering. ",
    ),
    "C06": dict(
        text="Model of ProtocolHandler.command / __call__ at settled loop states: _seq, _awaiting (insertion-ordered, with the state of each entry's future), the holder of the MAX_COMMAND_CONCURRENCY slot and its future, waiters ordered as PriorityDynamicBoundedSemaphore orders them; events {call, send completion/failure, frame, timer expiry, clock advance, cancellation}. "
        "Theorems: inductive invariant over every event list (the table holds exactly the live holder's unanswered entry; waiters sorted by priority; nobody queued behind a free slot); a call returns a payload only from a frame carrying its own sequence number and frame ID while it is the call in flight; TimeoutError exactly EZSP_CMD_TIMEOUT after the send completed; at most one request in flight; "
        "the released slot goes to the greatest-priority, oldest waiter (insert position proved: behind ≥, ahead of <) with the generated priority classes (999 keep-alive/counter reads, 0, −1 packet-send); sequence numbers advance by one mod 256; a decodable frame whose sequence number no call in flight owns reaches the callbacks exactly once and changes nothing else. "
        "Tie: generated priorities/constants + real EZSP + ProtocolHandler (v4/v7/v8/v14) with a scripted gateway on a virtual-time loop: all sequences of ≤ 2 (3 thorough) commands × 13 per-command behaviours, random scripts with 2–4 queued callers of mixed priority, malformed frames and cancellations, 300-command soaks; model compared at every settled state, oracle on the implementation trace. "
        "Source-level: ProtocolHandler.command, _ezsp_frame and _get_command_priority are translated from the syntax tree on every run (BV/Gen/SrcCmd.lean; try/finally, async with, *args/**kwargs, the literal priority table) and run against an arbitrary script of what the environment does at the three await points - the frames received meanwhile go through the guard of frame_received into the generated __call__ on the same state (BV/Py/CmdEnv.lean). "
        "Proved over the generated definition for every script (BV/Proofs/Src/Cmd.lean): c06_src_no_entry_left (every entry of _awaiting after the call was there before it - reply, stray, duplicate, none, send failure, timeout, cancellation at any await), c06_src_release_once, c06_src_priority (= the reflected table), c06_src_request (header with the handler's sequence number + frame ID + serialised arguments, sent once, counter +1 mod 256), "
        "c06_src_own_reply (values returned => a received frame decodes to exactly them with the request's sequence number and the command's frame ID), c06_src_timeout, c06_src_frame.",
        ref="6 C06",
        technique="Lean 4 proof (inductive invariant over event lists + per-event specifications; callback-registry invariant by induction over add/remove/deliver histories) + exhaustive/random differential vs real command()/__call__ and add_callback/remove_callback/handle_callback on a virtual-time loop; source-level translation of ProtocolHandler.command / _ezsp_frame / _get_command_priority with the clauses proved over the generated definitions for every environment script",
        note="zigpy's PriorityDynamicBoundedSemaphore is modelled (ordering by (-priority, arrival)); granularity is settled loop states. In the source-level translation the coroutine runs sequentially against a script: mutual exclusion of the registered section (the semaphore with MAX_COMMAND_CONCURRENCY = 1) is assumed there and is what the hand-written model and its differential check cover. Callback fan-out: model BV.Registry (id = hash + linear probing, hash an input), theorems c06_registry_add / _inv / _remove / _fanout "
        "(no two live registrations share an id, for every history; the probe terminates; removal is exact; every live registration gets each unsolicited frame once, in order), differential through the real receive path. ",
    ),
    "C08": dict(
        text="Receive entry point modelled as the guard of EZSP.frame_received around the C07 codec model (header parse, table lookup, payload decode) and the C06 command-layer model. Theorems: classification of any byte string is total (empty / short / unknown ID / undecodable / decodes); malformed input changes no state, completes no call and invokes no callback; "
        "a call is completed with a payload only by bytes whose header carries its own sequence number and frame ID (invariant of C06 for every reachable state); a callback is invoked only for bytes that parse, name a frame of the active table and decode against its schema; from any reachable state with the slot free a fresh call followed by its matching reply returns that reply. "
        "Tie: generated command tables (incl. the EmberKeyStruct receive-side padding quirk, lowered after probing) + the real EZSP.frame_received for every version 4..14 with a pending command of the same / another frame ID / an already finished one / none, on valid frames truncated at every length and mutated by bit flips, ID and sequence substitution, appended bytes, random strings; then a fresh command. Source-level: ProtocolHandler.__call__ is translated from the syntax tree on every run (BV/Gen/SrcProto.lean) over the generated header parsers of EZSPv4/v5/v8 and the codec model of the payload decoder; BV/Proofs/Src/Proto.lean says what it does for every byte string by the model classification (short / unknown ID / undecodable / callback / reply / wrong ID / dead call / invalid-command answer); c08_src_malformed_contained, c08_src_no_wrong_completion and c08_src_callback_only_if_decodes are the clauses over the generated definition. The guard itself, EZSP.frame_received, is translated too (BV/Gen/SrcEzspRx.lean): c08_src_guard_contains - for every byte string it returns normally, the frame ignored or the handler's effects kept and its exception swallowed.",
        ref="6 C08",
        technique="Lean 4 proof (case analysis over the classification, reuse of the C06 invariant) + differential vs real frame_received on mutated frames, all versions; source-level translation of ProtocolHandler.__call__ and EZSP.frame_received with the clauses proved over the generated definitions",
        note="Exceptions swallowed by the guard are not observable from outside; the model's internal `rxRaised` marker is compared only through its effects (state, completions, callbacks). ",
    ),
    "C09": dict(
        text="Negotiation state machine (reported version, handler version, handler sequence number) over the generated _BY_VERSION table and generated default configurations, against an NCP reporting version n. Theorems for every n ≥ 4: the first version query is [seq,00,00,04]; the reported version is adopted, the handler is the version's own for 4..14 and the newest known one for newer versions; "
        "a second query in the adopted handler's layout carrying n is sent iff n ≠ 4; the header layout afterwards is v4 / legacy 5-byte / 16-bit-ID by version range (also for unknown newer versions); the default-configuration lookup of write_config succeeds; after every later reset framing is the legacy one until negotiation is repeated. "
        "Tie: generated tables + the real EZSP + Gateway + AshProtocol (use_thread=False) against a byte-level simulated NCP (ASH + EZSP header layer independent of bellows) for NCP versions 4..14, 15, 16, 255, serial and socket paths with the spontaneous start-up RSTACK early / late / absent, link faults during bring-up, a later reset and renegotiation; oracle on the NCP's frame log.",
        ref="6 C09",
        technique="Lean 4 proof (case analysis over versions on generated tables) + full-stack run against a simulated NCP",
        note="partial: the NCP is my simulator (harness/ncpfull.py): it answers the legacy query in the legacy format and ignores frames not in a format it currently accepts; the real serial driver and the thread hand-off (use_thread=True) are not exercised here (C20). ",
    ),
    "C10": dict(
        text="Model of the failure paths above the gateway (EZSP.enter_failed_state / connection_lost / close / stop_ezsp / the _command gate) fed by the failure notifications of the C11 gateway model and the C05 link model. Theorems: with an application attached every failure notification (ERROR frame, non-software RSTACK, exhausted ACK budget, connection loss with an error) yields exactly one controller-reset request, stops EZSP and releases the gateway; "
        "without one nothing is requested; once stopped every new command raises at the gate and nothing is sent, and EZSP stays stopped under further events; close() followed by connection_lost(None) yields no request (the gateway model forwards a loss to EZSP exactly when there was an error); the no-hang bound EZSP_CMD_TIMEOUT + ACK_TIMEOUTS·T_RX_ACK_MAX = 26 s from generated constants with the C05 clamp and C06 timeout theorems. "
        "Tie: the full real stack (EZSP + Gateway + AshProtocol, use_thread=False) against the byte-level simulated NCP on the virtual clock: six failure kinds × five workload points × application attached or not × failure alone or batched with an ACK in one loop iteration; oracle on the application callback, the wire and call durations; EZSP-level reaction compared with the model; further failure kind: an NCP that stops taking frames in but keeps sending callbacks; failures after an earlier life of the EZSP object (callbacks registered and removed, a scan's temporary callback). "
        "The gateway half (connection_lost / eof_received / error_received / reset_received) is also translated from the source and proved equal to the model (see C11).",
        ref="6 C10",
        technique="Lean 4 proof (case analysis of the failure paths, composition with C05/C06/C11 theorems) + full-stack failure injection on a virtual clock",
        note="partial: the proxy thread between Gateway and EZSP (C20) and OS-level port errors (represented only by the exception passed to connection_lost) are not modelled; that no call outlives the bound is observed by the harness on the virtual clock, the theorem gives the bound's ingredients. ",
    ),
    "C11": dict(
        text="Model of Gateway.reset / wait_for_startup_reset / reset_received / error_received / connection_lost / eof_received over the ASH receiver model, at loop-iteration granularity (batches of primitives that land in one iteration, then the scheduled wake-ups). Theorems: the request writes exactly 1A C0 38 BC 7E and arms RESET_TIMEOUT; for all codes an RSTACK resolves the request iff its code is RESET_SOFTWARE, "
        "any other code is reported as an NCP failure; an ERROR frame with any code is a failure and never a completion; other frames never touch the waiters; an RSTACK zeroes both frame counters from every counter state; TimeoutError exactly at start + RESET_TIMEOUT; an inductive invariant (attribute vs future object vs waiters) holds after every iteration; "
        "after a connection loss or EOF, whatever happened earlier in the same iteration (resolved future, fired timeout, another loss), no reset or start-up waiter is left pending and connection_lost never raises. Tie: generated RESET_TIMEOUT/codes + real Gateway + AshProtocol on a virtual-time loop: all 256 RSTACK and 256 ERROR codes × 4 arrival patterns, all 64 counter states, losses/EOF at every step alone and batched in one iteration in both orders, random batches; an unanswered request with frames arriving at various times before the deadline (timeout exactly RESET_TIMEOUT after the request). "
        "Source-level: Gateway.reset_received / error_received / connection_lost / eof_received / _reset_cleanup / data_received / close are translated from bellows/uart.py's syntax tree on every run (harness/pytrans.py -> BV/Gen/SrcUart.lean, futures in a heap) and proved equal to the model's resetReceived / connectionLost under the heap invariant (BV/Proofs/Src/Uart.lean); c11_src_* restate the clauses over the generated definitions (connection_lost never raises, releases every waiter, clears both attributes). "
        "The coroutines Gateway.reset / wait_for_startup_reset are translated too (BV/Gen/SrcUartReset.lean) and run against a script of what reaches the gateway while they are suspended, grouped by loop iteration - every input goes through the generated handlers, the done-callback _reset_cleanup runs between iterations (BV/Py/UartEnv.lean): "
        "c11_src_reset_request (one RST, first; a second request shares the future and sends nothing), c11_src_reset_only_ack (a fresh reset() returns only if an RSTACK with the software-reset code arrived while it waited - for every script), c11_src_reset_ack, c11_src_reset_timeout (TimeoutError, _reset_future clear again: the next request is fresh), c11_src_reset_lost; the generated reset is run by the driver against the real coroutine on the virtual loop, script by script (harness/resetsrc.py).",
        ref="6 C11",
        technique="Lean 4 proof (inductive invariant over iteration batches, case analysis over all codes; source-level translation of the Gateway's synchronous methods proved equal to the model, and of the coroutine Gateway.reset with its clauses proved over the generated definition for every script of inputs) + exhaustive differential vs real Gateway/AshProtocol on a virtual-time loop",
        note="Calls (reset, wait_for_startup_reset) start in their own iteration; I/O events are batched. ",
    ),
    "C12": dict(
        text="Model of send_packet / _handle_frame_sent at settled loop states: message tag and pending entry, up to |RETRY_DELAYS| attempts each under _req_lock (explicit holder + FIFO waiters) with set-up commands then the send command, busy retry sleeps, the confirmation wait under APS_ACK_TIMEOUT, confirmations arriving early/late/foreign/duplicate, cancellation, command failures. "
        "Theorems: every EZSP command issued belongs to the request holding the lock when the step settles; while a request holds the lock no new request, confirmation, deadline, clock advance or foreign cancellation takes it away or issues a command (set-up and send never interleaved); whatever the outcome the request's entry leaves the pending table in the step that reports it; "
        "a confirmation matching no request in progress, or a second one, is counted and changes nothing; the own confirmation decides (delivered iff success); a delivered NWK-addressed request has a successful confirmation with its own (destination, tag); refusal ends at once, busy arms exactly the generated delay, the last attempt gives up, a missing confirmation raises exactly APS_ACK_TIMEOUT after acceptance. "
        "Tie: generated RETRY_DELAYS/APS_ACK_TIMEOUT + the real ControllerApplication.send_packet over the real per-version wrappers (EZSPv4/8/9/14; all 11 thorough) with a scripted command layer on a virtual clock: 6 packet kinds × all enqueue scripts {accepted, busy, refused}³ × 7 confirmation behaviours, random scripts with 2–3 concurrent requests, cancellations and command failures; model compared at every settled state, oracle on the trace.",
        ref="6 C12",
        technique="Lean 4 proof (structural invariants on the lock holder, per-event specifications) + exhaustive/random differential vs real send_packet on a virtual clock",
        note="partial: zigpy's _limit_concurrency is not modelled (at most 3 concurrent requests, below its limit); zigpy.util.Requests is shimmed harness-side (the installed zigpy no longer has it). ",
    ),
    "C13": dict(
        text="Model of ezsp_callback_handler's version-dependent unpacking, _handle_frame and _handle_tc_join_handler over decoded value lists of the C07 codec model. Theorems: decide +kernel over the generated tables of all versions 4..14 — at every position the handler unpacks, the version's incomingMessageHandler schema holds the field with that role (pre-v14 and v14 orders), "
        "trustCenterJoinHandler has the five fields in the order the handler takes them, messageSentHandler has the two orders C12 relies on; for both argument orders and all field values exactly one packet for unicast/multicast/broadcast with source, endpoints, profile, cluster, APS sequence, payload, LQI and (two's-complement) RSSI equal to the callback's and destination own address / group ID / broadcast by message type, none for other types; "
        "join/leave triage: departure ⇒ leave (whatever the decision), denied ⇒ nothing, otherwise join with the reported addresses and parent. Tie: generated tables and enum values + frames encoded by role from each version's schema order (independent encoder) pushed through the real EZSP.frame_received and the real ControllerApplication.ezsp_callback_handler for every version 4..14; model and property table compared with what packet_received / handle_join / handle_leave received.",
        ref="6 C13",
        technique="Lean 4 proof (decide +kernel over generated schemas, symbolic evaluation of the translation) + differential vs real receive path and callback handler, all versions",
        note="The role ↔ field-name map of the two naming families is part of the trusted base. zigpy.util.Requests is shimmed to construct the application. ",
    ),
    "C14": dict(
        text="Model of write_network_info / load_network_info with the per-version accessors (link keys via addOrUpdateKeyTableEntry below 13 and importLinkKey from 13, frame counters from 5, child data from 9, hashed TC link key above 4) as programs over an abstract NCP store. Theorems: for every version, key table size, settings with at most K link keys for distinct partners and (v ≤ 4 or the well-known TC link key) the read-back returns PAN/extended PAN/channel/mask/update ID, network key and sequence, frame counter (v ≥ 5), the link keys in order, the children (v ≥ 9), the TC link key, and above 4 the hashed key in the stack-specific data (supplied or generated); the security state sent carries the supplied key/sequence and the hashed flag iff v > 4; "
        "decide +kernel over generated tables: for every version 4..14 and every accessor / send wrapper, the implementation the handler's MRO resolves to (reflection) awaits only commands (read off its syntax tree) that exist in that version with the argument names and response field order it was written against, and unpacks each response into exactly as many names as that version's response has fields; and the negative: above 4 a non-well-known TC link key is not what the read-back reports (known finding). "
        "Tie: generated command, accessor-definer and awaited-command tables + the real ControllerApplication.write_network_info / load_network_info over the real EZSP and version handlers 4..14 against a stateful command-level NCP store that builds responses by field name; loaded state and security state compared with the model, oracle = the property's field list.",
        ref="6 C14",
        technique="Lean 4 proof (list induction for the key table, decide +kernel over generated/AST-derived accessor tables) + differential vs real write/load over a stateful NCP store, all versions",
        note="partial: what an NCP stores and reports (harness/ncpstore.py, BV.NetInfo.Ncp) is my specification of the firmware, not verified code; known finding recorded: custom TC link key on v>4. ",
    ),
    "C15": dict(
        text="Inductive invariant (groups distinct; every host entry programmed non-zero at its index; every free index cleared; free ∪ used covers the table) proved for every "
        "operation sequence over {start-up, subscribe, unsubscribe}, every table size, every initial table with each group at most once, every answer {OK, rejection, timeout} and every "
        "set.pop() choice; corollaries: host view = NCP non-zero entries, index partition, re-subscribe writes nothing, full table refuses, a failing call keeps the free count. "
        "Tie: exhaustive short histories + random long ones run on the real Multicast class against a stub NCP table and diffed with the model after every call; the same "
        "predicates are evaluated on the implementation's state (oracle). "
        "Source-level: the coroutines Multicast._initialize / subscribe / unsubscribe are translated from bellows/multicast.py's syntax tree on every run (harness/pytrans.py -> BV/Gen/SrcMcast.lean; every await is a call on a scripted command layer, set.pop() a scripted choice) and proved to be the model's scan / subscribe / unsubscribe steps "
        "(BV/Proofs/Src/Mcast.lean); c15_src_* restate the clauses over the generated definitions (a failing subscribe keeps the number of free indices).",
        ref="6 C15",
        technique="Lean 4 proof (inductive invariant over op sequences; source-level translation of the Multicast coroutines proved equal to the model's steps) + exhaustive/random differential vs real Multicast",
        note="NCP table semantics (an OK write is applied, a rejected or timed-out one is not) is the specification side. ",
    ),
    "C16": dict(
        text="Theorems about a model of write_config on insertion-ordered dicts (defaults merge, overrides, d[k]=d.pop(k), read-compare-skip loop) for every default list, every current-value function, "
        "every validated config (user-supplied and schema-filled items told apart, as the code does) and all accept/reject answers: at most one write per setting; for a grow-only default whose key the user did not supply "
        "- absent or filled in by the version's own schema - whatever is written is strictly above the value the NCP reports (nothing when it reports at least that); user-supplied values verbatim, nothing for disabled settings, "
        "packet-buffer count last, trace independent of rejections; decide +kernel over the generated DEFAULT_CONFIG / schema keys / schema-filled defaults of every version (buffer count last default, name↔id injective, capacity defaults are grow-only, a schema-filled capacity setting replaces a grow-only default). "
        "Tie: generated tables + differential of the real EZSP.write_config (stubbed command layer, real voluptuous schema) against the model; oracle on the set commands the stub saw.",
        ref="6 C16",
        technique="Lean 4 proof (list/dict lemmas + decide over generated tables) + differential vs real write_config",
        note="The config is modelled after schema validation (voluptuous is exercised by the differential, not modelled); which items the schema fills in by itself is a generated table. ",
    ),
    "C19": dict(
        text="Theorems for every outcome word and protocol version: the feed raises iff its outcome is a failure preceded by ≥ MAX_WATCHDOG_FAILURES consecutive failures (generated constant), success clears the count, "
        "keep-alive is nop on v4 and a counter read otherwise with read-and-clear exactly on multiples of the period. Tie: generated constants + exhaustive outcome words (length ≤ 7 quick / 9 thorough, versions 4 and 8) and long runs "
        "across the period boundary on the real ControllerApplication._watchdog_feed with a stub EZSP, diffed with the model; oracle evaluated on the implementation's trace; protocol versions newer than the newest handler; the failing call is the keep-alive or the free-buffer read. "
        "Source-level: the coroutine _watchdog_feed is translated from the syntax tree on every run (harness/pytrans.py -> BV/Gen/SrcWd.lean; awaited calls on a scripted command layer, the statements touching zigpy's counter objects pinned by their text) and one feed is proved to be one step of the model (BV/Proofs/Src/Wd.lean); c19_src_* restate the raise-iff clause over the generated definition.",
        ref="6 C19",
        technique="Lean 4 proof (induction over outcome words; source-level translation of the feed coroutine proved equal to the model step) + exhaustive differential vs real _watchdog_feed",
        note="zigpy.util.Requests is shimmed harness-side to construct the application object. ",
    ),
    "C17": dict(
        text="Model of wait_for_stack_status / formNetwork / leaveNetwork / _ensure_network_running / _list_command at settled loop states; listeners and scan callbacks are derived from the operations in progress. Theorems: the step that reports an outcome (success, refusal, timeout, cancellation, failed completion) removes the operation and with it its listener and callback; listeners and callbacks belong only to operations in progress; "
        "the matching event completes the operation whether it arrives after or before the command's own response; an event processed before the operation started, or a non-matching one, does not — the operation then raises TimeoutError exactly the operation timeout (generated, = 10 s) after its command succeeded; a refused command ends the operation at once with nothing left registered; bring-up: already joined ⇒ no command beyond networkState, not-joined ⇒ NetworkNotFormed; "
        "scan: the result list is, in order, every result callback from issue to completion, none from before the issue, a failed completion raises; result callbacks are appended to every scan in progress and nothing else. Tie: generated timeouts + real EZSP.formNetwork/leaveNetwork/startScan and real ControllerApplication._ensure_network_running (handlers v4/v8/v14) with a scripted command layer on a virtual clock: every event order ≤ 3 (5 thorough) for the status operations, ≤ 4 (6) for scans, random scripts with up to four overlapping operations; oracle incl. listener/callback counts after every event.",
        ref="6 C17",
        technique="Lean 4 proof (symbolic evaluation of event orders, structural no-leak argument) + exhaustive event-order differential vs real EZSP operations on a virtual clock",
        note="Granularity is settled loop states; a result callback that lands between the completion frame and the caller's wake-up is included in the result list (model and code agree). _list_command has no timeout of its own. ",
    ),
    "C18": dict(
        text="Theorems over the generated SL_STATUS_MAP (regenerated from the imported module every run): pass-through for every unified value, "
        "OK ⇔ success code for all 256 codes of both 8-bit families (decide +kernel over the whole table, lifted to ∀ c < 256), literal steering-code table. "
        "Tie: translator for the table + exhaustive differential of from_ember_status against the model on all 512 legacy codes, all defined unified statuses and random 32-bit values. "
        "Full strength: the function's whole domain is covered by theorem or by exhaustive enumeration.",
        ref="6 C18",
        technique="Lean 4 proof (decide +kernel over generated table, lifted) + exhaustive correspondence",
        note="",
    ),
    "C20": dict(
        text="Model of the decision logic of ThreadsafeProxy.__getattr__/func_wrapper: attribute kind × situation at call time (caller on the owner's loop?, owner's loop closed?) ↦ {refuse, run here, drop, run on owner and await, queue on owner}. Theorems: the whole table; a call from another loop is never executed on the caller's loop; a closed owner loop ⇒ drop for every callable; "
        "queued calls run in hand-over order; a queued plain method must return nothing. Tie: the real ThreadsafeProxy + EventLoopThread with real threads: non-callable / plain / value-returning plain / coroutine / raising coroutine × attribute looked up on the caller's or the owner's loop × called from either loop, a burst of 200 (1000) queued calls, calls after the owner's loop was stopped and closed; the method body records its thread and running loop; "
        "model's predicted action compared with where the body ran and what the caller saw.",
        ref="6 C20",
        technique="Lean 4 proof (case analysis of the dispatch table) + differential vs real ThreadsafeProxy/EventLoopThread with real threads",
        note="partial: thread scheduling, run_coroutine_threadsafe internals and a loop stopping or closing between the is_closed() test and the hand-over are runtime behaviour the model cannot exhibit; the harness provokes them only as tests. ",
    ),
}

REASON_WIP = "no check registered yet; the technique applies (design in DESIGN.md section 6) but the model and correspondence for this property are not built at this commit"

ALL = [f"C{i:02d}" for i in range(1, 21)]


def main():
    checks = []
    for pid in ALL:
        if pid not in CLAIMED:
            continue
        c = CLAIMED[pid]
        checks.append(
            {
                "property_id": pid,
                "quick_cmd": f"./check {pid} --tier quick",
                "thorough_cmd": f"./check {pid} --tier thorough",
                "evidence_file": f"evidence/{pid}.json",
                "replay_cmd_template": f"./check {pid} --replay {{path}}",
                "engine": "lean4-proof+correspondence",
                "level_claimed": {"category": "proof", "text": c["text"], "design_ref": c["ref"]},
                "level_note": BASE_NOTE + c.get("note", ""),
                "technique": c["technique"],
            }
        )
    man = {
        "version": 1,
        "setup_cmd": "./setup.sh",
        "hooks": {
            "guard": "BELLOWS_VERIF",
            "enable": "no source hooks: every observation point is reachable from outside (fake transport, stub layers, deterministic event loop); the checks export BELLOWS_VERIF=1 for uniformity",
            "baseline_off_cmd": "cd /repo && /venv/bin/python -m pytest -ra -q -p no:cacheprovider --timeout=900 --continue-on-collection-errors",
            "source_commits": [],
            "add_only": True,
        },
        "engines": [
            {
                "name": "lean4-proof+correspondence",
                "path": "lean/ (lake project BV), harness/ (translator, correspondence, oracles), check",
                "serves_properties": sorted(CLAIMED),
                "kind_free_text": "Lean 4 theorems about executable models; models tied to /repo by a reflection-based translator (generated tables/constants) and by differential runs of model vs implementation; oracle = the property predicate on the implementation's trace",
            }
        ],
        "checks": checks,
        "notes": "See DESIGN.md. known_findings.json lists recorded findings and fixes.",
        "not_applicable": [{"property_id": p, "reason": REASON_WIP} for p in ALL if p not in CLAIMED],
    }
    with open(os.path.join(HERE, "MANIFEST.json"), "w") as f:
        json.dump(man, f, indent=1, ensure_ascii=False)
        f.write("\n")


if __name__ == "__main__":
    main()
