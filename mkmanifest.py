#!/usr/bin/env python3
"""Regenerate MANIFEST.json from the table below (kept as code so it is always valid)."""
import json
import os

HERE = os.path.dirname(os.path.abspath(__file__))

BASE_NOTE = (
    "Trusted: Lean 4.33 kernel (axioms audited per theorem ⊆ {propext, Classical.choice, Quot.sound}; no native_decide/bv_decide/sorry), "
    "the translator harness/gen_lean.py, the correspondence harness and line-protocol driver, the hand-written specs. "
    "Modelled, not verified: CPython/asyncio, zigpy, voluptuous. "
)

CLAIMED = {
    "C18": dict(
        text="Theorems over the generated SL_STATUS_MAP (regenerated from the imported module every run): pass-through for every unified value, "
        "OK ⇔ success code for all 256 codes of both 8-bit families (decide +kernel over the whole table, lifted to ∀ c < 256), literal steering-code table. "
        "Tie: translator for the table + exhaustive differential of from_ember_status against the model on all 512 legacy codes, all defined unified statuses and random 32-bit values. "
        "Full strength: the function's whole domain is covered by theorem or by exhaustive enumeration.",
        ref="6 C18",
        technique="Lean 4 proof (decide +kernel over generated table, lifted) + exhaustive correspondence",
        note="",
    ),
}

REASON_WIP = "no check registered yet; the technique applies (design in DESIGN.md section 6) but the model and correspondence for this property are not built at this commit"

ALL = [f"C{i:02d}" for i in range(1, 21)]


def main():
    checks = []
    for pid in ALL:
        if pid not in CLAIMED:
            continue
        c = CLAIMED[pid]
        checks.append(
            {
                "property_id": pid,
                "quick_cmd": f"./check {pid} --tier quick",
                "thorough_cmd": f"./check {pid} --tier thorough",
                "evidence_file": f"evidence/{pid}.json",
                "replay_cmd_template": f"./check {pid} --replay {{path}}",
                "engine": "lean4-proof+correspondence",
                "level_claimed": {"category": "proof", "text": c["text"], "design_ref": c["ref"]},
                "level_note": BASE_NOTE + c.get("note", ""),
                "technique": c["technique"],
            }
        )
    man = {
        "version": 1,
        "setup_cmd": "./setup.sh",
        "hooks": {
            "guard": "BELLOWS_VERIF",
            "enable": "no source hooks: every observation point is reachable from outside (fake transport, stub layers, deterministic event loop); the checks export BELLOWS_VERIF=1 for uniformity",
            "baseline_off_cmd": "cd /repo && /venv/bin/python -m pytest -ra -q -p no:cacheprovider --timeout=900 --continue-on-collection-errors",
            "source_commits": [],
            "add_only": True,
        },
        "engines": [
            {
                "name": "lean4-proof+correspondence",
                "path": "lean/ (lake project BV), harness/ (translator, correspondence, oracles), check",
                "serves_properties": sorted(CLAIMED),
                "kind_free_text": "Lean 4 theorems about executable models; models tied to /repo by a reflection-based translator (generated tables/constants) and by differential runs of model vs implementation; oracle = the property predicate on the implementation's trace",
            }
        ],
        "checks": checks,
        "notes": "See DESIGN.md. known_findings.json lists recorded findings and fixes.",
        "not_applicable": [{"property_id": p, "reason": REASON_WIP} for p in ALL if p not in CLAIMED],
    }
    with open(os.path.join(HERE, "MANIFEST.json"), "w") as f:
        json.dump(man, f, indent=1, ensure_ascii=False)
        f.write("\n")


if __name__ == "__main__":
    main()
