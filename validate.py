#!/usr/bin/env python3-vt
"""validate MANIFEST.json and evidence/*.json against the schemas (development aid)"""
import json, sys, glob, jsonschema
ok = True
try:
    jsonschema.validate(json.load(open('/verif/MANIFEST.json')), json.load(open('/root/.vp/MANIFEST.schema.json')))
    print('MANIFEST ok')
except FileNotFoundError:
    print('no MANIFEST')
except Exception as e:
    ok = False; print('MANIFEST INVALID', str(e)[:500])
sch = json.load(open('/root/.vp/EVIDENCE.schema.json'))
for f in sorted(glob.glob('/verif/evidence/*.json')):
    try:
        jsonschema.validate(json.load(open(f)), sch); print(f, 'ok')
    except Exception as e:
        ok = False; print(f, 'INVALID', str(e)[:500])
sys.exit(0 if ok else 1)
