#!/bin/bash
# Build the framework offline from files on disk: translator -> lean/BV/Gen, then lake build.
set -e
HERE="$(cd "$(dirname "$0")" && pwd)"
cd "$HERE"
export BELLOWS_REPO="${BELLOWS_REPO:-/repo}"
PYTHONWARNINGS=ignore PYTHONPATH="$BELLOWS_REPO" /venv/bin/python harness/gen_lean.py lean/BV/Gen
cd lean
lake build bvdriver BV 2>&1 | tail -5
