#!/bin/bash
# dev aid: ./mut.sh <Cxx> <sed-expr> <file-relative-to-repo>   (applies, runs quick check, reverts)
pid=$1; expr=$2; file=$3
sed -i "$expr" /repo/$file
git -C /repo diff --stat | tail -1
./check $pid; echo "rc=$?"
git -C /repo checkout -- .
