#!/bin/bash
# dev aid: ./multiseed.sh "1 2 3" [tier] -- every check with several seeds on the unchanged tree; prints anything that is not silent
T=${2:-quick}
mkdir -p /tmp/ms
for seed in $1; do
  for i in 01 02 03 04 05 06 07 08 09 10 11 12 13 14 15 16 17 18 19 20; do echo C$i; done | \
    xargs -P 8 -I{} sh -c "VERIF_SEED=$seed ./check {} --tier $T > /tmp/ms/{}_$seed.out 2> /tmp/ms/{}_$seed.err; echo \"{} seed=$seed rc=\$?\"" | grep -v "rc=0" 
done
grep -l "VIOLATION" /tmp/ms/*.out 2>/dev/null
echo multiseed-done
