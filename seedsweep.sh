#!/bin/bash
# dev aid: ./seedsweep.sh [workers] [seed-dir-glob...]  -- runs every seeded change against its property's quick check,
# in scratch copies of /repo and /verif under /tmp/sw (removed afterwards); writes seeded/SWEEP.txt
W=${1:-4}; shift
SEEDS=("$@"); [ ${#SEEDS[@]} -eq 0 ] && SEEDS=(/verif/seeded/C*-*)
rm -rf /tmp/sw; mkdir -p /tmp/sw
for k in $(seq 1 $W); do
  mkdir -p /tmp/sw/$k
  rsync -a --exclude .git --exclude replays /verif/ /tmp/sw/$k/verif/
  git -C /repo worktree add -f --detach /tmp/sw/$k/repo HEAD >/dev/null 2>&1
done
i=0
for s in "${SEEDS[@]}"; do k=$(( i % W + 1 )); echo "$s" >> /tmp/sw/$k/list; i=$((i+1)); done
for k in $(seq 1 $W); do
 (
  cd /tmp/sw/$k/verif
  while read s; do
    id=$(basename $s); p=${id%%-*}
    R=/tmp/sw/$k/repo
    PYTHONWARNINGS=ignore PYTHONPATH=$R /venv/bin/python $s/demo.py >/dev/null 2>&1; pristine=$?
    git -C $R apply "$s/patch.diff" || { echo "$id patch-does-not-apply" >> /tmp/sw/$k/res; continue; }
    PYTHONWARNINGS=ignore PYTHONPATH=$R /venv/bin/python $s/demo.py >/dev/null 2>&1; patched=$?
    out=$(BELLOWS_REPO=$R ./check $p 2>/tmp/sw/$k/err.$id | tee /tmp/sw/$k/out.$id | grep -E "VIOLATION|KNOWN" | grep -v "^KNOWN-FINDING: property=C14 a trust" | head -2 | tr '\n' ' ')
    what=""
    rp=$(echo "$out" | sed -n 's/.*replay=\([^ ]*\).*/\1/p' | head -1)
    [ -n "$rp" ] && [ -f "$rp" ] && what=$(python3 -c "import json,sys; d=json.load(open('$rp')); print((d.get('what') or '')[:160].replace('\n',' '), '| breaks:', [b.get('kind') for b in d.get('breaks',[])])")
    git -C $R checkout -- . ; git -C $R clean -fdq
    [ -z "$out" ] && ! grep -q "quick seed=" /tmp/sw/$k/out.$id 2>/dev/null && out="HARNESS-ERROR $(tail -1 /tmp/sw/$k/err.$id | cut -c1-120)"
    echo "$id demo(pristine=$pristine patched=$patched) ${out:-QUIET} :: $what" >> /tmp/sw/$k/res
  done < /tmp/sw/$k/list
 ) &
done
wait
cat /tmp/sw/*/res | sort > /verif/seeded/SWEEP.txt
for k in $(seq 1 $W); do git -C /repo worktree remove --force /tmp/sw/$k/repo; done
rm -rf /tmp/sw
cat /verif/seeded/SWEEP.txt
