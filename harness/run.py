"""Entry point: python -m harness.run Cxx [--tier T] [--replay file]"""
import argparse
import importlib
import json
import os
import sys
import traceback
import warnings

warnings.filterwarnings("ignore")

from harness import core


def main():
    ap = argparse.ArgumentParser()
    ap.add_argument("pid")
    ap.add_argument("--tier", default=os.environ.get("VERIF_TIER", "quick"))
    ap.add_argument("--replay")
    a = ap.parse_args()
    if a.tier not in ("quick", "thorough"):
        a.tier = "quick"
    try:
        seed = int(os.environ.get("VERIF_SEED", "0"))
    except ValueError:
        seed = 0
    pid = a.pid.upper()
    # a check that hangs is a broken check, not a verdict: give up with exit 2 after a generous wall-clock limit
    import faulthandler
    import signal

    limit = int(os.environ.get("VERIF_TIMEOUT", "1800" if a.tier == "quick" else "28800"))

    def _giveup(signum, frame):
        print(f"harness error: {pid} {a.tier} exceeded {limit}s wall clock; giving up", file=sys.stderr)
        faulthandler.dump_traceback(file=sys.stderr)
        os._exit(2)

    signal.signal(signal.SIGALRM, _giveup)
    signal.alarm(limit)
    try:
        import bellows

        where = os.path.realpath(os.path.dirname(bellows.__file__))
        if not where.startswith(os.path.realpath(core.REPO)):
            raise core.Harness(f"bellows imported from {where}, expected under {core.REPO}")
    except core.Harness as e:
        print(f"harness error: {e}", file=sys.stderr)
        return 2
    except Exception:
        # the repository under test does not even import: that is a broken tree, reported by the check
        pass
    ctx = core.Ctx(pid, a.tier, seed)
    try:
        mod = importlib.import_module(f"harness.props.{pid.lower()}")
    except ModuleNotFoundError:
        print(f"no check for {pid}", file=sys.stderr)
        return 2
    try:
        if a.replay:
            obj = json.load(open(a.replay))
            ctx.build()
            rc = mod.replay(ctx, obj)
            return rc
        ctx.build()
        try:
            mod.run(ctx)
        except core.Harness:
            raise
        except Exception:
            # the check itself never raises on the tree it was built for: when it does, the code under test has
            # left the behaviour the model and the harness describe (the correspondence cannot even be established).
            # That is a break like any other: no verdict of its own, the result is decided by what the oracle found
            tb = traceback.format_exc()
            core.log(tb)
            ctx.breaks.append({"kind": "correspondence", "what": "the correspondence harness could not complete its run against this tree",
                               "case": "harness run", "impl": tb[-1500:], "model": "-"})
        if ctx.breaks and not ctx.violations and hasattr(mod, "search") and not any(b.get("case") == "harness run" for b in ctx.breaks):
            # a proof obligation or the correspondence broke: look for a concrete failing input
            core.log(f"{pid}: obligation/correspondence break -> searching for a failing input")
            mod.search(ctx)
        if a.tier == "thorough" and ctx.props_ok:
            ctx.leanchecker()
        return ctx.finish()
    except core.Harness as e:
        print(f"harness error: {e}", file=sys.stderr)
        return 2
    except Exception:
        traceback.print_exc()
        return 2


if __name__ == "__main__":
    rc = main()
    sys.stdout.flush()
    sys.stderr.flush()
    os._exit(rc)  # never wait for threads a broken tree may have left running
