"""Entry point: python -m harness.run Cxx [--tier T] [--replay file]"""
import argparse
import importlib
import json
import os
import sys
import traceback
import warnings

warnings.filterwarnings("ignore")

from harness import core


def main():
    ap = argparse.ArgumentParser()
    ap.add_argument("pid")
    ap.add_argument("--tier", default=os.environ.get("VERIF_TIER", "quick"))
    ap.add_argument("--replay")
    a = ap.parse_args()
    if a.tier not in ("quick", "thorough"):
        a.tier = "quick"
    try:
        seed = int(os.environ.get("VERIF_SEED", "0"))
    except ValueError:
        seed = 0
    pid = a.pid.upper()
    try:
        import bellows

        where = os.path.realpath(os.path.dirname(bellows.__file__))
        if not where.startswith(os.path.realpath(core.REPO)):
            raise core.Harness(f"bellows imported from {where}, expected under {core.REPO}")
    except core.Harness as e:
        print(f"harness error: {e}", file=sys.stderr)
        return 2
    except Exception:
        # the repository under test does not even import: that is a broken tree, reported by the check
        pass
    ctx = core.Ctx(pid, a.tier, seed)
    try:
        mod = importlib.import_module(f"harness.props.{pid.lower()}")
    except ModuleNotFoundError:
        print(f"no check for {pid}", file=sys.stderr)
        return 2
    try:
        if a.replay:
            obj = json.load(open(a.replay))
            ctx.build()
            rc = mod.replay(ctx, obj)
            return rc
        ctx.build()
        mod.run(ctx)
        if ctx.breaks and not ctx.violations and hasattr(mod, "search"):
            # a proof obligation or the correspondence broke: look for a concrete failing input
            core.log(f"{pid}: obligation/correspondence break -> searching for a failing input")
            mod.search(ctx)
        if a.tier == "thorough" and ctx.props_ok:
            ctx.leanchecker()
        return ctx.finish()
    except core.Harness as e:
        print(f"harness error: {e}", file=sys.stderr)
        return 2
    except Exception:
        traceback.print_exc()
        return 2


if __name__ == "__main__":
    sys.exit(main())
