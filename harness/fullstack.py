"""Run the real EZSP + Gateway + AshProtocol stack against harness.ncpfull.Ncp on the deterministic
loop: a fake serial transport replaces zigpy.serial.create_serial_connection."""
import asyncio

from harness import ncpfull, vloop


class FakeSerial:
    def __init__(self, world):
        self.w = world
        self.closing = False

    def write(self, data):
        self.w.wire_log.append(("h2n", bytes(data)))
        if self.closing:
            return
        self.w.ncp.receive(bytes(data))
        self.w.pump()

    def is_closing(self):
        return self.closing

    def close(self):
        self.closing = True
        self.w.closed = True


class World:
    def __init__(self, ncp_version, path="/dev/ttyUSB0", **kw):
        import bellows.ash as ash
        import bellows.ezsp as ezsp
        import bellows.uart as uart
        import zigpy.serial

        self.loop = vloop.VLoop().install()
        ash.time.monotonic = self.loop.time
        self.ncp = ncpfull.Ncp(ncp_version, **kw)
        self.ncp.defer = lambda d, fn: self.loop.call_later(d, lambda: (fn(), self.pump()))
        self.wire_log = []
        self.closed = False
        self.protocol = None
        self.app_events = []
        world = self

        async def fake_create(loop, factory, url=None, **kwargs):
            proto = factory()
            world.protocol = proto
            world.serial = FakeSerial(world)
            loop.call_soon(proto.connection_made, world.serial)
            return world.serial, proto

        self._orig = zigpy.serial.create_serial_connection
        zigpy.serial.create_serial_connection = fake_create
        uart.zigpy.serial.create_serial_connection = fake_create
        self.ezsp = ezsp.EZSP({"path": path, "baudrate": 115200, "flow_control": None})

    def pump(self):
        """deliver what the NCP produced, each chunk as its own I/O callback"""
        while self.ncp.out:
            b = self.ncp.out.pop(0)
            self.wire_log.append(("n2h", b))
            if self.protocol is not None and not self.closed:
                self.loop.call_soon(self._deliver, b)

    def _deliver(self, b):
        """what a stream transport does with a read: an exception escaping `data_received` is fatal - the transport closes and
        reports the loss with that exception (asyncio's `_fatal_error`)"""
        if self.closed:
            return
        try:
            self.protocol.data_received(b)
        except Exception as e:  # noqa: BLE001
            self.fatal = getattr(self, "fatal", []) + [type(e).__name__]
            self.closed = True
            self.serial.closing = True
            self.protocol.connection_lost(e)

    def run(self, coro, max_time=120.0, max_steps=4000):
        """drive the loop until the coroutine is done: settle, else fire the next timer"""
        task = self.loop.create_task(coro)
        steps = 0
        while not task.done() and steps < max_steps:
            steps += 1
            self.loop.settle()
            self.pump()
            self.loop.settle()
            if task.done():
                break
            nt = self.loop.next_timer()
            if nt is None or nt > max_time:
                break
            self.loop.fire_next_timer()
        self.loop.settle()
        if not task.done():
            task.cancel()
            self.loop.settle()
            return "hang", None
        if task.cancelled():
            return "cancelled", None
        e = task.exception()
        if e is not None:
            return "raised", e
        return "ok", task.result()

    def close(self):
        import bellows.uart as uart
        import zigpy.serial

        zigpy.serial.create_serial_connection = self._orig
        uart.zigpy.serial.create_serial_connection = self._orig
        self.loop.shutdown()
