"""C16 — EZSP.write_config: real code with a stubbed command layer vs the Lean model, plus
the property's oracle on the sequence of set commands the stub saw."""
import asyncio
import logging
import re

CAPACITY = re.compile(r"TABLE_SIZE$|CACHE_SIZE$|MAX_END_DEVICE_CHILDREN$|SUPPORTED_NETWORKS$")
PBC = "CONFIG_PACKET_BUFFER_COUNT"


def make_ezsp(version):
    import bellows.ezsp as ezsp_mod

    e = ezsp_mod.EZSP({"path": "/dev/null"})
    e._switch_protocol_version(version)
    return e


BAD = {
    # rejection statuses of each family, among them the out-of-memory ones
    "ezsp": ["ERROR_INVALID_ID", "ERROR_OUT_OF_MEMORY", "ERROR_INVALID_VALUE"],
    "ember": ["ERR_FATAL", "NO_BUFFERS", "BAD_ARGUMENT"],
    "sl": ["INVALID_PARAMETER", "NO_MORE_RESOURCE", "ALLOCATION_FAILED", "FAIL"],
}


async def impl_write(version, cur, overrides, reject, status_family, e=None):
    """returns (ops, error) where ops are canonical strings as printed by the model driver; `status_family` is
    "<family>" or "<family>/<rejection status name>"; `e` = an EZSP object that has already written a configuration"""
    import bellows.types as t

    if e is None:
        e = make_ezsp(version)
    impl_write.last = e
    ops = []
    famname, _, badname = status_family.partition("/")
    cls, okname = {"ezsp": (t.EzspStatus, "SUCCESS"), "ember": (t.EmberStatus, "SUCCESS"), "sl": (t.sl_Status, "OK")}[famname]
    ok = cls[okname]
    bad = cls[badname] if badname and badname in cls.__members__ else cls[BAD[famname][0]]

    async def command(name, *args, **kwargs):
        if name == "getValue":
            vid = int(kwargs.get("valueId", args[0] if args else None))
            ops.append(f"gv{vid}")
            if ("g", vid) in reject:
                return (bad, b"")     # the value cannot be read (it can be written all the same)
            return (ok, b"\x00")
        if name == "setValue":
            vid = int(kwargs["valueId"])
            val = int.from_bytes(kwargs["value"], "little")
            ops.append(f"sv{vid}={val}")
            return (bad if ("v", vid) in reject else ok,)
        if name == "getConfigurationValue":
            cid = int(kwargs.get("configId", args[0] if args else None))
            ops.append(f"gc{cid}")
            c = cur.get(cid)
            if c is None:
                return (bad, t.uint16_t(0xFFFF))
            return (ok, t.uint16_t(c))
        if name == "setConfigurationValue":
            cid = int(kwargs["configId"])
            ops.append(f"sc{cid}={int(kwargs['value'])}")
            return (bad if ("c", cid) in reject else ok,)
        raise AssertionError(f"unexpected command {name}")

    e._command = command
    try:
        await e.write_config(dict(overrides))
        return ops, None
    except Exception as exc:  # noqa
        return ops, f"{type(exc).__name__} {exc.args[0] if exc.args else ''}".strip().replace("'", "")


def validated_items(version, overrides):
    """the (name, value) pairs in the order `config.items()` yields them after the schema"""
    import bellows.config as conf
    import bellows.ezsp as ezsp_mod

    proto = ezsp_mod.EZSP._BY_VERSION[min(version, max(ezsp_mod.EZSP._BY_VERSION))]
    return list(proto.SCHEMAS[conf.CONF_EZSP_CONFIG](dict(overrides)).items())


def gen_case(ctx, version, keys, defaults):
    import voluptuous as vol
    import bellows.types as t

    rng = ctx.rng
    dnames = [d[0] for d in defaults]
    # overrides: mostly in-default keys, sometimes schema keys outside the defaults
    ov = {}
    k = rng.choice([0, 0, 1, 1, 2, 3, 5])
    for _ in range(k):
        name = rng.choice(dnames) if rng.random() < 0.6 else rng.choice(keys)
        if name not in keys:
            continue
        if rng.random() < 0.25:
            ov[name] = None
        else:
            ov[name] = rng.choice([0, 1, 2, 3, 5, 8, 16, 17, 32, 64, 200, 255])
    # keep only what the schema accepts
    good = {}
    for name, val in ov.items():
        try:
            validated_items(version, {name: val})
            good[name] = val
        except vol.Invalid:
            pass
    cur = {}
    # (the NCP reports a value for every setting the version's schema knows - also for those the schema fills in by itself
    # without the library's own default list naming them)
    ids = {int(t.EzspConfigId[n]) for n in set(dnames) | set(good) | {k_ for k_ in keys if k_ in t.EzspConfigId.__members__}}
    for i in ids:
        r = rng.random()
        if r < 0.15:
            cur[i] = None
        else:
            cur[i] = rng.choice([0, 1, 2, 4, 8, 15, 16, 17, 32, 33, 64, 199, 200, 201, 255, 256, 1000, 0x7FFF, 0x8000, 0xFFFE, 0xFFFF])
    reject = set()
    if rng.random() < 0.3:
        reject.add(("g", int(t.EzspValueId.VALUE_FORCE_TX_AFTER_FAILED_CCA_ATTEMPTS)))
    if rng.random() < 0.4:
        for i in ids:
            if rng.random() < 0.3:
                reject.add(("c", i))
        if rng.random() < 0.5:
            reject.add(("v", int(t.EzspValueId.VALUE_FORCE_TX_AFTER_FAILED_CCA_ATTEMPTS)))
    fam = rng.choice(["ezsp", "ember", "sl"])
    fam = fam + "/" + rng.choice(BAD[fam])
    return good, cur, reject, fam


def oracle(version, defaults, items, cur, ops, err, user=None):
    """the property, on the set commands the stub saw. returns list of (kind, message).
    `user` is what the caller passed; an item of `items` whose name the caller did not pass was filled in by the
    version's schema: it is one of the library's own defaults, not a user-supplied value"""
    import bellows.types as t

    bad = []
    user = dict(items) if user is None else user
    dmap = {n: (i, v) for n, i, v, _m in defaults}
    disabled = [n for n, v in items if v is None]
    # (what the caller passed, not what the version's schema made of it: "a user-supplied value is written exactly as given")
    overrides = {n: (user[n] if isinstance(user.get(n), int) and not isinstance(user.get(n), bool) else v) for n, v in items if v is not None and n in user}
    injected = {n: v for n, v in items if v is not None and n not in user}
    if err is not None:
        outside = [n for n in disabled if n not in dmap]
        bad.append(("raised-disabled-outside-defaults" if outside and err.startswith("KeyError") else "raised",
                    f"write_config raised {err} (disabled={disabled})"))
        return bad
    sets = [o for o in ops if o.startswith("sc") or o.startswith("sv")]
    scs = [(int(o[2:].split("=")[0]), int(o.split("=")[1])) for o in ops if o.startswith("sc")]
    ids = [i for i, _ in scs]
    if len(ids) != len(set(ids)):
        bad.append(("twice", f"a setting is written twice: {scs}"))
    svs = [o.split("=")[0] for o in ops if o.startswith("sv")]
    if len(svs) != len(set(svs)):
        bad.append(("twice", f"a value is written twice: {svs}"))
    written = dict(scs)
    for n, (i, v) in dmap.items():
        if n in overrides or n in disabled or n in injected:
            continue
        c = cur.get(i)
        if CAPACITY.search(n) and c is not None and i in written and written[i] < c:
            bad.append(("shrink", f"capacity setting {n} lowered from {c} to {written[i]}"))
        if i not in written and not (CAPACITY.search(n) and c is not None and c >= v):
            bad.append(("default-missing", f"default {n}={v} not written (current {c})"))
    for n, v in injected.items():
        i = int(t.EzspConfigId[n])
        c = cur.get(i)
        if CAPACITY.search(n) and c is not None and i in written and written[i] < c:
            bad.append(("shrink-schema-default", f"capacity setting {n} lowered from {c} to {written[i]} by the version's own schema default (no user override)"))
    for n, v in overrides.items():
        i = int(t.EzspConfigId[n])
        if written.get(i) != v:
            bad.append(("override", f"override {n}={v} not written verbatim (written: {written.get(i)})"))
    for n in disabled:
        i = int(t.EzspConfigId[n])
        if i in written:
            bad.append(("disabled-written", f"disabled setting {n} was written"))
    pbc = int(t.EzspConfigId[PBC])
    if pbc in written and sets and not sets[-1].startswith(f"sc{pbc}="):
        outside = [n for n in overrides if n not in dmap]
        bad.append(("buffer-not-last-override-outside-defaults" if outside else "buffer-not-last",
                    f"{PBC} is not the last setting written: {sets[-3:]}"))
    return bad


def defaults_of(version):
    from bellows.ezsp import config as cfgmod

    out = []
    for cfg in cfgmod.DEFAULT_CONFIG[version]:
        if isinstance(cfg, cfgmod.RuntimeConfig):
            out.append((cfg.config_id.name, int(cfg.config_id), int(cfg.value), bool(cfg.minimum)))
    return out


def schema_keys(version):
    return [k for k, _ in validated_items_all(version)]


def validated_items_all(version):
    import bellows.config as conf
    import bellows.ezsp as ezsp_mod

    proto = ezsp_mod.EZSP._BY_VERSION[version]
    sch = proto.SCHEMAS[conf.CONF_EZSP_CONFIG]
    sch = sch.schema if hasattr(sch, "schema") else sch
    return [(str(k.schema) if hasattr(k, "schema") else str(k), None) for k in sch]


def line_for(version, cur, items, user):
    import bellows.types as t

    c = ",".join(f"{i}={'x' if v is None else v}" for i, v in sorted(cur.items())) or "-"
    # `~` marks an item the caller did not pass: the version's schema filled it in
    o = ",".join(f"{'' if n in user else '~'}{n}:{int(t.EzspConfigId[n])}={'none' if v is None else v}" for n, v in items) or "-"
    return f"c16 write {version} {c} {o}"


def run_cases(ctx, cases):
    async def go():
        res = []
        for version, ov, cur, reject, fam, *chain in cases:
            # chain: this write goes through the EZSP object of the previous case (the configuration is written again after
            # every NCP reset): what an earlier write met must not change what this one does
            res.append(await impl_write(version, cur, ov, reject, fam, e=impl_write.last if chain and chain[0] else None))
        return res

    impl = asyncio.run(go())
    items_l = [validated_items(v, ov) for v, ov, *_ in cases]
    model = ctx.driver([line_for(c[0], c[2], it, c[1]) for c, it in zip(cases, items_l)])
    seen = set()
    for idx, (case, (ops, err), items) in enumerate(zip(cases, impl, items_l)):
        version, ov, cur, reject, fam = case[:5]
        chained = len(case) > 5 and case[5]
        if chained:
            ctx.count("second_write_same_object")
        ctx.cov["evaluations"] += 1
        defaults = defaults_of(version)
        canon = (version, tuple(sorted(cur.items(), key=str)), tuple(items), tuple(sorted(reject)))
        dn = {d[0] for d in defaults}
        skipped = any(m and cur.get(i) is not None and cur[i] >= v and n not in dict(items) for n, i, v, m in defaults)
        if canon not in seen and (items or skipped):
            seen.add(canon)
            ctx.cov["distinct_nontrivial"] += 1
        ctx.count(f"version:{version}")
        ctx.count(f"overrides:{len(items)}")
        if reject:
            ctx.count("with_rejections")
        if any(v is None for _, v in items):
            ctx.count("with_disabled")
        if any(n not in dn for n, _ in items):
            ctx.count("override_outside_defaults")
        if any(n not in ov for n, _ in items):
            ctx.count("with_schema_filled_items")
        for kind, msg in oracle(version, defaults, items, cur, ops, err, ov):
            ctx.count(f"oracle:{kind}")
            key = {"kind": kind}
            ctx.violation(msg, key, {"version": version, "overrides": ov, "current": {str(k): v for k, v in cur.items()},
                                     "reject": sorted(reject), "status_family": fam, "impl_ops": ops, "impl_error": err,
                                     "after": ({"overrides": cases[idx - 1][1], "current": {str(k): v for k, v in cases[idx - 1][2].items()},
                                                "reject": sorted(cases[idx - 1][3]), "status_family": cases[idx - 1][4]} if chained else None)})
        if model is not None:
            got = " ".join(ops) if err is None else f"ERR {err}"
            if got != model[idx]:
                ctx.corr_diff("write_config command trace differs from the model", {"version": version, "overrides": ov,
                              "current": {str(k): v for k, v in cur.items()}}, got, model[idx])
        if idx % 400 == 3:
            ctx.sample({"version": version, "overrides": ov, "current": {str(k): v for k, v in cur.items()},
                        "impl": " ".join(ops) if err is None else err, "model": model[idx] if model else None})


def run(ctx, n=None):
    logging.disable(logging.CRITICAL)
    from bellows.ezsp import config as cfgmod

    cases = []
    versions = sorted(cfgmod.DEFAULT_CONFIG)
    per = n or ctx.n(250, 3000)
    for version in versions:
        keys = schema_keys(version)
        defaults = defaults_of(version)
        # fixed corner cases first
        cases.append((version, {}, {}, set(), "ezsp"))
        cases.append((version, {}, {d[1]: d[2] for d in defaults}, set(), "sl"))
        cases.append((version, {}, {d[1]: d[2] - 1 for d in defaults}, {("c", d[1]) for d in defaults}, "ember"))
        # every schema key overridden alone, with every value of a small grid the schema accepts: written exactly as given
        for name in keys:
            for val in (0, 1, 2, 3, 4, 5, 8, 9, 12, 16, 17, 20, 25, 26, 32, 64, 200, 255):
                try:
                    validated_items(version, {name: val})
                except Exception:  # noqa: BLE001  (the schema does not take this value for this key)
                    continue
                cases.append((version, {name: val}, {}, set(), "ezsp"))
        for k in range(per):
            c = gen_case(ctx, version, keys, defaults)
            cases.append((version,) + c)
            if k % 5 == 0:
                # the same settings written again through the same EZSP object after an NCP reset, the NCP now accepting
                # everything (and, every other time, with other current values)
                good, cur, reject, fam = c
                cur2 = cur if k % 10 == 0 else {i: ctx.rng.choice([None, 0, 1, 7, 16, 64, 255]) for i in cur}
                cases.append((version, good, cur2, set(), fam, True))
        # an NCP short of memory: grow-only defaults far above the current values, refused with the out-of-memory status
        for fam in ("ezsp/ERROR_OUT_OF_MEMORY", "sl/NO_MORE_RESOURCE", "ember/NO_BUFFERS"):
            cases.append((version, {}, {d[1]: max(1, d[2] // 8) for d in defaults}, {("c", d[1]) for d in defaults}, fam))
            cases.append((version, {}, {d[1]: 1 for d in defaults}, {("c", d[1]) for d in defaults if d[3]}, fam))
    run_cases(ctx, cases)
    ctx.cov["rule"] = ("protocol versions with a default list × seeded random current values per setting (below/equal/above the default, unreadable) × "
                       "random override sets drawn from the version's schema keys (in and outside the defaults; values or disabled) × random reject answers (several rejection statuses per family incl. out of memory) × "
                       "status family; every fifth case followed by a second write through the same EZSP object; an NCP refusing the grow-only defaults for lack of memory; non-trivial = at least one override/disabled key or one grow-only skip; distinct after canonicalisation")


def search(ctx):
    run(ctx, n=3000)


def replay(ctx, obj):
    logging.disable(logging.CRITICAL)
    r = obj["replay"]
    cur = {int(k): v for k, v in r["current"].items()}
    reject = {tuple(x) for x in r["reject"]}
    async def _go():
        e = None
        if r.get("after"):
            a = r["after"]
            await impl_write(r["version"], {int(k): v for k, v in a["current"].items()}, a["overrides"], {tuple(x) for x in a["reject"]}, a["status_family"])
            e = impl_write.last
        return await impl_write(r["version"], cur, r["overrides"], reject, r["status_family"], e=e)

    ops, err = asyncio.run(_go())
    items = validated_items(r["version"], r["overrides"])
    bad = oracle(r["version"], defaults_of(r["version"]), items, cur, ops, err, r["overrides"])
    print(f"replay: v{r['version']} overrides={r['overrides']}: ops={ops} err={err}")
    for k, m in bad:
        print("  FAILS:", m)
    if bad:
        print(f"VIOLATION property={ctx.pid} replay=replay")
    return 1 if bad else 0
