"""C20 — thread-safe proxy: the real ThreadsafeProxy + EventLoopThread with real threads; every method
kind x where the attribute is looked up x where it is called x owner-loop state; bursts for ordering.
The Lean model predicts the action; the harness observes where the body ran and what the caller saw."""
import asyncio
import functools
import logging
import threading
import time


def _sync_around_async(fn):
    """a bookkeeping decorator as found in application code: an ordinary function (functools.wraps keeps `__wrapped__`
    pointing at the `async def`) that does synchronous work on the object and hands back the coroutine"""
    @functools.wraps(fn)
    def wrapper(self, tag):
        self._rec(tag)
        return fn(self, tag)
    return wrapper


class Obj:
    """the wrapped object: every method records the thread and running loop it executes on"""
    value = 5

    def __init__(self):
        self.calls = []

    def _rec(self, tag):
        try:
            loop = asyncio.get_running_loop()
        except RuntimeError:
            loop = None
        self.calls.append((tag, threading.get_ident(), id(loop)))

    def plain(self, tag):
        self._rec(tag)

    def plain_ret(self, tag):
        self._rec(tag)
        return 7

    def plain_zero(self, tag):
        self._rec(tag)
        return 0  # "must return nothing": a falsy value is still a value

    def plain_empty(self, tag):
        self._rec(tag)
        return ""

    async def coro(self, tag):
        self._rec(tag)
        await asyncio.sleep(0)
        return ("ret", tag)

    def plain_kw(self, tag, name=None, func=None, loop=None):
        """keyword arguments whose names a dispatcher might use itself"""
        self._rec(tag)

    async def coro_kw(self, tag, name=None, func=None, loop=None):
        self._rec(tag)
        await asyncio.sleep(0)
        return ("ret", tag) if (name, func, loop) == ("n", "f", "l") else ("args-lost", tag)

    async def coro_slow_cleanup(self, tag, seconds):
        """in flight for a long time; when cancelled its clean-up takes `seconds`, then it reports"""
        self._rec(tag)
        try:
            await asyncio.sleep(60)
        except asyncio.CancelledError:
            await asyncio.sleep(seconds)
            return ("cleaned", tag)
        return ("ret", tag)

    async def coro_slow(self, tag, seconds):
        """legitimately slow on the owner's loop (a reset wait, several retransmissions)"""
        self._rec(tag)
        await asyncio.sleep(seconds)
        return ("ret", tag)

    async def coro_slow_raise(self, tag, seconds):
        self._rec(tag)
        await asyncio.sleep(seconds)
        raise ValueError(tag)

    @_sync_around_async
    async def plain_deco(self, tag):
        """a plain (non-coroutine) method as far as the proxy is concerned: it returns a value (a coroutine object)"""
        return ("ret", tag)

    async def coro_raise(self, tag):
        self._rec(tag)
        raise ValueError(tag)

    def plain_raise(self, tag):
        self._rec(tag)
        raise KeyError(tag)

    async def coro_long(self, tag):
        """in flight for a long time; ends at once when cancelled"""
        self._rec(tag)
        await asyncio.sleep(30)
        return ("ret", tag)

    async def coro_cleanup(self, tag):
        """in flight for a long time; when cancelled it needs a few more loop iterations to unwind, then reports"""
        self._rec(tag)
        try:
            await asyncio.sleep(30)
        except asyncio.CancelledError:
            for _ in range(5):
                await asyncio.sleep(0.01)
            return ("cleaned", tag)
        return ("ret", tag)


async def stopping_scenario(n_long, n_cleanup, order_seed, immediate=False):
    """a burst of coroutine calls is in flight on the owner's loop when that loop is stopped (force_stop): every caller
    must get an outcome (a result or an exception), none may be left waiting"""
    import random

    import bellows.thread as th

    thread = th.EventLoopThread()
    await thread.start()
    obj = Obj()
    proxy = th.ThreadsafeProxy(obj, thread.loop)
    kinds = ["coro_long"] * n_long + ["coro_cleanup"] * n_cleanup
    random.Random(order_seed).shuffle(kinds)
    futs = []
    try:
        for i, k in enumerate(kinds):
            futs.append(asyncio.ensure_future(getattr(proxy, k)(1000 + i)))
        if not immediate:
            await asyncio.sleep(0.1)
        started = len(obj.calls) if not immediate else len(kinds)   # immediate: the stop request follows the calls at once
        thread.force_stop()
        done, pending = await asyncio.wait(futs, timeout=4.0) if futs else (set(), set())
        outcomes = []
        for f, k in zip(futs, kinds):
            if f in pending:
                outcomes.append(f"{k}:HANG")
                f.cancel()
            elif f.cancelled():
                outcomes.append(f"{k}:cancelled")
            elif f.exception() is not None:
                outcomes.append(f"{k}:exc:{type(f.exception()).__name__}")
            else:
                outcomes.append(f"{k}:value")
        try:
            await asyncio.wait_for(asyncio.shield(thread.thread_complete), 4.0)
            stopped = True
        except asyncio.TimeoutError:
            stopped = False
        return kinds, started, outcomes, stopped
    finally:
        try:
            thread.force_stop()
        except Exception:  # noqa: BLE001
            pass


async def paused_scenario(started_before):
    """the owner's loop exists and is not closed, but is not running at the moment of the calls (not started yet, or between two
    `run_until_complete` / `run_forever` stretches): calls from another loop are queued and run on the owner's thread once it runs
    again; coroutine callers get their result / exception.  Returns observation rows."""
    import bellows.thread as th

    owner_loop = asyncio.new_event_loop()
    paused, resume = threading.Event(), threading.Event()
    info = {}

    def owner_main():
        info["tid"] = threading.get_ident()
        asyncio.set_event_loop(owner_loop)
        if started_before:
            owner_loop.run_until_complete(asyncio.sleep(0))   # a first stretch, then the loop is idle (alive, not running)
        paused.set()
        resume.wait(10)
        owner_loop.run_forever()

    t = threading.Thread(target=owner_main, daemon=True)
    t.start()
    main = asyncio.get_running_loop()
    await main.run_in_executor(None, paused.wait, 10)
    obj = Obj()
    proxy = th.ThreadsafeProxy(obj, owner_loop)
    errors_on_owner = []
    owner_loop.set_exception_handler(lambda l, c: errors_on_owner.append(type(c.get("exception")).__name__))
    rows = []
    got = {}
    try:
        for tag, kind in ((1, "plain"), (2, "coro"), (3, "coro_raise"), (4, "plain")):
            try:
                got[tag] = (kind, getattr(proxy, kind)(tag))
            except Exception as e:  # noqa: BLE001
                got[tag] = (kind, ("callraised", type(e).__name__))
        resume.set()
        for tag, (kind, r) in got.items():
            if asyncio.isfuture(r):
                try:
                    seen = ("value", (await asyncio.wait_for(r, 5))[1])
                except ValueError as e:
                    seen = ("raised", e.args[0])
                except asyncio.TimeoutError:
                    seen = ("hang", "")
                except Exception as e:  # noqa: BLE001
                    seen = ("error", type(e).__name__)
            elif isinstance(r, tuple):
                seen = r
            else:
                seen = ("plainret", r)
            got[tag] = (kind, seen)
        fut = asyncio.run_coroutine_threadsafe(asyncio.sleep(0.02), owner_loop)
        await asyncio.wait_for(asyncio.wrap_future(fut), 5)
        for tag, (kind, seen) in got.items():
            ran = [c for c in obj.calls if c[0] == tag]
            where = "none" if not ran else ("owner" if ran[0][1] == info["tid"] and ran[0][2] == id(owner_loop) else "elsewhere")
            rows.append((kind, tag, f"ran={where} saw={seen[0]}:{seen[1]}"))
        order = [c[0] for c in obj.calls if c[0] in (1, 4)]
        rows.append(("order", 0, "fifo" if order == [1, 4] else f"order:{order}"))
    finally:
        resume.set()
        owner_loop.call_soon_threadsafe(owner_loop.stop)
        await main.run_in_executor(None, t.join, 5)
        if not t.is_alive():
            owner_loop.close()
    return rows


async def slow_scenario(seconds):
    """coroutine calls from another loop that take `seconds` on the owner's loop: the caller gets the result / the exception,
    however long it takes"""
    import bellows.thread as th

    thread = th.EventLoopThread()
    await thread.start()
    obj = Obj()
    proxy = th.ThreadsafeProxy(obj, thread.loop)
    out = []
    try:
        f1 = proxy.coro_slow(1, seconds)
        f2 = proxy.coro_slow_raise(2, seconds)
        for tag, f in ((1, f1), (2, f2)):
            try:
                r = await asyncio.wait_for(f, seconds + 8)
                out.append((tag, f"value:{r[1]}"))
            except ValueError as e:
                out.append((tag, f"raised:{e.args[0]}"))
            except asyncio.TimeoutError:
                out.append((tag, "TimeoutError"))
            except BaseException as e:  # noqa: BLE001
                out.append((tag, f"error:{type(e).__name__}"))
    finally:
        thread.force_stop()
    return out


async def slow_stop_scenario(seconds):
    """the owner's loop is stopped while a coroutine call is in flight whose clean-up on cancellation takes `seconds`: the caller
    still gets the outcome once the clean-up has finished"""
    import bellows.thread as th

    thread = th.EventLoopThread()
    await thread.start()
    obj = Obj()
    proxy = th.ThreadsafeProxy(obj, thread.loop)
    f = asyncio.ensure_future(proxy.coro_slow_cleanup(1, seconds))
    await asyncio.sleep(0.2)
    thread.force_stop()
    try:
        r = await asyncio.wait_for(f, seconds + 6)
        return f"value:{r[0]}"
    except asyncio.CancelledError:
        return "cancelled"
    except asyncio.TimeoutError:
        return "HANG"
    except BaseException as e:  # noqa: BLE001
        return f"exc:{type(e).__name__}"


async def window_stop_scenario():
    """force_stop() issued right after start() returned - the secondary thread is still between `run_until_complete(init_task)`
    and `run_forever()`: the stop must still take effect (the loop stops and is closed; calls afterwards are dropped, not run).
    The window is made deterministic by holding the second run_forever() of the new loop (nothing of bellows is patched)."""
    import threading as _th
    from unittest import mock

    import bellows.thread as th

    in_window, release = _th.Event(), _th.Event()
    probe = asyncio.new_event_loop()
    base = type(probe)
    probe.close()

    class Gated(base):
        _rf = 0

        def run_forever(self):
            self._rf += 1
            if self._rf == 2:
                in_window.set()
                release.wait(10)
            return super().run_forever()

    thread = th.EventLoopThread()
    with mock.patch.object(asyncio, "new_event_loop", Gated):
        done = await thread.start()
    loop = thread.loop
    ok = await asyncio.get_running_loop().run_in_executor(None, in_window.wait, 5)
    if not ok or loop is None:
        release.set()
        return "setup-failed"
    obj = Obj()
    proxy = th.ThreadsafeProxy(obj, loop)
    thread.force_stop()
    release.set()
    try:
        await asyncio.wait_for(asyncio.shield(done), 3)
        ended = True
    except asyncio.TimeoutError:
        ended = False
    closed = loop.is_closed()
    before = len(obj.log) if hasattr(obj, "log") else None
    try:
        r = proxy.plain(5)
        late = "dropped" if r is None else f"returned:{r!r}"
    except BaseException as e:  # noqa: BLE001
        late = f"raised:{type(e).__name__}"
    if not ended:
        # let the thread go whatever happened, so that the process can end
        try:
            loop.call_soon_threadsafe(loop.stop)
        except RuntimeError:
            pass
    return f"ended={ended} closed={closed} late-call={late}"


async def rebind_scenario():
    """the wrapped object re-binds an attribute after it was used through the proxy once: every use goes by what the attribute
    is *now* (another coroutine, a plain method, something that is not callable)"""
    import bellows.thread as th

    thread = th.EventLoopThread()
    await thread.start()
    out = []
    try:
        class Box:
            pass

        box = Box()
        ran = []

        async def first(tag):
            ran.append(("first", threading.get_ident()))
            return ("first", tag)

        async def second(tag):
            ran.append(("second", threading.get_ident()))
            return ("second", tag)

        def plain(tag):
            ran.append(("plain", threading.get_ident()))

        proxy = th.ThreadsafeProxy(box, thread.loop)
        box.hook = first
        out.append(("first", (await asyncio.wait_for(proxy.hook(1), 5))[0]))
        box.hook = second
        out.append(("second", (await asyncio.wait_for(proxy.hook(2), 5))[0]))
        box.hook = plain
        r = proxy.hook(3)
        await thread.run_coroutine_threadsafe(asyncio.sleep(0.02))
        out.append(("plain", "queued" if r is None and ran[-1][0] == "plain" else f"r={r!r} ran={ran[-1][0]}"))
        box.hook = 5
        try:
            proxy.hook
            out.append(("noncallable", "accepted"))
        except TypeError:
            out.append(("noncallable", "refused"))
    except BaseException as e:  # noqa: BLE001
        out.append(("error", type(e).__name__))
    finally:
        thread.force_stop()
    return out


async def names_values_scenario():
    """names and values are transparent: a method whose name starts with an underscore is a method like any other (it runs on the
    owner's loop and thread), a non-callable private attribute is refused like a public one, and a coroutine's return value is
    relayed as a value whatever its type - also when it is an exception instance"""
    import bellows.thread as th

    thread = th.EventLoopThread()
    await thread.start()
    out = []
    me = threading.get_ident()
    try:
        class Box:
            def __init__(self):
                self.ran = []
                self._data = 5

            def _flush(self, tag):
                self.ran.append(("_flush", threading.get_ident()))

            async def _drain(self, tag):
                self.ran.append(("_drain", threading.get_ident()))
                return ("ret", tag)

            def __reset__(self, tag):
                self.ran.append(("__reset__", threading.get_ident()))

            async def last_error(self, tag):
                self.ran.append(("last_error", threading.get_ident()))
                return ValueError(tag)

            async def last_cancel(self, tag):
                return asyncio.CancelledError()

        box = Box()
        proxy = th.ThreadsafeProxy(box, thread.loop)

        def where(name):
            hit = [t for n, t in box.ran if n == name]
            return "not-run" if not hit else ("caller-thread" if hit[-1] == me else "owner-thread")

        r = proxy._flush(1)
        await thread.run_coroutine_threadsafe(asyncio.sleep(0.02))
        out.append(("_flush", f"{'queued' if r is None else 'returned:' + repr(r)} {where('_flush')}"))
        r = await asyncio.wait_for(proxy._drain(2), 5)
        out.append(("_drain", f"{r!r} {where('_drain')}"))
        r = proxy.__reset__(3)
        await thread.run_coroutine_threadsafe(asyncio.sleep(0.02))
        out.append(("__reset__", f"{'queued' if r is None else 'returned:' + repr(r)} {where('__reset__')}"))
        try:
            proxy._data
            out.append(("_data", "accepted"))
        except TypeError:
            out.append(("_data", "refused"))
        try:
            r = await asyncio.wait_for(proxy.last_error(4), 5)
            out.append(("last_error", f"value:{type(r).__name__}:{r.args!r} {where('last_error')}"))
        except BaseException as e:  # noqa: BLE001
            out.append(("last_error", f"raised:{type(e).__name__}"))
        try:
            r = await asyncio.wait_for(proxy.last_cancel(5), 5)
            out.append(("last_cancel", f"value:{type(r).__name__}"))
        except BaseException as e:  # noqa: BLE001
            out.append(("last_cancel", f"raised:{type(e).__name__}"))
    except BaseException as e:  # noqa: BLE001
        out.append(("error", type(e).__name__))
    finally:
        thread.force_stop()
    return out


NAMES_VALUES_WANT = {"_flush": "queued owner-thread", "_drain": "('ret', 2) owner-thread", "__reset__": "queued owner-thread", "_data": "refused",
                     "last_error": "value:ValueError:(4,) owner-thread", "last_cancel": "value:CancelledError"}


async def scenario(ctx_rows, burst):
    import bellows.thread as th

    main_loop = asyncio.get_running_loop()
    main_tid = threading.get_ident()
    thread = th.EventLoopThread()
    await thread.start()
    owner_loop = thread.loop
    info = {}

    async def on_owner():
        info["tid"] = threading.get_ident()
        return True

    await thread.run_coroutine_threadsafe(on_owner())
    owner_tid = info["tid"]
    obj = Obj()
    proxy = th.ThreadsafeProxy(obj, owner_loop)
    errors_on_owner = []
    owner_loop.call_soon_threadsafe(owner_loop.set_exception_handler, lambda l, c: errors_on_owner.append(type(c.get("exception")).__name__))

    async def settle_owner():
        await thread.run_coroutine_threadsafe(asyncio.sleep(0.01))

    rows = []
    tagn = [0]

    async def one(kind, lookup, caller, pending_extra=None):
        """kind: attr/plain/plain_ret/coro/coro_raise; lookup, caller in {'main', 'owner'}"""
        tagn[0] += 1
        tag = tagn[0]
        name = {"attr": "value"}.get(kind, kind)
        seen = {}

        def do_lookup():
            return getattr(proxy, name)

        async def lookup_on(where):
            if where == "main":
                return do_lookup()

            async def f():
                return do_lookup()

            return await thread.run_coroutine_threadsafe(f())

        try:
            fn = await lookup_on(lookup)
        except TypeError:
            rows.append((kind, lookup, caller, 0, "refuse"))
            return

        async def call_here():
            t0 = time.monotonic()
            try:
                r = fn(tag, name="n", func="f", loop="l") if kind.endswith("_kw") else fn(tag)
            except Exception as e:
                return ("callraised", type(e).__name__), time.monotonic() - t0
            if asyncio.isfuture(r) or asyncio.iscoroutine(r):
                try:
                    r = ("value", await asyncio.wait_for(r, 5))
                except ValueError as e:
                    r = ("raised", e.args[0])
                except asyncio.TimeoutError:
                    r = ("hang",)
                except Exception as e:  # e.g. a future bound to the wrong loop
                    r = ("error", type(e).__name__)
            else:
                r = ("plainret", r)
            return r, time.monotonic() - t0

        if caller == "main":
            res, dt = await call_here()
        else:
            res, dt = await thread.run_coroutine_threadsafe(call_here())
        await settle_owner()
        ran = [c for c in obj.calls if c[0] == tag]
        where = "none" if not ran else ("owner" if ran[0][1] == owner_tid else "caller-thread")
        loopw = "none" if not ran else ("owner" if ran[0][2] == id(owner_loop) else "other-loop")
        rows.append((kind, lookup, caller, 0, f"ran={where}/{loopw} saw={res[0]}:{res[1] if len(res) > 1 and not isinstance(res[1], tuple) else (res[1][1] if len(res) > 1 and res[1] else '')} owner_err={len(errors_on_owner)}"))
        errors_on_owner.clear()

    try:
        for kind in ("attr", "plain", "plain_kw", "plain_ret", "plain_zero", "plain_empty", "plain_deco", "coro", "coro_kw", "coro_raise"):
            for lookup in ("main", "owner"):
                for caller in ("main", "owner"):
                    await one(kind, lookup, caller)
    except BaseException:
        thread.force_stop()  # never leave the owner thread running: the interpreter would wait for it at exit
        raise
    # ordering of queued plain calls from another loop
    base = tagn[0]
    fn = proxy.plain
    for i in range(burst):
        tagn[0] += 1
        fn(tagn[0])
    await settle_owner()
    order = [c[0] for c in obj.calls if c[0] > base]
    rows.append(("burst", "main", "main", 0, "fifo" if order == list(range(base + 1, base + burst + 1)) and all(c[1] == owner_tid for c in obj.calls if c[0] > base) else f"order:{order[:10]}"))
    # a burst in which some queued calls fail on the owner (a method that raises, one that returns a value): the calls queued
    # behind them, and later ones, still run, in order
    base = tagn[0]
    kinds = ["plain", "plain_ret", "plain", "plain_raise", "plain", "plain", "plain_raise", "plain"]
    expect_run = []
    for k in kinds * 3:
        tagn[0] += 1
        getattr(proxy, k)(tagn[0])
        expect_run.append(tagn[0])
    await settle_owner()
    tagn[0] += 1
    proxy.plain(tagn[0])
    expect_run.append(tagn[0])
    await settle_owner()
    ran = [c[0] for c in obj.calls if c[0] > base]
    rows.append(("mixedburst", "main", "main", 0, "all-ran" if ran == expect_run else f"ran {len(ran)} of {len(expect_run)} queued calls: {ran[:12]}"))
    errors_on_owner.clear()
    # closed owner loop
    thread.force_stop()
    await thread.thread_complete
    for kind in ("plain", "coro"):
        tagn[0] += 1
        tag = tagn[0]
        t0 = time.monotonic()
        try:
            r = getattr(proxy, kind)(tag)
            if asyncio.isfuture(r):
                r = "future"
        except Exception as e:
            r = f"raised:{type(e).__name__}"
        dt = time.monotonic() - t0
        ran = [c for c in obj.calls if c[0] == tag]
        rows.append((kind, "main", "main", 1, f"ran={'none' if not ran else 'somewhere'} saw={r} fast={dt < 1.0}"))
    return rows


EXPECT = {
    # (model action, kind) -> observation
    ("refuse", "attr"): "refuse",
}


def expect(kind, caller, closed, action):
    if action == "refuse":
        return "refuse"
    if action == "drop":
        return "ran=none saw=None fast=True"
    if kind == "plain_kw":
        kind = "plain"
    if kind == "coro_kw":
        kind = "coro"
    if action == "here":
        if kind == "plain":
            return "ran=owner/owner saw=plainret:None owner_err=0"
        if kind == "plain_ret":
            return "ran=owner/owner saw=plainret:7 owner_err=0"
        if kind == "plain_zero":
            return "ran=owner/owner saw=plainret:0 owner_err=0"
        if kind == "plain_empty":
            return "ran=owner/owner saw=plainret: owner_err=0"
        if kind in ("coro", "plain_deco"):
            return "ran=owner/owner saw=value:" + "TAG" + " owner_err=0"
        return "ran=owner/owner saw=raised:TAG owner_err=0"
    if action == "owner-queue":
        if kind == "plain":
            return "ran=owner/owner saw=plainret:None owner_err=0"
        return "ran=owner/owner saw=plainret:None owner_err=1"   # a returned value is an error on the owner
    if action == "owner-await":
        return "ran=owner/owner saw=" + ("value:TAG" if kind == "coro" else "raised:TAG") + " owner_err=0"
    return "?"


def run(ctx):
    logging.disable(logging.CRITICAL)
    rounds = ctx.n(3, 20)
    # calls that are slow on the owner's loop run next to everything else (own thread, own caller loop)
    slow_secs = ctx.n(10.6, 31.0)
    slow_out = {}
    slow_thread = threading.Thread(target=lambda: slow_out.setdefault("rows", asyncio.run(slow_scenario(slow_secs))), daemon=True)
    slow_thread.start()
    stop_secs = ctx.n(3.6, 8.0)
    stop_out = {}
    stop_thread = threading.Thread(target=lambda: stop_out.setdefault("r", asyncio.run(slow_stop_scenario(stop_secs))), daemon=True)
    stop_thread.start()
    allrows = []
    for r in range(rounds):
        allrows.append(asyncio.run(scenario(None, ctx.n(200, 1000))))
    lines = []
    for rows in allrows:
        for kind, lookup, caller, closed, obs in rows:
            if kind in ("burst", "mixedburst"):
                continue
            mk = {"attr": "attr", "plain": "plain", "plain_kw": "plain", "plain_ret": "plain", "plain_zero": "plain", "plain_empty": "plain", "plain_deco": "plain", "coro": "coro", "coro_kw": "coro", "coro_raise": "coro"}[kind]
            lines.append(f"c20 {mk} {1 if caller == 'owner' else 0} {closed}")
    model = ctx.driver(lines)
    k = 0
    import re

    for rows in allrows:
        for kind, lookup, caller, closed, obs in rows:
            ctx.cov["evaluations"] += 1
            ctx.cov["distinct_nontrivial"] += 1
            ctx.count(f"kind:{kind}")
            if kind == "burst":
                if obs != "fifo":
                    ctx.violation(f"queued calls did not run in call order on the owner's thread: {obs}", {"kind": "order"}, {"kind": "burst"})
                continue
            if kind == "mixedburst":
                if obs != "all-ran":
                    ctx.violation(f"queued plain calls behind a failing one were not all executed in order on the owner: {obs}", {"kind": "order"}, {"kind": "mixedburst"})
                continue
            action = model[k] if model is not None else None
            k += 1
            # ---- oracle (the property, independent of the model)
            bad = None
            if kind == "attr":
                if obs != "refuse":
                    bad = "a non-callable attribute was not refused"
            elif closed:
                if "ran=none" not in obs or "fast=True" not in obs:
                    bad = f"call on a closed owner loop executed or blocked: {obs}"
                elif "saw=None" not in obs:
                    bad = f"{kind} call on a closed owner loop was not dropped silently: {obs}"
            else:
                if caller == "main" and "ran=owner/owner" not in obs:
                    bad = f"{kind} looked up on {lookup}, called from another loop, did not run on the owner's loop and thread: {obs}"
                if caller == "owner" and "ran=owner/owner" not in obs:
                    bad = f"{kind} called from the owner's loop did not run there: {obs}"
                if kind in ("coro", "coro_kw") and "saw=value:" not in obs:
                    bad = f"coroutine result not relayed to the caller: {obs}"
                if kind == "coro_raise" and "saw=raised:" not in obs:
                    bad = f"coroutine exception not relayed to the caller: {obs}"
                if kind in ("plain", "plain_kw", "plain_ret", "plain_zero", "plain_empty", "plain_deco") and caller == "main" and "saw=plainret:None" not in obs:
                    bad = f"plain call from another loop returned something to the caller: {obs}"
                if kind in ("plain_ret", "plain_zero", "plain_empty", "plain_deco") and caller == "main" and "owner_err=1" not in obs:
                    bad = f"a plain method returning a value through the proxy was not reported as an error on the owner: {obs}"
            if bad:
                ctx.violation(bad, {"kind": "proxy", "method": kind, "lookup": lookup, "caller": caller}, {"kind": kind, "lookup": lookup, "caller": caller, "closed": closed, "obs": obs})
            if action is not None:
                want = expect(kind, caller, closed, action)
                got = re.sub(r"(value|raised):\d+", r"\1:TAG", obs)
                if want != got:
                    ctx.corr_diff(f"proxy behaviour differs for {kind} (lookup {lookup}, caller {caller}, closed {closed})", {"kind": kind, "lookup": lookup, "caller": caller}, got, f"{action} => {want}")
    slow_thread.join(slow_secs + 30)
    for tag, obs in slow_out.get("rows", [(0, "scenario did not finish")]):
        ctx.cov["evaluations"] += 1
        ctx.cov["distinct_nontrivial"] += 1
        ctx.count("slow-coroutine-call")
        want = {1: "value:1", 2: "raised:2"}.get(tag)
        if obs != want:
            ctx.violation(f"a coroutine call from another loop that takes {slow_secs}s on the owner's loop: the caller saw {obs}, expected {want} (the result or the exception of the method, however long it takes)",
                          {"kind": "slow"}, {"kind": "slow", "seconds": slow_secs})
    stop_thread.join(stop_secs + 30)
    ctx.cov["evaluations"] += 1
    ctx.count("stopping-with-slow-cleanup")
    if stop_out.get("r") not in ("value:cleaned", "cancelled"):
        ctx.violation(f"owner loop stopped with a coroutine call in flight whose clean-up takes {stop_secs}s: the caller saw {stop_out.get('r')}, expected the call's outcome "
                      f"(its value once the clean-up is over, or a cancellation) - not to be left waiting", {"kind": "slow-stop"}, {"kind": "slow-stop", "seconds": stop_secs})
    for kind, obs in asyncio.run(rebind_scenario()):
        ctx.cov["evaluations"] += 1
        ctx.count("rebound-attribute")
        want = {"first": "first", "second": "second", "plain": "queued", "noncallable": "refused"}.get(kind)
        if obs != want:
            ctx.violation(f"attribute re-bound on the wrapped object after a first use through the proxy ({kind}): observed {obs}, expected {want}",
                          {"kind": "rebind"}, {"kind": "rebind"})
    # names and values are transparent
    for kind, obs in asyncio.run(names_values_scenario()):
        ctx.cov["evaluations"] += 1
        ctx.cov["distinct_nontrivial"] += 1
        ctx.count("names-values:" + kind)
        want = NAMES_VALUES_WANT.get(kind)
        if obs != want:
            ctx.violation(f"through the proxy from another loop, {kind}: observed {obs}, expected {want} (a private name is a name like any other; a returned "
                          "exception instance is a value)", {"kind": "names-values"}, {"kind": "names-values"})
    # the stop request in the start-up window
    for _ in range(ctx.n(2, 5)):
        obs = asyncio.run(window_stop_scenario())
        ctx.cov["evaluations"] += 1
        ctx.cov["distinct_nontrivial"] += 1
        ctx.count("stop-in-startup-window")
        if obs == "setup-failed":
            continue
        if obs != "ended=True closed=True late-call=dropped":
            ctx.violation("force_stop() requested right after start() returned (the secondary thread had not entered run_forever() yet): expected the owner's loop to stop "
                          f"and be closed and later calls to be dropped, observed {obs}", {"kind": "window-stop"}, {"kind": "window-stop"})
    # owner loop alive but not running at the moment of the calls
    for started_before in (False, True):
        for _ in range(ctx.n(2, 6)):
            rows = asyncio.run(paused_scenario(started_before))
            for kind, tag, obs in rows:
                ctx.cov["evaluations"] += 1
                ctx.cov["distinct_nontrivial"] += 1
                ctx.count("paused-owner:" + kind)
                want = {"plain": "ran=owner saw=plainret:None", "coro": f"ran=owner saw=value:{tag}", "coro_raise": f"ran=owner saw=raised:{tag}", "order": "fifo"}[kind]
                if obs != want:
                    ctx.violation(f"owner loop alive but not running ({'between two runs' if started_before else 'not started yet'}) when a {kind} call was made from another loop: "
                                  f"expected the call to run on the owner's loop and thread once it runs and the outcome to be relayed ({want}), got {obs}",
                                  {"kind": "paused"}, {"kind": "paused", "started_before": started_before})
    # owner loop stopping with a burst of coroutine calls in flight
    for (nl, nc) in [(1, 0), (0, 1), (1, 1), (2, 2), (3, 1), (1, 3)] + ([(4, 4), (0, 5), (5, 0)] if ctx.tier == "thorough" else []):
        for seed in range(ctx.n(4, 12)):
            immediate = seed % 2 == 1
            kinds, started, outcomes, stopped = asyncio.run(stopping_scenario(nl, nc, seed, immediate))
            ctx.cov["evaluations"] += 1
            ctx.cov["distinct_nontrivial"] += 1
            ctx.count("stopping-burst")
            bad = None
            if started != len(kinds):
                continue  # the burst had not started yet on this (slow) run: nothing to judge
            hung = [o for o in outcomes if o.endswith("HANG")]
            if hung:
                bad = (f"owner loop stopped with {len(kinds)} coroutine calls in flight ({' '.join(kinds)}): {len(hung)} caller(s) received neither a result nor an exception "
                       f"({' '.join(outcomes)})")
            elif not stopped:
                bad = f"owner loop thread did not end after force_stop with calls in flight ({' '.join(outcomes)})"
            if bad:
                ctx.violation(bad, {"kind": "stopping"}, {"kind": "stopping", "n_long": nl, "n_cleanup": nc, "seed": seed, "immediate": immediate})
    ctx.cov["rule"] = (f"{rounds} rounds with fresh threads: non-callable / plain / plain returning 7, 0 or the empty string / coroutine / raising coroutine x attribute looked up on the caller's or the owner's loop x called from the caller's "
                       "or the owner's loop; a burst of queued plain calls for ordering; plain and coroutine calls after the owner's loop was stopped and closed (must be dropped silently); bursts of 1..4 (..8 thorough) long-running coroutine calls, "
                       "some of which need further loop iterations to unwind when cancelled, in flight - or just requested - when the owner's loop is stopped: every caller gets an outcome; a burst of queued plain calls some of which fail on the owner; real threads, thread identity recorded inside the method")
    ctx.exhaustive = True


search = run


def replay(ctx, obj):
    logging.disable(logging.CRITICAL)
    r = obj.get("replay", {})
    if r.get("kind") == "stopping":
        kinds, started, outcomes, stopped = asyncio.run(stopping_scenario(r["n_long"], r["n_cleanup"], r["seed"], r.get("immediate", False)))
        bad = [o for o in outcomes if o.endswith("HANG")] or (not stopped)
        print(f"replay stopping burst {kinds}: {outcomes} stopped={stopped}: {'FAILS' if bad else 'ok'}")
        if bad:
            print(f"VIOLATION property={ctx.pid} replay=replay")
        return 1 if bad else 0
    if r.get("kind") == "slow-stop":
        o = asyncio.run(slow_stop_scenario(r["seconds"]))
        bad = o not in ("value:cleaned", "cancelled")
        print(f"replay stop with slow clean-up: {o}: {'FAILS' if bad else 'ok'}")
        if bad:
            print(f"VIOLATION property={ctx.pid} replay=replay")
        return 1 if bad else 0
    if r.get("kind") == "names-values":
        rows = asyncio.run(names_values_scenario())
        bad = [x for x in rows if x[1] != NAMES_VALUES_WANT.get(x[0])]
        print(f"replay names and values: {rows}: {'FAILS' if bad else 'ok'}")
        if bad:
            print(f"VIOLATION property={ctx.pid} replay=replay")
        return 1 if bad else 0
    if r.get("kind") == "window-stop":
        o = asyncio.run(window_stop_scenario())
        bad = o not in ("ended=True closed=True late-call=dropped", "setup-failed")
        print(f"replay stop in the start-up window: {o}: {'FAILS' if bad else 'ok'}")
        if bad:
            print(f"VIOLATION property={ctx.pid} replay=replay")
        return 1 if bad else 0
    if r.get("kind") == "rebind":
        rows = asyncio.run(rebind_scenario())
        bad = [x for x in rows if x[1] != {"first": "first", "second": "second", "plain": "queued", "noncallable": "refused"}.get(x[0])]
        print(f"replay re-bound attribute: {rows}: {'FAILS' if bad else 'ok'}")
        if bad:
            print(f"VIOLATION property={ctx.pid} replay=replay")
        return 1 if bad else 0
    if r.get("kind") == "slow":
        rows = asyncio.run(slow_scenario(r["seconds"]))
        bad = [x for x in rows if x[1] != {1: "value:1", 2: "raised:2"}[x[0]]]
        print(f"replay slow calls: {rows}: {'FAILS' if bad else 'ok'}")
        if bad:
            print(f"VIOLATION property={ctx.pid} replay=replay")
        return 1 if bad else 0
    if r.get("kind") == "paused":
        rows = asyncio.run(paused_scenario(r["started_before"]))
        bad = [x for x in rows if "ran=owner" not in x[2] and x[0] != "order" or "hang" in x[2] or "callraised" in x[2] or "plainret:None" not in x[2] and x[0] == "plain"]
        print(f"replay paused owner loop: {rows}: {'FAILS' if bad else 'ok'}")
        if bad:
            print(f"VIOLATION property={ctx.pid} replay=replay")
        return 1 if bad else 0
    before = len(ctx.violations)
    run(ctx)
    bad = ctx.violations[before:]
    print(f"replay (whole table re-run): {'FAILS: ' + bad[0]['what'] if bad else 'ok'}")
    if bad:
        print(f"VIOLATION property={ctx.pid} replay=replay")
    return 1 if bad else 0
