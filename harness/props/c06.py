"""C06 — EZSP command layer: real ProtocolHandler.command / __call__ (through EZSP.frame_received) with
a scripted gateway on the deterministic loop, versus the Lean model (correspondence at settled states)
and the property's statements on the implementation trace (oracle)."""
import asyncio
import itertools
import logging
from fractions import Fraction

from harness import ezsplib, vloop
from harness.ashlib import hx

# command name -> how a tag (0..255) is carried in its response
CMDS = {
    "getValue": lambda tag: bytes([0, 1, tag]),  # status, LVBytes
    "getConfigurationValue": lambda tag: bytes([0, tag, 0]),  # status, uint16
    "sendUnicast": lambda tag: bytes([0, tag]),  # status, sequence
    "getEui64": lambda tag: bytes([tag] * 8),
    "nop": None,
}
CALLBACK = "stackStatusHandler"  # rx: status uint8
# the property's classes, written down here independently of the code's table: keep-alive and counter reads
# first, packet-send commands last, everything else in between
HIGH = ("nop", "getValue", "readCounters", "readAndClearCounters")
LOW = ("sendUnicast", "sendMulticast", "sendBroadcast")
ORDINARY = ("getConfigurationValue", "getEui64", "networkState", "getNodeId")


class _Prio(dict):
    def __missing__(self, name):
        return 999 if name in HIGH else -1 if name in LOW else 0


PRIO = _Prio()


def tag_of(name, result):
    try:
        if name == "getValue":
            return int(bytes(result[1])[0])
        if name == "getConfigurationValue":
            return int(result[1]) & 0xFF
        if name == "sendUnicast":
            return int(result[1])
        if name == "getEui64":
            return int(list(result[0])[0])
        if name == CALLBACK:
            return int(result[0])
        if name == "invalidCommand":
            return int(result[0])
    except Exception:
        return -1
    return -1


class Gw:
    def __init__(self, world):
        self.w = world
        self.pending = None

    async def send_data(self, data):
        self.w.log.append(("S", bytes(data)))
        # what the wire says: the request's own sequence number and frame ID (independent header reader)
        d = bytes(data)
        try:
            if self.w.version < 5:
                self.w.wire_req[d[0]] = d[2]
            elif self.w.version < 8:
                self.w.wire_req[d[0]] = d[4]
            else:
                self.w.wire_req[d[0]] = d[3] | d[4] << 8
        except IndexError:
            pass
        self.pending = asyncio.get_running_loop().create_future()
        try:
            await self.pending
        finally:
            self.pending = None


class World:
    def __init__(self, version, seq0):
        import bellows.ezsp as ezsp
        import bellows.ezsp.protocol as proto

        self.version = version
        self.wire_req = {}
        self.loop = vloop.VLoop().install()
        self.log = []
        self.e = ezsp.EZSP({"path": "/dev/null"})
        self.gw = Gw(self)
        self.e._gw = self.gw
        self.e._protocol = ezsp.EZSP._BY_VERSION[version](self.e.handle_callback, self.gw)
        self.h = self.e._protocol
        self.h._seq = seq0
        self.e.start_ezsp()
        self.e.add_callback(lambda name, args: self.log.append(("CB", name, tag_of(name, args))))
        self.e.add_callback(lambda name, args: self.log.append(("CB2", name, tag_of(name, args))))
        self.tasks = {}
        self.names = {}
        self.ids = {n: self.h.COMMANDS[n][0] for n in list(CMDS) + [CALLBACK, "invalidCommand"] + list(HIGH + LOW + ORDINARY) if n in self.h.COMMANDS}
        self.events = []

    def close(self):
        self.loop.shutdown()

    async def _caller(self, c, name):
        import bellows.exception as bex

        args = {"getValue": (1,), "getConfigurationValue": (1,), "nop": (), "getEui64": ()}.get(name)
        try:
            if name == "sendUnicast":
                import bellows.types as t

                r = await self.h.command(name, t.EmberOutgoingMessageType.OUTGOING_DIRECT, 0x1234, t.EmberApsFrame(profileId=260, clusterId=6, sourceEndpoint=1, destinationEndpoint=1, options=0, groupId=0, sequence=0), 1, b"x")
            else:
                if args is None:  # any other command: every argument is its type's all-zero value
                    args = [typ.deserialize(bytes(64))[0] for typ in self.h.COMMANDS[name][1].values()]
                r = await self.h.command(name, *args)
            self.log.append(("D", c, f"ok{tag_of(name, r)}"))
        except asyncio.TimeoutError:
            self.log.append(("D", c, "timeout"))
        except asyncio.CancelledError:
            self.log.append(("D", c, "cancelled"))
        except bex.InvalidCommandError:
            self.log.append(("D", c, "invalid"))
        except ConnectionError:
            self.log.append(("D", c, "sendfail"))
        except Exception as e:
            self.log.append(("D", c, f"!{type(e).__name__}"))

    def frame_bytes(self, seq, name, tag):
        cid = self.ids[name]
        wide = self.version >= 14  # statuses are 32-bit sl_Status from v14 on
        if name in CMDS:
            body = CMDS[name](tag) if CMDS[name] else b""
            if wide and name in ("getValue", "getConfigurationValue", "sendUnicast"):
                body = body[:1] + b"\x00\x00\x00" + body[1:]
        else:
            body = bytes([tag]) + (b"\x00\x00\x00" if wide else b"")
        return ezsplib.spec_header(self.version, seq, cid) + body

    def state(self):
        h = self.h
        aw = ",".join(f"{k}:{v[0]}" for k, v in h._awaiting.items()) or "-"
        sem = h._send_semaphore
        waiters = ",".join(str(self.fut_owner.get(id(f), "?")) for _, _, f in sem._waiters) if False else None
        return f"seq={h._seq} aw={aw} now={round(self.loop.time() * 1e6)}"

    def do(self, ev):
        start = len(self.log)
        k = ev[0]
        loop = self.loop
        if k == "K":
            _, c, name = ev.split("=")[:3]
            self.names[int(c)] = name
            self.tasks[int(c)] = loop.create_task(self._caller(int(c), name))
            loop.settle()
        elif k == "D":
            if self.gw.pending is not None and not self.gw.pending.done():
                if ev[2] == "1":
                    self.gw.pending.set_result(None)
                else:
                    self.gw.pending.set_exception(ConnectionError("link"))
            loop.settle()
        elif k == "F":
            _, data = ev.split("=")
            exc = None

            def inject():
                nonlocal exc
                try:
                    self.e.frame_received(bytes.fromhex(data) if data != "-" else b"")
                except BaseException as e:  # "the receive entry point never raises"
                    exc = type(e).__name__

            loop.iterate([(inject,)])
            loop.settle()
            if exc:
                self.log.append(("RAISED", exc))
        elif k == "T":
            loop.fire_next_timer()
        elif k == "W":
            loop.set_time(loop.time() + float(Fraction(ev[2:])))
            loop.settle()
        elif k == "C":
            t = self.tasks.get(int(ev[2:]))
            if t is not None and not t.done():
                t.cancel()
            loop.settle()
        self.events.append((ev, self.log[start:], self.state()))


def run_script(rng, version, seq0, script):
    """script: list of abstract steps; returns (World, model event strings)"""
    w = World(version, seq0)
    mev = []
    ncall = 0
    tag = 0
    try:
        for st in script:
            kind = st[0]
            if kind == "call":
                ncall += 1
                name = st[1]
                w.do(f"K={ncall}={name}")
                mev.append(f"K={ncall}={w.ids[name]}={PRIO[name]}")
            elif kind == "sent":
                w.do(f"D={1 if st[1] else 0}")
                mev.append(f"D={1 if st[1] else 0}")
            elif kind == "frame":
                # ('frame', which, variant): which = 'cur' | 'prev' | 'next' | 'cb'; variant: ok/wrongid/invalid/dup
                tag = (tag + 1) % 256
                _, which, variant = st
                cur = (w.h._seq - 1) % 256
                seqno = {"cur": cur, "prev": (cur - 1) % 256, "next": (cur + 1) % 256, "old": (cur - 2) % 256}.get(which, cur)
                # the NCP answers the request it received: the one that went out under this sequence number
                holder_name = None
                # (only while some call is still waiting under that number - taken modulo 256, the number is one byte on the wire)
                if seqno in w.wire_req and any(k % 256 == seqno for k in w.h._awaiting):
                    holder_name = next((n for n, i in w.ids.items() if i == w.wire_req[seqno]), None)
                if variant == "cb":
                    name = CALLBACK
                elif variant == "invalid":
                    name = "invalidCommand"
                elif variant == "wrongid":
                    name = "getEui64" if holder_name != "getEui64" else "getValue"
                else:
                    name = holder_name or rng.choice(["getValue", "getConfigurationValue"])
                if name == "nop":
                    t_ = 0
                else:
                    t_ = tag
                data = w.frame_bytes(seqno, name, t_)
                w.do(f"F={data.hex()}")
                rt = t_ if name != "nop" else 255  # tag_of(nop) is -1 -> compare as 255? handled below
                mev.append(f"F={seqno}:{w.ids[name]}:{1 if name == 'invalidCommand' else 0}:{t_}")
            elif kind == "bad":
                # malformed input: classification is known by construction
                cur = (w.h._seq - 1) % 256
                which = st[1]
                if which == "empty":
                    w.do("F=-")
                    mev.append(None)  # the guard returns before __call__: no model event at all
                elif which == "short":
                    w.do(f"F={cur:02x}00")
                    mev.append("F=short")
                elif which == "unknown":
                    unk = next(i for i in range(0xFD, 0, -1) if i not in w.h.COMMANDS_BY_ID)
                    data = ezsplib.spec_header(version, cur, unk) + b"\x01\x02"
                    w.do(f"F={data.hex()}")
                    mev.append("F=unknown")
                else:  # truncated payload of a known frame
                    data = ezsplib.spec_header(version, cur, w.ids["getEui64"]) + b"\x01\x02"
                    w.do(f"F={data.hex()}")
                    mev.append("F=undec")
            elif kind == "timeout":
                if w.loop.next_timer() is not None:
                    w.do("T")
                    mev.append("T")
            elif kind == "wait":
                nt = w.loop.next_timer()
                d = Fraction(st[1], 1000)
                if nt is None or w.loop.time() + float(d) < nt - 1e-6:
                    w.do(f"W={d.numerator}/{d.denominator}")
                    mev.append(f"W={d.numerator}/{d.denominator}")
            elif kind == "cancel":
                live = [c for c, t in w.tasks.items() if not t.done()]
                if live:
                    c = live[st[1] % len(live)]
                    w.do(f"C={c}")
                    mev.append(f"C={c}")
    finally:
        w.close()
    return w, mev


def fmt(entries, w):
    out = []
    for e in entries:
        if e[0] == "S":
            data = e[1]
            seq = data[0]
            cid = data[2] if w.version < 5 else (data[4] if w.version < 8 else data[3] | data[4] << 8)
            out.append(f"S{seq}:{cid}")
        elif e[0] == "D":
            r = e[2]
            out.append(f"D{e[1]}:{'ok0' if r == 'ok-1' else r}")
        elif e[0] == "CB":
            out.append(f"CB{w.ids.get(e[1], e[1])}:{e[2]}")
        elif e[0] == "CB2":
            out.append(f"cb2:{w.ids.get(e[1], e[1])}:{e[2]}")
        elif e[0] == "RAISED":
            out.append(f"RAISED:{e[1]}")
    return out


def oracle(w, mev, timeout_s):
    """the property on the implementation's trace"""
    waiting = {}  # caller -> (seq, cmdid, since)
    order = []
    last_seq = None
    sent_of = {}  # caller -> (seq, cid)
    first_under_seq = {}  # caller -> first event carrying its sequence number while it waited
    own_reply_seen = {}  # caller -> event at which a frame with its own sequence number and frame ID arrived while it waited
    inflight = None
    send_done_at = None
    calls = {}  # caller -> name
    pending_callers = []
    for (ev, entries, st), m in zip(w.events, mev):
        ents = fmt(entries, w)
        now = int(st.split("now=")[1]) / 1e6
        if ev[0] == "K":
            c = int(ev.split("=")[1])
            calls[c] = ev.split("=")[2]
            pending_callers.append(c)
        for e in ents:
            if e.startswith("RAISED"):
                return f"EZSP.frame_received raised {e[7:]} on event {ev}"
        if ev[0] == "D" and getattr(w, "_sending", None) is not None:
            if ev[2] == "1":
                w._deadline[w._sending] = now + timeout_s
            w._sending = None
        sents = [e for e in ents if e[0] == "S"]
        dones = [e for e in ents if e[0] == "D"]
        for e in dones:
            c, r = e[1:].split(":")
            c = int(c)
            if r.startswith("!"):
                return f"call {c} ({calls[c]}) ended with unexpected exception {r[1:]}"
            if c in pending_callers:
                pending_callers.remove(c)
            if r.startswith("ok"):
                # must be completed by a frame of this very event carrying its own sequence number and frame ID
                if c not in sent_of:
                    return f"call {c} returned without its request ever being sent"
                sq, cid = sent_of[c]
                got = None
                if m and m.startswith("F=") and m[2:].count(":") == 3:
                    fs, fi, inv, tg = m[2:].split(":")
                    got = (int(fs), int(fi), int(tg))
                elif m and m.startswith("D="):
                    got = w._early.get(c)
                if got is None or got[0] != sq or got[1] != cid:
                    return f"call {c} ({calls[c]}, seq {sq}) was completed by event {ev} which is not a reply with its sequence number and frame ID"
                want_tag = got[2] if calls[c] != "nop" else 0
                if r != f"ok{want_tag}":
                    return f"call {c} returned payload tag {r[2:]}, its own reply carried {want_tag}"
            if r == "timeout" and c in own_reply_seen:
                return (f"call {c} ({calls[c]}) timed out although the reply to its own request (sequence number {sent_of[c][0]}, frame ID {sent_of[c][1]}) "
                        f"arrived while it was waiting (event {own_reply_seen[c]})")
            if r == "timeout":
                if c not in w._deadline or abs(now - w._deadline[c]) > 1e-6:
                    return f"call {c} timed out at {now}, expected exactly {w._deadline.get(c)} ({timeout_s}s after its send completed)"
            if inflight == c:
                inflight = None
        for e in sents:
            sq, cid = (int(x) for x in e[1:].split(":"))
            if inflight is not None:
                return f"request seq {sq} sent while call {inflight} is still awaiting its response"
            if last_seq is not None and sq != (last_seq + 1) % 256:
                return f"request sequence numbers not consecutive: {last_seq} then {sq}"
            last_seq = sq
            # whose request is it?  the waiting caller with the greatest priority, oldest first
            cands = [c for c in pending_callers if c not in sent_of]
            if not cands:
                return f"a request was sent that no caller issued"
            best = max(cands, key=lambda c: (PRIO[calls[c]], -c))
            if w.ids[calls[best]] != cid:
                return (f"request for frame ID {cid} sent, but the waiting call with the greatest priority (oldest first) is "
                        f"call {best} ({calls[best]}, priority {PRIO[calls[best]]})")
            sent_of[best] = (sq, cid)
            inflight = best
            w._sending = best
        if m and m.startswith("F=") and m[2:].count(":") == 3 and inflight is not None and inflight in sent_of:
            fs_, fi_, inv_, tg_ = m[2:].split(":")
            # (the first frame that carries the call's sequence number decides: the handler gives the entry to that frame, whatever
            # its ID - a reply that comes after a foreign frame under the same number finds no entry any more)
            if int(fs_) == sent_of[inflight][0] and inflight not in first_under_seq:
                first_under_seq[inflight] = ev
                if int(fi_) == sent_of[inflight][1]:
                    own_reply_seen.setdefault(inflight, ev)
        # a frame that arrives while its call is still inside send_data completes it when the send completes
        if m and m.startswith("F=") and m[2:].count(":") == 3 and inflight is not None:
            fs, fi, inv, tg = m[2:].split(":")
            if sent_of.get(inflight) == (int(fs), int(fi)) and getattr(w, "_sending", None) == inflight:
                w._early.setdefault(inflight, (int(fs), int(fi), int(tg)))
        # unsolicited frames: a decodable known frame whose sequence number no *waiting* call owns
        if m and m.startswith("F=") and m[2:].count(":") == 3:
            fs, fi, inv, tg = m[2:].split(":")
            owned = inflight is not None and sent_of.get(inflight, (None,))[0] == int(fs) or any(d.startswith("D") for d in dones)
            cbs = [e for e in ents if e.startswith("CB")]
            cb2 = [e for e in ents if e.startswith("cb2")]
            if not owned and not dones:
                if cbs != [f"CB{fi}:{tg}"] or len(cb2) != 1:
                    return (f"frame (seq {fs}, id {fi}) answers no waiting call but was delivered to the callbacks "
                            f"{len(cbs)} / {len(cb2)} times instead of exactly once each (event {ev})")
        else:
            if any(e.startswith("CB") or e.startswith("cb2") for e in ents):
                return f"callback invoked on event {ev}, which is not a fully decodable known frame"
    return None


def scripts(ctx):
    rng = ctx.rng
    out = []
    names = ["getValue", "getConfigurationValue", "sendUnicast", "nop"]
    beh = ["reply", "late", "never", "dup", "cb_before", "cb_after", "sendfail", "wrongid", "invalid", "early", "cancel_wait", "cancel_send", "foreign"]

    def one(name, b):
        s = [("call", name)]
        if b == "sendfail":
            return s + [("sent", False)]
        if b == "cancel_send":
            return s + [("cancel", 0)]
        if b == "early":
            return s + [("frame", "cur", "ok"), ("sent", True)]
        s.append(("sent", True))
        if b == "reply":
            s += [("wait", 137), ("frame", "cur", "ok")]
        elif b == "late":
            s += [("timeout",), ("frame", "cur", "ok")]
        elif b == "never":
            s += [("timeout",)]
        elif b == "dup":
            s += [("frame", "cur", "ok"), ("frame", "cur", "ok")]
        elif b == "cb_before":
            s += [("frame", "prev", "cb"), ("frame", "cur", "ok")]
        elif b == "cb_after":
            s += [("frame", "cur", "ok"), ("frame", "cur", "cb")]
        elif b == "wrongid":
            s += [("frame", "cur", "wrongid"), ("timeout",)]
        elif b == "invalid":
            s += [("frame", "cur", "invalid")]
        elif b == "cancel_wait":
            s += [("cancel", 0), ("frame", "cur", "ok")]
        elif b == "foreign":
            s += [("frame", "next", "ok"), ("frame", "old", "ok"), ("frame", "cur", "ok")]
        return s

    L = ctx.n(2, 3)
    for n in range(1, L + 1):
        for bs in itertools.product(beh, repeat=n):
            nm = [names[(i + len(bs)) % len(names)] for i in range(n)]
            seqs = []
            for name, b in zip(nm, bs):
                seqs += one(name, b)
            out.append((rng.choice([4, 7, 8, 14]), rng.choice([0, 1, 200, 254, 255]), seqs))
    # the priority classes, command by command: one ordinary command in flight, then a queue in which the class
    # under test stands behind (keep-alive / counter read) or in front of (packet send) an ordinary command
    for version in (4, 5, 7, 8, 9, 13, 14):
        for special in HIGH + LOW:
            for other in ORDINARY[:2] if ctx.tier == "quick" else ORDINARY:
                q = [other, special] if special in HIGH else [special, other]
                sc = [("call", "getEui64")] + [("call", n) for n in q] + [("sent", True), ("frame", "cur", "ok")] + [("sent", True), ("timeout",)] * 2
                out.append((version, rng.choice([0, 254]), sc))
    # concurrent callers of mixed priority: queue several, then drive them
    for _ in range(ctx.n(1200, 20000)):
        s = []
        k = rng.randint(2, 4)
        for _ in range(k):
            s.append(("call", rng.choice(names)))
        for _ in range(rng.randint(3, 14)):
            r = rng.random()
            if r < 0.3:
                s.append(("sent", rng.random() < 0.85))
            elif r < 0.55:
                s.append(("frame", rng.choice(["cur", "cur", "cur", "prev", "next", "old"]), rng.choice(["ok", "ok", "ok", "cb", "wrongid", "invalid"])))
            elif r < 0.65:
                s.append(("timeout",))
            elif r < 0.72:
                s.append(("cancel", rng.randrange(4)))
            elif r < 0.8:
                s.append(("wait", rng.choice([37, 251, 1900])))
            elif r < 0.88:
                s.append(("bad", rng.choice(["empty", "short", "unknown", "trunc"])))
            else:
                s.append(("call", rng.choice(names)))
        out.append((rng.choice([4, 7, 8, 14]), rng.choice([0, 100, 250, 255]), s))
    # soak: more than 256 commands so the sequence number wraps
    for _ in range(ctx.n(2, 10)):
        s = []
        for i in range(300):
            s += one(rng.choice(names), rng.choice(["reply", "reply", "reply", "never", "cb_after"]))
        out.append((rng.choice([4, 8, 14]), rng.randrange(256), s))
    # ... and with a single command that is never answered (or is abandoned by its caller) early on: when the counter comes round
    # to its number again, that number is a number like any other
    for k in range(ctx.n(2, 8)):
        s = []
        lone = rng.randrange(0, 20)
        for i in range(290):
            s += one(rng.choice(names), ["never", "cancel_wait"][k % 2] if i == lone else "reply")
        out.append((rng.choice([4, 8, 14]), rng.randrange(256), s))
    return out


POP_ON_EXIT = 1



# --------------------------------------------------------------------------- callback registry
class _Cb:
    """a callable with a chosen hash (so that the id probing of add_callback is exercised) that records its invocations"""

    def __init__(self, n, h, log):
        self.n, self.h, self.log, self.raises = n, h, log, False

    def __hash__(self):
        return self.h

    def __eq__(self, other):
        return self is other

    def __call__(self, name, args):
        self.log.append(self.n)
        if self.raises:
            raise RuntimeError("handler failure")


def registry_cases(ctx):
    """op sequences over add / remove / deliver: ('A', cb, hash) ('R', index of an earlier add | 'bogus') ('D', raising cbs)"""
    rng = ctx.rng
    out = []
    import itertools

    # exhaustive: every sequence of 1..4 ops over a small alphabet (two hashes that collide, removal of the first/last add)
    alpha = [("A", 100), ("A", 101), ("R", 0), ("R", -1), ("D",)]
    for n in range(1, ctx.n(5, 6) + 1):
        for w in itertools.product(alpha, repeat=n):
            out.append(list(w) + [("D",)])
    for _ in range(ctx.n(300, 5000)):
        sc = []
        for _ in range(rng.randint(3, 25)):
            t = rng.random()
            if t < 0.45:
                sc.append(("A", rng.choice([100, 100, 101, 102, -3, 0, 2 ** 40])))
            elif t < 0.75:
                sc.append(("R", rng.choice([0, -1, rng.randrange(6), "bogus"])))
            else:
                sc.append(("D", rng.random() < 0.3))
        sc.append(("D",))
        out.append(sc)
    return out


def run_registry(version, sc):
    """-> (driver ops, implementation outputs, oracle complaint or None); drives the real EZSP registry, delivering
    through the real receive path (an unsolicited callback frame)"""
    w = World(version, 0)
    try:
        e = w.e
        e._callbacks.clear()  # the World's own two observers are not part of this scenario
        calls = []
        live = []  # (id, cb) registrations the *specification* says are live, in order
        adds = []  # every add so far: (id, cb)
        ops, outs = [], []
        bad = None
        ncb = 0
        for st in sc:
            if st[0] == "A":
                ncb += 1
                cb = _Cb(ncb, st[1], calls)
                rid = e.add_callback(cb)
                ops.append(f"A={ncb}={st[1]}")
                outs.append(f"added:{rid}")
                if any(rid == i for i, _ in live) and bad is None:
                    bad = f"add_callback returned id {rid}, which is the id of a registration that is still live (callback {[c.n for i, c in live if i == rid][0]} is overwritten)"
                live.append((rid, cb))
                adds.append((rid, cb))
            elif st[0] == "R":
                if st[1] == "bogus" or not adds:
                    rid = 123456789
                else:
                    rid = adds[st[1] % len(adds)][0] if st[1] >= 0 else adds[-1][0]
                ops.append(f"R={rid}")
                try:
                    got = e.remove_callback(rid)
                    outs.append(f"removed:{got.n}")
                    exp = [c for i, c in live if i == rid]
                    if (not exp or exp[0] is not got) and bad is None:
                        bad = f"remove_callback({rid}) removed callback {got.n}, expected {[c.n for c in exp]}"
                    live = [(i, c) for i, c in live if i != rid]
                except KeyError:
                    outs.append("keyerror")
                    if any(i == rid for i, _ in live) and bad is None:
                        bad = f"remove_callback({rid}) raised KeyError although that registration is live"
            else:
                raising = []
                if len(st) > 1 and st[1]:
                    raising = [c.n for _, c in live[::2]]
                for _, c in adds:
                    c.raises = c.n in raising
                del calls[:]
                try:
                    e.frame_received(w.frame_bytes(0x42, CALLBACK, 9))
                except Exception as ex:  # noqa: BLE001
                    if bad is None:
                        bad = f"frame_received raised {type(ex).__name__} while fanning out"
                ops.append("D=" + (",".join(map(str, raising)) or "-"))
                outs.append("called:" + (",".join(map(str, calls)) or "-"))
                want = [c.n for _, c in live]
                if calls != want and bad is None:
                    bad = f"an unsolicited frame was handed to callbacks {calls}; the live registrations are {want} (each exactly once, in order)"
        return ops, outs, bad
    finally:
        w.close()


def run(ctx):
    logging.disable(logging.CRITICAL)
    import bellows.ezsp.protocol as proto

    timeout_s = proto.EZSP_CMD_TIMEOUT
    cs = scripts(ctx)
    runs = []
    for version, seq0, sc in cs:
        w, mev = run_script(ctx.rng, version, seq0, sc)
        w._deadline, w._early, w._sending = {}, {}, None
        runs.append((w, mev))
    lines = [f"c06 run {POP_ON_EXIT} {seq0} " + " ".join(m for m in mev if m) for (version, seq0, sc), (w, mev) in zip(cs, runs)]
    model = ctx.driver(lines)
    nontriv = 0
    for i, ((version, seq0, sc), (w, mev)) in enumerate(zip(cs, runs)):
        ctx.cov["evaluations"] += 1
        kinds = {s[0] for s in sc}
        if sum(1 for s in sc if s[0] == "call") >= 2 or any(s[0] in ("timeout", "cancel", "bad") or (s[0] == "frame" and s[2] != "ok") for s in sc):
            nontriv += 1
        for s in sc:
            ctx.count("step:" + s[0] + (":" + s[2] if s[0] == "frame" else ""))
        ctx.count(f"version:{version}")
        bad = oracle(w, mev, timeout_s)
        if bad:
            stale = "answers no waiting call" in bad
            ctx.violation(bad, {"kind": "stale-awaiting-swallows-frame" if stale else "command-layer"},
                          {"version": version, "seq0": seq0, "script": [list(s) for s in sc]})
        if model is not None:
            ms = model[i].split("|") if any(mev) else []
            k = 0
            for (ev, entries, st), m in zip(w.events, mev):
                if m is None:
                    if fmt(entries, w):
                        ctx.corr_diff("empty frame produced effects", {"version": version, "script": [list(s) for s in sc][:20]}, str(fmt(entries, w)), "nothing")
                    continue
                mo, mst = ms[k].split(";")
                k += 1
                me = [x for x in ([] if mo == "." else mo.split(",")) if x != "X"]  # swallowed exceptions are not observable
                ie = [e for e in fmt(entries, w) if not e.startswith("cb2")]
                ist = st
                mparts = dict(x.split("=") for x in mst.split())
                mst2 = f"seq={mparts['seq']} aw={mparts['aw']} now={mparts['now']}"
                if sorted(me) != sorted(x for x in ie) or ist != mst2:
                    ctx.corr_diff(f"command-layer trace differs at event {ev}", {"version": version, "seq0": seq0, "script": [list(s) for s in sc][:30]},
                                  f"{ie} {ist}", f"{me} {mst2}")
                    break
        if i % 1500 == 13:
            ctx.sample({"version": version, "seq0": seq0, "script": [list(s) for s in sc][:8], "impl": [[fmt(en, w), st] for _, en, st in w.events][:8]})
    # callback registry: add / remove / fan-out
    rcs = registry_cases(ctx)
    rres = [run_registry(ctx.rng.choice([4, 8, 14]), sc) for sc in rcs]
    rmodel = ctx.driver(["c06 reg " + " ".join(ops) for ops, _, _ in rres])
    for k, (sc, (ops, outs, bad)) in enumerate(zip(rcs, rres)):
        ctx.cov["evaluations"] += 1
        ctx.count("registry")
        if sum(1 for x in sc if x[0] == "A") >= 2 and any(x[0] == "R" for x in sc):
            nontriv += 1
        if bad:
            ctx.violation(bad, {"kind": "callback-registry"}, {"registry": [list(x) for x in sc]})
        if rmodel is not None and "|".join(outs) != rmodel[k]:
            ctx.corr_diff("callback registry trace differs", {"registry": [list(x) for x in sc][:30]}, "|".join(outs)[:400], rmodel[k][:400])
    # the definition generated from ProtocolHandler.command against the real coroutine, script by script
    from harness import cmdsrc
    nontriv += cmdsrc.run_cases(ctx)
    ctx.cov["distinct_nontrivial"] = nontriv
    ctx.cov["rule"] = ("source level: the definition generated from ProtocolHandler.command / _ezsp_frame (BV/Gen/SrcCmd.lean, run by the driver) against the real coroutine on the virtual loop for "
                       f"{ctx.n(400, 3000)} scripts of what happens at its await points {{semaphore granted / caller cancelled while queued; frames received while send_data runs and its return / failure / cancellation; frames received during the bounded wait, then the deadline or cancellation}} "
                       "with own replies, replies under other sequence numbers or frame IDs, callbacks, invalid-command answers, truncated and unknown frames, duplicates, entries left in _awaiting by others, unknown command names and missing arguments, versions 4..14: "
                       "outcome, _seq, _awaiting, bytes sent, callbacks and the semaphore are compared; "
                       f"model level: every sequence of 1..{ctx.n(2, 3)} commands x per-command behaviour {{reply, late reply, never, duplicate, callback before/after, send failure, wrong frame ID, invalidCommand, reply before the send "
                       "completes, cancel while waiting / while sending, foreign sequence numbers}} (exhaustive) on handlers v4/v7/v8/v14; random scripts with 2..4 queued callers of mixed priority, malformed frames, cancellations; "
                       "300-command soaks wrapping the sequence number; callback registry: every sequence of 1..5 (6 thorough) ops over {add (two colliding hashes), remove first/last, deliver} and random "
                       "sequences with colliding / negative / huge hashes, unknown ids and raising handlers, delivered through the real receive path; non-trivial = at least two callers or one non-reply behaviour, "
                       "or at least two registrations and a removal")
    ctx.exhaustive = True


search = run


def replay(ctx, obj):
    logging.disable(logging.CRITICAL)
    import random
    import bellows.ezsp.protocol as proto

    r = obj["replay"]
    if "registry" in r:
        ops, outs, bad = run_registry(4, [tuple(x) for x in r["registry"]])
        print(f"replay registry {r['registry']}: {'FAILS: ' + bad if bad else 'ok'}")
        if bad:
            print(f"VIOLATION property={ctx.pid} replay=replay")
        return 1 if bad else 0
    w, mev = run_script(random.Random(0), r["version"], r["seq0"], [tuple(s) for s in r["script"]])
    w._deadline, w._early, w._sending = {}, {}, None
    bad = oracle(w, mev, proto.EZSP_CMD_TIMEOUT)
    print(f"replay v{r['version']} {r['script']}: {'FAILS: ' + bad if bad else 'ok'}")
    if bad:
        print(f"VIOLATION property={ctx.pid} replay=replay")
    return 1 if bad else 0
