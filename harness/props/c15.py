"""C15 — multicast table bookkeeping: real Multicast with a stub EZSP holding the NCP table,
exhaustive short operation sequences, oracle after every call, model correspondence."""
import asyncio
import itertools
import logging

GROUPS = (5, 6, 7)
REJ = 3  # a rejection status code (EmberStatus 0x03..; any non-OK)


class StubEzsp:
    """the NCP side: a multicast table and scripted answers to table writes"""

    def __init__(self, tab):
        self.tab = [list(e) for e in tab]  # [group, endpoint]
        self.next_answer = "o"
        self.writes = []

    async def getConfigurationValue(self, cfg):
        import bellows.types as t

        return (t.EzspStatus.SUCCESS, len(self.tab))

    async def getMulticastTableEntry(self, i):
        import bellows.types as t

        e = t.EmberMulticastTableEntry()
        e.multicastId = t.EmberMulticastId(self.tab[i][0])
        e.endpoint = t.uint8_t(self.tab[i][1])
        e.networkIndex = t.uint8_t(0)
        return (t.EmberStatus.SUCCESS, e)

    async def setMulticastTableEntry(self, idx, entry):
        import bellows.types as t

        # a command is a round trip to the NCP: the caller is suspended until the response arrives
        await asyncio.sleep(0)
        self.writes.append((int(idx), int(entry.multicastId), int(entry.endpoint)))
        a = self.next_answer
        if a == "t":
            raise asyncio.TimeoutError()
        if a == "o":
            self.tab[idx] = [int(entry.multicastId), int(entry.endpoint)]
            return (t.EmberStatus.SUCCESS,)
        # the rejection status varies from write to write: every non-OK status of either status family is a rejection like any other
        rejs = [t.EmberStatus(REJ), t.EmberStatus.ERR_FATAL, t.EmberStatus.INDEX_OUT_OF_RANGE, t.EmberStatus.INVALID_CALL, t.sl_Status.FAIL,
                t.sl_Status.INVALID_PARAMETER, t.EmberStatus.TABLE_FULL]
        self.nrej = getattr(self, "nrej", 0) + 1
        self.last_rej = rejs[self.nrej % len(rejs)]
        return (self.last_rej,)


def host_state(mc):
    m = sorted((int(g), int(v[1])) for g, v in mc._multicast.items())
    av = sorted(int(i) for i in mc._available)
    return m, av


def fmt_state(m, av, tab):
    return ",".join(f"{g}@{i}" for g, i in m) + "|" + ",".join(map(str, av)) + "|" + ",".join(f"{g}:{e}" for g, e in tab)


async def run_seq(tab, ops):
    """ops: ('I',) | ('S', g, ans) | ('U', g, ans). Returns per-op records and driver op strings."""
    import bellows.types as t
    from bellows.multicast import Multicast

    ez = StubEzsp(tab)
    mc = Multicast(ez)
    recs = []
    for op in ops:
        ez.writes = []
        before = host_state(mc)
        tab_before = [tuple(e) for e in ez.tab]
        try:
            if op[0] == "I":
                await mc._initialize()
                res = "OK"
            elif op[0] == "T":
                # start-up proper: table scan, then the groups of the coordinator's endpoints (ZDO endpoint 0 is skipped)
                ez.next_answer = "o"

                class _Ep:
                    def __init__(self, groups):
                        self.member_of = {g: None for g in groups}

                class _Coord:
                    endpoints = {0: _Ep([99])}

                for n, groups in enumerate(op[1]):
                    _Coord.endpoints[n + 1] = _Ep(groups)
                await mc.startup(_Coord())
                res = "OK"
            elif op[0] == "P":
                # several subscribe calls in flight at the same time (two add-to-group requests): each claims its own index
                ez.next_answer = "o"
                sts = await asyncio.gather(*(mc.subscribe(g) for g in op[1]))
                res = "OK" if all(_res(x) == "OK" for x in sts) else "ST?"
            elif op[0] == "S":
                ez.next_answer = op[2]
                st = await mc.subscribe(op[1])
                res = _res(st)
            else:
                ez.next_answer = op[2]
                st = await mc.unsubscribe(op[1])
                res = _res(st)
        except asyncio.TimeoutError:
            res = "RAISED"
        except Exception as e:  # anything else is unexpected
            res = f"RAISED:{type(e).__name__}"
        after = host_state(mc)
        w = ez.writes[0] if ez.writes else None
        recs.append({"op": op, "res": res, "write": w, "nwrites": len(ez.writes), "writes": list(ez.writes), "before": before, "after": after,
                     "rej": (int(ez.last_rej) if res.startswith("ST") and getattr(ez, "last_rej", None) is not None else REJ),
                     "tab_before": tab_before, "tab": [tuple(e) for e in ez.tab]})
    return recs


def _res(st):
    import bellows.types as t

    u = t.sl_Status.from_ember_status(st)
    if u == t.sl_Status.OK:
        return "OK"
    if u == t.sl_Status.INVALID_INDEX and isinstance(st, t.sl_Status):
        return "INVALID_INDEX"
    return f"ST{int(st)}"


def driver_line(tab, recs):
    ops = []
    for r in recs:
        op = r["op"]
        r["nmodel"] = 1
        if op[0] == "I":
            ops.append("I")
        elif op[0] == "P":
            # concurrent subscribes are, for the table, the same subscribes one after the other (each with the index it
            # actually wrote); groups already subscribed, or left without a free index, write nothing
            ws = list(r["writes"])
            r["nmodel"] = 0
            for g in op[1]:
                w_ = next((x for x in ws if x[1] == g), None)
                if w_ is not None:
                    ws.remove(w_)
                ops.append(f"S/{g}/{w_[0] if w_ else 0}/o")
                r["nmodel"] += 1
        elif op[0] == "T":
            # the model's start-up is the scan followed by one subscribe per group in endpoint order; the index each
            # write went to is the element `pop()` happened to pick: it is read off the implementation's writes, in order
            ops.append("I")
            ws = list(r["writes"])
            for groups in op[1]:
                for g in groups:
                    c = ws.pop(0)[0] if ws and ws[0][1] == g else 0
                    ops.append(f"S/{g}/{c}/o")
                    r["nmodel"] += 1
        elif op[0] == "S":
            a = {"o": "o", "t": "t", "r": f"r{r.get('rej', REJ)}"}[op[2]]
            choice = r["write"][0] if r["write"] else 0
            ops.append(f"S/{op[1]}/{choice}/{a}")
        else:
            a = {"o": "o", "t": "t", "r": f"r{r.get('rej', REJ)}"}[op[2]]
            ops.append(f"U/{op[1]}/{a}")
    t = ",".join(f"{g}:{e}" for g, e in tab) or "-"
    return f"c15 run {t} {';'.join(ops)}"


def impl_line(recs):
    out = []
    for r in recs:
        w = "-" if not r["write"] else f"{r['write'][0]}={r['write'][1]}:{r['write'][2]}"
        out.append(f"{r['res']}|{w}|{fmt_state(*r['after'], r['tab'])}")
    return " ".join(out)


def oracle(tab0, recs):
    """the property, after every call (from the first initialise on)"""
    started = False
    for k, r in enumerate(recs):
        op = r["op"]
        m, av = r["after"]
        size = len(r["tab"])
        if op[0] in "IT":
            started = True
        if not started:
            continue
        if r["res"].startswith("RAISED:"):
            return k, "unexpected", f"{op} raised {r['res']}"
        ncp_groups = sorted(g for g, e in r["tab"] if e != 0)
        host_groups = sorted(g for g, _ in m)
        if ncp_groups != host_groups:
            return k, "mirror", f"after {op}: host reports {host_groups}, NCP table has {ncp_groups}"
        used = [i for _, i in m]
        if sorted(used + av) != list(range(size)):
            kind = "partition"
            if op[0] == "S" and op[2] == "t":
                kind = "leak-subscribe-timeout"
            return k, kind, f"after {op}: indices used {sorted(used)} + free {av} is not a partition of 0..{size - 1}"
        mb, avb = r["before"]
        if op[0] == "S":
            if op[1] in [g for g, _ in mb]:
                if r["res"] != "OK" or r["nwrites"] != 0:
                    return k, "resubscribe", f"re-subscribe of {op[1]}: result {r['res']}, {r['nwrites']} writes"
            elif not avb:
                if r["res"] == "OK" or r["nwrites"] != 0:
                    return k, "full", f"subscribe with no free index: result {r['res']}, {r['nwrites']} writes"
        if op[0] in "SU" and r["res"] != "OK" and len(av) != len(avb):
            kind = "leak-subscribe-timeout" if (op[0] == "S" and op[2] == "t") else "failed-call-free-count"
            return k, kind, f"failing {op} changed the number of free indices {len(avb)} -> {len(av)}"
        if r["nwrites"] > 1 and op[0] not in "TP":
            return k, "writes", f"{op} wrote {r['nwrites']} table entries"
    return None


def initial_tables(size):
    """every table content in which each group appears at most once (endpoint non-zero),
    free slots hold group 0 or a stale group id with endpoint 0"""
    # endpoints other than the one bellows writes itself: entries left by other host software (2) or for the
    # Green Power endpoint (242) are programmed entries like any other ("a non-zero endpoint")
    cells = [(0, 0), (6, 0)] + [(g, 1) for g in GROUPS] + [(GROUPS[0], 2), (GROUPS[-1], 242)]
    for t in itertools.product(cells, repeat=size):
        used = [g for g, e in t if e]
        if len(used) == len(set(used)):
            yield list(t)


def all_ops():
    ops = [("I",)]
    for g in GROUPS[:2]:
        for a in "ort":
            ops.append(("S", g, a))
            ops.append(("U", g, a))
    return ops


def run(ctx, depth=None, budget=None):
    logging.disable(logging.CRITICAL)
    depth = depth or ctx.n(3, 4)
    ops = all_ops()
    cases = []
    for size in range(0, 5):
        tabs = list(initial_tables(size))
        if size >= 3:
            ctx.rng.shuffle(tabs)
            tabs = tabs[: ctx.n(6, 30)]
        for tab in tabs:
            d = depth if size <= 2 else depth - 1
            for n in range(0, d + 1):
                for seq in itertools.product(ops, repeat=n):
                    cases.append((tab, (("I",),) + seq))
    # random longer histories
    for _ in range(ctx.n(300, 5000)):
        size = ctx.rng.randint(0, 4)
        tab = ctx.rng.choice(list(initial_tables(size)))
        n = ctx.rng.randint(5, 14)
        allops = ops + [("S", 7, a) for a in "ort"] + [("U", 7, a) for a in "ort"]
        cases.append((tab, (("I",),) + tuple(ctx.rng.choice(allops) for _ in range(n))))
    # start-up proper with the coordinator's endpoint groups (a group may be listed by several endpoints)
    G = GROUPS
    memberships = [((G[0],),), ((G[0],), (G[0],)), ((G[0], G[1]), (G[1], G[0])), ((G[0],), (G[1],), (G[0],)), ((), (G[1], G[1]))]
    for size in range(0, 5):
        tabs = list(initial_tables(size))
        ctx.rng.shuffle(tabs)
        for tab in tabs[: ctx.n(8, 40)]:
            for mem in memberships:
                cases.append((tab, (("T", mem),)))
                cases.append((tab, (("T", mem), ("U", G[0], "o"), ("S", G[0], "o"))))
    # subscribes in flight at the same time
    for size in range(0, 5):
        tabs = list(initial_tables(size))
        ctx.rng.shuffle(tabs)
        for tab in tabs[: ctx.n(8, 40)]:
            # (distinct groups only: two calls for the *same* group in flight together both pass the "already subscribed"
            # test and program it twice - observed on the unchanged code, but the property speaks of sequences of calls)
            for gs in ((G[0], G[1]), (G[1], G[0], G[2]), (G[2], G[0])):
                cases.append((tab, (("I",), ("P", gs))))
                cases.append((tab, (("I",), ("P", gs), ("U", G[0], "o"), ("S", G[2], "o"))))
    if budget and len(cases) > budget:
        cases = cases[:budget]

    async def go():
        return [await run_seq(tab, seq) for tab, seq in cases]

    impl = asyncio.run(go())
    model = ctx.driver([driver_line(tab, recs) for (tab, _), recs in zip(cases, impl)])
    nontrivial = 0
    for idx, ((tab, seq), recs) in enumerate(zip(cases, impl)):
        ctx.cov["evaluations"] += 1
        if any(o[0] in "SU" and o[2] in "rt" for o in seq[1:]) and any(r["nwrites"] for r in recs):
            nontrivial += 1
        ctx.count(f"size:{len(tab)}")
        for r in recs:
            ctx.count(f"res:{r['res'] if not r['res'].startswith('ST') else 'rejected'}")
        bad = oracle(tab, recs)
        if bad:
            k, kind, msg = bad
            ctx.violation(msg, {"kind": kind}, {"table": tab, "ops": [list(o) for o in seq[: k + 1]]})
        if model is not None and any(r["op"][0] in "TP" for r in recs):
            # a start-up call spans several model steps: compare the state after it (and every other call in full)
            ments = model[idx].split(" ")
            pos = 0
            for r, mine in zip(recs, impl_line(recs).split(" ")):
                pos += r["nmodel"]
                ment = ments[pos - 1] if pos - 1 < len(ments) else "?"
                if (mine.split("|")[2:] != ment.split("|")[2:]) if r["op"][0] in "TP" else (mine != ment):
                    ctx.corr_diff("multicast trace differs from the model (start-up)", {"table": tab, "ops": [list(map(str, o)) for o in seq]}, mine, ment)
                    break
        elif model is not None:
            got = impl_line(recs)
            if got != model[idx]:
                ctx.corr_diff("multicast trace differs from the model", {"table": tab, "ops": [list(o) for o in seq]}, got, model[idx])
        if idx % 9000 == 11:
            ctx.sample({"table": tab, "ops": [list(o) for o in seq], "impl": impl_line(recs), "model": model[idx] if model else None})
    ctx.cov["distinct_nontrivial"] = nontrivial
    ctx.cov["rule"] = (f"groups {GROUPS}, table sizes 0..4, initial tables with each group at most once, programmed with endpoint 1, 2 or 242 (all for sizes 0..2, a seeded sample for 3..4), "
                       f"start-up followed by every sequence of length ≤ {depth} over {{start-up, subscribe g, unsubscribe g}} × answers {{success, rejection, timeout}} "
                       "plus seeded random longer histories; start-up proper (table scan + the groups of the coordinator's endpoints, a group listed by one or several endpoints); two or three subscribe calls in flight at the same time;  non-trivial = contains a failing table write; sequences are distinct by construction")
    ctx.exhaustive = True


def search(ctx):
    # (depth 4 is ~1.6 million calls, a quarter of an hour: thorough tier only; the quick tier repeats its own enumeration with the
    # random part reseeded)
    run(ctx, depth=4 if ctx.tier == "thorough" else None)


def replay(ctx, obj):
    logging.disable(logging.CRITICAL)
    r = obj["replay"]
    ops = [tuple(o) for o in r["ops"]]
    recs = asyncio.run(run_seq(r["table"], ops))
    bad = oracle(r["table"], recs)
    print(f"replay: table={r['table']} ops={ops}")
    for rec in recs:
        print("  ", rec["op"], rec["res"], rec["write"], rec["after"], rec["tab"])
    if bad:
        print("  FAILS:", bad[2])
        print(f"VIOLATION property={ctx.pid} replay=replay")
    return 1 if bad else 0
