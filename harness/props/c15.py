"""C15 — multicast table bookkeeping: real Multicast with a stub EZSP holding the NCP table,
exhaustive short operation sequences, oracle after every call, model correspondence."""
import asyncio
import itertools
import logging

GROUPS = (5, 6, 7)
REJ = 3  # a rejection status code (EmberStatus 0x03..; any non-OK)


class StubEzsp:
    """the NCP side: a multicast table and scripted answers to table writes"""

    def __init__(self, tab):
        self.tab = [list(e) for e in tab]  # [group, endpoint]
        self.next_answer = "o"
        self.writes = []

    async def getConfigurationValue(self, cfg):
        import bellows.types as t

        return (t.EzspStatus.SUCCESS, len(self.tab))

    async def getMulticastTableEntry(self, i):
        import bellows.types as t

        e = t.EmberMulticastTableEntry()
        e.multicastId = t.EmberMulticastId(self.tab[i][0])
        e.endpoint = t.uint8_t(self.tab[i][1])
        e.networkIndex = t.uint8_t(0)
        return (t.EmberStatus.SUCCESS, e)

    async def setMulticastTableEntry(self, idx, entry):
        import bellows.types as t

        self.writes.append((int(idx), int(entry.multicastId), int(entry.endpoint)))
        a = self.next_answer
        if a == "t":
            raise asyncio.TimeoutError()
        if a == "o":
            self.tab[idx] = [int(entry.multicastId), int(entry.endpoint)]
            return (t.EmberStatus.SUCCESS,)
        return (t.EmberStatus(REJ),)


def host_state(mc):
    m = sorted((int(g), int(v[1])) for g, v in mc._multicast.items())
    av = sorted(int(i) for i in mc._available)
    return m, av


def fmt_state(m, av, tab):
    return ",".join(f"{g}@{i}" for g, i in m) + "|" + ",".join(map(str, av)) + "|" + ",".join(f"{g}:{e}" for g, e in tab)


async def run_seq(tab, ops):
    """ops: ('I',) | ('S', g, ans) | ('U', g, ans). Returns per-op records and driver op strings."""
    import bellows.types as t
    from bellows.multicast import Multicast

    ez = StubEzsp(tab)
    mc = Multicast(ez)
    recs = []
    for op in ops:
        ez.writes = []
        before = host_state(mc)
        tab_before = [tuple(e) for e in ez.tab]
        try:
            if op[0] == "I":
                await mc._initialize()
                res = "OK"
            elif op[0] == "S":
                ez.next_answer = op[2]
                st = await mc.subscribe(op[1])
                res = _res(st)
            else:
                ez.next_answer = op[2]
                st = await mc.unsubscribe(op[1])
                res = _res(st)
        except asyncio.TimeoutError:
            res = "RAISED"
        except Exception as e:  # anything else is unexpected
            res = f"RAISED:{type(e).__name__}"
        after = host_state(mc)
        w = ez.writes[0] if ez.writes else None
        recs.append({"op": op, "res": res, "write": w, "nwrites": len(ez.writes), "before": before, "after": after,
                     "tab_before": tab_before, "tab": [tuple(e) for e in ez.tab]})
    return recs


def _res(st):
    import bellows.types as t

    u = t.sl_Status.from_ember_status(st)
    if u == t.sl_Status.OK:
        return "OK"
    if u == t.sl_Status.INVALID_INDEX and isinstance(st, t.sl_Status):
        return "INVALID_INDEX"
    return f"ST{int(st)}"


def driver_line(tab, recs):
    ops = []
    for r in recs:
        op = r["op"]
        if op[0] == "I":
            ops.append("I")
        elif op[0] == "S":
            a = {"o": "o", "t": "t", "r": f"r{REJ}"}[op[2]]
            choice = r["write"][0] if r["write"] else 0
            ops.append(f"S/{op[1]}/{choice}/{a}")
        else:
            a = {"o": "o", "t": "t", "r": f"r{REJ}"}[op[2]]
            ops.append(f"U/{op[1]}/{a}")
    t = ",".join(f"{g}:{e}" for g, e in tab) or "-"
    return f"c15 run {t} {';'.join(ops)}"


def impl_line(recs):
    out = []
    for r in recs:
        w = "-" if not r["write"] else f"{r['write'][0]}={r['write'][1]}:{r['write'][2]}"
        out.append(f"{r['res']}|{w}|{fmt_state(*r['after'], r['tab'])}")
    return " ".join(out)


def oracle(tab0, recs):
    """the property, after every call (from the first initialise on)"""
    started = False
    for k, r in enumerate(recs):
        op = r["op"]
        m, av = r["after"]
        size = len(r["tab"])
        if op[0] == "I":
            started = True
        if not started:
            continue
        if r["res"].startswith("RAISED:"):
            return k, "unexpected", f"{op} raised {r['res']}"
        ncp_groups = sorted(g for g, e in r["tab"] if e != 0)
        host_groups = sorted(g for g, _ in m)
        if ncp_groups != host_groups:
            return k, "mirror", f"after {op}: host reports {host_groups}, NCP table has {ncp_groups}"
        used = [i for _, i in m]
        if sorted(used + av) != list(range(size)):
            kind = "partition"
            if op[0] == "S" and op[2] == "t":
                kind = "leak-subscribe-timeout"
            return k, kind, f"after {op}: indices used {sorted(used)} + free {av} is not a partition of 0..{size - 1}"
        mb, avb = r["before"]
        if op[0] == "S":
            if op[1] in [g for g, _ in mb]:
                if r["res"] != "OK" or r["nwrites"] != 0:
                    return k, "resubscribe", f"re-subscribe of {op[1]}: result {r['res']}, {r['nwrites']} writes"
            elif not avb:
                if r["res"] == "OK" or r["nwrites"] != 0:
                    return k, "full", f"subscribe with no free index: result {r['res']}, {r['nwrites']} writes"
        if op[0] in "SU" and r["res"] != "OK" and len(av) != len(avb):
            kind = "leak-subscribe-timeout" if (op[0] == "S" and op[2] == "t") else "failed-call-free-count"
            return k, kind, f"failing {op} changed the number of free indices {len(avb)} -> {len(av)}"
        if r["nwrites"] > 1:
            return k, "writes", f"{op} wrote {r['nwrites']} table entries"
    return None


def initial_tables(size):
    """every table content in which each group appears at most once (endpoint non-zero),
    free slots hold group 0 or a stale group id with endpoint 0"""
    cells = [(0, 0), (6, 0)] + [(g, 1) for g in GROUPS]
    for t in itertools.product(cells, repeat=size):
        used = [g for g, e in t if e]
        if len(used) == len(set(used)):
            yield list(t)


def all_ops():
    ops = [("I",)]
    for g in GROUPS[:2]:
        for a in "ort":
            ops.append(("S", g, a))
            ops.append(("U", g, a))
    return ops


def run(ctx, depth=None, budget=None):
    logging.disable(logging.CRITICAL)
    depth = depth or ctx.n(3, 4)
    ops = all_ops()
    cases = []
    for size in range(0, 5):
        tabs = list(initial_tables(size))
        if size >= 3:
            ctx.rng.shuffle(tabs)
            tabs = tabs[: ctx.n(6, 30)]
        for tab in tabs:
            d = depth if size <= 2 else depth - 1
            for n in range(0, d + 1):
                for seq in itertools.product(ops, repeat=n):
                    cases.append((tab, (("I",),) + seq))
    # random longer histories
    for _ in range(ctx.n(300, 5000)):
        size = ctx.rng.randint(0, 4)
        tab = ctx.rng.choice(list(initial_tables(size)))
        n = ctx.rng.randint(5, 14)
        allops = ops + [("S", 7, a) for a in "ort"] + [("U", 7, a) for a in "ort"]
        cases.append((tab, (("I",),) + tuple(ctx.rng.choice(allops) for _ in range(n))))
    if budget and len(cases) > budget:
        cases = cases[:budget]

    async def go():
        return [await run_seq(tab, seq) for tab, seq in cases]

    impl = asyncio.run(go())
    model = ctx.driver([driver_line(tab, recs) for (tab, _), recs in zip(cases, impl)])
    nontrivial = 0
    for idx, ((tab, seq), recs) in enumerate(zip(cases, impl)):
        ctx.cov["evaluations"] += 1
        if any(o[0] in "SU" and o[2] in "rt" for o in seq[1:]) and any(r["nwrites"] for r in recs):
            nontrivial += 1
        ctx.count(f"size:{len(tab)}")
        for r in recs:
            ctx.count(f"res:{r['res'] if not r['res'].startswith('ST') else 'rejected'}")
        bad = oracle(tab, recs)
        if bad:
            k, kind, msg = bad
            ctx.violation(msg, {"kind": kind}, {"table": tab, "ops": [list(o) for o in seq[: k + 1]]})
        if model is not None:
            got = impl_line(recs)
            if got != model[idx]:
                ctx.corr_diff("multicast trace differs from the model", {"table": tab, "ops": [list(o) for o in seq]}, got, model[idx])
        if idx % 9000 == 11:
            ctx.sample({"table": tab, "ops": [list(o) for o in seq], "impl": impl_line(recs), "model": model[idx] if model else None})
    ctx.cov["distinct_nontrivial"] = nontrivial
    ctx.cov["rule"] = (f"groups {GROUPS}, table sizes 0..4, initial tables with each group at most once (all for sizes 0..2, a seeded sample for 3..4), "
                       f"start-up followed by every sequence of length ≤ {depth} over {{start-up, subscribe g, unsubscribe g}} × answers {{success, rejection, timeout}} "
                       "plus seeded random longer histories; non-trivial = contains a failing table write; sequences are distinct by construction")
    ctx.exhaustive = True


def search(ctx):
    run(ctx, depth=4)


def replay(ctx, obj):
    logging.disable(logging.CRITICAL)
    r = obj["replay"]
    ops = [tuple(o) for o in r["ops"]]
    recs = asyncio.run(run_seq(r["table"], ops))
    bad = oracle(r["table"], recs)
    print(f"replay: table={r['table']} ops={ops}")
    for rec in recs:
        print("  ", rec["op"], rec["res"], rec["write"], rec["after"], rec["tab"])
    if bad:
        print("  FAILS:", bad[2])
        print(f"VIOLATION property={ctx.pid} replay=replay")
    return 1 if bad else 0
