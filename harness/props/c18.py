"""C18 — status normalisation: exhaustive correspondence + oracle."""
import logging

def _impl(fam, code):
    import bellows.types as t
    cls = {"ember": t.EmberStatus, "ezsp": t.EzspStatus, "sl": t.sl_Status}[fam]
    try:
        r = t.sl_Status.from_ember_status(cls(code))
        return int(r)
    except Exception as e:  # "never raises"
        return f"raised:{type(e).__name__}"


def cases(ctx):
    import bellows.types as t
    cs = [("ember", c) for c in range(256)] + [("ezsp", c) for c in range(256)]
    cs += [("sl", int(m)) for m in t.sl_Status]
    # the conversion is a function: the same status again (in another order, after other families) gives the same answer
    cs += [("ezsp", c) for c in range(255, -1, -1)] + [("ember", c) for c in range(255, -1, -1)]
    cs += [(ctx.rng.choice(["ember", "ezsp"]), ctx.rng.randrange(256)) for _ in range(ctx.n(1000, 10000))]
    n = ctx.n(2000, 50000)
    cs += [("sl", ctx.rng.getrandbits(32)) for _ in range(n)]
    return cs


def oracle(fam, code, got):
    """the property, stated directly on the implementation's answer"""
    if isinstance(got, str):
        return f"conversion raised ({got})"
    if fam == "sl":
        return None if got == code else f"unified status {code:#x} changed to {got:#x}"
    if (got == 0) != (code == 0):
        return f"{fam} code {code:#x} -> {got:#x}: OK iff success violated"
    steering = {("ember", 0x72): 0x0C03, ("ember", 0xA1): 0x0C03, ("ember", 0x93): 0x17,
                ("ember", 0x90): 0x15, ("ember", 0x91): 0x16, ("ember", 0x03): 0x2D,
                ("ember", 0xB6): 0x2D, ("ember", 0xB1): 0x27, ("ember", 0x18): 0x19}
    want = steering.get((fam, code))
    if want is not None and got != want:
        return f"steering code {fam} {code:#x} maps to {got:#x}, expected {want:#x}"
    return None


def run(ctx, big=False):
    logging.disable(logging.CRITICAL)
    cs = cases(ctx)
    impl = [_impl(f, c) for f, c in cs]
    model = ctx.driver([f"c18 conv {f} {c}" for f, c in cs])
    seen = set()
    for i, ((f, c), got) in enumerate(zip(cs, impl)):
        ctx.cov["evaluations"] += 1
        if (f, c) not in seen:
            seen.add((f, c))
            ctx.cov["distinct_nontrivial"] += 1
        ctx.count(f"family:{f}")
        bad = oracle(f, c, got)
        if bad:
            ctx.violation(bad, {"family": f, "code": c}, {"family": f, "code": c, "impl": got})
        if model is not None and str(got) != model[i]:
            ctx.corr_diff(f"from_ember_status({f} {c}) differs", {"family": f, "code": c}, got, model[i])
        if i % 97 == 0:
            ctx.sample({"family": f, "code": c, "impl": got, "model": model[i] if model else None})
    ctx.cov["rule"] = ("all 256 codes of EmberStatus and EzspStatus (defined and undefined) converted in ascending order, again in descending order and again at random (one process: repeated conversions), every defined sl_Status, "
                       "seeded random 32-bit unified values; distinct = distinct (family, code); every case is non-trivial "
                       "(each exercises the conversion); the 8-bit families are enumerated completely")
    ctx.exhaustive = True


search = run


def replay(ctx, obj):
    r = obj["replay"]
    got = _impl(r["family"], r["code"])
    bad = oracle(r["family"], r["code"], got)
    if not bad:   # a repeated conversion
        got = _impl(r["family"], r["code"])
        bad = oracle(r["family"], r["code"], got)
    print(f"replay: from_ember_status({r['family']} {r['code']}) = {got}: {'FAILS: ' + bad if bad else 'ok'}")
    if bad:
        print(f"VIOLATION property={ctx.pid} replay={obj.get('path', 'replay')}")
    return 1 if bad else 0
