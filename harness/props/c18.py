"""C18 — status normalisation: exhaustive correspondence + oracle."""
import logging

def _impl(fam, code):
    import bellows.types as t
    cls = {"ember": t.EmberStatus, "ezsp": t.EzspStatus, "sl": t.sl_Status}[fam]
    try:
        r = t.sl_Status.from_ember_status(cls(code))
        return int(r)
    except Exception as e:  # "never raises"
        return f"raised:{type(e).__name__}"


def cases(ctx):
    import bellows.types as t
    cs = [("ember", c) for c in range(256)] + [("ezsp", c) for c in range(256)]
    cs += [("sl", int(m)) for m in t.sl_Status]
    # the conversion is a function: the same status again (in another order, after other families) gives the same answer
    cs += [("ezsp", c) for c in range(255, -1, -1)] + [("ember", c) for c in range(255, -1, -1)]
    cs += [(ctx.rng.choice(["ember", "ezsp"]), ctx.rng.randrange(256)) for _ in range(ctx.n(1000, 10000))]
    n = ctx.n(2000, 50000)
    cs += [("sl", ctx.rng.getrandbits(32)) for _ in range(n)]
    return cs


def oracle(fam, code, got):
    """the property, stated directly on the implementation's answer"""
    if isinstance(got, str):
        return f"conversion raised ({got})"
    if fam == "sl":
        return None if got == code else f"unified status {code:#x} changed to {got:#x}"
    if (got == 0) != (code == 0):
        return f"{fam} code {code:#x} -> {got:#x}: OK iff success violated"
    steering = {("ember", 0x72): 0x0C03, ("ember", 0xA1): 0x0C03, ("ember", 0x93): 0x17,
                ("ember", 0x90): 0x15, ("ember", 0x91): 0x16, ("ember", 0x03): 0x2D,
                ("ember", 0xB6): 0x2D, ("ember", 0xB1): 0x27, ("ember", 0x18): 0x19}
    want = steering.get((fam, code))
    if want is not None and got != want:
        return f"steering code {fam} {code:#x} maps to {got:#x}, expected {want:#x}"
    return None


THREADED = r"""
import sys, threading, json, os
import bellows.types as t
# expected answers straight from the table (no call of the conversion before the threads start)
checks = []
for fam in (t.EmberStatus, t.EzspStatus):
    for c in (0x00, 0x01, 0x03, 0x18, 0x72, 0x90, 0x91, 0x93, 0xA1, 0xB1, 0xB6, 0x13, 0xFE):
        st = fam(c)
        checks.append((st, int(t.SL_STATUS_MAP.get((type(st), st), t.sl_Status.FAIL))))
import inspect
# the file the conversion lives in (however the method is wrapped)
named = inspect.getsourcefile(t.sl_Status)


def scenario(k):
    # thread A is single-stepped (line by line, inside the module of the conversion) through the FIRST conversion of this process;
    # when it has reached stop k, a second thread converts the check list; returns (mismatches, number of stops)
    bad = []
    paused = threading.Semaphore(0)
    resume = threading.Semaphore(0)
    finished = []

    def tracer(frame, event, arg):
        if frame.f_code.co_filename != named:
            return None
        def local(frame, event, arg):
            if event == "line":
                paused.release()
                resume.acquire()
            return local
        return local

    def thread_a():
        sys.settrace(tracer)
        try:
            t.sl_Status.from_ember_status(t.EmberStatus.ERR_FATAL)
        finally:
            sys.settrace(None)
            finished.append(1)
            paused.release()

    ta = threading.Thread(target=thread_a)
    ta.start()
    stops = 0
    while True:
        paused.acquire()
        if finished:
            break
        if stops == k:
            for st, want in checks:
                try:
                    got = int(t.sl_Status.from_ember_status(st))
                except Exception as e:
                    got = "raised:" + type(e).__name__
                if got != want:
                    bad.append([type(st).__name__, int(st), got, want, stops, 0])
        stops += 1
        resume.release()
        if stops > 100000:
            break
    ta.join(5)
    return bad, stops


def in_child(k):
    r, w = os.pipe()
    pid = os.fork()
    if pid == 0:
        os.close(r)
        try:
            out = scenario(k)
        except BaseException as e:
            out = ([["harness", 0, type(e).__name__, 0, k, 0]], 0)
        os.write(w, json.dumps(out).encode())
        os._exit(0)
    os.close(w)
    data = b""
    while True:
        chunk = os.read(r, 65536)
        if not chunk:
            break
        data += chunk
    os.waitpid(pid, 0)
    return json.loads(data.decode())


_, n = in_child(-1)              # how many stops the first conversion has when nobody interferes
ks = list(range(n)) if n <= 80 else sorted(set(int(i * (n - 1) / 79) for i in range(80)))
allbad = []
for k in ks:
    bad, _ = in_child(k)         # each placement of the second thread in a process of its own (forked before any conversion)
    allbad += bad
    if allbad:
        break
print(json.dumps(allbad[:5]))
"""


def threaded_first_use(ctx, trials):
    """the EZSP thread and the application thread both normalise statuses: in a fresh process one thread is single-stepped through its
    first conversion and, at every line boundary, another thread converts a list of statuses; every answer is the table's"""
    import json
    import os
    import subprocess
    import sys

    out = []
    env = dict(os.environ)
    for _ in range(trials):
        p = subprocess.run([sys.executable, "-c", THREADED], env=env, capture_output=True, text=True, timeout=120)
        ctx.cov["evaluations"] += 1
        ctx.count("threaded-first-use")
        try:
            bad = json.loads(p.stdout.strip().splitlines()[-1])
        except Exception:  # noqa: BLE001
            bad = [["harness", 0, (p.stderr or p.stdout)[-200:], "", 0, 0]]
        out += bad
    return out


def run(ctx, big=False):
    logging.disable(logging.CRITICAL)
    for b in threaded_first_use(ctx, ctx.n(1, 3))[:1]:
        if b[0] == "harness":
            # the stepping script itself failed on this tree: not a verdict about the code; the single-threaded cases below go on
            ctx.corr_diff("the two-thread stepping script could not run against this tree", {"threads": True}, str(b[2])[:300], "-")
            continue
        ctx.violation(f"with several threads converting statuses right from process start, {b[0]}({int(b[1]):#x}) was converted to {b[2]!r}, the table says {b[3]!r} "
                      f"(second thread running while the first is at stop {b[4]} of its first conversion)", {"kind": "threads"}, {"threads": True})
    cs = cases(ctx)
    impl = [_impl(f, c) for f, c in cs]
    model = ctx.driver([f"c18 conv {f} {c}" for f, c in cs])
    seen = set()
    for i, ((f, c), got) in enumerate(zip(cs, impl)):
        ctx.cov["evaluations"] += 1
        if (f, c) not in seen:
            seen.add((f, c))
            ctx.cov["distinct_nontrivial"] += 1
        ctx.count(f"family:{f}")
        bad = oracle(f, c, got)
        if bad:
            ctx.violation(bad, {"family": f, "code": c}, {"family": f, "code": c, "impl": got})
        if model is not None and str(got) != model[i]:
            ctx.corr_diff(f"from_ember_status({f} {c}) differs", {"family": f, "code": c}, got, model[i])
        if i % 97 == 0:
            ctx.sample({"family": f, "code": c, "impl": got, "model": model[i] if model else None})
    ctx.cov["rule"] = ("all 256 codes of EmberStatus and EzspStatus (defined and undefined) converted in ascending order, again in descending order and again at random (one process: repeated conversions), every defined sl_Status, "
                       "seeded random 32-bit unified values; a fresh process in which one thread is single-stepped through its first conversion while a second thread converts at every line boundary; distinct = distinct (family, code); every case is non-trivial "
                       "(each exercises the conversion); the 8-bit families are enumerated completely")
    ctx.exhaustive = True


search = run


def replay(ctx, obj):
    r = obj["replay"]
    if r.get("threads"):
        bad = threaded_first_use(ctx, 1)
        print(f"replay threaded first use: {'FAILS: ' + str(bad[0]) if bad else 'ok'}")
        if bad:
            print(f"VIOLATION property={ctx.pid} replay=replay")
        return 1 if bad else 0
    got = _impl(r["family"], r["code"])
    bad = oracle(r["family"], r["code"], got)
    if not bad:   # a repeated conversion
        got = _impl(r["family"], r["code"])
        bad = oracle(r["family"], r["code"], got)
    print(f"replay: from_ember_status({r['family']} {r['code']}) = {got}: {'FAILS: ' + bad if bad else 'ok'}")
    if bad:
        print(f"VIOLATION property={ctx.pid} replay={obj.get('path', 'replay')}")
    return 1 if bad else 0
