"""C07 — EZSP codec: for every version x command, payloads built by an independent encoder from the
type descriptor are pushed through the real receive path and the real `_ezsp_frame`, and compared with
the Lean model (correspondence) and with the specification layout (oracle)."""
import importlib
import logging

from harness import ezsplib
from harness.ashlib import hx


_ISO_CODE = r"""
import importlib, json, sys, types
root, harness_root = sys.argv[1], sys.argv[2]
sys.path[:0] = [root, harness_root]
from harness import ezsplib
import bellows
pk = types.ModuleType("bellows.ezsp"); pk.__path__ = [root + "/bellows/ezsp"]; sys.modules["bellows.ezsp"] = pk
for v in range(4, 15):
    p = types.ModuleType(f"bellows.ezsp.v{v}"); p.__path__ = [f"{root}/bellows/ezsp/v{v}"]; sys.modules[p.__name__] = p
out = {}
for v in range(4, 15):
    m = importlib.import_module(f"bellows.ezsp.v{v}.commands")
    # taken before any later version's module has been executed
    out[v] = {n: [c, [(k, d) for k, _, d in ezsplib.schema_fields(tx)], [(k, d) for k, _, d in ezsplib.schema_fields(rx)]]
              for n, (c, tx, rx) in m.COMMANDS.items()}
print("ISO" + json.dumps(out))
"""


def _tup(x):
    return tuple(_tup(y) for y in x) if isinstance(x, (list, tuple)) else x


def isolated_tables(ctx):
    """each version's table as its own commands.py (and the older ones it builds on) declares it: the modules are executed
    oldest first in a fresh interpreter with the `bellows.ezsp` package stubbed out, and version N is read before the module
    of version N+1 runs.  A table in the fully imported package that differs from this one was changed by another
    version's module (the per-version tables share their schema objects through `{**COMMANDS_vN}`)."""
    import json
    import os
    import subprocess
    import sys
    here = os.path.dirname(os.path.dirname(os.path.dirname(os.path.abspath(__file__))))
    r = subprocess.run([sys.executable, "-c", _ISO_CODE, ctx.repo, here], capture_output=True, text=True, timeout=120)
    line = next((ln for ln in r.stdout.splitlines() if ln.startswith("ISO")), None)
    if line is None:
        return None, (r.stderr or r.stdout)[-400:]
    raw = json.loads(line[3:])
    return {int(v): {n: (c, [(k, _tup(d)) for k, d in tx], [(k, _tup(d)) for k, d in rx]) for n, (c, tx, rx) in tab.items()}
            for v, tab in raw.items()}, None


def rx_impl(h, frame, fields):
    got = []
    h._handle_callback = lambda name, args: got.append((name, args))
    h._awaiting.clear()
    try:
        h(frame)
    except Exception as e:
        return f"raised:{type(e).__name__}"
    if not got:
        return "dropped"
    name, args = got[0]
    try:
        if len(fields) == 1 and fields[0][0] == "<single>":
            vals = [ezsplib.canon(fields[0][2], args)]
        else:
            vals = [ezsplib.canon(d, a) for (_, _, d), a in zip(fields, args)]
            if len(args) != len(fields):
                return f"arity:{len(args)}"
    except Exception as e:
        return f"canon-raised:{type(e).__name__}"
    return f"{name}:[{','.join(vals)}]"


def tx_impl(h, name, fields, body, kw):
    """decode `body` with the tx types to get Python argument objects, then call the real _ezsp_frame"""
    vals, data = [], body
    try:
        for _, tp, _ in fields:
            v, data = tp.deserialize(data)
            vals.append(v)
        if fields and fields[0][0] == "<single>":
            st = vals[0]
            args = [getattr(st, f.name) for f in st.fields]
            return hx(h._ezsp_frame(name, *args))
        if kw == 0:
            return hx(h._ezsp_frame(name, *vals))
        if kw in (4, 5):
            a4, _ = tx_args(name, fields, body, kw)
            return hx(h._ezsp_frame(name, *a4))
        keys = [k for k, _, _ in fields]
        if kw == 1:
            return hx(h._ezsp_frame(name, **dict(zip(keys, vals))))
        if kw == 2:  # keywords in reverse order
            return hx(h._ezsp_frame(name, **dict(reversed(list(zip(keys, vals))))))
        # first positional, rest keywords shuffled
        return hx(h._ezsp_frame(name, vals[0], **dict(reversed(list(zip(keys[1:], vals[1:]))))))
    except Exception as e:
        return f"raised:{type(e).__name__}"


class _Gw:
    def __init__(self):
        self.sent = []

    async def send_data(self, data):
        self.sent.append(bytes(data))


def call_jobs(jobs):
    """the public call path: `await handler.command(name, *args, **kwargs)` with a recording gateway.  The handler keeps its
    own sequence counter across all the calls made through it (hundreds per version: the counter wraps many times).
    jobs: (handler, name, args, kwargs, reply) with reply = None | (payload bytes, rx fields): the reply is sent back under
    the sequence number and frame ID the request carried and must complete the call with exactly its values.
    -> (sent hex | raised:X, outcome string | None)"""
    import asyncio

    async def main():
        out = []
        for h, name, args, kwargs, reply in jobs:
            gw = _Gw()
            h._gw = gw
            h._handle_callback = lambda *a: None
            t = asyncio.ensure_future(h.command(name, *args, **kwargs))
            for _ in range(3):
                if gw.sent or t.done():
                    break
                await asyncio.sleep(0)
            outcome = None
            if reply is not None and len(gw.sent) == 1 and not t.done():
                payload, fields, rcid = reply
                # the NCP answers under the sequence number the request carried
                try:
                    h(ezsplib.spec_header(h.VERSION, gw.sent[0][0], rcid) + payload)
                    # the reply resolves the call's future at once; the call itself resumes within a few loop iterations (no real
                    # time is needed - a call that is still waiting then has not been completed by its reply)
                    for _ in range(10):
                        if t.done():
                            break
                        await asyncio.sleep(0)
                    if not t.done():
                        raise asyncio.TimeoutError()
                    res = t.result()
                    if len(fields) == 1 and fields[0][0] == "<single>":
                        vals = [ezsplib.canon(fields[0][2], res)]
                    else:
                        vals = [ezsplib.canon(d, a) for (_, _, d), a in zip(fields, res)]
                        if len(res) != len(fields):
                            vals = [f"arity:{len(res)}"]
                    outcome = f"{name}:[{','.join(vals)}]"
                except asyncio.TimeoutError:
                    outcome = "no-completion"
                except Exception as e:  # noqa: BLE001
                    outcome = f"raised:{type(e).__name__}"
            if not t.done():
                t.cancel()
            try:
                await t
                res = None
            except asyncio.CancelledError:
                res = None
            except Exception as e:  # noqa: BLE001
                res = f"raised:{type(e).__name__}"
            if res is None or (len(gw.sent) == 1 and outcome is not None):
                res = hx(gw.sent[0]) if len(gw.sent) == 1 else f"sent:{len(gw.sent)}"
            out.append((res, outcome))
        return out

    return asyncio.run(main())


def _is_enum(tp):
    import enum

    return isinstance(tp, type) and issubclass(tp, enum.Enum)


def tx_args(name, fields, body, kw):
    """(args, kwargs) for the argument form `kw`, or None"""
    vals, data = [], body
    for _, tp, _ in fields:
        v, data = tp.deserialize(data)
        vals.append(v)
    if fields and fields[0][0] == "<single>":
        st = vals[0]
        return [getattr(st, f.name) for f in st.fields], {}
    keys = [k for k, _, _ in fields]
    if kw == 4:
        # arguments that arrive already wrapped in an integer / byte-string type of ANOTHER width than the declared one (a caller
        # handing on a value it got from somewhere else): the declared type decides the bytes on the wire
        import bellows.types as t

        out = []
        for (_, tp, d), v in zip(fields, vals):
            if d[0] in ("u", "s") and d[0] == "u":
                n = int(v) & (256 ** d[1] - 1)
                if d[1] > 1 and n < 256:
                    out.append(t.uint8_t(n))
                elif d[1] == 1:
                    out.append(t.uint16_t(n))
                elif d[1] < 4:
                    out.append(t.uint32_t(n))
                else:
                    out.append(v)
            elif d == ("lv", 1):
                out.append(t.LVBytes32(bytes(v)))
            else:
                out.append(v)
        return out, {}
    if kw == 5:
        # plain Python numbers for the integer fields (what most callers write): the declared type makes of them what it makes of
        # its own instances - for a signed field that includes the negative numbers
        out = []
        for (_, tp, d), v in zip(fields, vals):
            if d[0] in ("u", "s") and isinstance(v, int) and not hasattr(tp, "__members__"):
                out.append(int(v))
            else:
                out.append(v)
        return out, {}
    if kw == 0:
        return vals, {}
    if kw == 1:
        return [], dict(zip(keys, vals))
    if kw == 2:
        return [], dict(reversed(list(zip(keys, vals))))
    return vals[:1], dict(reversed(list(zip(keys[1:], vals[1:]))))


def run(ctx):
    logging.disable(logging.CRITICAL)
    rng = ctx.rng
    jobs, job_rows = [], []
    rows = []  # (kind, version, name, model line, impl, spec, note)
    reps = ctx.n(5, 16)
    n_pairs = 0
    for v in range(4, 15):
        h = ezsplib.handler(v)
        hc = ezsplib.handler(v)   # a second handler for the public call path: its sequence counter runs on by itself
        mod = importlib.import_module(f"bellows.ezsp.v{v}.commands")
        ids = {}
        for name, (cid, tx, rx) in mod.COMMANDS.items():
            n_pairs += 1
            if cid in ids:
                ctx.violation(f"v{v}: frame ID {cid:#x} belongs to both {ids[cid]} and {name}", {"kind": "dup-id", "version": v},
                              {"kind": "dup-id", "version": v, "names": [ids[cid], name], "id": cid})
            ids[cid] = name
            rxf = ezsplib.schema_fields(rx)
            txf = ezsplib.schema_fields(tx)
            for fields, which in ((rxf, "rx"), (txf, "tx")):
                if any(ezsplib.has(d, ("inv",)) for _, _, d in fields):
                    # an undefined schema: the call / the receive path cannot work at all
                    if which == "tx":
                        got = tx_impl(h, name, [], b"", 0)
                        if got.startswith("raised"):
                            ctx.violation(f"v{v} {name}: command cannot be called ({got}); its schema is {tx!r}",
                                          {"kind": "unit-schema", "command": name}, {"kind": "tx-call", "version": v, "name": name})
                    continue
            for rep in range(reps):
                mode = ["zero", "max"][rep] if rep < 2 else "rand"
                seq = rng.getrandbits(8)
                # ---- receive path
                if not any(ezsplib.has(d, ("inv",)) for _, _, d in rxf):
                    parts = [ezsplib.gen(d, rng, mode, i == len(rxf) - 1) for i, (_, _, d) in enumerate(rxf)]
                    body = b"".join(p[1] for p in parts)
                    frame = ezsplib.spec_header(v, seq, cid) + body
                    want = f"{name}:[{','.join(p[0] for p in parts)}]"
                    got = rx_impl(h, frame, rxf)
                    skip_model = any(ezsplib.has(d, ("cond",)) for _, _, d in rxf)
                    rows.append(("rx", v, name, None if skip_model else f"c07 rx {v} {hx(frame)}", got, want, hx(frame)))
                # ---- transmit path
                if not any(ezsplib.has(d, ("inv", "cond")) for _, _, d in txf):
                    parts = [ezsplib.gen(d, rng, mode, i == len(txf) - 1) for i, (_, _, d) in enumerate(txf)]
                    body = b"".join(p[1] for p in parts)
                    h._seq = seq
                    want = hx(ezsplib.spec_header(v, seq, cid) + body)
                    vals = "[" + ",".join(p[0] for p in parts) + "]"
                    for kw in ((0, 1, 2, 3, 4, 5) if len(txf) >= 2 else (0, 1, 4, 5) if txf and txf[0][0] != "<single>" else (0,)):
                        got = tx_impl(h, name, txf, body, kw)
                        if txf and txf[0][0] == "<single>":
                            line = None
                        else:
                            line = f"c07 tx {v} {seq} {name} {vals}"
                        rows.append(("tx", v, name, line, got, want, f"kw={kw} {vals}"))
                        try:
                            a, k = tx_args(name, txf, body, kw)
                            reply = None
                            if kw == 0 and name != "invalidCommand" and not any(ezsplib.has(d, ("inv", "cond")) for _, _, d in rxf):
                                if rep == 1 and "invalidCommand" in mod.COMMANDS:
                                    # the NCP does not know the command: it answers with the invalid-command frame under the
                                    # request's sequence number; the call must end with that error (not hang, not mis-decode)
                                    irx = ezsplib.schema_fields(mod.COMMANDS["invalidCommand"][2])
                                    ip = [ezsplib.gen(d, rng, "rand", i == len(irx) - 1) for i, (_, _, d) in enumerate(irx)]
                                    reply = (b"".join(p[1] for p in ip), [], mod.COMMANDS["invalidCommand"][0], "raised:InvalidCommandError")
                                else:
                                    rparts = [ezsplib.gen(d, rng, mode, i == len(rxf) - 1) for i, (_, _, d) in enumerate(rxf)]
                                    reply = (b"".join(p[1] for p in rparts), rxf, cid, f"{name}:[{','.join(p[0] for p in rparts)}]")
                            jobs.append((hc, name, a, k, reply[:3] if reply else None))
                            job_rows.append((v, name, body, cid, f"call kw={kw} {vals}", reply[3] if reply else None))
                        except Exception:  # noqa: BLE001  (the _ezsp_frame row above reports it)
                            pass
    # ---- history on one handler: the same command called twice with keywords, the second time with the keywords in another order
    # and the values exchanged (so that the *sequence* of values is the one of the first call): each call sends its own arguments
    for v in range(4, 15):
        h = ezsplib.handler(v)
        mod = importlib.import_module(f"bellows.ezsp.v{v}.commands")
        n_sw = 0
        for name, (cid, tx, rx) in mod.COMMANDS.items():
            txf = ezsplib.schema_fields(tx)
            if len(txf) < 2 or txf[0][0] == "<single>" or txf[0][2] != txf[1][2] or txf[0][2][0] != "u" or txf[0][2][1] != 1:
                continue
            if any(ezsplib.has(d, ("inv", "cond")) for _, _, d in txf):
                continue
            n_sw += 1
            if n_sw > ctx.n(12, 60):
                break
            x, y = rng.randrange(1, 200), rng.randrange(1, 200)
            if x == y:
                y += 1
            rest = [ezsplib.gen(d, rng, "rand", i == len(txf) - 3) for i, (_, _, d) in enumerate(txf[2:])]
            restvals, data = [], b"".join(p[1] for p in rest)
            try:
                for _, tp, _ in txf[2:]:
                    val, data = tp.deserialize(data)
                    restvals.append(val)
                (k1, t1, _), (k2, t2, _) = txf[0], txf[1]
                rk = dict(zip([k for k, _, _ in txf[2:]], restvals))
                tail = b"".join(p[1] for p in rest)
                for a, b in ((x, y), (y, x)):
                    h._seq = 7
                    first = h._ezsp_frame(name, **{k1: t1.deserialize(bytes([a]))[0], k2: t2.deserialize(bytes([b]))[0]}, **rk)
                    h._seq = 7
                    # keywords in the other order; k2 now gets the value k1 had, and k1 the value k2 had
                    second = h._ezsp_frame(name, **{k2: t2.deserialize(bytes([a]))[0], k1: t1.deserialize(bytes([b]))[0]}, **rk)
                    want1 = ezsplib.spec_header(v, 7, cid) + bytes([a, b]) + tail
                    want2 = ezsplib.spec_header(v, 7, cid) + bytes([b, a]) + tail
                    rows.append(("tx", v, name, None, hx(first), hx(want1), f"keywords {k1}={a} {k2}={b}"))
                    rows.append(("tx", v, name, None, hx(second), hx(want2), f"then, on the same handler, keywords {k2}={a} {k1}={b}"))
            except Exception as e:  # noqa: BLE001
                rows.append(("tx", v, name, None, f"raised:{type(e).__name__}", "no exception", "keyword calls with exchanged values"))
    # ---- scalar field types are transparent: the model lowers every enum / bitmap / integer type of n bytes to "n bytes, little
    # endian"; every such type that occurs anywhere in a schema (also inside structs and lists) must decode every wire value to
    # that number and encode it back to the same bytes (all 256 values of the one-byte types; members, extremes and random values
    # of the wider ones)
    import enum as _enum
    import zigpy.types as _zt
    scalar_types = {}

    def _collect(tp):
        if tp is None or not isinstance(tp, type):
            return
        if ezsplib._is(tp, _zt.Struct):
            for f in tp.fields:
                _collect(f.type)
        elif ezsplib._is(tp, _zt.basic.FixedIntType):
            scalar_types.setdefault(tp.__module__ + "." + tp.__qualname__, tp)
        elif hasattr(tp, "_item_type"):
            _collect(tp._item_type)

    for v in range(4, 15):
        mod = importlib.import_module(f"bellows.ezsp.v{v}.commands")
        for name, (cid, tx, rx) in mod.COMMANDS.items():
            for sch in (tx, rx):
                for _, tp, _ in ezsplib.schema_fields(sch):
                    _collect(tp)
    for tname, tp in sorted(scalar_types.items()):
        bits = getattr(tp, "_bits", 0)
        if not bits or bits % 8:
            continue
        n = bits // 8
        if n == 1:
            vals = range(256)
        else:
            vals = sorted({0, 1, 256 ** n - 1, 256 ** n // 2, 256 ** n // 2 - 1} | {int(m) & (256 ** n - 1) for m in (tp if _is_enum(tp) else [])}
                          | {rng.getrandbits(bits) for _ in range(40)})
        for x in vals:
            wire = int(x).to_bytes(n, "little")
            ctx.cov["evaluations"] += 1
            try:
                val, rest = tp.deserialize(wire + b"\x5a")
                num = int(val) & (256 ** n - 1)
                back = val.serialize()
                okay = num == x and back == wire and rest == b"\x5a"
                got = f"value {num:#x}, re-encoded {hx(back)}, rest {hx(rest)}"
            except Exception as e:  # noqa: BLE001
                okay, got = False, f"raised:{type(e).__name__}"
            if not okay:
                ctx.violation(f"field type {tp.__name__}: wire bytes {hx(wire)} decode to {got}; the specification (a {n}-byte little-endian number, carried unchanged) gives value {x:#x}, re-encoded {hx(wire)}",
                              {"kind": "scalar-type", "type": tp.__name__}, {"kind": "scalar", "type": tname, "wire": hx(wire)})
                break
        ctx.count("scalar_types_swept")
    # ---- version isolation: "that version's" table is what that version's module declares; executing a later version's module
    # must not change it.  A command whose declaration read in isolation differs from the one in the imported package is
    # exercised with values laid out as declared.
    iso, err = isolated_tables(ctx)
    if iso is None:
        ctx.corr_diff("the per-version command modules could not be executed in isolation", {"stderr": err}, "error", "tables")
    else:
        for v in range(4, 15):
            h = ezsplib.handler(v)
            mod = importlib.import_module(f"bellows.ezsp.v{v}.commands")
            full = {n: (c, [(k, _tup(d)) for k, _, d in ezsplib.schema_fields(tx)], [(k, _tup(d)) for k, _, d in ezsplib.schema_fields(rx)])
                    for n, (c, tx, rx) in mod.COMMANDS.items()}
            ctx.count("isolated_tables_compared")
            for name in sorted(set(full) | set(iso[v])):
                ctx.cov["evaluations"] += 1
                if full.get(name) == iso[v].get(name):
                    continue
                found = False
                if name not in full or name not in iso[v] or full[name][0] != iso[v][name][0]:
                    ctx.violation(f"v{v} {name}: the version's own module declares {iso[v].get(name, ('no such command',))[0]!r} as its frame ID, the imported package has {full.get(name, ('no such command',))[0]!r}",
                                  {"kind": "isolation-id", "command": name}, {"kind": "isolation", "version": v, "name": name})
                    continue
                cid, itx, irx = iso[v][name]
                real_tx = ezsplib.schema_fields(mod.COMMANDS[name][1])
                for mode in ("zero", "max", "rand", "rand"):
                    seq = rng.getrandbits(8)
                    if irx != full[name][2] and not any(ezsplib.has(d, ("inv", "cond")) for _, d in irx):
                        parts = [ezsplib.gen(d, rng, mode, i == len(irx) - 1) for i, (_, d) in enumerate(irx)]
                        frame = ezsplib.spec_header(v, seq, cid) + b"".join(p[1] for p in parts)
                        want = f"{name}:[{','.join(p[0] for p in parts)}]"
                        got = rx_impl(h, frame, [(k, None, d) for k, d in irx])
                        if got != want:
                            found = True
                            ctx.violation(f"v{v} {name} rx: values laid out as the v{v} table declares them ({hx(frame)}) give {got[:160]}, declared {want[:160]} "
                                          f"(the table of v{v} in the imported package is not the one its module declares)",
                                          {"kind": "isolation-rx", "command": name}, {"kind": "isolation", "version": v, "name": name, "frame": hx(frame), "spec": want})
                            break
                    if itx != full[name][1] and len(itx) == len(real_tx) and not any(ezsplib.has(d, ("inv", "cond")) for _, d in itx):
                        parts = [ezsplib.gen(d, rng, mode, i == len(itx) - 1) for i, (_, d) in enumerate(itx)]
                        body = b"".join(p[1] for p in parts)
                        h._seq = seq
                        want = hx(ezsplib.spec_header(v, seq, cid) + body)
                        got = tx_impl(h, name, real_tx, body, 0)
                        if got != want:
                            found = True
                            ctx.violation(f"v{v} {name} tx: arguments laid out as the v{v} table declares them ({hx(body)}) are sent as {got[:160]}, declared {want[:160]} "
                                          f"(the table of v{v} in the imported package is not the one its module declares)",
                                          {"kind": "isolation-tx", "command": name}, {"kind": "isolation", "version": v, "name": name, "body": hx(body), "spec": want})
                            break
                if not found:
                    ctx.corr_diff(f"v{v} {name}: declaration read in isolation differs from the imported package's", {"version": v, "name": name},
                                  repr(full[name])[:300], repr(iso[v][name])[:300])
    nseq = {}
    for (v, name, body, cid, note, want_reply), (got, outcome) in zip(job_rows, call_jobs(jobs)):
        k = nseq.get(v, 0)
        nseq[v] = k + 1
        want = hx(ezsplib.spec_header(v, k % 256, cid) + body)   # the k-th command through this handler carries sequence k mod 256
        rows.append(("call", v, name, None, got, want, note + f" (command #{k} of this handler)"))
        if want_reply is not None and not got.startswith("raised"):
            rows.append(("reply", v, name, None, outcome, want_reply, note + f" (command #{k} of this handler)"))
    out = ctx.driver([r[3] for r in rows if r[3]])
    k = 0
    for kind, v, name, line, got, want, note in rows:
        ctx.cov["evaluations"] += 1
        ctx.cov["distinct_nontrivial"] += 1
        ctx.count(f"{kind}:v{v}")
        if got != want:
            ctx.violation(f"v{v} {name} {kind}: implementation {got[:200]} differs from the specification {want[:200]} ({note[:120]})",
                          {"kind": kind + "-mismatch", "command": name}, {"kind": kind, "version": v, "name": name, "note": note, "impl": got, "spec": want})
        if line and out is not None:
            m = out[k]
            k += 1
            if kind == "rx":
                # model: ok:<seq>:<name>:<vals>:<trailing>
                p = m.split(":")
                mm = f"{p[2]}:{p[3]}" if p[0] == "ok" and p[4] == "-" else m
            else:
                mm = m
            if mm != got:
                ctx.corr_diff(f"v{v} {name} {kind} differs", {"version": v, "name": name, "note": note[:200]}, got[:300], mm[:300])
        if ctx.cov["evaluations"] % 3000 == 1:
            ctx.sample({"kind": kind, "version": v, "name": name, "impl": got[:120], "spec": want[:120]})
    ctx.count("version_command_pairs", n_pairs)
    ctx.cov["rule"] = (f"every (version, command) pair of versions 4..14 ({n_pairs} pairs) x {reps} value tuples per direction (all-zero/empty, maximal, random; optional tail present and absent); "
                       "receive path = real handler __call__ on header + independently encoded payload, decoded values canonicalised by descriptor; transmit path = real _ezsp_frame with positional, keyword, "
                       "reversed-keyword and mixed argument forms, and positional arguments pre-wrapped in an integer / byte-string type of another width than declared, and the same argument forms through the public call path (await handler.command(name, ...) with a recording gateway: "
                       "the bytes handed to send_data, each handler's own sequence counter running on through many wraps; the NCP's reply under the request's header then completes the call with its values); every case is distinct and non-trivial")
    ctx.exhaustive = True


search = run


def replay(ctx, obj):
    logging.disable(logging.CRITICAL)
    r = obj["replay"]
    if r["kind"] == "scalar":
        import importlib as _il

        modname, _, q = r["type"].rpartition(".")
        tp = getattr(_il.import_module(modname), q)
        wire = bytes.fromhex(r["wire"])
        try:
            val, _ = tp.deserialize(wire)
            bad = None if (int(val) & (256 ** len(wire) - 1)) == int.from_bytes(wire, "little") and val.serialize() == wire else f"{r['type']}: {r['wire']} -> {int(val):#x} -> {hx(val.serialize())}"
        except Exception as e:  # noqa: BLE001
            bad = f"raised {type(e).__name__}"
    elif r["kind"] == "tx-call":
        h = ezsplib.handler(r["version"])
        got = tx_impl(h, r["name"], [], b"", 0)
        bad = got if got.startswith("raised") else None
    elif r["kind"] == "dup-id":
        mod = importlib.import_module(f"bellows.ezsp.v{r['version']}.commands")
        bad = "duplicate id" if all(mod.COMMANDS[n][0] == r["id"] for n in r["names"]) else None
    else:
        # re-run the whole check deterministically and look for the same command
        before = len(ctx.violations)
        run(ctx)
        hits = [x for x in ctx.violations[before:] if x["replay"].get("name") == r["name"] and x["replay"].get("version") == r["version"]]
        bad = hits[0]["what"] if hits else None
    print(f"replay {r.get('kind')} v{r.get('version')} {r.get('name')}: {'FAILS: ' + str(bad) if bad else 'ok'}")
    if bad:
        print(f"VIOLATION property={ctx.pid} replay=replay")
    return 1 if bad else 0
