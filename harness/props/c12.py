"""C12 — unicast delivery: the real ControllerApplication.send_packet over the real per-version send
wrappers (EZSPvN) with a scripted command layer, on the deterministic loop; versus the Lean model
(correspondence at settled states) and the property's statements on the trace (oracle)."""
import asyncio
import logging

from harness import shim, vloop

BUSY = ["ZIGBEE_MAX_MESSAGE_LIMIT_REACHED", "TRANSMIT_BUSY", "ALLOCATION_FAILED"]
EMBER_BUSY = [0x72, 0xA1, 0x18]  # MAX_MESSAGE_LIMIT_REACHED, NETWORK_BUSY, NO_BUFFERS


class World:
    def __init__(self, version, seq0, rng):
        import bellows.ezsp as ezsp
        import bellows.types as t
        import zigpy.config

        self.t = t
        self.rng = rng
        self.version = version
        self.loop = vloop.VLoop().install()
        self.app = shim.make_app({zigpy.config.CONF_SOURCE_ROUTING: True})
        self.log = []
        self.e = ezsp.EZSP({"path": "/dev/null"})
        self.e._protocol = ezsp.EZSP._BY_VERSION[version](self.e.handle_callback, None)
        self.e._ezsp_version = version
        self.e._protocol.command = self.fake_command
        self.e.start_ezsp()
        self.app._ezsp = self.e
        self.app._ctrl_event.set()
        self.app._send_sequence = seq0
        import zigpy.types as _zt

        self.app.state.node_info.nwk = _zt.NWK(0x0000)   # a coordinator's own address
        self.waiting = None  # (req id, future) of the command being awaited
        self.tasks = {}
        self.req_of_dst = {}
        self.req_of_ieee = {}
        self.tag_of = {}
        self.events = []
        self.route = {}
        self._last = (0, 0)

    def close(self):
        self.loop.shutdown()

    async def fake_command(self, name, *args, **kwargs):
        t = self.t
        r = None
        if name in ("sendUnicast", "sendMulticast", "sendBroadcast"):
            vals = list(args) + list(kwargs.values())
            tag = kwargs.get("messageTag", kwargs.get("message_tag"))
            r = self.cur_send
            self.tag_of[r] = int(tag)
            step = "s"
        elif name == "setSourceRoute":
            r = self.req_of_dst[int(kwargs["destination"])]
            step = "r"
        else:
            ieee = kwargs.get("remoteEui64", kwargs.get("eui64"))
            r = self.req_of_ieee[str(ieee)]
            step = "e"
        self.log.append(f"K{r}:{step}")
        fut = asyncio.get_running_loop().create_future()
        self.waiting = (r, name, fut)
        try:
            res = await fut
        finally:
            if self.waiting is not None and self.waiting[2] is fut:
                self.waiting = None
        return res

    async def _caller(self, r, packet):
        import zigpy.exceptions as ze

        try:
            await self.app.send_packet(packet)
            self.log.append(f"D{r}:ok")
        except asyncio.TimeoutError:
            self.log.append(f"D{r}:timeout")
        except asyncio.CancelledError:
            self.log.append(f"D{r}:cancelled")
        except ze.DeliveryError as e:
            self.log.append(f"D{r}:delivery:{e}")
        except ConnectionError:
            self.log.append(f"D{r}:raised")
        except Exception as e:
            self.log.append(f"D{r}:!{type(e).__name__}:{e}")

    def state(self):
        keys = ",".join(f"{int(k[0])}/{int(k[1])}" for k in self.app._pending.keys()) or "-"
        return f"pending={keys} now={round(self.loop.time() * 1e6)}"

    def do(self, ev):
        import zigpy.types as zt

        t = self.t
        start = len(self.log)
        k = ev[0]
        if k == "S":
            _, r, dst, kind, steps, ext_variant = ev.split("=")
            r, dst = int(r), int(dst)
            ieee_addressed = kind == "i"
            if ieee_addressed:
                kind = "u"   # a unicast all the same: the application falls back to the device's network address
            if kind == "u" and not ieee_addressed:
                addr = zt.AddrModeAddress(addr_mode=zt.AddrMode.NWK, address=zt.NWK(dst))
            elif ieee_addressed:
                _ie = t.EUI64.convert(f"00:11:22:33:44:55:{dst >> 8:02x}:{dst & 255:02x}")
                self.app.add_device(_ie, dst)
                addr = zt.AddrModeAddress(addr_mode=zt.AddrMode.IEEE, address=zt.EUI64(_ie))
            elif kind == "m":
                addr = zt.AddrModeAddress(addr_mode=zt.AddrMode.Group, address=zt.Group(dst))
            else:
                addr = zt.AddrModeAddress(addr_mode=zt.AddrMode.Broadcast, address=zt.BroadcastAddress.ALL_ROUTERS_AND_COORDINATOR)
                dst = int(zt.BroadcastAddress.ALL_ROUTERS_AND_COORDINATOR)
            ext = "e" in steps
            if kind == "u":
                ieee = t.EUI64.convert(f"00:11:22:33:44:55:{dst >> 8:02x}:{dst & 255:02x}")
                if ext:
                    self.app.add_device(ieee, dst)
                self.req_of_ieee[str(ieee)] = r
            self.req_of_dst[dst] = r
            self.ext_variant = getattr(self, "ext_variant", {})
            self.ext_variant[r] = ext_variant
            packet = zt.ZigbeePacket(
                src=zt.AddrModeAddress(addr_mode=zt.AddrMode.NWK, address=zt.NWK(0)), src_ep=1, dst=addr, dst_ep=1,
                source_route=[zt.NWK(0x0001)] if ("r" in steps or (kind == "u" and self.route.get(r))) else None,
                extended_timeout=ext, tsn=dst & 0xFF, profile_id=260, cluster_id=6,
                data=zt.SerializableBytes(bytes([r])), radius=3, non_member_radius=1)
            self.kind = getattr(self, "kind", {})
            self.kind[r] = kind
            self.tasks[r] = self.loop.create_task(self._caller_wrap(r, packet))
            self.loop.settle()
        elif k == "D":
            st = ev[2:]
            if self.waiting is not None:
                r, name, fut = self.waiting
                v14 = self.version >= 14
                if name.startswith("send"):
                    if st == "ok":
                        status = t.sl_Status.OK if v14 else t.EmberStatus.SUCCESS
                    elif st == "busy":
                        i = self.rng.randrange(3)
                        status = t.sl_Status[BUSY[i]] if v14 else t.EmberStatus(EMBER_BUSY[i])
                    else:
                        status = t.sl_Status.FAIL if v14 else t.EmberStatus.ERR_FATAL
                    fut.set_result((status, t.uint8_t(0x42)))
                elif name == "getExtendedTimeout":
                    fut.set_result((self.ext_variant[r] == "1",))
                elif name == "lookupNodeIdByEui64":
                    fut.set_result((t.EmberNodeId(0x1234),))
                else:
                    fut.set_result((t.sl_Status.OK if v14 else t.EmberStatus.SUCCESS,))
            self.loop.settle()
        elif k == "E":
            if self.waiting is not None:
                self.waiting[2].set_exception(ConnectionError("link"))
            self.loop.settle()
        elif k == "F":
            _, dst, tag, ok = ev.split("=")
            dst, tag = int(dst), int(tag)
            aps = t.EmberApsFrame(profileId=260, clusterId=6, sourceEndpoint=1, destinationEndpoint=1, options=0, groupId=0, sequence=1)
            if self.version >= 14:
                status = t.sl_Status.OK if ok == "1" else t.sl_Status.ZIGBEE_DELIVERY_FAILED
                args = [status, t.EmberOutgoingMessageType.OUTGOING_DIRECT, t.EmberNodeId(dst), aps, t.uint16_t(tag), b"x"]
            else:
                status = t.EmberStatus.SUCCESS if ok == "1" else t.EmberStatus.DELIVERY_FAILED
                args = [t.EmberOutgoingMessageType.OUTGOING_DIRECT, t.EmberNodeId(dst), aps, t.uint8_t(tag), status, b"x"]
            before = self._counter_total()
            self.loop.iterate([(self.app.ezsp_callback_handler, "messageSentHandler", args)])
            self.loop.settle()
            un, du = self._counter_kind()
            if un > self._last[0]:
                self.log.append("UNEXP")
            if du > self._last[1]:
                self.log.append("DUP")
            self._last = (un, du)
        elif k == "T":
            self.loop.fire_next_timer()
        elif k == "W":
            self.loop.set_time(self.loop.time() + 0.001)
            self.loop.settle()
        elif k == "C":
            tk = self.tasks.get(int(ev[2:]))
            if tk is not None and not tk.done():
                tk.cancel()
            self.loop.settle()
        self.events.append((ev, self.log[start:], self.state()))

    _last = (0, 0)

    def _counter_total(self):
        return 0

    def _counter_kind(self):
        from bellows.zigbee.application import COUNTERS_CTRL

        c = self.app.state.counters[COUNTERS_CTRL]
        un = sum(int(v.value) for k, v in c.items() if k.endswith("_unexpected"))
        du = sum(int(v.value) for k, v in c.items() if k.endswith("_duplicate"))
        return un, du

    async def _caller_wrap(self, r, packet):
        # remember which request is inside send_* when the command stub is entered
        orig = {}
        e = self.e._protocol

        for nm in ("send_unicast", "send_multicast", "send_broadcast"):
            fn = getattr(type(e), nm)

            async def wrapped(*a, _fn=fn, **kw):
                self.cur_send = self.req_of_tag_hint(kw)
                return await _fn(e, *a, **kw)

            orig[nm] = wrapped
        return await self._caller(r, packet)

    def req_of_tag_hint(self, kw):
        return None


def build(w):
    """per-request identification of send commands: by payload (the request id is the payload byte)"""
    e = w.e._protocol
    orig_cmd = w.fake_command

    async def cmd(name, *args, **kwargs):
        if name in ("sendUnicast", "sendMulticast", "sendBroadcast"):
            data = kwargs.get("messageContents", kwargs.get("message"))
            w.cur_send = int(bytes(data)[0])
        return await orig_cmd(name, *args, **kwargs)

    e.command = cmd


def run_script(rng, version, seq0, script):
    w = World(version, seq0, rng)
    build(w)
    mev = []
    try:
        for ev in script:
            if ev[0] == "S":
                _, r, dst, kind, steps, extv = ev.split("=")
                if kind == "i":
                    kind = "u"
                if version >= 9:
                    w.route[int(r)] = "r" in steps
                    steps = steps.replace("r", "")  # set_source_route issues no command from v9 on
                if "e" in steps and extv == "0":
                    steps = steps.replace("e", "eee")  # not yet set: get, lookup, set
                if kind == "b":
                    dst = "65532"
                if kind != "u":
                    steps = "s"
                mev.append(f"S={r}={dst}={kind}={steps}")
            elif ev[0] == "F":
                _, rr, which, ok = ev.split("=")
                rr = int(rr)
                # confirmation for request rr: own tag / a foreign tag / a foreign destination
                tag = w.tag_of.get(rr)
                dst = next((d for d, q in w.req_of_dst.items() if q == rr), 0)
                if tag is None:
                    tag = 200
                if which == "tag":
                    # (protocol version 14 carries 16-bit tags: there the foreign tag shares its low byte with the own one)
                    tag = (tag + 7) % 256 if w.version < 14 else tag + 0x3200
                elif which == "dst":
                    dst = dst ^ 0x0100
                ev = f"F={dst}={tag}={ok}"
                mev.append(ev)
            elif ev == "T":
                if w.loop.next_timer() is None:
                    continue
                mev.append(ev)
            else:
                mev.append(ev)
            w.do(ev)
    finally:
        w.close()
    return w, mev


def norm(entries):
    out = []
    for e in entries:
        if e.startswith("D") and ":delivery:" in e:
            msg = e.split(":delivery:")[1]
            r = e.split(":")[0]
            if "after" in msg and "attempts" in msg:
                out.append(f"{r}:busy")
            elif "enqueue" in msg:
                out.append(f"{r}:refused")
            else:
                out.append(f"{r}:failed")
        else:
            out.append(e)
    return out


def oracle(w, mev, consts):
    delays, aps_timeout = consts
    info = {}  # r -> dict
    cmdlog = []
    seqlog = []
    for (ev, entries, st), m in zip(w.events, mev):
        now = int(st.split("now=")[1]) / 1e6
        ents = norm(entries)
        if m.startswith("S="):
            _, r, dst, kind, steps = m.split("=")
            info[int(r)] = {"dst": int(dst), "kind": kind, "sent_ok": None, "confirmed": None, "t_send": [], "start": now, "done": None}
        if m == "D=ok" and cmdlog and cmdlog[-1][1] == "s":
            info[cmdlog[-1][0]]["t_accept"] = now   # the awaited command is the last one issued
        if m == "D=busy" and cmdlog and cmdlog[-1][1] == "s":
            info[cmdlog[-1][0]].setdefault("t_busy", []).append(now)
            info[cmdlog[-1][0]]["last_enqueue"] = "busy"
        if m in ("D=ok", "D=refused") and cmdlog and cmdlog[-1][1] == "s":
            info[cmdlog[-1][0]]["last_enqueue"] = m[2:]
        for e in ents:
            if e.startswith("D") and ":!" in e:
                return f"send_packet ended with an unexpected exception: {e}"
            if e[0] == "D" and ":" in e:
                seqlog.append(("D", int(e[1:].split(":")[0]), ""))
            if e[0] == "K":
                r, stp = e[1:].split(":")
                seqlog.append(("K", int(r), stp))
                cmdlog.append((int(r), stp, now))
                if stp == "s":
                    info[int(r)]["t_send"].append(now)
                    for q, iq in info.items():
                        if q != int(r) and iq["done"] is None and iq["dst"] == info[int(r)]["dst"] and w.tag_of.get(q) is not None and w.tag_of.get(q) == w.tag_of.get(int(r)):
                            return (f"requests {q} and {r} are in flight to the same destination {iq['dst']} with the same message tag {w.tag_of.get(q)}: "
                                    f"a delivery confirmation can no longer be attributed to its own request")
        if m.startswith("F="):
            _, dst, tag, ok = m.split("=")
            for r, i in info.items():
                if i["dst"] == int(dst) and w.tag_of.get(r) == int(tag) and i["done"] is None and i["confirmed"] is None:
                    i["confirmed"] = (ok == "1", now)
        for e in ents:
            if e[0] == "D" and ":" in e:
                r, res = e[1:].split(":")[:2]
                r = int(r)
                i = info[r]
                i["done"] = (res, now)
                key = f"{i['dst']}/{w.tag_of.get(r)}"
                if w.tag_of.get(r) is not None and key in st.split("pending=")[1].split()[0].split(","):
                    return f"request {r} ended ({res}) but its bookkeeping entry {key} remains in the pending table"
                if res == "ok" and i["kind"] == "u" and "t_accept" not in i and i["t_send"] and i.get("last_enqueue") in ("busy", "refused"):
                    return (f"unicast {r} (dst {i['dst']}, tag {w.tag_of.get(r)}) reported delivered although the NCP accepted none of its {len(i['t_send'])} "
                            f"enqueue attempt(s) (last answer: {i.get('last_enqueue')})")
                if res == "ok" and i["kind"] == "u":
                    if i["confirmed"] is None or not i["confirmed"][0]:
                        return f"unicast {r} (dst {i['dst']}, tag {w.tag_of.get(r)}) reported delivered without a successful confirmation for its own destination and tag"
                if res == "timeout" and i["confirmed"] is not None:
                    return (f"unicast {r} (dst {i['dst']}, tag {w.tag_of.get(r)}) raised a timeout although a delivery confirmation for its own destination and tag "
                            f"({'success' if i['confirmed'][0] else 'failure'}) arrived at {i['confirmed'][1]} while it was in progress")
                if res == "timeout":
                    if "t_accept" not in i or abs(now - (i["t_accept"] + aps_timeout)) > 1e-6:
                        return f"unicast {r} timed out at {now}, expected {aps_timeout}s after the NCP accepted it"
                if res in ("refused", "failed") and i.get("last_enqueue") == "busy" and len(i.get("t_busy", [])) < len(delays) and i["confirmed"] is None:
                    return (f"request {r} raised a delivery error ({res}) right after the NCP answered its enqueue attempt {len(i['t_busy'])} with a busy status: "
                            f"a busy NCP is retried {len(delays)} times with waits {delays} before the request is given up")
                if res == "busy":
                    tb = i.get("t_busy", [])
                    tcmd = [tt for rr, stp, tt in cmdlog if rr == r]
                    nxt = [min([x for x in tcmd if x > b] + [now]) for b in tb]   # first command of the next attempt (or the end)
                    gaps = [round(b - a, 6) for a, b in zip(tb, nxt)]
                    if len(i["t_send"]) != len(delays) or len(tb) != len(delays) or any(g < d - 1e-6 for g, d in zip(gaps, delays)) or \
                            (len(info) == 1 and gaps != [round(d, 6) for d in delays]):
                        return (f"request {r} gave up as busy after sends at {i['t_send']}, busy replies at {tb}, end at {now} (waits {gaps}); "
                                f"expected {len(delays)} attempts with waits {delays}")
    # every attempt stands on its own set-up: a send command of a request that needs a source route (a real command up to v8)
    # or an extended timeout is preceded, since the request's previous send command, by that set-up again - the lock is
    # released between attempts, another request may have changed the NCP's route / timeout entry meanwhile
    need = {}
    for m in mev:
        if m and m.startswith("S="):
            _, r_, _, kind_, steps_ = m.split("=")
            need[int(r_)] = {c for c in steps_ if c in "re"}
    since, foreign = {}, {}
    for what, r, stp in seqlog:
        if what != "K":
            continue
        for q in foreign:
            if q != r:
                foreign[q] = True      # a command of another request since q's last set-up
        if stp == "s":
            missing = need.get(r, set()) - since.get(r, set())
            if missing and foreign.get(r):
                names = {"r": "source route", "e": "extended timeout"}
                return (f"request {r} sent its message after commands of another request had been issued since its own "
                        f"{' and '.join(names[c] for c in sorted(missing))} set-up: set-up and send of one request were interleaved with another's")
            since[r] = set()
            foreign[r] = False
        else:
            since.setdefault(r, set()).add(stp)
            foreign[r] = False
    # set-up atomicity: between a request's first command of an attempt and its send command no other request's command
    cur = None
    for what, r, stp in seqlog:
        if what == "D":
            if r == cur:
                cur = None   # the request ended (cancelled, command failed) inside its section: the lock is released
            continue
        if cur is not None and r != cur:
            return f"a command of request {r} was issued inside the set-up + send section of request {cur}"
        cur = None if stp == "s" else r
    if all(t.done() for t in w.tasks.values()) and len(w.app._pending):
        return f"bookkeeping left behind after all requests ended: {list(w.app._pending.keys())}"
    return None


def scripts(ctx):
    rng = ctx.rng
    out = []
    kinds = ["u=s", "u=rs", "u=es", "u=ers", "m=s", "b=s", "i=s", "i=es"]
    import itertools

    # single request: every enqueue-status script x confirmation behaviour
    for ks in kinds:
        for enq in itertools.product(["ok", "busy", "refused"], repeat=3):
            for conf in ("own1", "own0", "none", "tag", "dst", "dup", "early", "pause"):
                if conf == "pause" and enq[0] != "busy":
                    continue
                sc = [f"S=1=4660={ks}={rng.choice('01')}"]
                steps = ks.split("=")[1]
                done = False
                if conf == "early":
                    pass
                for a, st in enumerate(enq):
                    sc += ["D=ok"] * 4  # let the set-up commands through (extra ones are ignored)
                    sc = sc[:-4]
                    n_setup = 6
                    sc += ["D=ok"] * 0
                    # set-up commands complete with ok; the send command gets `st`
                    sc.append(("SETUP",))
                    if conf == "early" and a == 0:
                        sc.append("F=1=own=1")
                    sc.append(f"D={st}")
                    if st == "ok" or st == "refused":
                        done = True
                        break
                    if conf == "pause" and a == 0:
                        # a confirmation for this destination and tag arrives while the host pauses after a busy answer - for a
                        # message the NCP has not accepted: the enqueue is retried all the same
                        sc.append("F=1=own=1")
                    sc.append("T")
                if enq[0] == "ok" or (done and st == "ok"):
                    if conf == "own1":
                        sc.append("F=1=own=1")
                    elif conf == "own0":
                        sc.append("F=1=own=0")
                    elif conf == "none":
                        sc.append("T")
                    elif conf == "tag":
                        sc += ["F=1=tag=1", "T"]
                    elif conf == "dst":
                        sc += ["F=1=dst=1", "T"]
                    elif conf == "dup":
                        sc += ["F=1=own=1", "F=1=own=1"]
                out.append(sc)
    # a unicast to the coordinator's own network address (ZDO requests to itself) is a unicast like any other
    for conf in ("own1", "own0", "none", "tag", "dst", "dup"):
        sc = ["S=1=0=u=s=0", ("SETUP",), "D=ok"]
        sc += {"own1": ["F=1=own=1"], "own0": ["F=1=own=0"], "none": ["T"], "tag": ["F=1=tag=1", "T"], "dst": ["F=1=dst=1", "T"],
               "dup": ["F=1=own=1", "F=1=own=1"]}[conf]
        out.append(sc)
    # two (three) unicasts in flight to the SAME destination, carrying the same APS counter (a reply that echoes the peer's
    # counter while a request with that counter is still waiting): each is completed by its own confirmation only
    for n in (2, 3):
        for confs in itertools.product("10", repeat=n):
            for order in itertools.permutations(range(1, n + 1)):
                sc = [f"S={r}=4660=u=s=0" for r in range(1, n + 1)] + ["D=ok"] * n
                sc += [f"F={r}=own={confs[r - 1]}" for r in order]
                out.append(sc)
    # concurrent requests
    for _ in range(ctx.n(600, 8000)):
        sc = []
        n = rng.randint(2, 3)
        for r in range(1, n + 1):
            sc.append(f"S={r}={0x1200 + r}={rng.choice(kinds)}={rng.choice('01')}")
        for _ in range(rng.randint(4, 16)):
            x = rng.random()
            if x < 0.45:
                sc.append(f"D={rng.choice(['ok', 'ok', 'ok', 'busy', 'refused'])}")
            elif x < 0.7:
                sc.append(f"F={rng.randint(1, n)}={rng.choice(['own', 'own', 'own', 'tag', 'dst'])}={rng.choice('110')}")
            elif x < 0.82:
                sc.append("T")
            elif x < 0.9:
                sc.append(f"C={rng.randint(1, n)}")
            elif x < 0.95:
                sc.append("E")
            else:
                sc.append(("SETUP",))
        out.append(sc)
    return out


def expand(sc, w_steps):
    return sc


def run(ctx):
    logging.disable(logging.CRITICAL)
    import bellows.zigbee.application as app_mod

    consts = (list(app_mod.RETRY_DELAYS), app_mod.APS_ACK_TIMEOUT)
    scs = scripts(ctx)
    versions = [4, 8, 9, 14] if ctx.tier == "quick" else list(range(4, 15))
    runs = []
    for i, sc in enumerate(scs):
        version = versions[i % len(versions)]
        seq0 = ctx.rng.choice([0, 7, 200, 254, 255])
        # ('SETUP',) expands to "answer set-up commands until a send command is awaited"
        w = World(version, seq0, ctx.rng)
        build(w)
        mev = []
        try:
            for ev in sc:
                if isinstance(ev, tuple):
                    for _ in range(8):
                        if w.waiting is None or w.waiting[1].startswith("send"):
                            break
                        w.do("D=ok")
                        mev.append("D=ok")
                        w.do("W")
                        mev.append("W=1/1000")
                    continue
                if ev[0] == "S":
                    _, r, dst, kind, steps, extv = ev.split("=")
                    if kind == "i":
                        kind = "u"   # for the model an IEEE-addressed unicast is a unicast
                    msteps = steps
                    if version >= 9:
                        w.route[int(r)] = "r" in steps
                        msteps = msteps.replace("r", "")
                    if "e" in msteps and extv == "0":
                        msteps = msteps.replace("e", "eee")
                    if kind == "b":
                        dst = "65532"
                    if kind != "u":
                        msteps = "s"
                    mev.append(f"S={r}={dst}={kind}={msteps}")
                elif ev[0] == "F":
                    _, rr, which, ok = ev.split("=")
                    rr = int(rr)
                    tag = w.tag_of.get(rr, 200)
                    dst = next((d for d, q in w.req_of_dst.items() if q == rr), 0)
                    if which == "tag":
                        tag = (tag + 7) % 256 if w.version < 14 else tag + 0x3200
                    elif which == "dst":
                        dst = dst ^ 0x0100
                    ev = f"F={dst}={tag}={ok}"
                    mev.append(ev)
                elif ev == "T":
                    if w.loop.next_timer() is None:
                        continue
                    mev.append(ev)
                elif ev.startswith("D=") or ev == "E":
                    if w.waiting is None:
                        continue
                    if ev.startswith("D=") and not w.waiting[1].startswith("send"):
                        ev = "D=ok"
                    mev.append(ev)
                else:
                    mev.append(ev)
                w.do(ev)
                w.do("W")
                mev.append("W=1/1000")
        finally:
            w.close()
        runs.append((version, seq0, w, mev))
    lines = [f"c12 run {seq0} " + " ".join(mev) for version, seq0, w, mev in runs]
    model = ctx.driver(lines)
    nontriv = 0
    for i, (version, seq0, w, mev) in enumerate(runs):
        ctx.cov["evaluations"] += 1
        if sum(1 for m in mev if m.startswith("S=")) >= 2 or any(m in ("D=busy", "D=refused", "T") or m.startswith("C=") for m in mev):
            nontriv += 1
        ctx.count(f"version:{version}")
        for (ev, en, st) in w.events:
            for e in norm(en):
                if e[0] == "D" and ":" in e:
                    ctx.count("outcome:" + e.split(":")[1])
        bad = oracle(w, mev, consts)
        if bad:
            ctx.violation(bad, {"kind": "send-packet"}, {"version": version, "seq0": seq0, "events": mev})
        if model is not None and mev:
            ms = model[i].split("|")
            for (ev, en, st), m, me_ in zip(w.events, ms, mev):
                mo, mst = m.split(";")
                mex = [] if mo == "." else mo.split(",")
                ie = norm(en)
                if sorted(mex) != sorted(ie) or mst != st:
                    ctx.corr_diff(f"send_packet trace differs at event {me_}", {"version": version, "seq0": seq0, "events": mev[:30]}, f"{ie} {st}", f"{mex} {mst}")
                    break
        if i % 500 == 9:
            ctx.sample({"version": version, "events": mev[:12], "impl": [[norm(en), st] for _, en, st in w.events][:8]})
    ctx.cov["distinct_nontrivial"] = nontriv
    ctx.cov["rule"] = ("single requests: six packet kinds (unicast plain / with source route / with extended timeout / both, multicast, broadcast) x all enqueue-status scripts over {accepted, busy, refused}^3 x confirmation behaviour "
                       "{own success, own failure, none, foreign tag, foreign destination, duplicate, before the enqueue reply}; random scripts with 2..3 concurrent requests, cancellations, command failures; "
                       "two and three plain unicasts in flight to one destination with the same APS counter x every confirmation outcome and order; handlers v4, v8, v9, v14 (all 11 thorough); non-trivial = two or more requests or a busy/refused/timeout/cancel path")
    ctx.exhaustive = True


search = run


def replay(ctx, obj):
    logging.disable(logging.CRITICAL)
    import random
    import bellows.zigbee.application as app_mod

    r = obj["replay"]
    w = World(r["version"], r["seq0"], random.Random(0))
    build(w)
    try:
        for ev in r["events"]:
            if ev[0] == "S":
                _, rid, dst, kind, steps = ev.split("=")
                extv = "0" if "eee" in steps else "1"
                w.route[int(rid)] = False
                steps = steps.replace("eee", "e")
                w.do(f"S={rid}={dst}={kind}={steps}={extv}")
            else:
                w.do(ev)
    finally:
        w.close()
    bad = oracle(w, r["events"], (list(app_mod.RETRY_DELAYS), app_mod.APS_ACK_TIMEOUT))
    print(f"replay v{r['version']} {r['events']}: {'FAILS: ' + bad if bad else 'ok'}")
    if bad:
        print(f"VIOLATION property={ctx.pid} replay=replay")
    return 1 if bad else 0
